import sys, time, threading, os, multiprocessing
from mpservice.mpserver import ProcessServlet, Server, Worker
from mpservice.mpserver import TimeoutError as ServerTimeoutError

class Slow(Worker):
    def call(self, x):
        time.sleep(1.0)
        return len(x)

def main(n_req, size):
    server = Server(ProcessServlet(Slow), capacity=64)
    t0 = time.time()
    done = threading.Event()
    def wd():
        if not done.wait(25):
            print('FAIL: __exit__ did not return within 25 s; threads:', [t.name for t in threading.enumerate()], flush=True)
            for c in multiprocessing.active_children():
                c.kill()
            os._exit(1)
    threading.Thread(target=wd, daemon=True).start()
    with server:
        # abandoned stream: many big inputs queued, consumer leaves after the first result
        data = (bytes(size) for _ in range(n_req))
        it = server.stream(data)
        for i, y in enumerate(it):
            break
        it.close() if hasattr(it, 'close') else None
        t1 = time.time()
    done.set()
    print('ok: exit took %.2f s' % (time.time() - t1))
    time.sleep(0.5)
    print('threads left:', [t.name for t in threading.enumerate() if t is not threading.main_thread() and not t.daemon])
    return 0

if __name__ == '__main__':
    sys.exit(main(int(sys.argv[1]), int(sys.argv[2])))
