"""SwitchServlet.switch raising for one input. exit 0 = that request fails with the error, the others are served;
exit 1 = the server stops answering."""
import sys
from mpservice.mpserver import Server, SwitchServlet, ThreadServlet, Worker

class Add(Worker):
    def __init__(self, *, k, **kw):
        super().__init__(**kw)
        self._k = k
    def call(self, x):
        return x + self._k

class MySwitch(SwitchServlet):
    def switch(self, x):
        return 0 if x < 10 else 1        # TypeError for a str

bad = []
def one(server, x, want):
    try:
        y = server.call(x, timeout=2)
        r = ('ok', y)
    except BaseException as e:
        r = (type(e).__name__, str(e)[:60])
    print(f'call({x!r}) ->', r)
    if r != want and not (want[0] == r[0] and want[1] is None):
        bad.append((x, r))

import threading
box = {}
def run():
    with Server(MySwitch(ThreadServlet(Add, k=0), ThreadServlet(Add, k=1))) as server:
        one(server, 1, ('ok', 1))
        one(server, 20, ('ok', 21))
        one(server, 'a', ('TypeError', None))
        one(server, 2, ('ok', 2))
        one(server, 30, ('ok', 31))
    box['exited'] = True
t = threading.Thread(target=run, daemon=True); t.start(); t.join(30)
if not box.get('exited'):
    bad.append('leaving the server context failed or did not return')
print('problems:', bad)
sys.exit(1 if bad else 0)
