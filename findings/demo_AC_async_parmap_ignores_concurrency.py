"""Stream.parmap(async_func, concurrency=c): the documented bound on simultaneous calls of the worker function.
exit 0 = bound held; exit 1 = more than c calls were running at once."""
import asyncio, itertools, sys
from mpservice.streamer import Stream

running = 0
peak = 0

async def work(x):
    global running, peak
    running += 1
    peak = max(peak, running)
    try:
        await asyncio.sleep(0.03)
    finally:
        running -= 1      # also when the call is cancelled because the consumer stopped
    return x * 2

bad = False
for c in (1, 2, 5):
    running = peak = 0
    out = []
    for y in Stream(itertools.count()).parmap(work, concurrency=c):
        out.append(y)
        if len(out) >= 40:
            break
    ok = out == [2 * i for i in range(40)]
    print(f'concurrency={c}: peak simultaneous calls {peak}, outputs in order {ok}')
    bad |= peak > c or not ok
sys.exit(1 if bad else 0)
