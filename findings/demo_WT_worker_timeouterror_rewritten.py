"""A worker that raises the builtin TimeoutError (say, from a database driver). exit 0 = call / stream deliver that error;
exit 1 = call reports a server timeout instead."""
import asyncio, sys
from mpservice.mpserver import AsyncServer, Server, ThreadServlet, Worker
from mpservice.mpserver import TimeoutError as ServerTimeoutError

class W(Worker):
    def call(self, x):
        if x == 'db':
            raise TimeoutError('the database did not answer')
        return x

bad = False
with Server(ThreadServlet(W)) as s:
    try:
        s.call('db', timeout=5)
    except BaseException as e:
        print('sync  call ->', type(e).__module__ + '.' + type(e).__name__, e)
        bad |= isinstance(e, ServerTimeoutError) or 'database' not in str(e)

async def main():
    global bad
    async with AsyncServer(ThreadServlet(W)) as s:
        try:
            await s.call('db', timeout=5)
        except BaseException as e:
            print('async call ->', type(e).__module__ + '.' + type(e).__name__, e)
            bad |= isinstance(e, ServerTimeoutError) or 'database' not in str(e)
asyncio.run(main())
sys.exit(1 if bad else 0)
