import threading, sys, time
from mpservice.threading import Thread

class TwoArgs(Exception):
    def __init__(self, a, b):
        super().__init__(a, b)

def target():
    raise TwoArgs(1, 2)

t = Thread(target=target)
t.start()
box = []
def j():
    try:
        t.join()
        box.append('returned')
    except BaseException as e:
        box.append(repr(e))
w = threading.Thread(target=j, daemon=True)
w.start()
w.join(5)
print('join ->', box or 'STILL BLOCKED after 5 s')
sys.exit(0 if box and 'TwoArgs' in box[0] else 1)
