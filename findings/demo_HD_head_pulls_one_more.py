from mpservice.streamer import Stream
def g():
    yield 1; yield 2; yield 3
    raise ValueError('the rest must be ignored')
pulled = []
def h():
    for i in range(10):
        pulled.append(i); yield i
try:
    r = Stream(g()).head(3).collect()
except ValueError as e:
    print('head(3) raised', e); raise SystemExit(1)
assert r == [1, 2, 3], r
assert list(Stream(h()).head(3)) == [0, 1, 2] and pulled == [0, 1, 2], pulled
print('ok')
