import asyncio
from mpservice.streamer._streamer import async_fifo_stream
def gate(x):
    if x == 2:
        raise StopIteration('rejected')
    return x
async def main():
    async def func(x):
        async def w(): return x + 1
        return asyncio.get_running_loop().create_task(w())
    async def src():
        for x in [1, 2, 3]: yield x
    return [z async for z in async_fifo_stream(src(), func, preprocessor=gate, return_exceptions=True)]
try:
    r = asyncio.run(main())
except BaseException as e:
    print('the whole stream failed:', repr(e)); raise SystemExit(1)
assert r[0] == 2 and r[2] == 4 and isinstance(r[1], RuntimeError) and isinstance(r[1].__cause__, StopIteration), r
print('ok', r)
