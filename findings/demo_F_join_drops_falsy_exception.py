import sys
from mpservice.threading import Thread
from mpservice.multiprocessing import Process

class Quiet(Exception):
    """an exception whose truth value is false (e.g. a collection-like error with no items)"""
    def __bool__(self):
        return False

def target():
    raise Quiet('boom')

if __name__ == '__main__':
    bad = 0
    for cls in (Thread, Process):
        w = cls(target=target)
        w.start()
        try:
            w.join()
            print(cls.__name__, 'join() returned although the target raised'); bad += 1
        except Quiet:
            print(cls.__name__, 'join() re-raised the exception')
    sys.exit(1 if bad else 0)
