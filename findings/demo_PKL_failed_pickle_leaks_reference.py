"""Known finding C13-PKL: a proxy pickled inside a message whose pickling then fails keeps its hosted object alive for ever."""
import sys
import time

from mpservice.multiprocessing.server_process import ServerProcess, managed_list


class Worker:
    def bad_return(self):
        return [managed_list([1, 2]), lambda: 0]          # the answer cannot be pickled as a whole


ServerProcess.register('PklWorker', Worker)

if __name__ == '__main__':
    with ServerProcess() as m:
        w = m.PklWorker()
        try:
            w.bad_return()
        except Exception as e:  # noqa
            print('the call failed as it should:', type(e).__name__)
        holder, l = m.list(), m.list([7])
        try:
            holder.append([l, lambda: 0])                    # the request cannot be pickled as a whole
        except Exception as e:  # noqa
            print('the call failed as it should:', type(e).__name__)
        del l
        time.sleep(0.5)
        table = m._debug_info()
        leaked = [e for e in table if e['preview'] in ('[1, 2]', '[7]')]
        print('hosted although nothing refers to them:', leaked)
    sys.exit(1 if leaked else 0)
