import sys
from mpservice.streamer import Stream
from mpservice.mpserver import Server, ThreadServlet, Worker

class Empty(Exception):
    def __len__(self):
        return 0

def f(x):
    if x == 2:
        raise Empty()
    return x

class W(Worker):
    def call(self, x):
        return f(x)

bad = False
out = list(Stream(range(4)).parmap(f, executor='thread', concurrency=1, return_exceptions=True))
print('parmap thread, return_exceptions:', out)
bad |= not isinstance(out[2], Empty)
try:
    out = list(Stream(range(4)).parmap(f, executor='thread', concurrency=1))
    print('parmap thread:', out, '(no exception reached the consumer)')
    bad = True
except Empty:
    print('parmap thread: Empty raised')
with Server(ThreadServlet(W)) as s:
    try:
        y = s.call(2)
        print('Server.call(2) returned', y)
        bad = True
    except Empty:
        print('Server.call(2) raised Empty')
    out = list(s.stream(range(4), return_exceptions=True))
    print('Server.stream:', out)
    bad |= not isinstance(out[2], Empty)
sys.exit(1 if bad else 0)
