"""Defect S (C09): Worker._build_input_batches tests buffer.full() outside the buffer's mutex and then waits on
_not_full. If the batch consumer drains the buffer between the test and the wait, every notify is lost; the
collector then waits forever for a wake-up that only a further pop could give, the consumer waits forever on
the empty buffer, and the requests still in the input queue are never served.

The preemption is produced here by a 0.5 s delay after full() returns True (real threads, real queues).
Usage: PYTHONPATH=<tree>/src python demo_S_batch_collector_lost_wakeup.py   -> exit 1 when requests are stranded."""
import sys
import threading
import time

from mpservice import _queues
from mpservice.mpserver import _worker


class SlowFullLane(_queues.SingleLane):
    def full(self):
        r = super().full()
        if r:
            time.sleep(0.5)       # the collector is descheduled right after the test
        return r


_worker.SingleLane = SlowFullLane


class W(_worker.Worker):
    def __init__(self, **kw):
        super().__init__(batch_size=2, batch_wait_time=0.01, **kw)

    def call(self, xs):
        return [x * 10 for x in xs]


q_in, q_out = _worker._SimpleThreadQueue(), _worker._SimpleThreadQueue()
N = 40
t = threading.Thread(target=W.run, kwargs={'q_in': q_in, 'q_out': q_out, 'worker_index': 0}, daemon=True)
t.start()
q_out.get()
for i in range(N):
    q_in.put((i, i))
got = []
deadline = time.time() + 8
while len(got) < N and time.time() < deadline:
    try:
        got.append(q_out.get(timeout=0.2))
    except Exception:
        pass
print(f'{len(got)} of {N} requests answered within 8 s')
sys.exit(0 if len(got) == N else 1)
