"""One input that cannot be pickled, sent to a server whose first stage runs in processes.
exit 0 = only that request fails, later requests are served, the server exits and no worker process is left;
exit 1 = otherwise."""
import os, sys, threading, time
import multiprocessing
from mpservice.mpserver import ProcessServlet, Server, Worker


class Double(Worker):
    def call(self, x):
        return x * 2


def main():
    problems = []
    server = Server(ProcessServlet(Double), capacity=2)
    box = {}

    def run():
        with server:
            print('call(3) ->', server.call(3))
            try:
                print('call(lambda) ->', server.call(lambda: 1, timeout=2))
                problems.append('the unpicklable input was answered')
            except BaseException as e:
                print('call(lambda) ->', type(e).__name__, str(e)[:80])
                if isinstance(e, TimeoutError):
                    problems.append('the unpicklable input was not reported: its caller just timed out')
            for i in range(3):
                try:
                    y = server.call(4, timeout=2)
                    print('later call(4) ->', y)
                except BaseException as e:
                    print('later call(4) ->', type(e).__name__, str(e)[:80])
                    problems.append(f'later request {i} failed: {type(e).__name__}')
            print('idle backlog:', server.backlog)
            if server.backlog:
                problems.append(f'idle backlog {server.backlog}')
        box['exited'] = True

    t = threading.Thread(target=run, daemon=True)
    t.start()
    t.join(40)
    if not box.get('exited'):
        problems.append('leaving the server context failed or did not return')
    time.sleep(0.5)
    kids = multiprocessing.active_children()
    if kids:
        problems.append(f'{len(kids)} worker process(es) left running')
        for k in kids:
            k.kill()
    print('problems:', problems)
    return 1 if problems else 0


if __name__ == '__main__':
    sys.exit(main())
