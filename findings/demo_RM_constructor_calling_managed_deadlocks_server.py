"""A hosted class whose constructor calls managed_list(). exit 0 = it is created and the server goes on; exit 1 = the server
dead-locks (create runs the constructor under its non-reentrant mutex, managed() calls create again)."""
import sys, threading
from mpservice.multiprocessing.server_process import ServerProcess, managed_list


class Holder:
    def __init__(self):
        self.items = managed_list([1, 2])

    def get(self):
        return self.items


ServerProcess.register('Holder', Holder)


def main():
    box = {}
    with ServerProcess() as m:
        def run():
            h = m.Holder()
            box['items'] = list(h.get())
            box['other'] = list(m.list([7]))
        t = threading.Thread(target=run, daemon=True)
        t.start()
        t.join(8)
        print('Holder() ->', box.get('items'), '| unrelated m.list() ->', box.get('other'))
        ok = box.get('items') == [1, 2] and box.get('other') == [7]
        if not ok:
            try:
                m._process.kill()
            except Exception:
                pass
        return 0 if ok else 1


if __name__ == '__main__':
    import os
    os._exit(main())
