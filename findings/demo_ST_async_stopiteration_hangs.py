"""A worker that raises StopIteration. exit 0 = every variant delivers an error for that request promptly and goes on;
exit 1 = a request is never answered."""
import asyncio, sys, time
from mpservice.mpserver import AsyncServer, Server, ThreadServlet, Worker
from mpservice.streamer import Stream
from mpservice.streamer._streamer_async import AsyncStream

class W(Worker):
    def call(self, x):
        if x == 'stop':
            raise StopIteration('no more')
        return x

def f(x):
    if x == 2:
        raise StopIteration('no more')
    return x * 10

async def src():
    for i in range(4):
        yield i

def show(tag, v):
    print(f'{tag:42s}', v)

bad = False
with Server(ThreadServlet(W)) as s:
    show('Server.stream', list(s.stream([1, 'stop', 2], return_exceptions=True)))
show('Stream.parmap(thread)', list(Stream(range(4)).parmap(f, executor='thread', concurrency=2, return_exceptions=True)))

async def main():
    global bad
    async with AsyncServer(ThreadServlet(W)) as s:
        t0 = time.monotonic()
        try:
            await s.call('stop', timeout=3)
            r = 'returned'
        except BaseException as e:
            r = repr(e)
        dt = time.monotonic() - t0
        show('AsyncServer.call', (r, f'{dt:.1f}s'))
        bad |= dt > 2
        try:
            out = await asyncio.wait_for(_collect(s.stream(_alist([1, 'stop', 2]), return_exceptions=True)), 6)
        except BaseException as e:
            out = 'HUNG: ' + repr(e)
            bad = True
        show('AsyncServer.stream', out)
    try:
        out = await asyncio.wait_for(AsyncStream(src()).parmap(f, executor='thread', concurrency=2, return_exceptions=True).collect(), 6)
    except BaseException as e:
        out = 'HUNG: ' + repr(e)
        bad = True
    show('AsyncStream.parmap(thread)', out)

async def _alist(xs):
    for x in xs:
        yield x

async def _collect(ait):
    return [x async for x in ait]

asyncio.run(main())
sys.exit(1 if bad else 0)
