"""IterableQueue: data of the next round put (as the put_end docstring allows) before the round's consumer has finished.
exit 0 = round 1 yields [1], renew() succeeds and round 2 yields [2]; exit 1 = otherwise. Known finding C17-E (open)."""
import queue, sys
from mpservice.queue import IterableQueue

q = IterableQueue(queue.Queue())
q.put(1); q.put_end()          # round 1
q.put(2)                       # the supplier already starts round 2
r1 = list(q)
print('round 1:', r1)
try:
    q.renew()
    q.put_end()
    r2 = list(q)
    print('round 2:', r2)
    sys.exit(0 if (r1, r2) == ([1], [2]) else 1)
except Exception as e:
    print('renew raised:', repr(e))
    sys.exit(1)
