"""SyncIter (the async -> sync adapter): the consumer stops early while the adapter's worker is blocked on its full
hand-off queue. exit 0 = the loop ends and the worker thread is gone; exit 1 = hang."""
import faulthandler, sys, threading, time
from mpservice.streamer._streamer_async import SyncIter

async def agen():
    for i in range(100):
        yield i

done = threading.Event()
def consume():
    n = 0
    for x in SyncIter(agen()):
        n += 1
        time.sleep(0.05)
        if n == 2:
            break
    done.set()

t = threading.Thread(target=consume, daemon=True)
t.start()
ok = done.wait(8)
print('consumer left the loop:', ok, '| threads alive:', [x.name for x in threading.enumerate() if x is not threading.main_thread() and x is not t])
sys.exit(0 if ok else 1)
