from mpservice.multiprocessing.server_process import ServerProcess

class Holder:
    def __init__(self): self.other = None
    def set_other(self, p): self.other = p
    def pop_other(self, i): return self.other.pop(i)
    def len_other(self): return len(self.other)
ServerProcess.register('Holder', Holder)

if __name__ == '__main__':
    with ServerProcess() as m:
        lst = m.list([1, 2, 3]); h = m.Holder(); h.set_other(lst)
        print('len via nested proxy', h.len_other(), 'pop(0) via nested', h.pop_other(0))
        try:
            h.pop_other(10)
        except Exception as e:
            print('nested failing call raised', type(e).__name__, e.args)
        try:
            lst.pop(10)
        except Exception as e:
            print('direct proxy failing call raised', type(e).__name__, e.args)
        print('still usable', h.len_other())
