"""Two defects of the child-process log forwarding (property C20: records handled as the parent's configuration says).
 LD  logging.disable(level) in the parent did not silence records of a child (the logger thread compared the level with
     getEffectiveLevel(), which ignores the process-wide switch)           -> fixed by /repo 1189caa
 LL  the child's root logger was set to DEBUG, so a record of a custom level below DEBUG (5) never left the child
     although the parent's logger accepts it                                -> fixed by /repo db6aaa4
exit 0 = both behave; exit 1 = at least one defect shows."""
import logging
import sys

from mpservice.multiprocessing import Process

got = []


class H(logging.Handler):
    def emit(self, r):
        got.append((r.name, r.levelno))


def child():
    lg = logging.getLogger('app')
    lg.log(5, 'finest')
    lg.debug('debug')
    lg.warning('warning')


def main():
    root = logging.getLogger()
    root.addHandler(H())
    logging.getLogger('app').setLevel(1)
    bad = False

    p = Process(target=child)
    p.start()
    p.join()
    print('parent logger level 1:', got)
    if ('app', 5) not in got:
        print('  LL: the level-5 record never reached the parent')
        bad = True

    got.clear()
    logging.disable(logging.DEBUG)
    try:
        p = Process(target=child)
        p.start()
        p.join()
    finally:
        logging.disable(logging.NOTSET)
    print('logging.disable(DEBUG) in force:', got)
    if any(lv <= logging.DEBUG for _, lv in got):
        print('  LD: records at or below the disabled level were handled')
        bad = True
    sys.exit(1 if bad else 0)


if __name__ == '__main__':
    main()
