import os, sys, time, signal
from mpservice.multiprocessing import Process, MP_SPAWN_CTX

def hold(ready):
    ready.set()
    time.sleep(60)

def main(n, sig):
    bad = 0
    for i in range(n):
        ready = MP_SPAWN_CTX.Event()
        p = Process(target=hold, args=(ready,))
        p.start()
        ready.wait()
        os.kill(p.pid, sig)
        try:
            p.join()          # no timeout: must not return before the process is done
        except OSError:
            pass
        d = p.done()
        if not d:
            bad += 1
            try:
                p.result(0)
                r = 'returned'
            except BaseException as e:
                r = repr(e)
            print(f'iteration {i}: join() returned but done() is False; result(0) -> {r}', flush=True)
        try:
            p.join()
        except OSError:
            pass
    print('bad', bad, 'of', n)
    return bad

if __name__ == '__main__':
    sys.exit(1 if main(int(sys.argv[1]), int(sys.argv[2])) else 0)
