"""wait([t]) immediately after Thread.start(). exit 0 = never fails; exit 1 = AttributeError ('NoneType' has no '_condition')."""
import sys, time
from mpservice.threading import Thread, wait

sys.setswitchinterval(1e-6)
bad = 0
t0 = time.time()
n = 0
while time.time() - t0 < 20 and n < 40000:
    n += 1
    t = Thread(target=lambda: None)
    t.start()
    try:
        wait([t], timeout=5)
    except AttributeError as e:
        bad += 1
        if bad == 1:
            print('trial', n, repr(e))
    t.join()
print(f'{bad} of {n} wait() calls right after start() crashed')
sys.exit(1 if bad else 0)
