import sys, time
from mpservice.multiprocessing.server_process import ServerProcess

class Worker:
    def boom(self, x):
        raise ValueError('boom')
    def ok(self, x):
        return 1
    def gc(self):
        import gc
        return gc.collect()

ServerProcess.register('Worker', Worker)
def rc(m, ident):
    for e in m._debug_info():
        if e['id'] == ident:
            return e['refcount:']
    return None
if __name__ == '__main__':
    with ServerProcess() as m:
        w = m.Worker()
        for meth in ('ok', 'boom'):
            l = m.list([1, 2, 3]); ident = l._id
            print(meth, 'start', rc(m, ident))
            try:
                getattr(w, meth)(l)
            except ValueError:
                pass
            time.sleep(0.2); print(meth, 'after call', rc(m, ident))
            w.gc(); time.sleep(0.2); print(meth, 'after server gc', rc(m, ident))
            del l; time.sleep(0.2); print(meth, 'after del', rc(m, ident))
            w.gc(); time.sleep(0.2); print(meth, 'after del + server gc', rc(m, ident))
