"""AsyncStream.parmap(async_func, concurrency=c): the bound on simultaneous calls of the worker function.
exit 0 = bound held; exit 1 = more than c calls were running at once."""
import asyncio, sys
from mpservice.streamer._streamer_async import AsyncStream

running = peak = 0

async def work(x):
    global running, peak
    running += 1
    peak = max(peak, running)
    try:
        await asyncio.sleep(0.03)
    finally:
        running -= 1
    return x * 2

async def src():
    i = 0
    while True:
        yield i
        i += 1

async def main():
    global running, peak
    bad = False
    for c in (1, 2, 5):
        running = peak = 0
        out = []
        s = AsyncStream(src()).parmap(work, concurrency=c)
        it = s.__aiter__()
        async for y in it:
            out.append(y)
            if len(out) >= 40:
                break
        await it.aclose()
        ok = out == [2 * i for i in range(40)]
        print(f'concurrency={c}: peak simultaneous calls {peak}, outputs in order {ok}')
        bad |= peak > c or not ok
    return bad

sys.exit(1 if asyncio.run(main()) else 0)
