"""A worker with its own thread pool (num_stream_threads > 0), requests that time out, results larger than a pipe buffer:
leaving the server. exit 0 = the context is left in bounded time; exit 1 = it hangs."""
import sys, threading, time
from mpservice.mpserver import ProcessServlet, Server, Worker
from mpservice.mpserver import TimeoutError as ServerTimeoutError


class Pooled(Worker):
    def __init__(self, **kw):
        super().__init__(**kw)
        self.num_stream_threads = 4

    def call(self, x):
        time.sleep(1.0)
        return b'y' * 100_000


def main():
    box = {}

    def run():
        with Server(ProcessServlet(Pooled)) as server:
            def one(i):
                try:
                    server.call(i, timeout=0.2)
                except ServerTimeoutError:
                    pass
            ts = [threading.Thread(target=one, args=(i,)) for i in range(4)]
            for t in ts:
                t.start()
            for t in ts:
                t.join()
            t0 = time.time()
        box['exit'] = time.time() - t0
    t = threading.Thread(target=run, daemon=True)
    t.start()
    t.join(25)
    print('left the context after', box.get('exit'))
    import multiprocessing
    for p in multiprocessing.active_children():
        p.kill()
    return 0 if 'exit' in box else 1


if __name__ == '__main__':
    import os
    c = main()
    os._exit(c)
