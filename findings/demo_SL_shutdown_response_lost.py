"""The response to a request that arrives about k x 0.1 s after the previous response on its connection (here: '/shutdown').
exit 0 = every shutdown request is answered; exit 1 = some never get their response (the caller would hang for ever)."""
import asyncio, faulthandler, os, sys, tempfile, threading, time
faulthandler.dump_traceback_later(150, exit=True)      # (the client's __exit__ hangs after a lost response)
from mpservice.socket import SocketApplication, SocketClient, make_server

async def echo(x):
    return x

lost = 0
N = 30
for trial in range(N):
    app = SocketApplication()
    app.add_route('/echo', echo)
    path = os.path.join(tempfile.mkdtemp(prefix='sl'), 's')
    server = make_server(app, path=path)
    th = threading.Thread(target=lambda: asyncio.run(server.serve()), daemon=True)
    th.start()
    with SocketClient(path=path, num_connections=1, connection_timeout=20) as c:
        c.request('/echo', 1, response_timeout=10)
        time.sleep(0.0990 + 0.0015 * (trial % 11) / 10)
        try:
            c.request('/shutdown', response_timeout=2)
        except Exception as e:
            lost += 1
            if lost <= 3:
                print(f'trial {trial}: no response to /shutdown within 2 s ({e!r}); server thread alive: {th.is_alive()}')
    th.join(5)
print(f'{lost} of {N} shutdown requests never got their response')
sys.exit(1 if lost else 0)
