"""lst.extend(lst) / lst += lst through a list proxy. exit 0 = the hosted list doubles, as a plain list does;
exit 1 = the call never returns (the server iterates the list it is extending, element by element, for ever)."""
import sys, threading
from mpservice.multiprocessing.server_process import ServerProcess

def main():
    bad = []
    with ServerProcess() as m:
        l = m.list([1, 2, 3])
        box = {}
        def run():
            l.extend(l)
            box['a'] = list(l)
            ll = l
            ll += l
            box['b'] = list(l)
        t = threading.Thread(target=run, daemon=True); t.start(); t.join(8)
        print('l.extend(l):', box.get('a'), '| then l += l:', box.get('b'))
        if box.get('a') != [1, 2, 3] * 2 or box.get('b') != [1, 2, 3] * 4:
            bad.append('not the doubled list (or the call did not return within 8 s)')
        if t.is_alive():
            m._process.kill() if hasattr(m, '_process') else None
    return 1 if bad else 0

if __name__ == '__main__':
    code = main()
    import os
    os._exit(code)
