import sys, traceback
from mpservice.multiprocessing.server_process import ServerProcess, managed

class MyErr(Exception):
    def __init__(self, a, b):
        super().__init__(f'{a}-{b}')
        self.a, self.b = a, b

class Thing:
    def fail(self):
        raise MyErr(1, 2)
    def ok(self):
        return 7

ServerProcess.register('Thing', Thing)

def t(label, f):
    try:
        r = f()
        print(f'{label}: ok -> {r!r}'[:200])
    except BaseException as e:
        print(f'{label}: raised {type(e).__name__}: {str(e)[:120]!r}')

if __name__ == '__main__':
    with ServerProcess() as m:
        t('1 Namespace()', lambda: m.Namespace())
        def ns():
            n = m.Namespace(); n.x = 3; return n.x
        t('1b Namespace attr', ns)
        def imul():
            lp = m.list([1, 2]); lp *= 2; return type(lp).__name__, list(lp)
        t('2 list *= 2', imul)
        def iadd():
            lp = m.list([1, 2]); lp += [5]; return type(lp).__name__, list(lp)
        t('2b list += [5]', iadd)
        th = m.Thing()
        t('3 multi-arg exception', th.fail)
        t('3b afterwards', th.ok)
        def it():
            d = m.dict({'a': 1, 'b': 2}); return list(d)
        t('5 iterate dict proxy', it)
        def it2():
            d = m.dict({'a': 1, 'b': 2}); return sorted(d.keys()), len(d), 'a' in d
        t('5b dict keys/len/in', it2)
        def itl():
            l = m.list([4, 5]); return list(l), [x for x in l]
        t('6 iterate list proxy', itl)
    with ServerProcess(authkey=b'abc') as m:
        def nested():
            l = m.list(); d = m.dict({'k': 1}); l.append(d); return dict(l[0])
        t('4 custom authkey nested', nested)
