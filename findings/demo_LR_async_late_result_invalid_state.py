"""AsyncServer: results that arrive at about the caller's deadline. exit 0 = the event loop's exception handler is never
called; exit 1 = 'Exception in callback Future.set_result(...) InvalidStateError' reports."""
import asyncio, sys, time
from mpservice.mpserver import AsyncServer, ThreadServlet, Worker

class Delay(Worker):
    def call(self, x):
        time.sleep(x)
        return x

async def main():
    errors = []
    asyncio.get_running_loop().set_exception_handler(lambda lp, ctx: errors.append(ctx))
    async def one(server, i):
        d = 0.005
        try:
            await server.call(d, timeout=d + 0.00005 * (i % 16))
        except TimeoutError:
            pass
    async with AsyncServer(ThreadServlet(Delay, num_threads=8)) as server:
        for r in range(300):
            await asyncio.gather(*(one(server, i) for i in range(8)))
        assert await server.call(0.001, timeout=5) == 0.001
    print('loop errors:', len(errors), (errors[0]['message'], repr(errors[0].get('exception'))) if errors else '')
    return 1 if errors else 0

sys.exit(asyncio.run(main()))
