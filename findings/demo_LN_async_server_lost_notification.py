# clean tree: a waiting call that is cancelled by its caller just after it has been notified
# swallows the notification; the other waiter is not woken although the slot is free.
import asyncio, time
from time import perf_counter
from mpservice.mpserver import AsyncServer, ThreadServlet, Worker, ServerBacklogFull

class Slow(Worker):
    def call(self, x):
        time.sleep(x)
        return x

async def main():
    async with AsyncServer(ThreadServlet(Slow), capacity=1) as server:
        T0 = perf_counter()
        async def a():
            return await server.call(0.5, timeout=10)        # occupies the only slot until t=0.5
        async def w(delay):
            await asyncio.sleep(delay)
            try:
                return await server.call(0.01, timeout=3, backpressure=False), round(perf_counter() - T0, 2)
            except asyncio.CancelledError:
                return 'cancelled by caller', round(perf_counter() - T0, 2), 'backlog', server.backlog
            except Exception as e:
                return (type(e).__name__, str(e), round(perf_counter() - T0, 2), 'backlog', server.backlog)
        ta = asyncio.create_task(a())
        t1 = asyncio.create_task(w(0.05))
        t2 = asyncio.create_task(w(0.10))
        # the client of W1 goes away at the moment A's response is delivered
        ta.add_done_callback(lambda _: t1.cancel())
        r = await asyncio.gather(ta, t1, t2)
        print('A :', r[0]); print('W1:', r[1]); print('W2:', r[2])
        print('idle backlog', server.backlog)
        return r[2]

import sys
r = asyncio.run(main())
sys.exit(0 if r and r[0] == 0.01 else 1)      # exit 1: W2 was left waiting in front of an idle server

