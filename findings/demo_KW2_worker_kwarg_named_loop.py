"""A worker keyword argument named `loop` or `executor`. exit 0 = works in every environment; 1 = TypeError in the async one."""
import asyncio, sys
from mpservice.streamer import Stream
from mpservice.streamer._streamer_async import AsyncStream

def f(x, loop=1, executor=0):
    return x * loop + executor

async def af(x, loop=1):
    return x * loop

async def src():
    for i in range(3):
        yield i

bad = False
print('sync  env, sync  func:', list(Stream(range(3)).parmap(f, executor='thread', loop=3)))
print('sync  env, async func:', list(Stream(range(3)).parmap(af, loop=3)))
async def main():
    global bad
    for tag, mk in (('sync  func', lambda: AsyncStream(src()).parmap(f, executor='thread', loop=3)),
                    ('async func', lambda: AsyncStream(src()).parmap(af, loop=3))):
        try:
            print(f'async env, {tag}:', await mk().collect())
        except BaseException as e:
            print(f'async env, {tag}: RAISED', repr(e)[:120]); bad = True
asyncio.run(main())
sys.exit(1 if bad else 0)
