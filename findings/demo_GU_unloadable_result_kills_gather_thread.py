"""A worker failing with an exception class that pickle cannot re-create (a two-argument __init__ passing one formatted
string to super().__init__). exit 0 = the server goes on answering other requests and can be left;
exit 1 = its gather thread dies: every later request times out."""
import sys, threading
from mpservice.mpserver import ProcessServlet, Server, Worker


class AppError(Exception):
    def __init__(self, code, detail):
        super().__init__(f'{code}: {detail}')


class W(Worker):
    def call(self, x):
        if x == 'bad':
            raise AppError(7, 'no such thing')
        return x * 2


def main():
    box = {}

    def run():
        with Server(ProcessServlet(W)) as server:
            box['before'] = server.call(1, timeout=5)
            try:
                server.call('bad', timeout=2)
            except BaseException as e:
                box['bad'] = type(e).__name__
            try:
                box['after'] = server.call(2, timeout=3)
            except BaseException as e:
                box['after'] = type(e).__name__
        box['exited'] = True
    t = threading.Thread(target=run, daemon=True)
    t.start()
    t.join(30)
    print(box)
    import multiprocessing
    for p in multiprocessing.active_children():
        p.kill()
    return 0 if box.get('after') == 4 and box.get('exited') else 1


if __name__ == '__main__':
    import os
    os._exit(main())
