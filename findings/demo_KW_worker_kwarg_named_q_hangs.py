"""A worker function with a keyword argument named like one of fifo_stream's internals. exit 0 = works; 1 = hang/wrong."""
import sys, threading
from mpservice.streamer import Stream

def f(x, q=1, to_stop=0):
    return x * q + to_stop

box = {}
def run():
    box['out'] = list(Stream(range(5)).parmap(f, executor='thread', concurrency=2, q=3, to_stop=1))

t = threading.Thread(target=run, daemon=True)
t.start(); t.join(8)
print('finished:', not t.is_alive(), box.get('out'))
sys.exit(0 if box.get('out') == [1, 4, 7, 10, 13] else 1)
