import asyncio, sys
from mpservice.streamer._streamer_async import AsyncStream

class Empty(Exception):
    def __len__(self):
        return 0

def f(x):
    if x == 2:
        raise Empty()
    return x

async def src():
    for i in range(4):
        yield i

async def main():
    out = await AsyncStream(src()).parmap(f, executor='thread', concurrency=1, return_exceptions=True).collect()
    print('AsyncStream.parmap(sync f, thread), return_exceptions:', out)
    return not isinstance(out[2], Empty)

sys.exit(1 if asyncio.run(main()) else 0)
