import os, sys, time, signal, threading
from mpservice.multiprocessing import Process, MP_SPAWN_CTX, wait

def _boom():
    raise ValueError('cannot be rebuilt in the parent')

class BadLoad:
    def __reduce__(self):
        return (_boom, ())

def ret_badload():
    return BadLoad()

def ret_huge(ready):
    x = bytes(400_000_000)
    ready.set()
    return x

def check(p, label):
    box = []
    def j():
        try:
            box.append(('join', p.join()))
        except BaseException as e:
            box.append(('join-raised', repr(e)[:80]))
        d, nd = wait([p], timeout=5)
        box.append(('wait', len(d)))
    t = threading.Thread(target=j, daemon=True); t.start(); t.join(15)
    print(label, box if box else 'join() STILL BLOCKED after 15 s', 'exitcode', p.exitcode, flush=True)
    return bool(box) and box[-1] == ('wait', 1)

if __name__ == '__main__':
    ok = True
    p = Process(target=ret_badload); p.start()
    ok &= check(p, 'unloadable result:')
    ready = MP_SPAWN_CTX.Event()
    p = Process(target=ret_huge, args=(ready,)); p.start()
    ready.wait(); time.sleep(float(sys.argv[1]) if len(sys.argv) > 1 else 0.05)
    os.kill(p.pid, signal.SIGKILL)
    ok &= check(p, 'killed mid-message:')
    os._exit(0 if ok else 1)
