#!/usr/bin/env python3
"""Regenerates MANIFEST.json from harness/manifest_data.py (single source of truth)."""
import json, sys
from pathlib import Path
sys.path.insert(0, str(Path(__file__).parent))
from harness.manifest_data import CHECKS, NOT_BUILT, NOTES

ALL = [f'C{i:02d}' for i in range(1, 21)]
BASE = "cd /repo && /venv/bin/python -m pytest -ra -q -p no:cacheprovider --timeout=900 --continue-on-collection-errors"
m = {
    "version": 1,
    "setup_cmd": "./check --setup",
    "hooks": {"guard": "MPSERVICE_VERIF",
              "enable": "checks run the implementation with MPSERVICE_VERIF=1 and PYTHONPATH=/repo/src (no build step; pure Python)",
              "baseline_off_cmd": BASE.replace("/venv/bin/python", "env -u MPSERVICE_VERIF /venv/bin/python"),
              "source_commits": [], "add_only": True},
    "engines": [{"name": "coq-proof+correspondence", "path": "check",
                 "serves_properties": sorted(CHECKS),
                 "kind_free_text": "Coq 8.16.1 theorems over hand-written executable Gallina models (coq/), tied to /repo by a correspondence check: the real code is run (under a deterministic scheduler for concurrent components) and the same inputs/schedules are replayed in the model with vm_compute; plus a runtime oracle per property for failing-input search"}],
    "checks": [],
    "notes": NOTES,
    "not_applicable": [],
}
for pid in ALL:
    if pid in CHECKS:
        c = CHECKS[pid]
        m["checks"].append({
            "property_id": pid,
            "quick_cmd": f"./check {pid} --tier quick",
            "thorough_cmd": f"./check {pid} --tier thorough",
            "evidence_file": f"/verif/evidence/{pid}.json",
            "replay_cmd_template": f"./check {pid} --replay {{path}}",
            "engine": "coq-proof+correspondence",
            "level_claimed": {"category": "proof", "text": c["text"], "design_ref": c.get("design_ref", "DESIGN.md section 5")},
            "level_note": c["note"],
            "technique": c["technique"],
        })
    else:
        m["not_applicable"].append({"property_id": pid, "reason": NOT_BUILT.get(pid, "check not built yet in this development (the technique applies; see DESIGN.md section 5); not claimed")})
Path(__file__).with_name("MANIFEST.json").write_text(json.dumps(m, indent=1) + "\n")
print("wrote MANIFEST.json:", len(m["checks"]), "checks,", len(m["not_applicable"]), "not claimed")
