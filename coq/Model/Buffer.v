(* Executable model of mpservice.streamer._streamer.Buffer (src/mpservice/streamer/_streamer.py
   899-963) with its SingleLane hand-off queue treated as an atomic bounded FIFO (each SingleLane
   operation runs under the queue's mutex: _queues.py 48-71).

   Two threads: W = the 'Buffer-worker-thread' (_run_worker), C = the consuming thread
   (__iter__ / _finalize and the consumer's loop body). One model step = one logged
   shared-object operation; the event emitted is what harness/scen_stream.py logs for it.

   Configuration: maxsize, the source as a table, and the consumer's behaviour
   [stop_after = Some k]: the consumer breaks out of its loop after receiving k elements
   ([None]: it consumes everything). No proofs in this file. *)
From MpV Require Export Lib.Trace.
Open Scope Z_scope.

Inductive src_item :=
| SData (x : Z)        (* next() returns x (x >= 0) *)
| SRaise (e : Z)       (* next() raises an Exception with code e *)
| SRaiseBase (e : Z).  (* next() raises a BaseException that is not an Exception (StopRequested) *)

Record cfg := { maxsize : nat; src : list src_item; stop_after : option nat;
                 drain_join : bool     (* _finalize keeps draining the queue while it waits for the worker (the code as repaired);
                                          false = drain once, then join without a limit (the code before repair C) *) }.

Inductive item := Data (x : Z) | Fin | Stp | Exc (e : Z).

Definition item_code (i : item) : Z :=
  match i with Data x => x | Fin => V_END | Stp => V_STOPPED | Exc e => v_exc e end.

Inductive wpc :=
| WIdle                 (* thread not started yet *)
| WNext                 (* `for x in self._instream`: about to call next() *)
| WChk (x : Z)          (* `if stopped.is_set()` holding x *)
| WPut (x : Z)          (* `q.put(x)` *)
| WFin                  (* `q.put(FINISHED)` *)
| WStp (e : Z)          (* `q.put(STOPPED)` in the except clause *)
| WExc (e : Z)          (* `q.put(e)` *)
| WDone                 (* returned *)
| WDead (e : Z).        (* killed by a BaseException; mpservice.threading.Thread keeps it for join *)

Inductive outcome := Running | Completed | Broke | Raised (e : Z).

Inductive cpc :=
| CStart                (* _start(): creates the queue and starts the worker *)
| CGet                  (* `z = tasks.get()` *)
| CYield (x : Z)        (* `yield z`: hand x to the consumer's loop body *)
| CGetExc               (* `raise tasks.get()` *)
| CSet (o : outcome)    (* _finalize: `self._stopped.set()` *)
| CDrainChk (o : outcome)  (* `while not tasks.empty()` *)
| CDrainGet (o : outcome)  (* `_ = tasks.get()` *)
| CJoin (o : outcome)   (* `self._worker.join()` *)
| CDone (o : outcome).

Record state := {
  wp : wpc; cp : cpc;
  q : list item;            (* SingleLane contents, oldest first *)
  stopped : bool;           (* self._stopped *)
  rest : list src_item;     (* what the source has not produced yet *)
  (* history *)
  pulled : nat;             (* elements obtained from the source *)
  received : list Z;        (* elements handed to the consumer, oldest first *)
  dropped : nat             (* elements discarded by the worker or by the drain *)
}.

Definition init (g : cfg) : state :=
  {| wp := WIdle; cp := CStart; q := []; stopped := false; rest := src g;
     pulled := 0; received := []; dropped := 0 |}.

Definition T_W := 1%nat.
Definition T_C := 0%nat.
Inductive label := W | C.
Definition label_tid (l : label) : nat := match l with W => T_W | C => T_C end.

Definition full (g : cfg) (s : state) : bool := (maxsize g <=? length (q s))%nat.

Definition upd_w (s : state) (w : wpc) : state :=
  {| wp := w; cp := cp s; q := q s; stopped := stopped s; rest := rest s;
     pulled := pulled s; received := received s; dropped := dropped s |}.
Definition upd_c (s : state) (c : cpc) : state :=
  {| wp := wp s; cp := c; q := q s; stopped := stopped s; rest := rest s;
     pulled := pulled s; received := received s; dropped := dropped s |}.

Definition w_put (g : cfg) (s : state) (it : item) (next : wpc) : option (state * event) :=
  if full g s then None
  else Some ({| wp := next; cp := cp s; q := q s ++ [it]; stopped := stopped s; rest := rest s;
                pulled := pulled s; received := received s; dropped := dropped s |},
             mkEv T_W OP_APPEND (item_code it)).

Definition step_w (g : cfg) (s : state) : option (state * event) :=
  match wp s with
  | WIdle | WDone | WDead _ => None
  | WNext =>
      match rest s with
      | [] => Some (upd_w s WFin, mkEv T_W OP_SRC_NEXT V_END)
      | SData x :: r =>
          Some ({| wp := WChk x; cp := cp s; q := q s; stopped := stopped s; rest := r;
                   pulled := S (pulled s); received := received s; dropped := dropped s |},
                mkEv T_W OP_SRC_NEXT x)
      | SRaise e :: r =>
          Some ({| wp := WStp e; cp := cp s; q := q s; stopped := stopped s; rest := r;
                   pulled := pulled s; received := received s; dropped := dropped s |},
                mkEv T_W OP_SRC_NEXT (v_exc e))
      | SRaiseBase e :: r =>
          Some ({| wp := WDead e; cp := cp s; q := q s; stopped := stopped s; rest := r;
                   pulled := pulled s; received := received s; dropped := dropped s |},
                mkEv T_W OP_SRC_NEXT (v_exc e))
      end
  | WChk x =>
      if stopped s
      then Some ({| wp := WFin; cp := cp s; q := q s; stopped := stopped s; rest := rest s;
                    pulled := pulled s; received := received s; dropped := S (dropped s) |},
                 mkEv T_W OP_EVT_ISSET 1)
      else Some (upd_w s (WPut x), mkEv T_W OP_EVT_ISSET 0)
  | WPut x => w_put g s (Data x) WNext
  | WFin => w_put g s Fin WDone
  | WStp e => w_put g s Stp (WExc e)
  | WExc e => w_put g s (Exc e) WDone
  end.

Definition w_finished (s : state) : bool :=
  match wp s with WDone | WDead _ => true | _ => false end.

(* what the consumer does after being handed its n-th element *)
Definition after_recv (g : cfg) (n : nat) : cpc :=
  match stop_after g with
  | Some k => if (k <=? n)%nat then CSet Broke else CGet
  | None => CGet
  end.

Definition c_pop (s : state) (k : item -> state -> option (state * event)) : option (state * event) :=
  match q s with
  | [] => None
  | it :: q' =>
      k it {| wp := wp s; cp := cp s; q := q'; stopped := stopped s; rest := rest s;
              pulled := pulled s; received := received s; dropped := dropped s |}
  end.

Definition step_c (g : cfg) (s : state) : option (state * event) :=
  match cp s with
  | CStart =>
      Some ({| wp := WNext; cp := CGet; q := q s; stopped := stopped s; rest := rest s;
               pulled := pulled s; received := received s; dropped := dropped s |},
            mkEv T_C OP_START 0)
  | CGet =>
      c_pop s (fun it s' =>
        let e := mkEv T_C OP_POPLEFT (item_code it) in
        match it with
        | Data x => Some (upd_c s' (CYield x), e)
        | Fin => Some (upd_c s' (CSet Completed), e)
        | Stp => Some (upd_c s' CGetExc, e)
        | Exc _ => None      (* unreachable: an exception item always follows Stp *)
        end)
  | CYield x =>
      Some ({| wp := wp s; cp := after_recv g (S (length (received s))); q := q s;
               stopped := stopped s; rest := rest s;
               pulled := pulled s; received := received s ++ [x]; dropped := dropped s |},
            mkEv T_C OP_RECV x)
  | CGetExc =>
      c_pop s (fun it s' =>
        match it with
        | Exc e => Some (upd_c s' (CSet (Raised e)), mkEv T_C OP_POPLEFT (item_code it))
        | _ => None
        end)
  | CSet o =>
      Some ({| wp := wp s; cp := CDrainChk o; q := q s; stopped := true; rest := rest s;
               pulled := pulled s; received := received s; dropped := dropped s |},
            mkEv T_C OP_EVT_SET 0)
  | CDrainChk o =>
      match q s with
      | [] => Some (upd_c s (CJoin o), mkEv T_C OP_Q_EMPTY 1)
      | _ => Some (upd_c s (CDrainGet o), mkEv T_C OP_Q_EMPTY 0)
      end
  | CDrainGet o =>
      c_pop s (fun it s' =>
        Some ({| wp := wp s'; cp := CDrainChk o; q := q s'; stopped := stopped s'; rest := rest s';
                 pulled := pulled s'; received := received s';
                 dropped := match it with Data _ => S (dropped s') | _ => dropped s' end |},
              mkEv T_C OP_POPLEFT (item_code it)))
  | CJoin o =>
      match wp s with
      | WDone => Some (upd_c s (CDone o), mkEv T_C OP_JOIN 0)
      | WDead e => (* mpservice Thread.join re-raises the worker's exception *)
          Some (upd_c s (CDone (Raised e)),
                mkEv T_C OP_JOIN 0)
      | _ => if drain_join g
             then Some (upd_c s (CDrainChk o), mkEv T_C OP_JOIN 1)     (* join(0.01) timed out: drain again *)
             else None
      end
  | CDone _ => None
  end.

Definition step (g : cfg) (s : state) (l : label) : option (state * event) :=
  match l with W => step_w g s | C => step_c g s end.

Definition final (s : state) : bool :=
  match cp s with CDone _ => w_finished s | _ => false end.

(* nobody can move although the run is not over *)
Definition deadlocked (g : cfg) (s : state) : bool :=
  negb (final s) &&
  match step g s W, step g s C with None, None => true | _, _ => false end.

(* number of data elements pulled from the source and neither handed over nor discarded *)
Definition ahead (s : state) : nat := (pulled s - length (received s) - dropped s)%nat.
