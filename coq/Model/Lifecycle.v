(* Executable model of the start handshake and the stop protocol of a simple servlet
   (ThreadServlet.start / stop, src/mpservice/mpserver/_servlet.py; Worker.run and the stop sentinel
   in Worker._start_single, src/mpservice/mpserver/_worker.py:111-119, 410-458), after the repair
   recorded in known_findings.json (a failed start stops the workers already started).

   Threads: M = the thread calling start(), then putting [residual] requests nobody will collect,
   then stop(); W i = worker i. One step = one logged operation (thread start, queue put/get, join).
   No proofs in this file. *)
From MpV Require Export Lib.Trace.
Open Scope Z_scope.

Record cfg := {
  nworkers : nat;
  init_fails : option nat;       (* index of the worker whose __init__ raises *)
  residual : nat                 (* requests put into q_in before stop() that nobody waits for *)
}.

Inductive mpc :=
| MSpawn (i : nat)               (* Thread(...).start() for worker i *)
| MHand (i : nat)                (* name = q_out.get() *)
| MFailPut (i : nat)             (* _stop_workers_started_so_far: q_in.put(None) *)
| MFailJoin (i j : nat)          (* join started worker j (j < i) *)
| MFailJoinSelf (i : nat)        (* w.join() of the failing worker: raises *)
| MRaised
| MPutItem (k : nat)             (* k requests still to put *)
| MStopPut
| MStopJoin (j : nat)
| MDone.

Inductive wpc :=
| WNew                           (* not started *)
| WInit                          (* running Worker.run: the worker constructor then the handshake put *)
| WGet                           (* z = q_in.get() *)
| WHold (x : Z)                  (* call(x); then q_out.put((uid, y)) *)
| WRebroadcast                   (* q_in.put(None) *)
| WFwd                           (* q_out.put(None) *)
| WDone
| WDeadInit.                     (* __init__ raised: the thread is gone *)

Inductive qmsg := Item (x : Z) | Stop.
Inductive omsg := Name (i : nat) | NoName | Res (x : Z) | OStop.

Record state := { mp : mpc; wp : list wpc; q_in : list qmsg; q_out : list omsg }.

Definition init (g : cfg) : state :=
  {| mp := MSpawn 0; wp := repeat WNew (nworkers g); q_in := []; q_out := [] |}.

Inductive label := M | W (i : nat).
Definition T_M := 0%nat.
Definition T_W (i : nat) := (10 + i)%nat.

Definition OP_LQIN_PUT := 100%nat.   (* val = item or V_END *)
Definition OP_LQIN_GET := 101%nat.
Definition OP_LQOUT_PUT := 102%nat.  (* val: 1 name / 0 failed-init marker / item / V_END *)
Definition OP_LQOUT_GET := 103%nat.

Fixpoint set_nth {A} (n : nat) (x : A) (l : list A) : list A :=
  match l, n with
  | [], _ => []
  | _ :: t, O => x :: t
  | h :: t, S m => h :: set_nth m x t
  end.

Definition zn (n : nat) : Z := Z.of_nat n.

Definition w_finished (p : wpc) : bool := match p with WDone | WDeadInit => true | _ => false end.

Definition step_m (g : cfg) (s : state) : option (state * event) :=
  match mp s with
  | MSpawn i =>
      if (i <? nworkers g)%nat
      then Some ({| mp := MHand i; wp := set_nth i WInit (wp s); q_in := q_in s; q_out := q_out s |},
                 mkEv T_M OP_START (zn i))
      else Some ({| mp := MPutItem (residual g); wp := wp s; q_in := q_in s; q_out := q_out s |},
                 mkEv T_M OP_START (-1))       (* start() returned: marker event logged by the scenario *)
  | MHand i =>
      match q_out s with
      | Name _ :: r => Some ({| mp := MSpawn (S i); wp := wp s; q_in := q_in s; q_out := r |}, mkEv T_M OP_LQOUT_GET 1)
      | NoName :: r =>
          Some ({| mp := match i with O => MFailJoinSelf i | _ => MFailPut i end; wp := wp s; q_in := q_in s; q_out := r |},
                mkEv T_M OP_LQOUT_GET 0)
      | _ => None
      end
  | MFailPut i => Some ({| mp := MFailJoin i 0; wp := wp s; q_in := q_in s ++ [Stop]; q_out := q_out s |},
                        mkEv T_M OP_LQIN_PUT V_END)
  | MFailJoin i j =>
      match nth_error (wp s) j with
      | Some p => if w_finished p
                  then Some ({| mp := if (S j <? i)%nat then MFailJoin i (S j) else MFailJoinSelf i;
                                wp := wp s; q_in := q_in s; q_out := q_out s |}, mkEv T_M OP_JOIN (zn j))
                  else None
      | None => None
      end
  | MFailJoinSelf i =>
      match nth_error (wp s) i with
      | Some p => if w_finished p
                  then Some ({| mp := MRaised; wp := wp s; q_in := q_in s; q_out := q_out s |}, mkEv T_M OP_JOIN (zn i))
                  else None
      | None => None
      end
  | MPutItem k =>
      match k with
      | S k' => Some ({| mp := MPutItem k'; wp := wp s; q_in := q_in s ++ [Item (zn k)]; q_out := q_out s |},
                      mkEv T_M OP_LQIN_PUT (zn k))
      | O => Some ({| mp := MStopJoin 0; wp := wp s; q_in := q_in s ++ [Stop]; q_out := q_out s |},
                   mkEv T_M OP_LQIN_PUT V_END)
      end
  | MStopPut => None
  | MStopJoin j =>
      if (j <? nworkers g)%nat then
        match nth_error (wp s) j with
        | Some p => if w_finished p
                    then Some ({| mp := MStopJoin (S j); wp := wp s; q_in := q_in s; q_out := q_out s |}, mkEv T_M OP_JOIN (zn j))
                    else None
        | None => None
        end
      else Some ({| mp := MDone; wp := wp s; q_in := q_in s; q_out := q_out s |}, mkEv T_M OP_START (-2))
  | MRaised | MDone => None
  end.

Definition step_w (g : cfg) (s : state) (i : nat) : option (state * event) :=
  match nth_error (wp s) i with
  | Some WInit =>
      if match init_fails g with Some f => Nat.eqb f i | None => false end
      then Some ({| mp := mp s; wp := set_nth i WDeadInit (wp s); q_in := q_in s; q_out := q_out s ++ [NoName] |},
                 mkEv (T_W i) OP_LQOUT_PUT 0)
      else Some ({| mp := mp s; wp := set_nth i WGet (wp s); q_in := q_in s; q_out := q_out s ++ [Name i] |},
                 mkEv (T_W i) OP_LQOUT_PUT 1)
  | Some WGet =>
      match q_in s with
      | [] => None
      | Item x :: r => Some ({| mp := mp s; wp := set_nth i (WHold x) (wp s); q_in := r; q_out := q_out s |},
                             mkEv (T_W i) OP_LQIN_GET x)
      | Stop :: r => Some ({| mp := mp s; wp := set_nth i WRebroadcast (wp s); q_in := r; q_out := q_out s |},
                           mkEv (T_W i) OP_LQIN_GET V_END)
      end
  | Some (WHold x) =>
      Some ({| mp := mp s; wp := set_nth i WGet (wp s); q_in := q_in s; q_out := q_out s ++ [Res x] |},
            mkEv (T_W i) OP_LQOUT_PUT (x + 1000))
  | Some WRebroadcast =>
      Some ({| mp := mp s; wp := set_nth i WFwd (wp s); q_in := q_in s ++ [Stop]; q_out := q_out s |},
            mkEv (T_W i) OP_LQIN_PUT V_END)
  | Some WFwd =>
      Some ({| mp := mp s; wp := set_nth i WDone (wp s); q_in := q_in s; q_out := q_out s ++ [OStop] |},
            mkEv (T_W i) OP_LQOUT_PUT V_END)
  | _ => None
  end.

Definition step (g : cfg) (s : state) (l : label) : option (state * event) :=
  match l with M => step_m g s | W i => step_w g s i end.

(* a worker thread that was started and has not finished *)
Definition w_running (p : wpc) : bool :=
  match p with WNew | WDone | WDeadInit => false | _ => true end.
Definition any_running (s : state) : bool := existsb w_running (wp s).
