(* Executable model of mpservice.multiprocessing.remote_exception (RemoteException.__init__ 397-472,
   __reduce__ / _rebuild_exception 376-379, 480-481, is_remote_exception / get_remote_traceback).

   Text is a list of tokens. An exception value carries its class and args (opaque to the
   transport), optionally a live traceback (the frames of the site that raised it in the current
   process) and optionally the remote-traceback text attached as __cause__.

   Assumption (named in the trusted base): traceback.format_exception(type(e), e, tb) prints, for an
   explicit __cause__, str(cause) before the exception's own traceback; for a RemoteTraceback cause
   str(cause) is its text. No proofs in this file. *)
From Coq Require Export List ZArith Bool.
Export ListNotations.
Open Scope Z_scope.

Definition text := list Z.

Record exc := {
  cls : Z; args : list Z;
  live_tb : option text;        (* frames of e.__traceback__, if any *)
  cause_tb : option text        (* Some t: e.__cause__ is RemoteTraceback(t), i.e. is_remote_exception *)
}.

(* tokens *)
Definition TOK_HDR : Z := -1.          (* "Traceback (most recent call last):" *)
Definition TOK_SEP : Z := -2.          (* "The above exception was the direct cause of the following exception:" *)
Definition TOK_RTB : Z := -3.          (* "...RemoteTraceback: " prefix line of the cause *)
Definition tok_proc (p : Z) : Z := -100 - p.   (* "[process-name] " *)
Definition tok_exc (c : Z) : Z := -1000 - c.   (* the "Class: args" line *)

(* traceback.format_exception(type(e), e, e.__traceback__) *)
Definition format_exception (e : exc) (frames : text) : text :=
  (match cause_tb e with
   | Some t => [TOK_RTB] ++ t ++ [TOK_SEP]
   | None => []
   end) ++ [TOK_HDR] ++ frames ++ [tok_exc (cls e)].

(* RemoteException(e) in process p, without an explicit tb argument *)
Definition wrap (p : Z) (e : exc) : option (exc * text) :=
  match live_tb e with
  | Some fr => Some (e, [tok_proc p] ++ format_exception e fr)
  | None => match cause_tb e with
            | Some t => Some (e, t)          (* reuse the remote text *)
            | None => None                   (* ValueError: does not contain traceback info *)
            end
  end.

(* pickle.dumps / loads of RemoteException(e, tb): the exception object itself is pickled by its
   class and args (live traceback and __cause__ are not pickled), then _rebuild_exception attaches
   RemoteTraceback(tb) as __cause__ *)
Definition transport (w : exc * text) : exc :=
  let '(e, tb) := w in
  {| cls := cls e; args := args e; live_tb := None; cause_tb := Some tb |}.

(* `raise e` in the receiving process at a site with these frames *)
Definition reraise (frames : text) (e : exc) : exc :=
  {| cls := cls e; args := args e; live_tb := Some frames; cause_tb := cause_tb e |}.

(* what a hop does with the exception it received before sending it on *)
Inductive action := Forward | Reraise (frames : text).

Definition act (a : action) (e : exc) : exc :=
  match a with Forward => e | Reraise fr => reraise fr e end.

(* one hop: (act on what was received), wrap in process p, pickle, unpickle *)
Definition hop (p : Z) (a : action) (e : exc) : option exc :=
  match wrap p (act a e) with
  | Some w => Some (transport w)
  | None => None
  end.

Fixpoint hops (p : Z) (acts : list action) (e : exc) : option exc :=
  match acts with
  | [] => Some e
  | a :: r => match hop p a e with
              | Some e' => hops (p + 1) r e'
              | None => None
              end
  end.

Definition is_remote (e : exc) : bool := match cause_tb e with Some _ => true | None => false end.
Definition remote_text (e : exc) : text := match cause_tb e with Some t => t | None => [] end.

(* decidable "x occurs as a contiguous sub-list of y" *)
Fixpoint prefixb (x y : text) : bool :=
  match x, y with
  | [], _ => true
  | a :: x', b :: y' => (a =? b) && prefixb x' y'
  | _, [] => false
  end.
Fixpoint infixb (x y : text) : bool :=
  prefixb x y || match y with [] => false | _ :: y' => infixb x y' end.

Definition Infix (x y : text) : Prop := exists pre post, y = pre ++ x ++ post.
