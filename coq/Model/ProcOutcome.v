(* Executable model of how an mpservice Process reports the end of its target
   (src/mpservice/multiprocessing/context.py: child side `run` 241-321, parent side `_collect_result`
   193-227 and the accessors join/result/exception/done 328-385), and of mpservice.threading.Thread
   (threading/__init__.py:55-138).

   The child sends two messages over a pipe (result, error) and exits; a kill signal may land before
   the target runs, during it, between the two sends, or after both sends. The OS delivers EOF on the
   pipe when the child is gone and reports exit code -signal (trusted). No proofs in this file. *)
From Coq Require Export List ZArith Bool.
Export ListNotations.
Open Scope Z_scope.

Inductive ending :=
| Return (v : Z)          (* target returns v *)
| RaiseExc (e : Z)        (* target raises exception e *)
| ExitNone                (* sys.exit() / sys.exit(None) *)
| ExitInt (n : Z)         (* sys.exit(n), n an int *)
| ExitOther               (* sys.exit('message') *)
| RaiseUnsendable         (* target raises an exception that cannot be pickled: the child's second send fails, it exits with 1 *)
| ReturnUnsendable        (* target returns a value that cannot be pickled: the first send fails, the child exits with 1 *)
| HardExit (n : Z)        (* os._exit(n): the child is gone without sending anything *)
| ReturnUnloadable (e : Z).  (* target returns a value whose unpickling raises e in the parent *)

Inductive phase := NoKill | KillBefore | KillDuring | KillBetween | KillAfter.

Record cfg := { how : ending; kill : phase; sig : Z }.   (* sig: 15 SIGTERM (terminate()), 9, 2, ... *)

(* what travels on the pipe *)
Inductive payload := PNone | PVal (v : Z) | PExc (e : Z) | PSysExit (n : Z) | PSysExitOther
| POSErr (code : Z)       (* OSError(code, strerror(code)) made by the parent *)
| PBad (e : Z).           (* a message whose unpickling raises e in the parent *)

(* the two messages the child intends to send, and the exit code it intends to return *)
Definition child_plan (h : ending) : payload * payload * Z :=
  match h with
  | Return v => (PVal v, PNone, 0)
  | RaiseExc e => (PNone, PExc e, 1)
  | ExitNone => (PNone, PNone, 0)
  | ExitInt n => if n =? 0 then (PNone, PNone, 0) else (PNone, PSysExit n, n)
  | ExitOther => (PNone, PSysExitOther, 1)
  | RaiseUnsendable => (PNone, PNone, 1)       (* only the first message goes out: see child_run *)
  | ReturnUnsendable => (PNone, PNone, 1)      (* nothing goes out *)
  | HardExit n => (PNone, PNone, n)
  | ReturnUnloadable e => (PBad e, PNone, 0)
  end.

(* how many of the two messages the child manages to send when nobody kills it *)
Definition sends (h : ending) : nat :=
  match h with RaiseUnsendable => 1%nat | ReturnUnsendable | HardExit _ => 0%nat | _ => 2%nat end.

(* messages actually delivered before the pipe reaches EOF, and the OS-level exit code *)
Definition child_run (g : cfg) : list payload * Z :=
  let '(m1, m2, code) := child_plan (how g) in
  match kill g with
  | NoKill => (firstn (sends (how g)) [m1; m2], code)
  | KillBefore | KillDuring => ([], - sig g)
  | KillBetween => (firstn (Nat.min 1 (sends (how g))) [m1], - sig g)
  | KillAfter => (firstn (sends (how g)) [m1; m2], - sig g)
  end.

(* the future held by the parent *)
Inductive fut := Pending | FResult (v : payload) | FError (e : payload).

Definition OS_ERROR (code : Z) : payload := POSErr code.

(* _collect_result: two recv()s; on EOF wait for the exit code: SIGTERM is taken as an intended
   terminate() (result None), any other signal resolves the future with an OSError *)
Definition collect (msgs : list payload) (exitcode : Z) : fut :=
  match msgs with
  | PBad e :: _ => FError (PExc e)             (* the first recv() raises the unpickling error *)
  | _ :: PBad e :: _ => FError (PExc e)
  | m1 :: m2 :: _ => match m2 with PNone => FResult m1 | e => FError e end
  | _ =>
      let result := match msgs with m1 :: _ => m1 | [] => PNone end in
      if - exitcode =? 15 then FResult result
      else FError (OS_ERROR (- exitcode))
  end.

Definition parent_future (g : cfg) : fut := let '(msgs, code) := child_run g in collect msgs code.

(* accessors after the process has exited *)
Inductive outcome := Returns (v : payload) | Raises (e : payload) | Hangs.

Definition acc_result (f : fut) : outcome :=
  match f with FResult v => Returns v | FError e => Raises e | Pending => Hangs end.
Definition acc_exception (f : fut) : outcome :=
  match f with FResult _ => Returns PNone | FError e => Returns e | Pending => Hangs end.
Definition acc_join (f : fut) : outcome :=
  match f with FResult _ => Returns PNone | FError e => Raises e | Pending => Hangs end.
(* wait / as_completed return as soon as the future is resolved *)
Definition acc_wait (f : fut) : outcome :=
  match f with Pending => Hangs | _ => Returns PNone end.

(* ---- mpservice.threading.Thread.run -------------------------------------------------------- *)
Definition thread_future (h : ending) : fut :=
  match h with
  | Return v => FResult (PVal v)
  | RaiseExc e => FError (PExc e)
  | ExitNone => FResult PNone
  | ExitInt n => if n =? 0 then FResult PNone else FError (PSysExit n)
  | ExitOther => FError PSysExitOther
  | RaiseUnsendable => FError (PExc 0)      (* nothing is pickled in a thread: the exception itself *)
  | ReturnUnsendable => FResult (PVal 0)
  | HardExit n => Pending                    (* os._exit in a thread ends the whole process: out of scope *)
  | ReturnUnloadable e => FResult (PVal 0)   (* nothing is pickled in a thread *)
  end.

Definition sendable (h : ending) : bool :=
  match h with RaiseUnsendable | ReturnUnsendable | HardExit _ | ReturnUnloadable _ => false | _ => true end.
