(* Executable model of the reference counting of objects hosted in a ServerProcess
   (src/mpservice/multiprocessing/server_process.py: Server.create/incref/decref 432-478 and the stdlib
   Server.decref it calls, BaseProxy.__init__/_incref/_decref 631-738, BaseProxy.__reduce__ 740-770,
   RebuildProxy 772-797, managed 879-921).

   A reference is whatever owes the server one decrement: a live proxy in some process, a pickle in transit,
   a proxy stored inside a hosted container, a temporary proxy inside the server. Every history operation is
   expanded into the increments and decrements the code performs, in the code's order (incref before the
   pickle leaves; RebuildProxy: construct + incref, then the compensating decref; the server's temporary
   proxy dropped after the reply has been pickled).

   [adopt]  : a proxy unpickled while its process is being bootstrapped (passed as a Process argument) takes
              over the reference added by __reduce__ and gets a finalizer (the code as it is now); false = it
              gets neither increment nor finalizer (the code before the repair): the reference is never returned.
   [exitfin]: proxy finalizers run when a process exits (now); false = they do not (before the repair).
   No proofs in this file. *)
From Coq Require Export List Arith Bool.
Export ListNotations.

Record cfg := { adopt : bool; exitfin : bool }.

Inductive holder :=
| HProc (p : nat) (owns : bool)     (* live proxy in client process p; owns = it has the finalizer that decrements *)
| HTransit (inh : bool)             (* pickle in transit; inh = it will be unpickled while a child is bootstrapped *)
| HCont (c : nat)                   (* proxy stored in hosted container c (an object id) *)
| HTemp.                            (* temporary proxy inside the server (create / managed / method result) *)

Record ref := { r_tag : nat; r_h : holder; r_id : nat }.

Record state := {
  cnt : list (option nat);          (* per object id: Some refcount, or None once destroyed *)
  refs : list ref;
  errors : nat                      (* operations the server would have rejected (incref of a destroyed object, ...) *)
}.

Definition init : state := {| cnt := []; refs := []; errors := 0 |}.

Inductive op :=
| OCreate (p t : nat)                          (* manager.list() ... in process p, or a hosted method returning managed(new object) to p *)
| OPickle (k : nat) (inh : bool) (t : nat)     (* proxy k is pickled *)
| OUnpickle (k p t : nat)                      (* the pickle k is unpickled, once, in process p *)
| ODrop (k : nat)                              (* proxy k is deleted *)
| OStore (k c t : nat)                         (* proxy k is stored in hosted container c (passed to the server and kept there) *)
| ORemove (k p : nat) (keep : bool) (t : nat)  (* the stored proxy k is popped and returned to process p, which keeps or drops it *)
| OExit (p : nat)                              (* client process p exits *)
| OFailWith (k : nat).                         (* proxy k is passed as an argument to a hosted method that raises *)

Definition TMP := 0.     (* tag of the one temporary reference an operation may create; harness tags start at 1 *)

Fixpoint set_nth {A} (n : nat) (x : A) (l : list A) : list A :=
  match l, n with
  | [], _ => []
  | _ :: t, O => x :: t
  | h :: t, S m => h :: set_nth m x t
  end.

Definition get_cnt (s : state) (x : nat) : option nat := nth x (cnt s) None.

Fixpoint find_ref (t : nat) (l : list ref) : option ref :=
  match l with
  | [] => None
  | r :: rest => if Nat.eqb (r_tag r) t then Some r else find_ref t rest
  end.

Fixpoint remove_ref (t : nat) (l : list ref) : list ref :=
  match l with
  | [] => []
  | r :: rest => if Nat.eqb (r_tag r) t then rest else r :: remove_ref t rest
  end.

Definition held_by (c : nat) (r : ref) : bool := match r_h r with HCont c' => Nat.eqb c c' | _ => false end.

(* decrement the objects in [work]; an object reaching zero is destroyed and the proxies it holds are finalized *)
Fixpoint drain (fuel : nat) (s : state) (work : list nat) : state :=
  match fuel with
  | O => s
  | S f =>
      match work with
      | [] => s
      | x :: w =>
          match get_cnt s x with
          | Some (S (S n)) => drain f {| cnt := set_nth x (Some (S n)) (cnt s); refs := refs s; errors := errors s |} w
          | Some (S O) =>
              let held := filter (held_by x) (refs s) in
              drain f {| cnt := set_nth x None (cnt s); refs := filter (fun r => negb (held_by x r)) (refs s); errors := errors s |}
                    (map r_id held ++ w)
          | _ => drain f {| cnt := cnt s; refs := refs s; errors := S (errors s) |} w
          end
      end
  end.

Definition decr (s : state) (x : nat) : state := drain (S (S (length (refs s)))) s [x].

(* incref + the new reference comes into being *)
Definition acquire (s : state) (t : nat) (h : holder) (x : nat) : state :=
  match get_cnt s x with
  | Some n => {| cnt := set_nth x (Some (S n)) (cnt s); refs := refs s ++ [{| r_tag := t; r_h := h; r_id := x |}]; errors := errors s |}
  | None => {| cnt := cnt s; refs := refs s; errors := S (errors s) |}
  end.

(* the reference goes away and gives its count back *)
Definition release (s : state) (t : nat) : state :=
  match find_ref t (refs s) with
  | Some r => decr {| cnt := cnt s; refs := remove_ref t (refs s); errors := errors s |} (r_id r)
  | None => {| cnt := cnt s; refs := refs s; errors := S (errors s) |}
  end.

(* the reference goes away without telling the server *)
Definition forget (s : state) (t : nat) : state :=
  {| cnt := cnt s; refs := remove_ref t (refs s); errors := errors s |}.

(* the reference changes hands without touching the count *)
Definition move (s : state) (t t' : nat) (h : holder) : state :=
  match find_ref t (refs s) with
  | Some r => {| cnt := cnt s; refs := remove_ref t (refs s) ++ [{| r_tag := t'; r_h := h; r_id := r_id r |}]; errors := errors s |}
  | None => {| cnt := cnt s; refs := refs s; errors := S (errors s) |}
  end.

Definition bad (s : state) : state := {| cnt := cnt s; refs := refs s; errors := S (errors s) |}.

Definition is_proc (h : holder) : bool := match h with HProc _ _ => true | _ => false end.
Definition proc_of (p : nat) (r : ref) : bool := match r_h r with HProc p' _ => Nat.eqb p p' | _ => false end.

Definition drop_ref (s : state) (r : ref) : state :=
  match r_h r with
  | HProc _ true => release s (r_tag r)
  | _ => forget s (r_tag r)
  end.

Definition step (g : cfg) (s : state) (o : op) : state :=
  match o with
  | OCreate p t =>
      (* Server.create: the object enters the table, a proxy is made inside the server (incref); the reply pickles it
         (incref); the server's proxy is finalized (decref); the client rebuilds (incref, then decref) *)
      let x := length (cnt s) in
      let s0 := {| cnt := cnt s ++ [Some 1]; refs := refs s ++ [{| r_tag := TMP; r_h := HTemp; r_id := x |}]; errors := errors s |} in
      let s1 := acquire s0 t (HTransit false) x in
      let s2 := release s1 TMP in
      let s3 := acquire s2 TMP (HProc p true) x in
      let s4 := release s3 t in
      move s4 TMP t (HProc p true)
  | OPickle k inh t =>
      match find_ref k (refs s) with
      | Some r => if is_proc (r_h r) then acquire s t (HTransit inh) (r_id r) else bad s
      | None => bad s
      end
  | OUnpickle k p t =>
      match find_ref k (refs s) with
      | Some {| r_h := HTransit false; r_id := x |} => release (acquire s t (HProc p true) x) k
      | Some {| r_h := HTransit true |} => move s k t (HProc p (adopt g))
      | _ => bad s
      end
  | ODrop k =>
      match find_ref k (refs s) with
      | Some r => if is_proc (r_h r) then drop_ref s r else bad s
      | None => bad s
      end
  | OStore k c t =>
      match find_ref k (refs s), get_cnt s c with
      | Some r, Some _ =>
          if is_proc (r_h r)
          then let s1 := acquire s TMP (HTransit false) (r_id r) in      (* the argument is pickled *)
               let s2 := acquire s1 t (HCont c) (r_id r) in               (* rebuilt inside the server, kept by the container *)
               release s2 TMP
          else bad s
      | _, _ => bad s
      end
  | ORemove k p keep t =>
      match find_ref k (refs s) with
      | Some {| r_h := HCont _; r_id := x |} =>
          let s1 := acquire s TMP (HTransit false) x in                   (* the result is pickled for the reply *)
          let s2 := release s1 k in                                       (* the container's proxy is finalized *)
          let s3 := acquire s2 t (HProc p true) x in                      (* rebuilt in the client *)
          let s4 := release s3 TMP in
          if keep then s4 else release s4 t
      | _ => bad s
      end
  | OExit p =>
      fold_left (fun s' r => if exitfin g then drop_ref s' r else forget s' (r_tag r)) (filter (proc_of p) (refs s)) s
  | OFailWith k =>
      (* the argument is pickled (incref); the server rebuilds it (incref, then the compensating decref); the method raises;
         the server's argument proxy is finalized as soon as the call has ended (after the repair of the reference cycles) *)
      match find_ref k (refs s) with
      | Some r => if is_proc (r_h r) then release (acquire s TMP HTemp (r_id r)) TMP else bad s
      | None => bad s
      end
  end.

Definition run (g : cfg) (ops : list op) : state := fold_left (step g) ops init.

(* -- vocabulary of the statements --------------------------------------------------------------- *)
Definition nrefs (x : nat) (l : list ref) : nat := length (filter (fun r => Nat.eqb (r_id r) x) l).
Definition alive (s : state) (x : nat) : bool := match get_cnt s x with Some _ => true | None => false end.
