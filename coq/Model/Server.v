(* Executable model of mpservice.mpserver._server.Server: call / _enqueue / _wait_for_result
   (src/mpservice/mpserver/_server.py 250-339) and the gather and notifier threads (341-388), over
   an abstract servlet ("bag": any worker may answer any pending request, in any order).

   Threads: K i = caller i (one request each), G = gather thread, Nf = notifier thread,
   B j = servlet worker j, M = the thread leaving the `with server` block (injects the stop
   sentinel). A label carries the environment's choice where there is one: [K i true] is "caller i's
   pending timed wait expires now" (time is abstracted: a timed wait may expire at any step).
   One step = one logged shared-object operation. No proofs in this file. *)
From MpV Require Export Lib.Trace.
Open Scope Z_scope.

Inductive res := Ok (v : Z) | Err (e : Z).

Record caller_cfg := { backpressure : bool; arg : Z }.

Record cfg := {
  capacity : nat;
  callers : list caller_cfg;
  nworkers : nat;
  serve : Z -> res                (* the servlet's function *)
}.

(* request ids: caller i's request has uid i (the correspondence runs with a never-reusing id allocator) *)

Inductive fstate := FPending | FDone (r : res) | FCancelled.

Inductive koutcome := Rejected | RejectedAfterWait | Answered (r : res) | TimedOut.

Inductive kpc :=
| KLock                      (* `with self._pipeline_notfull:` *)
| KCheck                     (* `if len(pipeline) >= self._capacity` *)
| KWait                      (* about to call wait(timeout*0.99) *)
| KWaiting                   (* inside wait: lock released, queued as a waiter *)
| KNotified                  (* woken by notify; must re-acquire the lock *)
| KExpired                   (* wait timed out; must re-acquire the lock *)
| KSet                       (* `pipeline[uid] = fut` *)
| KPut                       (* `self._input_buffer.put((uid, x))` *)
| KUnlock (rej : option bool)  (* leave the `with` block: normally (None), or by raising
                                 ServerBacklogFull at once (Some false) / after waiting (Some true) *)
| KWaitRes                   (* `fut.result(timeout=...)` *)
| KCancel                    (* `fut.cancel()` after the result wait timed out *)
| KDone (o : koutcome).

Inductive gpc :=
| GGet
| GPop (u : nat) (y : res)
| GChk (u : nat) (y : res)
| GSet (u : nat) (y : res)
| GNotify
| GFinalPut (dead : bool)    (* `finally: q_notify.put(None)` *)
| GJoin (dead : bool)        (* `notification_thread.join()` *)
| GDone (dead : bool).       (* dead = the thread was killed by an exception *)

Inductive npc := NGet | NLock | NNotify | NUnlock | NDone.
Inductive bpc := BGet | BHold (u : nat) | BRePut | BDone.
Inductive mpc := MRun | MWaitW | MJoinG | MDone.

Inductive qmsg := Req (u : nat) | Stop.            (* input queue *)
Inductive omsg := Ans (u : nat) (y : res) | OStop. (* output queue *)

Record state := {
  kp : list kpc; gp : gpc; np : npc; bp : list bpc; mp : mpc;
  lock : option nat;              (* owner of the condition's lock: None | Some tid *)
  waiters : list nat;             (* callers inside wait(), FIFO *)
  ledger : list nat;              (* uids recorded in _uid_to_futures *)
  q_in : list qmsg; q_out : list omsg;
  q_notify : list bool;           (* true = a notification, false = the None sentinel *)
  futs : list fstate;             (* future of caller i *)
  (* history *)
  max_backlog : nat;
  dropped_results : list nat      (* uids whose result found no ledger entry *)
}.

Definition T_M := 0%nat.
Definition T_G := 1%nat.
Definition T_N := 2%nat.
Definition T_B (j : nat) := (10 + j)%nat.
Definition T_K (i : nat) := (100 + i)%nat.

Inductive label := K (i : nat) (expire : bool) | G | Nf | B (j : nat) | M.

(* operation codes specific to this model *)
Definition OP_LOCK_ACQ := 20%nat.
Definition OP_LOCK_REL := 21%nat.
Definition OP_LEDGER_LEN := 22%nat.
Definition OP_COND_WAIT := 23%nat.
Definition OP_COND_EXPIRE := 24%nat.
Definition OP_COND_WOKE := 25%nat.     (* val 1 = notified, 0 = timed out; lock re-acquired *)
Definition OP_COND_NOTIFY := 26%nat.   (* val = number of waiters woken *)
Definition OP_QIN_PUT := 27%nat.
Definition OP_QIN_GET := 28%nat.
Definition OP_QOUT_PUT := 29%nat.
Definition OP_QOUT_GET := 30%nat.
Definition OP_LEDGER_SET := 31%nat.
Definition OP_LEDGER_POP := 32%nat.    (* val = uid*2 + found *)
Definition OP_FUT_RESULT := 33%nat.    (* caller's result(): val 1 = got it, 0 = timed out *)
Definition OP_FUT_CANCELLED := 34%nat. (* gather's cancelled(): val = uid*2 + answer *)
Definition OP_FUT_SET := 35%nat.       (* gather's set_result/set_exception: val = uid*2 + (1 ok | 0 InvalidStateError) *)
Definition OP_QN_PUT := 36%nat.
Definition OP_QN_GET := 37%nat.
Definition OP_CANCEL := 38%nat.        (* caller's cancel(): val = 1 if it cancelled *)

Definition init (g : cfg) : state :=
  {| kp := repeat KLock (length (callers g)); gp := GGet; np := NGet;
     bp := repeat BGet (nworkers g); mp := MRun;
     lock := None; waiters := []; ledger := []; q_in := []; q_out := []; q_notify := [];
     futs := repeat FPending (length (callers g)); max_backlog := 0; dropped_results := [] |}.

Fixpoint set_nth {A} (n : nat) (x : A) (l : list A) : list A :=
  match l, n with
  | [], _ => []
  | _ :: t, O => x :: t
  | h :: t, S m => h :: set_nth m x t
  end.

Definition remove_nat (x : nat) (l : list nat) : list nat := filter (fun y => negb (Nat.eqb x y)) l.
Definition mem_nat (x : nat) (l : list nat) : bool := existsb (Nat.eqb x) l.

(* setters *)
Definition set_kp s i v := {| kp := set_nth i v (kp s); gp := gp s; np := np s; bp := bp s; mp := mp s;
  lock := lock s; waiters := waiters s; ledger := ledger s; q_in := q_in s; q_out := q_out s;
  q_notify := q_notify s; futs := futs s; max_backlog := max_backlog s; dropped_results := dropped_results s |}.
Definition set_gp s v := {| kp := kp s; gp := v; np := np s; bp := bp s; mp := mp s;
  lock := lock s; waiters := waiters s; ledger := ledger s; q_in := q_in s; q_out := q_out s;
  q_notify := q_notify s; futs := futs s; max_backlog := max_backlog s; dropped_results := dropped_results s |}.
Definition set_np s v := {| kp := kp s; gp := gp s; np := v; bp := bp s; mp := mp s;
  lock := lock s; waiters := waiters s; ledger := ledger s; q_in := q_in s; q_out := q_out s;
  q_notify := q_notify s; futs := futs s; max_backlog := max_backlog s; dropped_results := dropped_results s |}.
Definition set_bp s j v := {| kp := kp s; gp := gp s; np := np s; bp := set_nth j v (bp s); mp := mp s;
  lock := lock s; waiters := waiters s; ledger := ledger s; q_in := q_in s; q_out := q_out s;
  q_notify := q_notify s; futs := futs s; max_backlog := max_backlog s; dropped_results := dropped_results s |}.
Definition set_mp s v := {| kp := kp s; gp := gp s; np := np s; bp := bp s; mp := v;
  lock := lock s; waiters := waiters s; ledger := ledger s; q_in := q_in s; q_out := q_out s;
  q_notify := q_notify s; futs := futs s; max_backlog := max_backlog s; dropped_results := dropped_results s |}.
Definition set_lock s v := {| kp := kp s; gp := gp s; np := np s; bp := bp s; mp := mp s;
  lock := v; waiters := waiters s; ledger := ledger s; q_in := q_in s; q_out := q_out s;
  q_notify := q_notify s; futs := futs s; max_backlog := max_backlog s; dropped_results := dropped_results s |}.
Definition set_waiters s v := {| kp := kp s; gp := gp s; np := np s; bp := bp s; mp := mp s;
  lock := lock s; waiters := v; ledger := ledger s; q_in := q_in s; q_out := q_out s;
  q_notify := q_notify s; futs := futs s; max_backlog := max_backlog s; dropped_results := dropped_results s |}.
Definition set_ledger s v := {| kp := kp s; gp := gp s; np := np s; bp := bp s; mp := mp s;
  lock := lock s; waiters := waiters s; ledger := v; q_in := q_in s; q_out := q_out s;
  q_notify := q_notify s; futs := futs s; max_backlog := Nat.max (max_backlog s) (length v);
  dropped_results := dropped_results s |}.
Definition set_qin s v := {| kp := kp s; gp := gp s; np := np s; bp := bp s; mp := mp s;
  lock := lock s; waiters := waiters s; ledger := ledger s; q_in := v; q_out := q_out s;
  q_notify := q_notify s; futs := futs s; max_backlog := max_backlog s; dropped_results := dropped_results s |}.
Definition set_qout s v := {| kp := kp s; gp := gp s; np := np s; bp := bp s; mp := mp s;
  lock := lock s; waiters := waiters s; ledger := ledger s; q_in := q_in s; q_out := v;
  q_notify := q_notify s; futs := futs s; max_backlog := max_backlog s; dropped_results := dropped_results s |}.
Definition set_qn s v := {| kp := kp s; gp := gp s; np := np s; bp := bp s; mp := mp s;
  lock := lock s; waiters := waiters s; ledger := ledger s; q_in := q_in s; q_out := q_out s;
  q_notify := v; futs := futs s; max_backlog := max_backlog s; dropped_results := dropped_results s |}.
Definition set_futs s v := {| kp := kp s; gp := gp s; np := np s; bp := bp s; mp := mp s;
  lock := lock s; waiters := waiters s; ledger := ledger s; q_in := q_in s; q_out := q_out s;
  q_notify := q_notify s; futs := v; max_backlog := max_backlog s; dropped_results := dropped_results s |}.
Definition add_dropped s u := {| kp := kp s; gp := gp s; np := np s; bp := bp s; mp := mp s;
  lock := lock s; waiters := waiters s; ledger := ledger s; q_in := q_in s; q_out := q_out s;
  q_notify := q_notify s; futs := futs s; max_backlog := max_backlog s; dropped_results := dropped_results s ++ [u] |}.

Definition ZofN (n : nat) : Z := Z.of_nat n.
Definition b2z (b : bool) : Z := if b then 1 else 0.

Definition step_k (g : cfg) (s : state) (i : nat) (expire : bool) : option (state * event) :=
  let t := T_K i in
  match nth_error (kp s) i, nth_error (callers g) i with
  | Some pc, Some kc =>
      match pc, expire with
      | KLock, false =>
          match lock s with
          | None => Some (set_kp (set_lock s (Some t)) i KCheck, mkEv t OP_LOCK_ACQ 0)
          | Some _ => None
          end
      | KCheck, false =>
          let n := length (ledger s) in
          let e := mkEv t OP_LEDGER_LEN (ZofN n) in
          if (capacity g <=? n)%nat
          then if backpressure kc then Some (set_kp s i (KUnlock (Some false)), e)
               else Some (set_kp s i KWait, e)
          else Some (set_kp s i KSet, e)
      | KWait, false =>
          Some (set_kp (set_waiters (set_lock s None) (waiters s ++ [i])) i KWaiting, mkEv t OP_COND_WAIT 0)
      | KWaiting, true =>
          (* the wait's timeout fires: the waiter withdraws *)
          Some (set_kp (set_waiters s (remove_nat i (waiters s))) i KExpired, mkEv t OP_COND_EXPIRE 0)
      | KNotified, false =>
          match lock s with
          | None => (* `while`: the size test is repeated after every wake-up *)
              Some (set_kp (set_lock s (Some t)) i KCheck, mkEv t OP_COND_WOKE 1)
          | Some _ => None
          end
      | KExpired, false =>
          match lock s with
          | None => Some (set_kp (set_lock s (Some t)) i (KUnlock (Some true)), mkEv t OP_COND_WOKE 0)
          | Some _ => None
          end
      | KSet, false => Some (set_kp (set_ledger s (ledger s ++ [i])) i KPut, mkEv t OP_LEDGER_SET (ZofN i))
      | KPut, false => Some (set_kp (set_qin s (q_in s ++ [Req i])) i (KUnlock None), mkEv t OP_QIN_PUT (ZofN i))
      | KUnlock nxt, false =>
          Some (set_kp (set_lock s None) i
                       (match nxt with
                        | Some true => KDone RejectedAfterWait
                        | Some false => KDone Rejected
                        | None => KWaitRes
                        end),
                mkEv t OP_LOCK_REL 0)
      | KWaitRes, false =>
          match nth_error (futs s) i with
          | Some (FDone r) => Some (set_kp s i (KDone (Answered r)), mkEv t OP_FUT_RESULT 1)
          | _ => None
          end
      | KWaitRes, true =>
          match nth_error (futs s) i with
          | Some FPending => Some (set_kp s i KCancel, mkEv t OP_FUT_RESULT 0)
          | _ => None        (* a finished future is returned even if the deadline has passed *)
          end
      | KCancel, false =>
          match nth_error (futs s) i with
          | Some FPending => Some (set_kp (set_futs s (set_nth i FCancelled (futs s))) i (KDone TimedOut),
                                   mkEv t OP_CANCEL 1)
          | Some _ => Some (set_kp s i (KDone TimedOut), mkEv t OP_CANCEL 0)
          | None => None
          end
      | _, _ => None
      end
  | _, _ => None
  end.

Definition step_g (g : cfg) (s : state) : option (state * event) :=
  match gp s with
  | GGet =>
      match q_out s with
      | [] => None
      | Ans u y :: r => Some (set_gp (set_qout s r) (GPop u y), mkEv T_G OP_QOUT_GET (ZofN u))
      | OStop :: r => Some (set_gp (set_qout s r) (GFinalPut false), mkEv T_G OP_QOUT_GET V_END)
      end
  | GPop u y =>
      if mem_nat u (ledger s)
      then Some (set_gp (set_ledger s (remove_nat u (ledger s))) (GChk u y), mkEv T_G OP_LEDGER_POP (ZofN u * 2 + 1))
      else Some (set_gp (add_dropped s u) GGet, mkEv T_G OP_LEDGER_POP (ZofN u * 2))
  | GChk u y =>
      match nth_error (futs s) u with
      | Some FCancelled => Some (set_gp s GNotify, mkEv T_G OP_FUT_CANCELLED (ZofN u * 2 + 1))
      | Some _ => Some (set_gp s (GSet u y), mkEv T_G OP_FUT_CANCELLED (ZofN u * 2))
      | None => None
      end
  | GSet u y =>
      match nth_error (futs s) u with
      | Some FPending => Some (set_gp (set_futs s (set_nth u (FDone y) (futs s))) GNotify, mkEv T_G OP_FUT_SET (ZofN u * 2 + 1))
      | Some _ => (* InvalidStateError (cancelled in the meantime) is caught: the result is discarded *)
          Some (set_gp s GNotify, mkEv T_G OP_FUT_SET (ZofN u * 2))
      | None => None
      end
  | GNotify => Some (set_gp (set_qn s (q_notify s ++ [true])) GGet, mkEv T_G OP_QN_PUT 1)
  | GFinalPut d => Some (set_gp (set_qn s (q_notify s ++ [false])) (GJoin d), mkEv T_G OP_QN_PUT V_END)
  | GJoin d => match np s with
               | NDone => Some (set_gp s (GDone d), mkEv T_G OP_JOIN 0)
               | _ => None
               end
  | GDone _ => None
  end.

Definition step_n (g : cfg) (s : state) : option (state * event) :=
  match np s with
  | NGet => match q_notify s with
            | [] => None
            | true :: r => Some (set_np (set_qn s r) NLock, mkEv T_N OP_QN_GET 1)
            | false :: r => Some (set_np (set_qn s r) NDone, mkEv T_N OP_QN_GET V_END)
            end
  | NLock => match lock s with
             | None => Some (set_np (set_lock s (Some T_N)) NNotify, mkEv T_N OP_LOCK_ACQ 0)
             | Some _ => None
             end
  | NNotify =>
      match waiters s with
      | [] => Some (set_np s NUnlock, mkEv T_N OP_COND_NOTIFY 0)
      | w :: r => Some (set_np (set_kp (set_waiters s r) w KNotified) NUnlock, mkEv T_N OP_COND_NOTIFY 1)
      end
  | NUnlock => Some (set_np (set_lock s None) NGet, mkEv T_N OP_LOCK_REL 0)
  | NDone => None
  end.

Definition step_b (g : cfg) (s : state) (j : nat) : option (state * event) :=
  match nth_error (bp s) j with
  | Some BGet =>
      match q_in s with
      | [] => None
      | Req u :: r => Some (set_bp (set_qin s r) j (BHold u), mkEv (T_B j) OP_QIN_GET (ZofN u))
      | Stop :: r => Some (set_bp (set_qin s r) j BRePut, mkEv (T_B j) OP_QIN_GET V_END)
      end
  | Some (BHold u) =>
      match nth_error (callers g) u with
      | Some kc => Some (set_bp (set_qout s (q_out s ++ [Ans u (serve g (arg kc))])) j BGet,
                         mkEv (T_B j) OP_QOUT_PUT (ZofN u))
      | None => None
      end
  | Some BRePut => (* leave the sentinel for the peers *)
      Some (set_bp (set_qin s (q_in s ++ [Stop])) j BDone, mkEv (T_B j) OP_QIN_PUT V_END)
  | _ => None
  end.

Definition all_b_done (s : state) : bool :=
  forallb (fun p => match p with BDone => true | _ => false end) (bp s).

(* leaving the `with server` block: servlet.stop() = put the sentinel, join the workers, forward
   the sentinel to the output queue; then join the gather thread *)
Definition step_m (g : cfg) (s : state) : option (state * event) :=
  match mp s with
  | MRun => Some (set_mp (set_qin s (q_in s ++ [Stop])) MWaitW, mkEv T_M OP_QIN_PUT V_END)
  | MWaitW => if all_b_done s
              then Some (set_mp (set_qout s (q_out s ++ [OStop])) MJoinG, mkEv T_M OP_QOUT_PUT V_END)
              else None
  | MJoinG => match gp s with
              | GDone _ => Some (set_mp s MDone, mkEv T_M OP_JOIN 0)
              | _ => None
              end
  | MDone => None
  end.

Definition step (g : cfg) (s : state) (l : label) : option (state * event) :=
  match l with
  | K i ex => step_k g s i ex
  | G => step_g g s
  | Nf => step_n g s
  | B j => step_b g s j
  | M => step_m g s
  end.

Definition backlog (s : state) : nat := length (ledger s).
Definition gather_dead (s : state) : bool :=
  match gp s with GJoin true | GDone true => true | _ => false end.
