(* Executable model of the admission gate of AsyncServer (src/mpservice/mpserver/_server.py, AsyncServer._enqueue and
   _gather_output): callers without backpressure wait on an asyncio.Condition for room in the ledger.

   asyncio.Condition.notify marks one waiting future as done; the waiter itself runs later, in another iteration of the
   event loop. In between, its task can be cancelled or its wait_for can expire: asyncio then raises in the waiter and the
   notification it had received is gone (CPython 3.12 does not pass it on). The code as repaired (fix LN) calls notify()
   again from the cancelled / timed-out waiter; [pass_on = false] is the code before the repair.

   State: b = size of the ledger; p = notify() coroutines the gather thread has scheduled and the loop has not run yet;
   w = callers waiting, not notified; n = callers notified that have not yet run; l = callers whose wait was cancelled
   (task.cancel() or the expiry of wait_for cancels the future they wait on at once: notify() skips them from then on)
   and that have not yet run.
   Every step is one atomic block of the event loop (no await inside), or the gather thread's pop (atomic dict.pop). *)
From Coq Require Export List Arith Bool.
Export ListNotations.

Record cfg := { cap : nat; pass_on : bool }.
Record state := { b : nat; p : nat; w : nat; n : nat; lv : nat; served : nat; gone : nat }.
Definition init : state := {| b := 0; p := 0; w := 0; n := 0; lv := 0; served := 0; gone := 0 |}.

Inductive label :=
| Arrive          (* a caller enters _enqueue (backpressure=False): room -> entered into the ledger, else it waits *)
| Pop             (* a result emerges: the gather thread pops the ledger and schedules notify() on the loop *)
| Notify          (* the loop runs that notify() *)
| Run             (* a notified waiter runs: re-tests the size; takes the room or waits again *)
| FutCancel       (* a waiter that has not been notified is cancelled / its wait_for expires: its future is cancelled *)
| Leave           (* that waiter runs: it leaves (CancelledError / ServerBacklogFull), passing a notification on *)
| CancelNotified  (* a waiter is cancelled / times out after it was notified: when it runs it leaves, passing it on *)
| Spurious.       (* a notify() nobody was waiting for (a caller whose remaining patience was already <= 0) *)

(* notify(): one waiting caller, if any, becomes notified *)
Definition notify (s : state) : state :=
  match w s with
  | 0 => s
  | S w' => {| b := b s; p := p s; w := w'; n := S (n s); lv := lv s; served := served s; gone := gone s |}
  end.

Definition step (g : cfg) (s : state) (l : label) : option (state * nat) :=
  match l with
  | Arrive =>
      if b s <? cap g
      then Some ({| b := S (b s); p := p s; w := w s; n := n s; lv := lv s; served := S (served s); gone := gone s |}, 0)
      else Some ({| b := b s; p := p s; w := S (w s); n := n s; lv := lv s; served := served s; gone := gone s |}, 0)
  | Pop =>
      match b s with
      | 0 => None
      | S b' => Some ({| b := b'; p := S (p s); w := w s; n := n s; lv := lv s; served := served s; gone := gone s |}, 1)
      end
  | Notify =>
      match p s with
      | 0 => None
      | S p' => Some (notify {| b := b s; p := p'; w := w s; n := n s; lv := lv s; served := served s; gone := gone s |}, 5)
      end
  | Run =>
      match n s with
      | 0 => None
      | S n' => if b s <? cap g
                then Some ({| b := S (b s); p := p s; w := w s; n := n'; lv := lv s; served := S (served s); gone := gone s |}, 2)
                else Some ({| b := b s; p := p s; w := S (w s); n := n'; lv := lv s; served := served s; gone := gone s |}, 2)
      end
  | FutCancel =>
      match w s with
      | 0 => None
      | S w' => Some ({| b := b s; p := p s; w := w'; n := n s; lv := S (lv s); served := served s; gone := gone s |}, 3)
      end
  | Leave =>
      match lv s with
      | 0 => None
      | S l' => let s' := {| b := b s; p := p s; w := w s; n := n s; lv := l'; served := served s; gone := S (gone s) |} in
                Some (if pass_on g then notify s' else s', 6)
      end
  | CancelNotified =>
      match n s with
      | 0 => None
      | S n' => let s' := {| b := b s; p := p s; w := w s; n := n'; lv := lv s; served := served s; gone := S (gone s) |} in
                Some (if pass_on g then notify s' else s', 4)
      end
  | Spurious => Some (notify s, 7)
  end.

(* a caller waits in front of free room and no wake-up is on its way: only its own timeout will end the wait *)
Definition starving (g : cfg) (s : state) : bool :=
  (0 <? w s) && (n s =? 0) && (p s =? 0) && (b s <? cap g).
