(* Executable model of the sequential stream operators of mpservice.streamer._streamer
   (Mapper, Filter, Header, Tailer, Grouper, Batcher, Unbatcher, Shuffler: lines 664-897; the Stream
   methods filter_exceptions, peek, accumulate: 220-570) as push transducers that mirror each
   generator's loop body and post-loop code, over "scripts" (finite element list + how the
   upstream ends). buffer and parmap appear with the sequential behaviour established for them by
   C01/C05 (identity / in-order map); they are executed for real in the correspondence check.
   No proofs in this file. *)
From Coq Require Export List ZArith Bool.
Export ListNotations.
Open Scope Z_scope.

Inductive elem :=
| I (z : Z)            (* an int *)
| N                    (* None *)
| X (k : Z)            (* an exception object of class/code k *)
| L (l : list elem)    (* a list *)
| P (a b : elem).      (* a 2-tuple *)

Inductive ending := End | Raise (e : Z).
Definition stream := (list elem * ending)%type.

Inductive fres := FOk (y : elem) | FErr (e : Z).      (* result of a user function *)
Inductive pres := POk (b : bool) | PErr (e : Z).      (* result of a predicate *)

Inductive op :=
| OMap (f : elem -> fres)
| OFilter (p : elem -> pres)
| OFilterExc (drop keep : Z -> bool)
| OPeek
| OHead (n : nat)
| OTail (n : nat)
| OBatch (n : nat)
| OUnbatch
| OGroupby (key : elem -> fres) (keq : elem -> elem -> bool)
| OAccum (f : elem -> elem -> fres) (init : option elem)
| OBuffer (n : nat)
| OParmap (f : elem -> fres) (return_x return_exc : bool)
| OShuffle (n : nat) (draws : list nat) (perm : list elem -> list elem).

(* what a generator's loop body does with one element *)
Inductive status := Continue | Stop | Fail (e : Z).

(* operator state *)
Inductive ostate :=
| SNone
| SCount (n : nat)                       (* Header *)
| SList (l : list elem)                  (* Tailer window / Batcher batch / Shuffler buffer *)
| SGroup (cur : option (elem * list elem))
| SAcc (z : option elem)
| SShuf (buf : list elem) (draws : list nat).

Definition init_state (o : op) : ostate :=
  match o with
  | OHead _ => SCount 0
  | OTail _ | OBatch _ => SList []
  | OGroupby _ _ => SGroup None
  | OAccum _ i => SAcc i
  | OShuffle _ d _ => SShuf [] d
  | _ => SNone
  end.

Definition TYPE_ERROR : Z := 90.   (* `yield from x` on a non-iterable *)

Fixpoint set_nth (n : nat) (x : elem) (l : list elem) : list elem :=
  match l, n with
  | [], _ => []
  | _ :: t, O => x :: t
  | h :: t, S m => h :: set_nth m x t
  end.

(* deque(maxlen=n).append *)
Definition push_window (n : nat) (w : list elem) (x : elem) : list elem :=
  let w' := w ++ [x] in
  if (n <? length w')%nat then tl w' else w'.

Definition on_elem (o : op) (s : ostate) (x : elem) : ostate * list elem * status :=
  match o, s with
  | OMap f, _ => match f x with FOk y => (s, [y], Continue) | FErr e => (s, [], Fail e) end
  | OFilter p, _ =>
      match p x with
      | POk true => (s, [x], Continue)
      | POk false => (s, [], Continue)
      | PErr e => (s, [], Fail e)
      end
  | OFilterExc drop keep, _ =>
      match x with
      | X k => if keep k then (s, [x], Continue)
               else if drop k then (s, [], Continue)
               else (s, [], Fail k)                 (* `raise x` *)
      | _ => (s, [x], Continue)
      end
  | OPeek, _ | OBuffer _, _ => (s, [x], Continue)
  | OHead n, SCount c => (SCount (S c), [x], if (n <=? S c)%nat then Stop else Continue)   (* yield, count, stop at n: the n+1-th element is never pulled (n >= 1 asserted by the constructor) *)
  | OTail n, SList w => (SList (push_window n w x), [], Continue)
  | OBatch n, SList b =>
      let b' := b ++ [x] in
      if (length b' =? n)%nat then (SList [], [L b'], Continue) else (SList b', [], Continue)
  | OUnbatch, _ =>
      match x with
      | L l => (s, l, Continue)
      | P a b => (s, [a; b], Continue)
      | _ => (s, [], Fail TYPE_ERROR)
      end
  | OGroupby key keq, SGroup cur =>
      match key x with
      | FErr e => (s, [], Fail e)
      | FOk k =>
          match cur with
          | None => (SGroup (Some (k, [x])), [], Continue)
          | Some (k0, g) =>
              if keq k0 k then (SGroup (Some (k0, g ++ [x])), [], Continue)
              else (SGroup (Some (k, [x])), [P k0 (L g)], Continue)
          end
      end
  | OAccum f _, SAcc z =>
      match z with
      | None => (SAcc (Some x), [x], Continue)
      | Some a => match f a x with
                  | FOk y => (SAcc (Some y), [y], Continue)
                  | FErr e => (s, [], Fail e)
                  end
      end
  | OParmap f rx re, _ =>
      match f x with
      | FOk y => (s, [if rx then P x y else y], Continue)
      | FErr e => if re then (s, [if rx then P x (X e) else X e], Continue) else (s, [], Fail e)
      end
  | OShuffle n _ _, SShuf buf dr =>
      if (length buf <? n)%nat then (SShuf (buf ++ [x]) dr, [], Continue)
      else
        let idx := ((match dr with d :: _ => d | [] => O end) mod n)%nat in
        (SShuf (set_nth idx x buf) (tl dr), [nth idx buf N], Continue)
  | _, _ => (s, [], Fail (-1))       (* unreachable: state of the wrong shape *)
  end.

(* post-loop code, run when the upstream is exhausted *)
Definition on_end (o : op) (s : ostate) : list elem :=
  match o, s with
  | OTail _, SList w => w
  | OBatch _, SList b => match b with [] => [] | _ => [L b] end
  | OGroupby _ _, SGroup (Some (k, g)) => [P k (L g)]
  | OShuffle _ _ perm, SShuf buf _ => match buf with [] => [] | _ => perm buf end
  | _, _ => []
  end.

(* drive one operator over a script; also counts how many upstream elements were pulled *)
Fixpoint drive (o : op) (s : ostate) (xs : list elem) (up : ending) (pulled : nat)
  : stream * nat :=
  match xs with
  | [] => match up with
          | End => ((on_end o s, End), pulled)
          | Raise e => (([], Raise e), pulled)
          end
  | x :: rest =>
      let '(s', out, st) := on_elem o s x in
      match st with
      | Continue => let '((o2, e2), n2) := drive o s' rest up (S pulled) in ((out ++ o2, e2), n2)
      | Stop => ((out, End), S pulled)
      | Fail e => ((out, Raise e), S pulled)
      end
  end.

Definition run_op (o : op) (st : stream) : stream := fst (drive o (init_state o) (fst st) (snd st) 0).
Definition pulls_of (o : op) (st : stream) : nat := snd (drive o (init_state o) (fst st) (snd st) 0).

Definition run_pipeline (ops : list op) (st : stream) : stream := fold_left (fun acc o => run_op o acc) ops st.

(* ---- the documented sequential meaning (for parameters that do not raise) ---------------- *)

Definition total (f : elem -> fres) (g : elem -> elem) : Prop := forall x, f x = FOk (g x).

Fixpoint chunks_aux (n : nat) (cur : list elem) (xs : list elem) : list elem :=
  match xs with
  | [] => match cur with [] => [] | _ => [L cur] end
  | x :: r => let c := cur ++ [x] in
              if (length c =? n)%nat then L c :: chunks_aux n [] r else chunks_aux n c r
  end.
Definition chunks (n : nat) (xs : list elem) : list elem := chunks_aux n [] xs.

Definition lastn (n : nat) (xs : list elem) : list elem := skipn (length xs - n) xs.

Fixpoint scan (f : elem -> elem -> elem) (acc : elem) (xs : list elem) : list elem :=
  match xs with [] => [] | x :: r => let a := f acc x in a :: scan f a r end.

Definition accumulate_spec (f : elem -> elem -> elem) (init : option elem) (xs : list elem) : list elem :=
  match init with
  | Some a => scan f a xs
  | None => match xs with [] => [] | x :: r => x :: scan f x r end
  end.

Fixpoint group_aux (key : elem -> elem) (keq : elem -> elem -> bool) (cur : elem * list elem)
                   (xs : list elem) : list elem :=
  match xs with
  | [] => [P (fst cur) (L (snd cur))]
  | x :: r => if keq (fst cur) (key x) then group_aux key keq (fst cur, snd cur ++ [x]) r
              else P (fst cur) (L (snd cur)) :: group_aux key keq (key x, [x]) r
  end.
Definition groupby_spec key keq (xs : list elem) : list elem :=
  match xs with [] => [] | x :: r => group_aux key keq (key x, [x]) r end.
