(* Executable model of a batching worker (mpservice.mpserver._worker.Worker with batch_size b > 1:
   _start_batch, _build_input_batches, _get_input_batch, src/mpservice/mpserver/_worker.py:460-647)
   with its SingleLane(b + 10) buffer (src/mpservice/_queues.py:28-100), one worker, time abstracted
   (the time-out of the consumer's timed get may fire at any moment; the timed behaviour of
   _get_input_batch is the subject of Model/EagerBatcher.v).

   Threads: Env = upstream putting the configured requests and finally the stop marker into q_in,
   C = the collector thread (_build_input_batches), B = the worker's main thread (the get_input
   generator driven by Worker.stream, Worker.call and the output loop of _start_batch).
   One step = one logged operation on a shared object; the read-lock of q_in is not modelled (with a
   single worker nobody competes for it).

   [locked_check] = true is the code as it is now (the collector tests buffer.full() while holding the
   buffer's mutex and waits in a loop); false is the code before the repair recorded in
   known_findings.json (test outside the mutex, single wait): it exists only for the refutation in
   Props/C09.v.  No proofs in this file. *)
From MpV Require Export Lib.Trace.
Open Scope Z_scope.

Inductive kind := KGood | KExc | KPre.     (* a genuine input / an exception value from upstream / rejected by preprocess *)

Record cfg := {
  bsize : nat;                     (* > 1 *)
  reqs : list kind;                (* request i (0-based) has uid i+1 *)
  poison : list nat;               (* call raises when its batch contains one of these uids *)
  locked_check : bool
}.

Definition cap (g : cfg) : nat := bsize g + 10.

Inductive msg := Item (u : nat) (k : kind) | Stop.
Inductive omsg := ORes (u : nat) | OErr (u : nat) | OStop.

Inductive cpc :=
| CFull                 (* while buffer.full(): ...      (reads the length) *)
| CFullWait             (* inside _not_full.wait() *)
| CEnterWait            (* old code only: saw full, about to take the mutex and wait *)
| CGet                  (* z = q_in.get() *)
| CProc (m : msg)       (* dispatch on z *)
| CStop1                (* q_in.put(None); the collector does not put the marker into q_out (repair N1) *)
| CMore                 (* not q_in.empty() *)
| CMoreQ                (* buffer.qsize() < batchsize *)
| CFlag                 (* _batch_get_called.is_set() *)
| CClear                (* _batch_get_called.clear() *)
| CSize                 (* buffer.qsize() >= batchsize *)
| CDone.

Inductive bpc :=
| BIdle                          (* out = buffer.get() *)
| BColl (l : list nat)           (* buffer.get(timeout=...) with n < batchsize *)
| BPutBack (l : list nat)        (* buffer.put(None) *)
| BSet (l : list nat)            (* _batch_get_called.set() *)
| BCall (l : list nat)           (* self.call(batch) *)
| BOut (failed : bool) (l : list nat)   (* q_out.put((uid, y)) for the rest of the batch *)
| BStop1 | BStop2
| BDone.

Record state := {
  env_next : nat;
  qin : list msg;
  buf : list msg;
  qout : list omsg;
  cp : cpc; bp : bpc;
  flag : bool;                  (* _batch_get_called *)
  woken : bool;                 (* a notify reached the collector waiting on _not_full *)
  calls : list (list nat)       (* history: the argument of every call so far *)
}.

Definition init (g : cfg) : state :=
  {| env_next := 0; qin := []; buf := []; qout := []; cp := CFull; bp := BIdle;
     flag := false; woken := false; calls := [] |}.

Inductive label := Env | C | Csilent | B (expire : bool).
Definition T_ENV := 0%nat.
Definition T_C := 1%nat.
Definition T_B := 2%nat.

Definition OP_BQIN_PUT := 110%nat.    (* val = uid or V_END *)
Definition OP_BQIN_GET := 111%nat.
Definition OP_BQIN_EMPTY := 112%nat.  (* val = 0/1 *)
Definition OP_BUF_FULL := 113%nat.    (* val = 0/1 *)
Definition OP_BUF_QSIZE := 114%nat.
Definition OP_BUF_APPEND := 115%nat.  (* val = uid or V_END *)
Definition OP_BUF_POP := 116%nat.
Definition OP_BUF_TIMEOUT := 117%nat.
Definition OP_FLAG_ISSET := 118%nat.
Definition OP_FLAG_CLEAR := 119%nat.
Definition OP_FLAG_SET := 120%nat.
Definition OP_BQOUT_PUT := 121%nat.   (* val = uid*2 + (1 for an exception value), or V_END *)
Definition OP_BCALL := 122%nat.       (* val = batch length *)

Definition zn (n : nat) : Z := Z.of_nat n.
Definition zb (b : bool) : Z := if b then 1 else 0.

Definition with_cp (s : state) c :=
  {| env_next := env_next s; qin := qin s; buf := buf s; qout := qout s; cp := c; bp := bp s; flag := flag s; woken := woken s; calls := calls s |}.
Definition with_bp (s : state) b :=
  {| env_next := env_next s; qin := qin s; buf := buf s; qout := qout s; cp := cp s; bp := b; flag := flag s; woken := woken s; calls := calls s |}.

Definition is_full (g : cfg) (s : state) : bool := (cap g <=? length (buf s))%nat.

Definition msg_val (m : msg) : Z := match m with Item u _ => zn u | Stop => V_END end.

Definition step_env (g : cfg) (s : state) : option (state * event) :=
  match nth_error (reqs g) (env_next s) with
  | Some k =>
      let u := S (env_next s) in
      Some ({| env_next := S (env_next s); qin := qin s ++ [Item u k]; buf := buf s; qout := qout s; cp := cp s; bp := bp s;
               flag := flag s; woken := woken s; calls := calls s |}, mkEv T_ENV OP_BQIN_PUT (zn u))
  | None =>
      if Nat.eqb (env_next s) (length (reqs g))
      then Some ({| env_next := S (env_next s); qin := qin s ++ [Stop]; buf := buf s; qout := qout s; cp := cp s; bp := bp s;
                    flag := flag s; woken := woken s; calls := calls s |}, mkEv T_ENV OP_BQIN_PUT V_END)
      else None
  end.

Definition step_c (g : cfg) (s : state) : option (state * event) :=
  match cp s with
  | CFull =>
      if is_full g s
      then Some ({| env_next := env_next s; qin := qin s; buf := buf s; qout := qout s;
                    cp := if locked_check g then CFullWait else CEnterWait; bp := bp s; flag := flag s; woken := false; calls := calls s |},
                 mkEv T_C OP_BUF_FULL 1)
      else Some (with_cp s CGet, mkEv T_C OP_BUF_FULL 0)
  | CFullWait =>
      if woken s then
        if locked_check g then
          (* the loop re-tests under the mutex *)
          if is_full g s
          then Some ({| env_next := env_next s; qin := qin s; buf := buf s; qout := qout s; cp := CFullWait; bp := bp s;
                        flag := flag s; woken := false; calls := calls s |}, mkEv T_C OP_BUF_FULL 1)
          else Some (with_cp s CGet, mkEv T_C OP_BUF_FULL 0)
        else None     (* old code: handled by Csilent *)
      else None
  | CEnterWait => None
  | CGet =>
      match qin s with
      | [] => None
      | m :: r => Some ({| env_next := env_next s; qin := r; buf := buf s; qout := qout s; cp := CProc m; bp := bp s;
                           flag := flag s; woken := woken s; calls := calls s |}, mkEv T_C OP_BQIN_GET (msg_val m))
      end
  | CProc Stop =>
      if is_full g s then None else
      Some ({| env_next := env_next s; qin := qin s; buf := buf s ++ [Stop]; qout := qout s; cp := CStop1; bp := bp s;
               flag := flag s; woken := woken s; calls := calls s |}, mkEv T_C OP_BUF_APPEND V_END)
  | CProc (Item u KGood) =>
      if is_full g s then None else
      Some ({| env_next := env_next s; qin := qin s; buf := buf s ++ [Item u KGood]; qout := qout s; cp := CMore; bp := bp s;
               flag := flag s; woken := woken s; calls := calls s |}, mkEv T_C OP_BUF_APPEND (zn u))
  | CProc (Item u _) =>
      Some ({| env_next := env_next s; qin := qin s; buf := buf s; qout := qout s ++ [OErr u]; cp := CMore; bp := bp s;
               flag := flag s; woken := woken s; calls := calls s |}, mkEv T_C OP_BQOUT_PUT (zn u * 2 + 1))
  | CStop1 =>
      (* the collector does not forward the marker to q_out: the consumer does, after the buffered items (repair N1) *)
      Some ({| env_next := env_next s; qin := qin s ++ [Stop]; buf := buf s; qout := qout s; cp := CDone; bp := bp s;
               flag := flag s; woken := woken s; calls := calls s |}, mkEv T_C OP_BQIN_PUT V_END)
  | CMore =>
      match qin s with
      | [] => Some (with_cp s CFlag, mkEv T_C OP_BQIN_EMPTY 1)
      | _ :: _ => Some (with_cp s CMoreQ, mkEv T_C OP_BQIN_EMPTY 0)
      end
  | CMoreQ =>
      Some (with_cp s (if (length (buf s) <? bsize g)%nat then CGet else CFlag), mkEv T_C OP_BUF_QSIZE (zn (length (buf s))))
  | CFlag =>
      Some (with_cp s (if flag s then CClear else CSize), mkEv T_C OP_FLAG_ISSET (zb (flag s)))
  | CClear =>
      Some ({| env_next := env_next s; qin := qin s; buf := buf s; qout := qout s; cp := CFull; bp := bp s;
               flag := false; woken := woken s; calls := calls s |}, mkEv T_C OP_FLAG_CLEAR 0)
  | CSize =>
      Some (with_cp s (if (bsize g <=? length (buf s))%nat then CFull else CGet), mkEv T_C OP_BUF_QSIZE (zn (length (buf s))))
  | CDone => None
  end.

(* old code only: the collector, having seen the buffer full, takes the mutex and starts to wait (no
   logged operation), and leaves the wait once a notify has reached it *)
Definition step_csilent (g : cfg) (s : state) : option (state * event) :=
  if locked_check g then None else
  match cp s with
  | CEnterWait => Some (with_cp s CFullWait, mkEv T_C OP_START 0)
  | CFullWait => if woken s then Some (with_cp s CGet, mkEv T_C OP_START 1) else None
  | _ => None
  end.

(* buffer.get() pops the head and notifies _not_full: a collector inside wait() is woken *)
Definition pop_notify (s : state) : bool :=
  match cp s with CFullWait => true | _ => woken s end.

Definition has_poison (g : cfg) (l : list nat) : bool := existsb (fun u => existsb (Nat.eqb u) (poison g)) l.

Definition step_b (g : cfg) (s : state) (expire : bool) : option (state * event) :=
  match bp s, expire with
  | BIdle, false =>
      match buf s with
      | [] => None
      | m :: r =>
          Some ({| env_next := env_next s; qin := qin s; buf := r; qout := qout s; cp := cp s;
                   bp := match m with Stop => BStop1 | Item u _ => BColl [u] end;
                   flag := flag s; woken := pop_notify s; calls := calls s |}, mkEv T_B OP_BUF_POP (msg_val m))
      end
  | BColl l, false =>
      match buf s with
      | [] => None
      | m :: r =>
          Some ({| env_next := env_next s; qin := qin s; buf := r; qout := qout s; cp := cp s;
                   bp := match m with
                         | Stop => BPutBack l
                         | Item u _ => if (S (length l) <? bsize g)%nat then BColl (l ++ [u]) else BSet (l ++ [u])
                         end;
                   flag := flag s; woken := pop_notify s; calls := calls s |}, mkEv T_B OP_BUF_POP (msg_val m))
      end
  | BColl l, true => Some (with_bp s (BSet l), mkEv T_B OP_BUF_TIMEOUT 0)
  | BPutBack l, false =>
      if is_full g s then None else
      Some ({| env_next := env_next s; qin := qin s; buf := buf s ++ [Stop]; qout := qout s; cp := cp s; bp := BSet l;
               flag := flag s; woken := woken s; calls := calls s |}, mkEv T_B OP_BUF_APPEND V_END)
  | BSet l, false =>
      Some ({| env_next := env_next s; qin := qin s; buf := buf s; qout := qout s; cp := cp s; bp := BCall l;
               flag := true; woken := woken s; calls := calls s |}, mkEv T_B OP_FLAG_SET 0)
  | BCall l, false =>
      Some ({| env_next := env_next s; qin := qin s; buf := buf s; qout := qout s; cp := cp s; bp := BOut (has_poison g l) l;
               flag := flag s; woken := woken s; calls := calls s ++ [l] |}, mkEv T_B OP_BCALL (zn (length l)))
  | BOut f (u :: r), false =>
      Some ({| env_next := env_next s; qin := qin s; buf := buf s; qout := qout s ++ [if f then OErr u else ORes u]; cp := cp s;
               bp := match r with [] => BIdle | _ => BOut f r end;
               flag := flag s; woken := woken s; calls := calls s |}, mkEv T_B OP_BQOUT_PUT (zn u * 2 + zb f))
  | BStop1, false =>
      Some ({| env_next := env_next s; qin := qin s ++ [Stop]; buf := buf s; qout := qout s; cp := cp s; bp := BStop2;
               flag := flag s; woken := woken s; calls := calls s |}, mkEv T_B OP_BQIN_PUT V_END)
  | BStop2, false =>
      Some ({| env_next := env_next s; qin := qin s; buf := buf s; qout := qout s ++ [OStop]; cp := cp s; bp := BDone;
               flag := flag s; woken := woken s; calls := calls s |}, mkEv T_B OP_BQOUT_PUT V_END)
  | _, _ => None
  end.

Definition step (g : cfg) (s : state) (l : label) : option (state * event) :=
  match l with
  | Env => step_env g s
  | C => step_c g s
  | Csilent => step_csilent g s
  | B ex => step_b g s ex
  end.

(* -- vocabulary of the statements --------------------------------------------------------------- *)

(* uids of the genuine inputs among the first n requests, in arrival order *)
Fixpoint good_from (i : nat) (ks : list kind) : list nat :=
  match ks with
  | [] => []
  | KGood :: r => S i :: good_from (S i) r
  | _ :: r => good_from (S i) r
  end.
Definition good_uids (g : cfg) (n : nat) : list nat := good_from 0 (firstn n (reqs g)).

Definition msg_good (m : msg) : list nat := match m with Item u KGood => [u] | _ => [] end.
Definition goods (l : list msg) : list nat := flat_map msg_good l.

Definition all_done (g : cfg) (s : state) : bool :=
  match cp s, bp s with CDone, BDone => Nat.ltb (length (reqs g)) (env_next s) | _, _ => false end.

Definition stuck (g : cfg) (s : state) : bool :=
  match step g s Env, step g s C, step g s Csilent, step g s (B false), step g s (B true) with
  | None, None, None, None, None => true
  | _, _, _, _, _ => false
  end.
