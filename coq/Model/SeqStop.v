(* Executable model of stopping a two-stage SequentialServlet while requests are still in flight, with a connecting
   pipe that cannot hold a result (a result larger than the OS pipe buffer: the writer's put completes only when the
   reader is waiting in get; the tiny stop marker always fits).
     SequentialServlet.stop (src/mpservice/mpserver/_servlet.py:467-473): for s in servlets: s.stop()
     ThreadServlet/ProcessServlet.stop (376-383, 255-262): q_in.put(None); join every worker
     Worker._start_single (src/mpservice/mpserver/_worker.py:410-458): z = q_in.get(); None -> q_in.put(None),
       q_out.put(None), return; else q_out.put((uid, call(x)))
     Server._gather_output: reads the last queue until the marker.
   Threads: M = the thread in stop(); A i = worker i of the first stage (nw of them); B = the single worker of the second
   stage; Out = the reader of the output queue (the server's gather thread).
   [reverse = true] is the stop order of the seeded change (last stage first); the code as it is has [reverse = false].
   One step = one queue operation or join. No proofs in this file. *)
From MpV Require Export Lib.Trace.
Open Scope Z_scope.

Record cfg := {
  nw : nat;                  (* workers of the first stage *)
  pending : list Z;          (* requests still in the first stage's input queue when stop() begins *)
  reverse : bool
}.

Inductive msg := Item (x : Z) | Stop.

Inductive mpc :=
| MPutA                      (* stage 1: q_in.put(None) *)
| MJoinA (i : nat)           (* join worker i of stage 1 *)
| MPutB                      (* stage 2: q_in.put(None) *)
| MJoinB
| MDone.

Inductive wpc :=
| WGet                       (* z = q_in.get() *)
| WHold (x : Z)              (* q_out.put((uid, call(x))) *)
| WRebroadcast               (* q_in.put(None) *)
| WFwd                       (* q_out.put(None) *)
| WDone.

Inductive bpc :=
| BGet                       (* enters q_in.get(): from now on a writer's put can complete *)
| BWaiting                   (* inside get *)
| BHold (x : Z)
| BRebroadcast | BFwd | BDone.

Inductive opc := OGet | ODone.

Record state := {
  mp : mpc; ap : list wpc; bp : bpc; op : opc;
  q0 : list msg;             (* input queue of stage 1 (its contents when stop() begins: the abandoned requests) *)
  q1 : list msg;             (* the pipe between the stages *)
  q2 : list msg;             (* output queue (small results) *)
  delivered : list Z         (* results the gather thread has taken *)
}.

Definition first_m (g : cfg) : mpc := if reverse g then MPutB else MPutA.

Definition init (g : cfg) : state :=
  {| mp := first_m g; ap := repeat WGet (nw g); bp := BGet; op := OGet;
     q0 := map Item (pending g); q1 := []; q2 := []; delivered := [] |}.

Inductive label := M | A (i : nat) | B | Out.
Definition T_M := 0%nat.
Definition T_A (i : nat) := (10 + i)%nat.
Definition T_B := 5%nat.
Definition T_O := 6%nat.

Definition OP_Q0_PUT := 130%nat.
Definition OP_Q0_GET := 131%nat.
Definition OP_Q1_PUT := 132%nat.
Definition OP_Q1_WAIT := 133%nat.     (* the reader enters get *)
Definition OP_Q1_GET := 134%nat.
Definition OP_Q2_PUT := 135%nat.
Definition OP_Q2_GET := 136%nat.

Definition mval (m : msg) : Z := match m with Item x => x | Stop => V_END end.

Fixpoint set_nth {A} (n : nat) (x : A) (l : list A) : list A :=
  match l, n with
  | [], _ => []
  | _ :: t, O => x :: t
  | h :: t, S m => h :: set_nth m x t
  end.

Definition upd_m s v := {| mp := v; ap := ap s; bp := bp s; op := op s; q0 := q0 s; q1 := q1 s; q2 := q2 s; delivered := delivered s |}.
Definition upd_a s i v := {| mp := mp s; ap := set_nth i v (ap s); bp := bp s; op := op s; q0 := q0 s; q1 := q1 s; q2 := q2 s; delivered := delivered s |}.
Definition upd_b s v := {| mp := mp s; ap := ap s; bp := v; op := op s; q0 := q0 s; q1 := q1 s; q2 := q2 s; delivered := delivered s |}.
Definition set_q0 s v := {| mp := mp s; ap := ap s; bp := bp s; op := op s; q0 := v; q1 := q1 s; q2 := q2 s; delivered := delivered s |}.
Definition set_q1 s v := {| mp := mp s; ap := ap s; bp := bp s; op := op s; q0 := q0 s; q1 := v; q2 := q2 s; delivered := delivered s |}.
Definition set_q2 s v := {| mp := mp s; ap := ap s; bp := bp s; op := op s; q0 := q0 s; q1 := q1 s; q2 := v; delivered := delivered s |}.

Definition a_done (p : wpc) : bool := match p with WDone => true | _ => false end.

(* after stage 1 / stage 2 has been stopped, what comes next depends on the order *)
Definition after_a (g : cfg) : mpc := if reverse g then MDone else MPutB.
Definition after_b (g : cfg) : mpc := if reverse g then MPutA else MDone.

Definition step_m (g : cfg) (s : state) : option (state * event) :=
  match mp s with
  | MPutA => Some (upd_m (set_q0 s (q0 s ++ [Stop])) (match nw g with 0%nat => after_a g | S _ => MJoinA 0 end), mkEv T_M OP_Q0_PUT V_END)
  | MJoinA i =>
      match nth_error (ap s) i with
      | Some WDone => Some (upd_m s (if (S i <? nw g)%nat then MJoinA (S i) else after_a g), mkEv T_M OP_JOIN (Z.of_nat i))
      | _ => None
      end
  | MPutB => Some (upd_m (set_q1 s (q1 s ++ [Stop])) MJoinB, mkEv T_M OP_Q1_PUT V_END)   (* the marker always fits *)
  | MJoinB => match bp s with
              | BDone => Some (upd_m s (after_b g), mkEv T_M OP_JOIN 100)
              | _ => None
              end
  | MDone => None
  end.

Definition step_a (g : cfg) (s : state) (i : nat) : option (state * event) :=
  match nth_error (ap s) i with
  | Some WGet =>
      match q0 s with
      | [] => None
      | Item x :: r => Some (upd_a (set_q0 s r) i (WHold x), mkEv (T_A i) OP_Q0_GET x)
      | Stop :: r => Some (upd_a (set_q0 s r) i WRebroadcast, mkEv (T_A i) OP_Q0_GET V_END)
      end
  | Some (WHold x) =>
      (* a result does not fit the pipe: the put completes only into the hands of a reader waiting in get *)
      match bp s, q1 s with
      | BWaiting, [] => Some (upd_a (set_q1 s [Item x]) i WGet, mkEv (T_A i) OP_Q1_PUT x)
      | _, _ => None
      end
  | Some WRebroadcast => Some (upd_a (set_q0 s (q0 s ++ [Stop])) i WFwd, mkEv (T_A i) OP_Q0_PUT V_END)
  | Some WFwd => Some (upd_a (set_q1 s (q1 s ++ [Stop])) i WDone, mkEv (T_A i) OP_Q1_PUT V_END)
  | _ => None
  end.

Definition step_b (g : cfg) (s : state) : option (state * event) :=
  match bp s with
  | BGet => Some (upd_b s BWaiting, mkEv T_B OP_Q1_WAIT 0)
  | BWaiting =>
      match q1 s with
      | [] => None
      | Item x :: r => Some (upd_b (set_q1 s r) (BHold x), mkEv T_B OP_Q1_GET x)
      | Stop :: r => Some (upd_b (set_q1 s r) BRebroadcast, mkEv T_B OP_Q1_GET V_END)
      end
  | BHold x => Some (upd_b (set_q2 s (q2 s ++ [Item x])) BGet, mkEv T_B OP_Q2_PUT x)
  | BRebroadcast => Some (upd_b (set_q1 s (q1 s ++ [Stop])) BFwd, mkEv T_B OP_Q1_PUT V_END)
  | BFwd => Some (upd_b (set_q2 s (q2 s ++ [Stop])) BDone, mkEv T_B OP_Q2_PUT V_END)
  | BDone => None
  end.

Definition step_o (g : cfg) (s : state) : option (state * event) :=
  match op s with
  | OGet =>
      match q2 s with
      | [] => None
      | Item x :: r =>
          Some ({| mp := mp s; ap := ap s; bp := bp s; op := OGet; q0 := q0 s; q1 := q1 s; q2 := r; delivered := delivered s ++ [x] |},
                mkEv T_O OP_Q2_GET x)
      | Stop :: r =>
          Some ({| mp := mp s; ap := ap s; bp := bp s; op := ODone; q0 := q0 s; q1 := q1 s; q2 := r; delivered := delivered s |},
                mkEv T_O OP_Q2_GET V_END)
      end
  | ODone => None
  end.

Definition step (g : cfg) (s : state) (l : label) : option (state * event) :=
  match l with M => step_m g s | A i => step_a g s i | B => step_b g s | Out => step_o g s end.

Definition all_a_done (s : state) : bool := forallb a_done (ap s).
Definition finished (s : state) : bool :=
  match mp s, bp s, op s with MDone, BDone, ODone => all_a_done s | _, _, _ => false end.

(* nobody can move *)
Definition stuck (g : cfg) (s : state) : bool :=
  match step_m g s, step_b g s, step_o g s with
  | None, None, None => forallb (fun i => match step_a g s i with None => true | Some _ => false end) (seq 0 (nw g))
  | _, _, _ => false
  end.
