(* Executable model of method calls on objects hosted in a ServerProcess
   (src/mpservice/multiprocessing/server_process.py: Server._callmethod 303-334, BaseProxy._callmethod 646-675,
   managed 879-921) with the hosted objects as the Python containers they are: list, dict (insertion ordered),
   Value, and a custom class whose methods return managed() values.

   A request names a hosted object (whatever proxy, thread or process it comes from, it carries only the id) and
   an operation; the server applies the operation to that object and answers #RETURN value, #ERROR exception or
   a proxy to a newly hosted value. Elements, keys and values are integers. No proofs in this file. *)
From Coq Require Export List ZArith Bool.
Export ListNotations.
Open Scope Z_scope.

Inductive val := VInt (z : Z) | VNone | VBool (b : bool) | VList (l : list Z) | VPairs (l : list (Z * Z)).

(* exception classes *)
Definition E_INDEX := 1%nat.
Definition E_VALUE := 2%nat.
Definition E_KEY := 3%nat.
Definition E_ATTR := 4%nat.

Inductive resp := ROk (v : val) | RErr (cls : nat) (arg : option Z) | RProxy (id : nat).

Inductive obj :=
| OList (l : list Z)
| ODict (d : list (Z * Z))           (* insertion order, keys unique *)
| OValue (z : Z)
| OFactory (made : list nat)         (* ids of the values it has handed out through managed() *)
| ONs (attrs : list (Z * Z)).        (* a Namespace: attribute number -> value *)

Inductive op :=
(* list *)
| LAppend (x : Z) | LExtend (xs : list Z) | LInsert (i x : Z) | LPop | LPopAt (i : Z) | LRemove (x : Z) | LIndex (x : Z)
| LCount (x : Z) | LLen | LGet (i : Z) | LSet (i x : Z) | LDel (i : Z) | LContains (x : Z) | LReverse | LSort
| LAdd (xs : list Z) | LMul (k : Z)
| LIMul (k : Z) | LIAdd (xs : list Z)      (* x *= k, x += xs: in place; the name stays bound to the same object *)
| LIter                                   (* [e for e in x] *)
(* dict *)
| DSet (k v : Z) | DGet (k : Z) | DDel (k : Z) | DPop (k : Z) | DPopD (k d : Z) | DGetD (k d : Z) | DGetN (k : Z) | DLen
| DContains (k : Z) | DClear | DSetDefault (k d : Z) | DUpdate (kvs : list (Z * Z)) | DPopItem | DCopy
| DIter | DKeys | DValues | DItems
(* Namespace *)
| NSet (k v : Z) | NGet (k : Z) | NDel (k : Z)
(* Value *)
| VGet | VSet (z : Z)
(* custom class *)
| FMakeList (xs : list Z) | FPeek (i : nat) | FNMade | FFail (code : Z).

(* ---- Python list semantics ---------------------------------------------------------------------- *)
Definition zlen {A} (l : list A) : Z := Z.of_nat (length l).

(* index normalisation of l[i]: Some position or None when out of range *)
Definition norm_index {A} (l : list A) (i : Z) : option nat :=
  let j := if i <? 0 then i + zlen l else i in
  if (j <? 0) || (zlen l <=? j) then None else Some (Z.to_nat j).

Fixpoint remove_at {A} (n : nat) (l : list A) : list A :=
  match l, n with
  | [], _ => []
  | _ :: t, O => t
  | h :: t, S m => h :: remove_at m t
  end.

Fixpoint set_at {A} (n : nat) (x : A) (l : list A) : list A :=
  match l, n with
  | [], _ => []
  | _ :: t, O => x :: t
  | h :: t, S m => h :: set_at m x t
  end.

Fixpoint insert_at {A} (n : nat) (x : A) (l : list A) : list A :=
  match n, l with
  | O, _ => x :: l
  | S m, [] => [x]
  | S m, h :: t => h :: insert_at m x t
  end.

Fixpoint remove_first (x : Z) (l : list Z) : option (list Z) :=
  match l with
  | [] => None
  | h :: t => if h =? x then Some t else match remove_first x t with Some t' => Some (h :: t') | None => None end
  end.

Fixpoint index_of (x : Z) (l : list Z) (i : nat) : option nat :=
  match l with
  | [] => None
  | h :: t => if h =? x then Some i else index_of x t (S i)
  end.

Fixpoint insert_sorted (x : Z) (l : list Z) : list Z :=
  match l with
  | [] => [x]
  | h :: t => if x <? h then x :: l else h :: insert_sorted x t      (* after equal elements: a stable sort *)
  end.
Definition sort (l : list Z) : list Z := fold_left (fun acc x => insert_sorted x acc) l [].

Definition repeat_list (l : list Z) (k : Z) : list Z := concat (repeat l (Z.to_nat k)).

Definition apply_list (l : list Z) (o : op) : option (list Z * resp) :=
  match o with
  | LAppend x => Some (l ++ [x], ROk VNone)
  | LExtend xs => Some (l ++ xs, ROk VNone)
  | LInsert i x =>
      let j := if i <? 0 then Z.max 0 (i + zlen l) else Z.min i (zlen l) in
      Some (insert_at (Z.to_nat j) x l, ROk VNone)
  | LPop =>
      match rev l with
      | [] => Some (l, RErr E_INDEX None)
      | x :: r => Some (rev r, ROk (VInt x))
      end
  | LPopAt i =>
      match norm_index l i with
      | Some n => Some (remove_at n l, ROk (VInt (nth n l 0)))
      | None => Some (l, RErr E_INDEX None)
      end
  | LRemove x =>
      match remove_first x l with
      | Some l' => Some (l', ROk VNone)
      | None => Some (l, RErr E_VALUE None)
      end
  | LIndex x =>
      match index_of x l 0 with
      | Some n => Some (l, ROk (VInt (Z.of_nat n)))
      | None => Some (l, RErr E_VALUE None)
      end
  | LCount x => Some (l, ROk (VInt (zlen (filter (Z.eqb x) l))))
  | LLen => Some (l, ROk (VInt (zlen l)))
  | LGet i =>
      match norm_index l i with
      | Some n => Some (l, ROk (VInt (nth n l 0)))
      | None => Some (l, RErr E_INDEX None)
      end
  | LSet i x =>
      match norm_index l i with
      | Some n => Some (set_at n x l, ROk VNone)
      | None => Some (l, RErr E_INDEX None)
      end
  | LDel i =>
      match norm_index l i with
      | Some n => Some (remove_at n l, ROk VNone)
      | None => Some (l, RErr E_INDEX None)
      end
  | LContains x => Some (l, ROk (VBool (existsb (Z.eqb x) l)))
  | LReverse => Some (rev l, ROk VNone)
  | LSort => Some (sort l, ROk VNone)
  | LAdd xs => Some (l, ROk (VList (l ++ xs)))
  | LMul k => Some (l, ROk (VList (repeat_list l k)))
  | LIMul k => Some (repeat_list l k, ROk VNone)
  | LIAdd xs => Some (l ++ xs, ROk VNone)
  | LIter => Some (l, ROk (VList l))
  | _ => None
  end.

(* ---- Python dict semantics (insertion ordered) -------------------------------------------------- *)
Fixpoint d_get (k : Z) (d : list (Z * Z)) : option Z :=
  match d with
  | [] => None
  | (k', v) :: t => if k' =? k then Some v else d_get k t
  end.
Fixpoint d_set (k v : Z) (d : list (Z * Z)) : list (Z * Z) :=
  match d with
  | [] => [(k, v)]
  | (k', v') :: t => if k' =? k then (k', v) :: t else (k', v') :: d_set k v t      (* an existing key keeps its position *)
  end.
Definition d_del (k : Z) (d : list (Z * Z)) : list (Z * Z) := filter (fun kv => negb (fst kv =? k)) d.

Definition apply_dict (d : list (Z * Z)) (o : op) : option (list (Z * Z) * resp) :=
  match o with
  | DSet k v => Some (d_set k v d, ROk VNone)
  | DGet k => match d_get k d with Some v => Some (d, ROk (VInt v)) | None => Some (d, RErr E_KEY (Some k)) end
  | DDel k => match d_get k d with Some _ => Some (d_del k d, ROk VNone) | None => Some (d, RErr E_KEY (Some k)) end
  | DPop k => match d_get k d with Some v => Some (d_del k d, ROk (VInt v)) | None => Some (d, RErr E_KEY (Some k)) end
  | DPopD k x => match d_get k d with Some v => Some (d_del k d, ROk (VInt v)) | None => Some (d, ROk (VInt x)) end
  | DGetD k x => match d_get k d with Some v => Some (d, ROk (VInt v)) | None => Some (d, ROk (VInt x)) end
  | DGetN k => match d_get k d with Some v => Some (d, ROk (VInt v)) | None => Some (d, ROk VNone) end
  | DLen => Some (d, ROk (VInt (zlen d)))
  | DContains k => Some (d, ROk (VBool (match d_get k d with Some _ => true | None => false end)))
  | DClear => Some ([], ROk VNone)
  | DSetDefault k x => match d_get k d with Some v => Some (d, ROk (VInt v)) | None => Some (d_set k x d, ROk (VInt x)) end
  | DUpdate kvs => Some (fold_left (fun acc kv => d_set (fst kv) (snd kv) acc) kvs d, ROk VNone)
  | DPopItem =>
      match rev d with
      | [] => Some (d, RErr E_KEY None)
      | (k, v) :: r => Some (rev r, ROk (VPairs [(k, v)]))
      end
  | DCopy => Some (d, ROk (VPairs d))
  | DIter | DKeys => Some (d, ROk (VList (map fst d)))
  | DValues => Some (d, ROk (VList (map snd d)))
  | DItems => Some (d, ROk (VPairs d))
  | _ => None
  end.

(* ---- the server: hosted objects by id ------------------------------------------------------------ *)
Definition server := list obj.

Fixpoint set_obj (n : nat) (x : obj) (l : server) : server :=
  match l, n with
  | [], _ => []
  | _ :: t, O => x :: t
  | h :: t, S m => h :: set_obj m x t
  end.

Definition E_BADCALL := 9%nat.     (* the operation does not exist on that kind of object (AttributeError through the fallback) *)

Definition serve (s : server) (id : nat) (o : op) : server * resp :=
  match nth_error s id with
  | Some (OList l) =>
      match apply_list l o with
      | Some (l', r) => (set_obj id (OList l') s, r)
      | None => (s, RErr E_BADCALL None)
      end
  | Some (ODict d) =>
      match apply_dict d o with
      | Some (d', r) => (set_obj id (ODict d') s, r)
      | None => (s, RErr E_BADCALL None)
      end
  | Some (OValue z) =>
      match o with
      | VGet => (s, ROk (VInt z))
      | VSet z' => (set_obj id (OValue z') s, ROk VNone)
      | _ => (s, RErr E_BADCALL None)
      end
  | Some (ONs a) =>
      match o with
      | NSet k v => (set_obj id (ONs (d_set k v a)) s, ROk VNone)
      | NGet k => match d_get k a with Some v => (s, ROk (VInt v)) | None => (s, RErr E_ATTR None) end
      | NDel k => match d_get k a with Some _ => (set_obj id (ONs (d_del k a)) s, ROk VNone) | None => (s, RErr E_ATTR None) end
      | _ => (s, RErr E_BADCALL None)
      end
  | Some (OFactory made) =>
      match o with
      | FMakeList xs => (set_obj id (OFactory (made ++ [length s])) s ++ [OList xs], RProxy (length s))
      | FPeek i =>
          match nth_error made i with
          | Some j => match nth_error s j with
                      | Some (OList l) => (s, ROk (VList l))
                      | _ => (s, RErr E_INDEX None)
                      end
          | None => (s, RErr E_INDEX None)
          end
      | FNMade => (s, ROk (VInt (zlen made)))
      | FFail c => (s, RErr E_KEY (Some c))
      | _ => (s, RErr E_BADCALL None)
      end
  | None => (s, RErr E_BADCALL None)
  end.

(* a history: requests in the order the server handles them; the answers in the same order *)
Fixpoint run (s : server) (reqs : list (nat * op)) : server * list resp :=
  match reqs with
  | [] => (s, [])
  | (id, o) :: rest =>
      let '(s1, r) := serve s id o in
      let '(s2, rs) := run s1 rest in
      (s2, r :: rs)
  end.

(* the same operations called directly on one object, one after the other *)
Definition apply_plain (x : obj) (o : op) : obj * resp :=
  match x with
  | OList l => match apply_list l o with Some (l', r) => (OList l', r) | None => (x, RErr E_BADCALL None) end
  | ODict d => match apply_dict d o with Some (d', r) => (ODict d', r) | None => (x, RErr E_BADCALL None) end
  | OValue z => match o with VGet => (x, ROk (VInt z)) | VSet z' => (OValue z', ROk VNone) | _ => (x, RErr E_BADCALL None) end
  | OFactory _ => (x, RErr E_BADCALL None)
  | ONs a =>
      match o with
      | NSet k v => (ONs (d_set k v a), ROk VNone)
      | NGet k => match d_get k a with Some v => (x, ROk (VInt v)) | None => (x, RErr E_ATTR None) end
      | NDel k => match d_get k a with Some _ => (ONs (d_del k a), ROk VNone) | None => (x, RErr E_ATTR None) end
      | _ => (x, RErr E_BADCALL None)
      end
  end.

Fixpoint direct (x : obj) (ops : list op) : obj * list resp :=
  match ops with
  | [] => (x, [])
  | o :: rest =>
      let '(x1, r) := apply_plain x o in
      let '(x2, rs) := direct x1 rest in
      (x2, r :: rs)
  end.

Definition is_plain (x : obj) : bool := match x with OFactory _ => false | _ => true end.
