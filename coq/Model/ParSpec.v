(* Abstract specification of the two bounds of C08 over the events an outside observer of a running parmap sees:
     Pull   the source's __next__ returned an element
     Hand   the consumer received an element
     Enter  an invocation of the worker function began (in a pool thread, a worker process or on the event loop)
     Exit   that invocation ended
   The specification accepts a history as long as, after every event, pulled - handed <= capacity + 3 and the number of
   running invocations is <= concurrency; it refuses the first event that breaks a bound (or that is impossible: a
   hand-over of something never pulled, an exit without an enter). Model/FifoStream.v refines it: its [ahead] and
   [running] are exactly these two counters and Proof/FifoProof.v bounds them in every reachable state.
   No proofs in this file. *)
From Coq Require Export List Arith.
Export ListNotations.

Inductive ev := Pull | Hand | Enter | Exit.

Record st := { pulled : nat; handed : nat; running : nat; peak_ahead : nat; peak_running : nat }.

Definition init : st := {| pulled := 0; handed := 0; running := 0; peak_ahead := 0; peak_running := 0 |}.

Definition ahead (s : st) : nat := pulled s - handed s.

(* refusal codes *)
Inductive refusal := LookAhead | Concurrency | Impossible.

Definition step (cap conc : nat) (s : st) (e : ev) : st + refusal :=
  match e with
  | Pull => if ahead s <? cap + 3
            then inl {| pulled := S (pulled s); handed := handed s; running := running s;
                        peak_ahead := Nat.max (peak_ahead s) (S (ahead s)); peak_running := peak_running s |}
            else inr LookAhead
  | Hand => if handed s <? pulled s
            then inl {| pulled := pulled s; handed := S (handed s); running := running s;
                        peak_ahead := peak_ahead s; peak_running := peak_running s |}
            else inr Impossible
  | Enter => if running s <? conc
             then inl {| pulled := pulled s; handed := handed s; running := S (running s);
                         peak_ahead := peak_ahead s; peak_running := Nat.max (peak_running s) (S (running s)) |}
             else inr Concurrency
  | Exit => match running s with
            | 0 => inr Impossible
            | S r => inl {| pulled := pulled s; handed := handed s; running := r;
                            peak_ahead := peak_ahead s; peak_running := peak_running s |}
            end
  end.

(* the state after a history, or the position and kind of the first refused event *)
Fixpoint accept (cap conc : nat) (s : st) (i : nat) (evs : list ev) : st + (nat * refusal) :=
  match evs with
  | [] => inl s
  | e :: r => match step cap conc s e with
              | inl s' => accept cap conc s' (S i) r
              | inr k => inr (i, k)
              end
  end.
