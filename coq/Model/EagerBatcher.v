(* Executable model of mpservice.streamer._streamer.EagerBatcher.__iter__
   (src/mpservice/streamer/_streamer.py:829-873) in virtual time.

   Environment (trusted, mirrored by harness/props/c19.py's virtual queue):
     - the input queue is a FIFO whose i-th message becomes available at time [atime];
     - [get()] returns the head as soon as it is available, advancing the clock to
       [max now atime];
     - [get(timeout=t)] returns the head if it is available by [now + t] (clock
       [max now atime]), and otherwise raises Empty at [now + t];
     - computation between queue operations takes no time, [perf_counter] reads the clock.

   A message is [Some z] (an item) or [None] (the end marker; the harness maps whatever
   custom marker a case uses to [None]).  No proofs in this file. *)
From Coq Require Export List ZArith Bool.
Export ListNotations.
Open Scope Z_scope.

Record arrival := { atime : Z; amsg : option Z }.

(* why a batch was yielded *)
Inductive reason := Full | GotEnd | TimedOut.

(* one emitted batch: the items and the clock value at the [yield] (both observable and
   compared with the implementation), plus history fields used only by the statements:
   [first_t] clock when the batch's first item was obtained, [last_t] clock when the last
   message consumed for it (item or end marker) was obtained, [why], and for a time-out
   the arrival time of the message then at the head of the queue ([None]: queue exhausted). *)
Record emitted := { items : list Z; etime : Z;
                    first_t : Z; last_t : Z; why : reason; nxt : option Z }.

Inductive st :=
| Idle (now : Z)                                   (* at line 836: blocking get *)
| Coll (now : Z) (batch : list Z) (deadline : Z) (t0 : Z)
                                                   (* inside the inner while, n < batchsize;
                                                      [t0] (history) = clock at the first item *)
| Ended.                                           (* generator returned *)

Record cfg := { bsize : nat; wait : Z }.

(* line 836-847: first item of a batch taken at time [now'] *)
Definition start (g : cfg) (now' : Z) (z : Z) : st * list emitted :=
  if (1 <? bsize g)%nat then (Coll now' [z] (now' + wait g) now', [])
  else (Idle now', [ {| items := [z]; etime := now'; first_t := now'; last_t := now';
                        why := Full; nxt := None |} ]).

Definition idle_step (g : cfg) (now : Z) (a : arrival) : st * list emitted :=
  let now' := Z.max now (atime a) in
  match amsg a with
  | None => (Ended, [])
  | Some z => start g now' z
  end.

Definition step (g : cfg) (s : st) (a : arrival) : st * list emitted :=
  match s with
  | Ended => (Ended, [])
  | Idle now => idle_step g now a
  | Coll now batch deadline t0 =>
      let tmo := Z.max 0 (deadline - now) in
      if atime a <=? now + tmo then
        let now' := Z.max now (atime a) in
        match amsg a with
        | None => (Ended, [ {| items := batch; etime := now'; first_t := t0; last_t := now';
                               why := GotEnd; nxt := None |} ])
        | Some z =>
            let batch' := batch ++ [z] in
            if (length batch' <? bsize g)%nat then (Coll now' batch' deadline t0, [])
            else (Idle now', [ {| items := batch'; etime := now'; first_t := t0; last_t := now';
                                  why := Full; nxt := None |} ])
        end
      else
        (* queue.Empty at now + tmo: yield the short batch, then the outer get takes [a] *)
        let now1 := now + tmo in
        let '(s', out) := idle_step g now1 a in
        (s', {| items := batch; etime := now1; first_t := t0; last_t := now;
                why := TimedOut; nxt := Some (atime a) |} :: out)
  end.

Fixpoint run_from (g : cfg) (s : st) (arr : list arrival) : st * list emitted :=
  match arr with
  | [] => (s, [])
  | a :: rest =>
      let '(s1, o1) := step g s a in
      let '(s2, o2) := run_from g s1 rest in
      (s2, o1 ++ o2)
  end.

(* When the arrivals are exhausted while a batch is open, the timed get raises Empty at the
   deadline and the batch is yielded; the generator then blocks in the outer get. *)
Definition flush (s : st) : list emitted :=
  match s with
  | Coll now batch deadline t0 =>
      [ {| items := batch; etime := now + Z.max 0 (deadline - now); first_t := t0; last_t := now;
           why := TimedOut; nxt := None |} ]
  | _ => []
  end.

Inductive status := Finished | Blocked.

Definition run (g : cfg) (arr : list arrival) : status * list emitted :=
  let '(s, o) := run_from g (Idle 0) arr in
  (match s with Ended => Finished | _ => Blocked end, o ++ flush s).

(* -- helpers used by the statements ------------------------------------------------------ *)

Fixpoint before_end (arr : list arrival) : list Z :=
  match arr with
  | [] => []
  | a :: rest => match amsg a with None => [] | Some z => z :: before_end rest end
  end.

Definition has_end (arr : list arrival) : bool :=
  existsb (fun a => match amsg a with None => true | _ => false end) arr.
