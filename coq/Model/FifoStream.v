(* Executable model of mpservice.streamer._streamer.fifo_stream (src/mpservice/streamer/_streamer.py
   966-1089) driven by a thread-pool `func` (Parmapper, 1254-1284).

   Threads: F = feeder thread (`feed`), C = the consuming thread (generator body + the consumer's
   loop), P j = pool worker j (j < conc). The SingleLane(capacity+1) hand-off queue is an atomic
   bounded FIFO; the pool is a FIFO work queue served by [conc] workers; a future is
   Pending -> Running -> Done r, or Pending -> Cancelled.
   Elements are identified by their index in the source (their i-th pull); the value of element i
   is [nth i (datas (src g))]. One step = one logged shared-object operation. No proofs here. *)
From MpV Require Export Lib.Trace.
Open Scope Z_scope.

Inductive src_item := SData (x : Z) | SRaise (e : Z) | SRaiseBase (e : Z).
Inductive res := Ok (v : Z) | Err (e : Z).
Inductive pre_res := PreOk (xx : Z) | PreErr (e : Z).

Record cfg := {
  cap : nat;                        (* capacity; the queue holds cap+1 *)
  conc : nat;                       (* pool size *)
  src : list src_item;
  call : Z -> res;                  (* the worker function, applied to the preprocessed value *)
  pre : option (Z -> pre_res);      (* the preprocessor *)
  return_x : bool;
  return_exc : bool;
  stop_after : option nat           (* the consumer breaks after receiving that many outputs *)
}.

Inductive fstate := FPending | FRunning | FFin (r : res) | FCancelled.

Inductive qitem := Task (i : nat) | QEnd | QExc (e : Z).

Inductive fpc :=
| FIdle | FNext | FChk (i : nat) | FPre (i : nat) | FSubmit (i : nat) (xx : Z) | FPut (i : nat)
| FPutExc (e : Z) | FPutEnd | FDone | FDead (e : Z).

Inductive outcome := Completed | Broke | Raised (e : Z).

Inductive cpc :=
| CStart | CGet | CWait (i : nat) | CYield (i : nat) (r : res) | CSetStop (o : outcome)
| CDrainChk (o : outcome) | CDrainGet (o : outcome) | CCancel (i : nat) (o : outcome)
| CJoin (o : outcome) | CDone (o : outcome).

Inductive ppc := PIdle | PTaken (i : nat) | PRun (i : nat).

Record state := {
  fp : fpc; cp : cpc; pp : list ppc;      (* one pc per pool worker *)
  q : list qitem;                          (* hand-off queue, oldest first *)
  workq : list nat;                        (* pool work queue *)
  futs : list fstate;                      (* future of element i at position i *)
  to_stop : bool;
  rest : list src_item;
  (* history *)
  pulled : nat;
  received : list (nat * res);             (* (element index, outcome) handed to the consumer *)
  dropped : nat;
  calls : list nat                         (* indices for which the worker function was started *)
}.

Fixpoint datas (l : list src_item) : list Z :=
  match l with SData x :: r => x :: datas r | _ => [] end.

Definition val (g : cfg) (i : nat) : Z := nth i (datas (src g)) (-1).

Definition pre_of (g : cfg) (x : Z) : pre_res :=
  match pre g with None => PreOk x | Some p => p x end.

(* the outcome the i-th element must have *)
Definition outcome_of (g : cfg) (i : nat) : res :=
  match pre_of g (val g i) with PreOk xx => call g xx | PreErr e => Err e end.

Definition init (g : cfg) : state :=
  {| fp := FIdle; cp := CStart; pp := repeat PIdle (conc g); q := []; workq := []; futs := [];
     to_stop := false; rest := src g; pulled := 0; received := []; dropped := 0; calls := [] |}.

Inductive label := F | C | P (j : nat).
Definition T_C := 0%nat.
Definition T_F := 1%nat.
Definition T_P (j : nat) := (10 + j)%nat.

Definition res_code (r : res) : Z := match r with Ok v => v | Err e => v_exc e end.
Definition qitem_code (g : cfg) (it : qitem) : Z :=
  match it with Task i => val g i | QEnd => V_END | QExc e => v_exc e end.
(* what the consumer's loop body sees *)
Definition out_code (g : cfg) (i : nat) (r : res) : Z :=
  if return_x g then val g i * 1000000 + (res_code r + 500000) else res_code r.

Definition qfull (g : cfg) (s : state) : bool := (S (cap g) <=? length (q s))%nat.

Fixpoint set_nth {A} (n : nat) (x : A) (l : list A) : list A :=
  match l, n with
  | [], _ => []
  | _ :: t, O => x :: t
  | h :: t, S m => h :: set_nth m x t
  end.

Definition with_fp s v := {| fp := v; cp := cp s; pp := pp s; q := q s; workq := workq s; futs := futs s;
  to_stop := to_stop s; rest := rest s; pulled := pulled s; received := received s; dropped := dropped s; calls := calls s |}.
Definition with_cp s v := {| fp := fp s; cp := v; pp := pp s; q := q s; workq := workq s; futs := futs s;
  to_stop := to_stop s; rest := rest s; pulled := pulled s; received := received s; dropped := dropped s; calls := calls s |}.
Definition with_pp s v := {| fp := fp s; cp := cp s; pp := v; q := q s; workq := workq s; futs := futs s;
  to_stop := to_stop s; rest := rest s; pulled := pulled s; received := received s; dropped := dropped s; calls := calls s |}.
Definition with_q s v := {| fp := fp s; cp := cp s; pp := pp s; q := v; workq := workq s; futs := futs s;
  to_stop := to_stop s; rest := rest s; pulled := pulled s; received := received s; dropped := dropped s; calls := calls s |}.
Definition with_workq s v := {| fp := fp s; cp := cp s; pp := pp s; q := q s; workq := v; futs := futs s;
  to_stop := to_stop s; rest := rest s; pulled := pulled s; received := received s; dropped := dropped s; calls := calls s |}.
Definition with_futs s v := {| fp := fp s; cp := cp s; pp := pp s; q := q s; workq := workq s; futs := v;
  to_stop := to_stop s; rest := rest s; pulled := pulled s; received := received s; dropped := dropped s; calls := calls s |}.
Definition with_stop s v := {| fp := fp s; cp := cp s; pp := pp s; q := q s; workq := workq s; futs := futs s;
  to_stop := v; rest := rest s; pulled := pulled s; received := received s; dropped := dropped s; calls := calls s |}.
Definition with_rest s v := {| fp := fp s; cp := cp s; pp := pp s; q := q s; workq := workq s; futs := futs s;
  to_stop := to_stop s; rest := v; pulled := pulled s; received := received s; dropped := dropped s; calls := calls s |}.
Definition with_pulled s v := {| fp := fp s; cp := cp s; pp := pp s; q := q s; workq := workq s; futs := futs s;
  to_stop := to_stop s; rest := rest s; pulled := v; received := received s; dropped := dropped s; calls := calls s |}.
Definition with_received s v := {| fp := fp s; cp := cp s; pp := pp s; q := q s; workq := workq s; futs := futs s;
  to_stop := to_stop s; rest := rest s; pulled := pulled s; received := v; dropped := dropped s; calls := calls s |}.
Definition with_dropped s v := {| fp := fp s; cp := cp s; pp := pp s; q := q s; workq := workq s; futs := futs s;
  to_stop := to_stop s; rest := rest s; pulled := pulled s; received := received s; dropped := v; calls := calls s |}.
Definition with_calls s v := {| fp := fp s; cp := cp s; pp := pp s; q := q s; workq := workq s; futs := futs s;
  to_stop := to_stop s; rest := rest s; pulled := pulled s; received := received s; dropped := dropped s; calls := v |}.

Definition f_put (g : cfg) (s : state) (it : qitem) (next : fpc) : option (state * event) :=
  if qfull g s then None
  else Some (with_fp (with_q s (q s ++ [it])) next, mkEv T_F OP_APPEND (qitem_code g it)).

Definition step_f (g : cfg) (s : state) : option (state * event) :=
  match fp s with
  | FIdle | FDone | FDead _ => None
  | FNext =>
      match rest s with
      | [] => Some (with_fp s FPutEnd, mkEv T_F OP_SRC_NEXT V_END)
      | SData x :: r =>
          Some (with_fp (with_pulled (with_rest s r) (S (pulled s))) (FChk (pulled s)),
                mkEv T_F OP_SRC_NEXT x)
      | SRaise e :: r => Some (with_fp (with_rest s r) (FPutExc e), mkEv T_F OP_SRC_NEXT (v_exc e))
      | SRaiseBase e :: r => Some (with_fp (with_rest s r) (FDead e), mkEv T_F OP_SRC_NEXT (v_exc e))
      end
  | FChk i =>
      if to_stop s
      then Some (with_fp (with_dropped s (S (dropped s))) FPutEnd, mkEv T_F OP_EVT_ISSET 1)
      else Some (with_fp s (match pre g with None => FSubmit i (val g i) | Some _ => FPre i end),
                 mkEv T_F OP_EVT_ISSET 0)
  | FPre i =>
      match pre_of g (val g i) with
      | PreOk xx => Some (with_fp s (FSubmit i xx), mkEv T_F OP_PREPROC (val g i))
      | PreErr e => (* a fresh, already failed future is paired with the element *)
          Some (with_fp (with_futs s (futs s ++ [FFin (Err e)])) (FPut i), mkEv T_F OP_PREPROC (val g i))
      end
  | FSubmit i xx =>
      Some (with_fp (with_workq (with_futs s (futs s ++ [FPending])) (workq s ++ [i])) (FPut i),
            mkEv T_F OP_SUBMIT xx)
  | FPut i => f_put g s (Task i) FNext
  | FPutExc e => f_put g s (QExc e) FDone
  | FPutEnd => f_put g s QEnd FDone
  end.

Definition f_finished (s : state) : bool :=
  match fp s with FDone | FDead _ => true | _ => false end.

Definition after_recv (g : cfg) (n : nat) : cpc :=
  match stop_after g with
  | Some k => if (k <=? n)%nat then CSetStop Broke else CGet
  | None => CGet
  end.

Definition step_c (g : cfg) (s : state) : option (state * event) :=
  match cp s with
  | CStart => Some (with_cp (with_fp s FNext) CGet, mkEv T_C OP_START 0)
  | CGet =>
      match q s with
      | [] => None
      | it :: q' =>
          let s' := with_q s q' in
          let e := mkEv T_C OP_POPLEFT (qitem_code g it) in
          match it with
          | Task i => Some (with_cp s' (CWait i), e)
          | QEnd => Some (with_cp s' (CDrainChk Completed), e)
          | QExc x => Some (with_cp s' (CSetStop (Raised x)), e)
          end
      end
  | CWait i =>
      match nth_error (futs s) i with
      | Some (FFin (Ok v)) => Some (with_cp s (CYield i (Ok v)), mkEv T_C OP_FUT_WAIT (val g i))
      | Some (FFin (Err x)) =>
          if return_exc g then Some (with_cp s (CYield i (Err x)), mkEv T_C OP_FUT_WAIT (val g i))
          else Some (with_cp (with_dropped s (S (dropped s))) (CSetStop (Raised x)),
                     mkEv T_C OP_FUT_WAIT (val g i))
      | _ => None
      end
  | CYield i r =>
      Some (with_cp (with_received s (received s ++ [(i, r)])) (after_recv g (S (length (received s)))),
            mkEv T_C OP_RECV (out_code g i r))
  | CSetStop o => Some (with_cp (with_stop s true) (CDrainChk o), mkEv T_C OP_EVT_SET 0)
  | CDrainChk o =>
      match q s with
      | [] => Some (with_cp s (CJoin o), mkEv T_C OP_Q_EMPTY 1)
      | _ => Some (with_cp s (CDrainGet o), mkEv T_C OP_Q_EMPTY 0)
      end
  | CDrainGet o =>
      match q s with
      | [] => None
      | it :: q' =>
          let s' := with_q s q' in
          let e := mkEv T_C OP_POPLEFT (qitem_code g it) in
          match it with
          | Task i => Some (with_cp (with_dropped s' (S (dropped s'))) (CCancel i o), e)
          | _ => Some (with_cp s' (CJoin o), e)
          end
      end
  | CCancel i o =>
      match nth_error (futs s) i with
      | Some FPending =>
          Some (with_cp (with_futs s (set_nth i FCancelled (futs s))) (CDrainChk o),
                mkEv T_C OP_FUT_CANCEL (val g i * 2 + 1))
      | Some _ => Some (with_cp s (CDrainChk o), mkEv T_C OP_FUT_CANCEL (val g i * 2))
      | None => None
      end
  | CJoin o =>
      match fp s with
      | FDone => Some (with_cp s (CDone o), mkEv T_C OP_JOIN 0)
      | FDead e => Some (with_cp s (CDone (Raised e)),
                         mkEv T_C OP_JOIN 0)
      | _ => None
      end
  | CDone _ => None
  end.

Definition step_p (g : cfg) (s : state) (j : nat) : option (state * event) :=
  match nth_error (pp s) j with
  | None => None
  | Some PIdle =>
      match workq s with
      | [] => None
      | i :: w => Some (with_pp (with_workq s w) (set_nth j (PTaken i) (pp s)),
                        mkEv (T_P j) OP_POOL_TAKE (val g i))
      end
  | Some (PTaken i) =>
      match nth_error (futs s) i with
      | Some FCancelled =>
          Some (with_pp s (set_nth j PIdle (pp s)), mkEv (T_P j) OP_FUT_RUNNING (val g i * 2))
      | Some FPending =>
          Some (with_calls (with_pp (with_futs s (set_nth i FRunning (futs s))) (set_nth j (PRun i) (pp s)))
                           (calls s ++ [i]),
                mkEv (T_P j) OP_FUT_RUNNING (val g i * 2 + 1))
      | _ => None
      end
  | Some (PRun i) =>
      Some (with_pp (with_futs s (set_nth i (FFin (outcome_of g i)) (futs s))) (set_nth j PIdle (pp s)),
            mkEv (T_P j) OP_FUT_DONE (val g i))
  end.

Definition step (g : cfg) (s : state) (l : label) : option (state * event) :=
  match l with F => step_f g s | C => step_c g s | P j => step_p g s j end.

Definition final (s : state) : bool :=
  match cp s with CDone _ => f_finished s | _ => false end.

(* neither the feeder nor the consumer can move, no pool worker can move, and the run is not over *)
Definition deadlocked (g : cfg) (s : state) : bool :=
  negb (final s) &&
  match step_f g s, step_c g s with
  | None, None => forallb (fun j => match step_p g s j with None => true | _ => false end) (seq 0 (conc g))
  | _, _ => false
  end.

Definition ahead (s : state) : nat := (pulled s - length (received s) - dropped s)%nat.
Definition running (s : state) : nat :=
  length (filter (fun p => match p with PRun _ => true | _ => false end) (pp s)).
