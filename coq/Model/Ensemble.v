(* Executable model of mpservice.mpserver._servlet.EnsembleServlet (_enqueue / _dequeue and the catalog
   _uid_to_results, src/mpservice/mpserver/_servlet.py:543-639) over abstract member servlets: member j
   has an input queue, one worker that takes a request and later answers (uid, f j x), and an output
   queue.

   Threads: Env = the upstream that hands requests (uid, x) to the ensemble in the configured order,
   E = the _enqueue thread, D = the _dequeue thread ([D true] = its 5 ms sleep expires), Mt j / Mp j =
   member j's worker takes / answers. One step = one logged queue or catalog operation.
   No proofs in this file. *)
From MpV Require Export Lib.Trace.
Open Scope Z_scope.

Inductive res := Ok (v : Z) | Err (e : Z).
Inductive eres := EList (l : list res) | EError.      (* what the ensemble emits: result list or EnsembleError *)

Record cfg := {
  nmem : nat;
  fail_fast : bool;
  reqs : list (nat * Z);            (* (uid, x) in arrival order; uids may repeat when ids are reused *)
  mfun : nat -> Z -> res
}.

Inductive epc := EGet | ECat (u : nat) (x : Z) | EPut (u : nat) (x : Z) (j : nat).
Inductive dpc :=
| DChk (j : nat) (all_empty : bool)
| DGet (j : nat)
| DCat (j : nat) (u : nat) (y : res)
| DPop (j : nat) (u : nat) (r : eres)
| DEmit (j : nat) (u : nat) (r : eres).

Record entry := { e_uid : nat; e_slots : list (option res); e_n : nat }.

Record state := {
  env_next : nat;
  qin : list (nat * Z);
  ep : epc; dp : dpc;
  qins : list (list (nat * Z));
  mhold : list (option (nat * Z));
  qouts : list (list (nat * res));
  catalog : list entry;
  qout : list (nat * eres)
}.

Definition init (g : cfg) : state :=
  {| env_next := 0; qin := []; ep := EGet; dp := DChk 0 true;
     qins := repeat [] (nmem g); mhold := repeat None (nmem g); qouts := repeat [] (nmem g);
     catalog := []; qout := [] |}.

Inductive label := Env | E | D (expire : bool) | Mt (j : nat) | Mp (j : nat).
Definition T_ENV := 0%nat.
Definition T_E := 1%nat.
Definition T_D := 2%nat.
Definition T_M (j : nat) := (10 + j)%nat.

Definition OP_EQIN_PUT := 80%nat.     (* upstream puts (uid, x) into the ensemble's input queue: val = uid *)
Definition OP_EQIN_GET := 81%nat.
Definition OP_CAT_SET := 82%nat.
Definition OP_CAT_GET := 83%nat.      (* val = uid*2 + found *)
Definition OP_CAT_POP := 84%nat.
Definition OP_MIN_PUT := 85%nat.      (* val = uid * 100 + member *)
Definition OP_MIN_GET := 86%nat.
Definition OP_MOUT_PUT := 87%nat.
Definition OP_MOUT_EMPTY := 88%nat.   (* val = member * 2 + empty? *)
Definition OP_MOUT_GET := 89%nat.
Definition OP_EOUT_PUT := 90%nat.     (* val = uid *)

Fixpoint set_nth {A} (n : nat) (x : A) (l : list A) : list A :=
  match l, n with
  | [], _ => []
  | _ :: t, O => x :: t
  | h :: t, S m => h :: set_nth m x t
  end.

Definition zn (n : nat) : Z := Z.of_nat n.

Fixpoint cat_find (u : nat) (c : list entry) : option entry :=
  match c with
  | [] => None
  | e :: r => if Nat.eqb (e_uid e) u then Some e else cat_find u r
  end.
Definition cat_remove (u : nat) (c : list entry) : list entry :=
  filter (fun e => negb (Nat.eqb (e_uid e) u)) c.
Definition cat_set (en : entry) (c : list entry) : list entry := cat_remove (e_uid en) c ++ [en].   (* dict assignment *)

Definition is_err (r : res) : bool := match r with Err _ => true | Ok _ => false end.
Definition all_filled_err (l : list (option res)) : bool :=
  forallb (fun o => match o with Some (Err _) => true | _ => false end) l.
Definition to_list (l : list (option res)) : list res :=
  map (fun o => match o with Some r => r | None => Err (-1) end) l.

Definition upd (s : state) env qi e d qis mh qos cat qo : state :=
  {| env_next := env; qin := qi; ep := e; dp := d; qins := qis; mhold := mh; qouts := qos; catalog := cat; qout := qo |}.

(* an id may be reused only once the request that carried it has been answered *)
Definition count_uid (u : nat) (l : list nat) : nat := length (filter (Nat.eqb u) l).
Definition id_free (g : cfg) (s : state) (u : nat) : bool :=
  (count_uid u (map fst (firstn (env_next s) (reqs g))) <=? count_uid u (map fst (qout s)))%nat.

Definition step_env (g : cfg) (s : state) : option (state * event) :=
  match nth_error (reqs g) (env_next s) with
  | Some (u, x) => if negb (id_free g s u) then None else Some (upd s (S (env_next s)) (qin s ++ [(u, x)]) (ep s) (dp s) (qins s) (mhold s) (qouts s) (catalog s) (qout s),
                         mkEv T_ENV OP_EQIN_PUT (zn u))
  | None => None
  end.

Definition step_e (g : cfg) (s : state) : option (state * event) :=
  match ep s with
  | EGet =>
      match qin s with
      | [] => None
      | (u, x) :: r => Some (upd s (env_next s) r (ECat u x) (dp s) (qins s) (mhold s) (qouts s) (catalog s) (qout s),
                             mkEv T_E OP_EQIN_GET (zn u))
      end
  | ECat u x =>
      Some (upd s (env_next s) (qin s) (EPut u x 0) (dp s) (qins s) (mhold s) (qouts s)
                (cat_set {| e_uid := u; e_slots := repeat None (nmem g); e_n := 0 |} (catalog s)) (qout s),
            mkEv T_E OP_CAT_SET (zn u))
  | EPut u x j =>
      match nth_error (qins s) j with
      | Some qj =>
          let next := if (S j <? nmem g)%nat then EPut u x (S j) else EGet in
          Some (upd s (env_next s) (qin s) next (dp s) (set_nth j (qj ++ [(u, x)]) (qins s)) (mhold s) (qouts s) (catalog s) (qout s),
                mkEv T_E OP_MIN_PUT (zn u * 100 + zn j))
      | None => None
      end
  end.

Definition step_mt (g : cfg) (s : state) (j : nat) : option (state * event) :=
  match nth_error (mhold s) j, nth_error (qins s) j with
  | Some None, Some ((u, x) :: r) =>
      Some (upd s (env_next s) (qin s) (ep s) (dp s) (set_nth j r (qins s)) (set_nth j (Some (u, x)) (mhold s)) (qouts s) (catalog s) (qout s),
            mkEv (T_M j) OP_MIN_GET (zn u))
  | _, _ => None
  end.

Definition step_mp (g : cfg) (s : state) (j : nat) : option (state * event) :=
  match nth_error (mhold s) j, nth_error (qouts s) j with
  | Some (Some (u, x)), Some qo =>
      Some (upd s (env_next s) (qin s) (ep s) (dp s) (qins s) (set_nth j None (mhold s)) (set_nth j (qo ++ [(u, mfun g j x)]) (qouts s)) (catalog s) (qout s),
            mkEv (T_M j) OP_MOUT_PUT (zn u))
  | _, _ => None
  end.

Definition set_dp s d := upd s (env_next s) (qin s) (ep s) d (qins s) (mhold s) (qouts s) (catalog s) (qout s).

Definition step_d (g : cfg) (s : state) (expire : bool) : option (state * event) :=
  match dp s, expire with
  | DChk j ae, false =>
      match nth_error (qouts s) j with
      | Some [] =>
          (* after the last member: `if all_empty: sleep(0.005)`; the sleep is invisible here (time is abstracted) *)
          let next := if (S j <? nmem g)%nat then DChk (S j) ae else DChk 0 true in
          Some (set_dp s next, mkEv T_D OP_MOUT_EMPTY (zn j * 2 + 1))
      | Some (_ :: _) => Some (set_dp s (DGet j), mkEv T_D OP_MOUT_EMPTY (zn j * 2))
      | None => None
      end
  | DGet j, false =>
      match nth_error (qouts s) j with
      | Some ((u, y) :: r) =>
          Some (upd s (env_next s) (qin s) (ep s) (DCat j u y) (qins s) (mhold s) (set_nth j r (qouts s)) (catalog s) (qout s),
                mkEv T_D OP_MOUT_GET (zn u))
      | _ => None
      end
  | DCat j u y, false =>
      match cat_find u (catalog s) with
      | None => Some (set_dp s (DChk j false), mkEv T_D OP_CAT_GET (zn u * 2))
      | Some en =>
          let en' := {| e_uid := u; e_slots := set_nth j (Some y) (e_slots en); e_n := S (e_n en) |} in
          let cat' := map (fun e => if Nat.eqb (e_uid e) u then en' else e) (catalog s) in
          let next :=
            if fail_fast g && is_err y then DPop j u EError
            else if Nat.eqb (e_n en') (nmem g)
                 then DPop j u (if all_filled_err (e_slots en') then EError else EList (to_list (e_slots en')))
                 else DChk j false in
          Some (upd s (env_next s) (qin s) (ep s) next (qins s) (mhold s) (qouts s) cat' (qout s),
                mkEv T_D OP_CAT_GET (zn u * 2 + 1))
      end
  | DPop j u r, false =>
      Some (upd s (env_next s) (qin s) (ep s) (DEmit j u r) (qins s) (mhold s) (qouts s) (cat_remove u (catalog s)) (qout s),
            mkEv T_D OP_CAT_POP (zn u))
  | DEmit j u r, false =>
      Some (upd s (env_next s) (qin s) (ep s) (DChk j false) (qins s) (mhold s) (qouts s) (catalog s) (qout s ++ [(u, r)]),
            mkEv T_D OP_EOUT_PUT (zn u))
  | _, _ => None
  end.

Definition step (g : cfg) (s : state) (l : label) : option (state * event) :=
  match l with
  | Env => step_env g s
  | E => step_e g s
  | D ex => step_d g s ex
  | Mt j => step_mt g s j
  | Mp j => step_mp g s j
  end.

(* the documented meaning of the ensemble for input x *)
Definition ens_spec (g : cfg) (x : Z) : eres :=
  let rs := map (fun j => mfun g j x) (seq 0 (nmem g)) in
  if fail_fast g then (if existsb is_err rs then EError else EList rs)
  else (if forallb is_err rs then EError else EList rs).
