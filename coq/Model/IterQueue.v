(* Executable model of mpservice.queue.IterableQueue (src/mpservice/queue.py:84-314), thread
   flavour: a main queue (bounded or not) and three token queues of capacity num_suppliers
   (_spare_lids, _applied_lids, _used_lids; their tokens are all None, so counts suffice).

   Threads: S s = supplier s (put its items, then put_end), C c = consumer c (iterates until
   StopIteration), R = the party that calls renew() between rounds (after every supplier and consumer
   of the round has finished). One step = one logged queue operation. No proofs in this file. *)
From MpV Require Export Lib.Trace.
Open Scope Z_scope.

Record cfg := {
  nsup : nat;                       (* num_suppliers *)
  ncons : nat;
  qcap : nat;                       (* maxsize of the main queue; 0 = unbounded *)
  rounds : nat;                     (* number of rounds (renew is called rounds-1 times) *)
  items : nat -> nat -> list Z;     (* items round supplier *)
  early : nat -> nat -> list Z      (* early round supplier: data of the NEXT round that supplier puts after its put_end of this
                                       round, before renew() (the put_end docstring allows it); they are not in [items] *)
}.

Inductive spc := SPut (todo : list Z) | SSpare | SApplied | SEnd | SEarly (todo : list Z) | SDone | SFail.
Inductive cpc := CN1 | CGet | CN3 | CN3put | CN4 | CN5 | CN6 | CN6put | CDone.
Inductive rpc := RWait | RGet | RUsedGet (k : nat) | RSparePut (k : nat) | RFail | RFinished.

Record state := {
  sp : list spc; cp : list cpc; rp : rpc;
  q : list (option Z);              (* main queue: Some x = item, None = end marker *)
  spare : nat; applied : nat; used : nat;
  round : nat;
  (* history *)
  put_all : list Z;                 (* items put so far, all rounds *)
  received : list (list Z);         (* per consumer, current round *)
  leftover_markers : list nat;      (* per finished round: end markers left in the queue when renew began *)
  recv_total : list Z;              (* items received so far, all rounds and consumers, in receive order *)
  renew_ate : list Z                (* items swallowed by renew() when it expected the end marker *)
}.

Definition start_s (g : cfg) (r s : nat) : spc :=
  match items g r s with [] => SSpare | l => SPut l end.

Definition init (g : cfg) : state :=
  {| sp := map (start_s g 0) (seq 0 (nsup g)); cp := repeat CN1 (ncons g); rp := RWait;
     q := []; spare := nsup g; applied := 0; used := 0; round := 0;
     put_all := []; received := repeat [] (ncons g); leftover_markers := []; recv_total := []; renew_ate := [] |}.

Inductive label := Sup (s : nat) (expire : bool) | Con (c : nat) | Ren.
Definition T_R := 0%nat.
Definition T_S (s : nat) := (10 + s)%nat.
Definition T_C (c : nat) := (50 + c)%nat.

Definition OP_Q_PUT := 40%nat.       (* main queue put: val = item or V_END *)
Definition OP_Q_GET := 41%nat.
Definition OP_SPARE_GET := 42%nat.   (* val 1 = got a token, 0 = timed out (RuntimeError) *)
Definition OP_SPARE_PUT := 43%nat.
Definition OP_APPLIED_PUT := 44%nat.
Definition OP_APPLIED_GET := 45%nat.
Definition OP_USED_PUT := 46%nat.
Definition OP_USED_GET := 47%nat.
Definition OP_USED_FULL := 48%nat.   (* val 0/1 *)

Fixpoint set_nth {A} (n : nat) (x : A) (l : list A) : list A :=
  match l, n with
  | [], _ => []
  | _ :: t, O => x :: t
  | h :: t, S m => h :: set_nth m x t
  end.

Definition qfull (g : cfg) (s : state) : bool :=
  match qcap g with O => false | c => (c <=? length (q s))%nat end.

Definition code (m : option Z) : Z := match m with Some x => x | None => V_END end.

Definition upd (s : state) sp' cp' rp' q' spare' applied' used' round' put' recv' left' : state :=
  {| sp := sp'; cp := cp'; rp := rp'; q := q'; spare := spare'; applied := applied'; used := used';
     round := round'; put_all := put'; received := recv'; leftover_markers := left';
     recv_total := recv_total s; renew_ate := renew_ate s |}.

Definition set_sp s i v := upd s (set_nth i v (sp s)) (cp s) (rp s) (q s) (spare s) (applied s) (used s) (round s) (put_all s) (received s) (leftover_markers s).
Definition set_cp s i v := upd s (sp s) (set_nth i v (cp s)) (rp s) (q s) (spare s) (applied s) (used s) (round s) (put_all s) (received s) (leftover_markers s).
Definition set_rp s v := upd s (sp s) (cp s) v (q s) (spare s) (applied s) (used s) (round s) (put_all s) (received s) (leftover_markers s).
Definition set_q s v := upd s (sp s) (cp s) (rp s) v (spare s) (applied s) (used s) (round s) (put_all s) (received s) (leftover_markers s).
Definition set_spare s v := upd s (sp s) (cp s) (rp s) (q s) v (applied s) (used s) (round s) (put_all s) (received s) (leftover_markers s).
Definition set_applied s v := upd s (sp s) (cp s) (rp s) (q s) (spare s) v (used s) (round s) (put_all s) (received s) (leftover_markers s).
Definition set_used s v := upd s (sp s) (cp s) (rp s) (q s) (spare s) (applied s) v (round s) (put_all s) (received s) (leftover_markers s).
Definition add_put s x := upd s (sp s) (cp s) (rp s) (q s) (spare s) (applied s) (used s) (round s) (put_all s ++ [x]) (received s) (leftover_markers s).
Definition add_recv s c x :=
  {| sp := sp s; cp := cp s; rp := rp s; q := q s; spare := spare s; applied := applied s; used := used s;
     round := round s; put_all := put_all s;
     received := set_nth c (nth c (received s) [] ++ [x]) (received s);
     leftover_markers := leftover_markers s; recv_total := recv_total s ++ [x]; renew_ate := renew_ate s |}.
Definition add_ate s x :=
  {| sp := sp s; cp := cp s; rp := rp s; q := q s; spare := spare s; applied := applied s; used := used s;
     round := round s; put_all := put_all s; received := received s;
     leftover_markers := leftover_markers s; recv_total := recv_total s; renew_ate := renew_ate s ++ [x] |}.

Definition used_full (g : cfg) (s : state) : bool := (nsup g <=? used s)%nat.

Definition step_s (g : cfg) (st : state) (s : nat) (expire : bool) : option (state * event) :=
  let t := T_S s in
  match nth_error (sp st) s, expire with
  | Some (SPut (x :: r)), false =>
      if qfull g st then None
      else Some (set_sp (add_put (set_q st (q st ++ [Some x])) x) s (match r with [] => SSpare | _ => SPut r end),
                 mkEv t OP_Q_PUT x)
  | Some SSpare, false =>
      match spare st with
      | O => None
      | S k => Some (set_sp (set_spare st k) s SApplied, mkEv t OP_SPARE_GET 1)
      end
  | Some SSpare, true =>
      match spare st with
      | O => Some (set_sp st s SFail, mkEv t OP_SPARE_GET 0)     (* RuntimeError: put_end called too often *)
      | S _ => None
      end
  | Some SApplied, false =>
      if (nsup g <=? applied st)%nat then None
      else Some (set_sp (set_applied st (S (applied st))) s SEnd, mkEv t OP_APPLIED_PUT 0)
  | Some SEnd, false =>
      if qfull g st then None
      else Some (set_sp (set_q st (q st ++ [None])) s
                        (match early g (round st) s with [] => SDone | l => SEarly l end), mkEv t OP_Q_PUT V_END)
  | Some (SEarly (x :: r)), false =>
      if qfull g st then None
      else Some (set_sp (add_put (set_q st (q st ++ [Some x])) x) s (match r with [] => SDone | _ => SEarly r end),
                 mkEv t OP_Q_PUT x)
  | _, _ => None
  end.

Definition step_c (g : cfg) (st : state) (c : nat) : option (state * event) :=
  let t := T_C c in
  match nth_error (cp st) c with
  | Some CN1 =>
      if used_full g st then Some (set_cp st c CDone, mkEv t OP_USED_FULL 1)
      else Some (set_cp st c CGet, mkEv t OP_USED_FULL 0)
  | Some CGet =>
      match q st with
      | [] => None
      | Some x :: r => Some (set_cp (add_recv (set_q st r) c x) c CN1, mkEv t OP_Q_GET x)
      | None :: r => Some (set_cp (set_q st r) c CN3, mkEv t OP_Q_GET V_END)
      end
  | Some CN3 =>
      if used_full g st then Some (set_cp st c CN3put, mkEv t OP_USED_FULL 1)
      else Some (set_cp st c CN4, mkEv t OP_USED_FULL 0)
  | Some CN3put | Some CN6put =>
      if qfull g st then None
      else Some (set_cp (set_q st (q st ++ [None])) c CDone, mkEv t OP_Q_PUT V_END)
  | Some CN4 =>
      match applied st with
      | O => None
      | S k => Some (set_cp (set_applied st k) c CN5, mkEv t OP_APPLIED_GET 0)
      end
  | Some CN5 =>
      if (nsup g <=? used st)%nat then None
      else Some (set_cp (set_used st (S (used st))) c CN6, mkEv t OP_USED_PUT 0)
  | Some CN6 =>
      if used_full g st then Some (set_cp st c CN6put, mkEv t OP_USED_FULL 1)
      else Some (set_cp st c CN1, mkEv t OP_USED_FULL 0)
  | _ => None
  end.

Definition all_done (st : state) : bool :=
  forallb (fun p => match p with SDone | SFail => true | _ => false end) (sp st) &&
  forallb (fun p => match p with CDone => true | _ => false end) (cp st).

Definition count_markers (l : list (option Z)) : nat :=
  length (filter (fun m => match m with None => true | _ => false end) l).

Definition step_r (g : cfg) (st : state) : option (state * event) :=
  match rp st with
  | RWait =>
      if all_done st && (S (round st) <? rounds g)%nat then
        (* renew(): `if not self._used_lids.full(): raise RuntimeError` *)
        let st' := upd st (sp st) (cp st) (rp st) (q st) (spare st) (applied st) (used st) (round st)
                       (put_all st) (received st) (leftover_markers st ++ [count_markers (q st)]) in
        if used_full g st then Some (set_rp st' RGet, mkEv T_R OP_USED_FULL 1)
        else Some (set_rp st' RFail, mkEv T_R OP_USED_FULL 0)
      else None
  | RGet =>
      match q st with
      | [] => None
      | None :: r => Some (set_rp (set_q st r) (RUsedGet (nsup g)), mkEv T_R OP_Q_GET V_END)
      | Some x :: r => Some (set_rp (add_ate (set_q st r) x) RFail, mkEv T_R OP_Q_GET x)
      end
  | RUsedGet k =>
      match k with
      | O => (* next round starts: fresh supplier and consumer threads *)
          None
      | S k' =>
          match used st with
          | O => None
          | S u => Some (set_rp (set_used st u) (RSparePut k'), mkEv T_R OP_USED_GET 0)
          end
      end
  | RSparePut k =>
      let st1 := set_spare st (S (spare st)) in
      match k with
      | O =>
          let r' := S (round st) in
          Some (upd st1 (map (start_s g r') (seq 0 (nsup g))) (repeat CN1 (ncons g)) RWait (q st1)
                    (spare st1) (applied st1) (used st1) r' (put_all st1) (repeat [] (ncons g)) (leftover_markers st1),
                mkEv T_R OP_SPARE_PUT 0)
      | _ => Some (set_rp st1 (RUsedGet k), mkEv T_R OP_SPARE_PUT 0)
      end
  | _ => None
  end.

Definition step (g : cfg) (st : state) (l : label) : option (state * event) :=
  match l with Sup s ex => step_s g st s ex | Con c => step_c g st c | Ren => step_r g st end.

Definition q_items (st : state) : list Z :=
  flat_map (fun m => match m with Some x => [x] | None => [] end) (q st).
