(* Executable model of the child-to-parent log channel of mpservice.multiprocessing.context.SpawnProcess
   (src/mpservice/multiprocessing/context.py: __init__ 120-150, start 152-181, _run_logger 183-191,
   _collect_result 193-227, run 249-330).

   One multiprocessing queue = one OS pipe of bounded capacity with two writers and one reader:
     - the child's root logger has a QueueHandler: every record goes into the queue's local buffer, and the
       queue's feeder thread (CF) moves the buffer into the pipe, blocking while the pipe is full;
     - when the target has ended the child removes the handler, closes the queue and WAITS FOR THE FEEDER TO
       FLUSH ([flush_first] = true, the code as it is now), and only then sends result and error on the other
       pipe; at process exit the interpreter joins the feeder once more;
     - the parent's result collector (PC) receives result and error and puts the end marker None into the same
       queue from its side (its own buffer and feeder PF);
     - the parent's logger thread (R) reads the pipe and hands each record whose level passes the parent's
       threshold to the parent's handlers, until it reads None.
   [flush_first] = false is the code before the repair recorded in known_findings.json (the child sends its
   result without flushing): it exists only for the refutations in Props/C20.v.

   The pipe's capacity is counted in messages (the OS counts bytes; a record is one message). No proofs here. *)
From MpV Require Export Lib.Trace.
Open Scope nat_scope.

Record cfg := {
  levels : list nat;          (* record i has level [nth i levels] ; nrec = length levels *)
  threshold : nat;            (* the parent logger's effective level *)
  pipe_cap : nat;             (* > 0 *)
  flush_first : bool
}.
Definition nrec (g : cfg) : nat := length (levels g).

Inductive msg := Rec (i : nat) | EndMark.

Inductive cpc :=
| CEmit (k : nat)             (* the target is running; k records logged so far *)
| CFlush                      (* logger_queue.close(); logger_queue.join_thread() *)
| CSend                       (* result_and_error.send(result); send(error) *)
| CExit                       (* interpreter exit: joins the queue's feeder thread *)
| CExited.

Inductive ppc := PRecv | PPut | PDone.        (* collector: recv result and error; _logger_queue_.put(None) *)

Record state := {
  cm : cpc;
  cbuf : list msg;            (* child-side queue buffer *)
  pipe : list msg;
  sent : bool;                (* the outcome is on the result pipe *)
  pc : ppc;
  pbuf : list msg;            (* parent-side queue buffer *)
  stopped : bool;             (* the logger thread has read None and returned *)
  reads : list msg;           (* history: what the logger thread read, in order *)
  handled : list nat          (* history: records handed to the parent's handlers *)
}.

Definition init (g : cfg) : state :=
  {| cm := CEmit 0; cbuf := []; pipe := []; sent := false; pc := PRecv; pbuf := []; stopped := false; reads := []; handled := [] |}.

Inductive label := CM | CF | PC | PF | R.
Definition T_CM := 0. Definition T_CF := 1. Definition T_PC := 2. Definition T_PF := 3. Definition T_R := 4.

Definition OP_LOG_EMIT := 130.     (* val = record index *)
Definition OP_LOG_FLUSHED := 131.
Definition OP_RES_SEND := 132.
Definition OP_CHILD_EXIT := 133.
Definition OP_PIPE_WRITE := 134.   (* val = record index or V_END *)
Definition OP_RES_RECV := 135.
Definition OP_PUT_NONE := 136.
Definition OP_PIPE_READ := 137.    (* val = record index or V_END *)

Definition zn (n : nat) : Z := Z.of_nat n.
Definition mval (m : msg) : Z := match m with Rec i => zn i | EndMark => V_END end.

Definition passes (g : cfg) (i : nat) : bool := threshold g <=? nth i (levels g) 0.

Definition step (g : cfg) (s : state) (l : label) : option (state * event) :=
  match l with
  | CM =>
      match cm s with
      | CEmit k =>
          if k <? nrec g
          then Some ({| cm := CEmit (S k); cbuf := cbuf s ++ [Rec k]; pipe := pipe s; sent := sent s; pc := pc s; pbuf := pbuf s;
                        stopped := stopped s; reads := reads s; handled := handled s |}, mkEv T_CM OP_LOG_EMIT (zn k))
          else Some ({| cm := if flush_first g then CFlush else CSend; cbuf := cbuf s; pipe := pipe s; sent := sent s; pc := pc s;
                        pbuf := pbuf s; stopped := stopped s; reads := reads s; handled := handled s |}, mkEv T_CM OP_START 0)
      | CFlush =>
          match cbuf s with
          | [] => Some ({| cm := CSend; cbuf := []; pipe := pipe s; sent := sent s; pc := pc s; pbuf := pbuf s;
                           stopped := stopped s; reads := reads s; handled := handled s |}, mkEv T_CM OP_LOG_FLUSHED 0)
          | _ :: _ => None
          end
      | CSend =>
          Some ({| cm := CExit; cbuf := cbuf s; pipe := pipe s; sent := true; pc := pc s; pbuf := pbuf s;
                   stopped := stopped s; reads := reads s; handled := handled s |}, mkEv T_CM OP_RES_SEND 0)
      | CExit =>
          match cbuf s with
          | [] => Some ({| cm := CExited; cbuf := []; pipe := pipe s; sent := sent s; pc := pc s; pbuf := pbuf s;
                           stopped := stopped s; reads := reads s; handled := handled s |}, mkEv T_CM OP_CHILD_EXIT 0)
          | _ :: _ => None
          end
      | CExited => None
      end
  | CF =>
      match cbuf s with
      | m :: r =>
          if length (pipe s) <? pipe_cap g
          then Some ({| cm := cm s; cbuf := r; pipe := pipe s ++ [m]; sent := sent s; pc := pc s; pbuf := pbuf s;
                        stopped := stopped s; reads := reads s; handled := handled s |}, mkEv T_CF OP_PIPE_WRITE (mval m))
          else None
      | [] => None
      end
  | PC =>
      match pc s with
      | PRecv => if sent s
                 then Some ({| cm := cm s; cbuf := cbuf s; pipe := pipe s; sent := sent s; pc := PPut; pbuf := pbuf s;
                               stopped := stopped s; reads := reads s; handled := handled s |}, mkEv T_PC OP_RES_RECV 0)
                 else None
      | PPut => Some ({| cm := cm s; cbuf := cbuf s; pipe := pipe s; sent := sent s; pc := PDone; pbuf := pbuf s ++ [EndMark];
                         stopped := stopped s; reads := reads s; handled := handled s |}, mkEv T_PC OP_PUT_NONE 0)
      | PDone => None
      end
  | PF =>
      match pbuf s with
      | m :: r =>
          if length (pipe s) <? pipe_cap g
          then Some ({| cm := cm s; cbuf := cbuf s; pipe := pipe s ++ [m]; sent := sent s; pc := pc s; pbuf := r;
                        stopped := stopped s; reads := reads s; handled := handled s |}, mkEv T_PF OP_PIPE_WRITE (mval m))
          else None
      | [] => None
      end
  | R =>
      if stopped s then None else
      match pipe s with
      | [] => None
      | Rec i :: r =>
          Some ({| cm := cm s; cbuf := cbuf s; pipe := r; sent := sent s; pc := pc s; pbuf := pbuf s; stopped := false;
                   reads := reads s ++ [Rec i]; handled := if passes g i then handled s ++ [i] else handled s |},
                mkEv T_R OP_PIPE_READ (zn i))
      | EndMark :: r =>
          Some ({| cm := cm s; cbuf := cbuf s; pipe := r; sent := sent s; pc := pc s; pbuf := pbuf s; stopped := true;
                   reads := reads s ++ [EndMark]; handled := handled s |}, mkEv T_R OP_PIPE_READ V_END)
      end
  end.

(* -- vocabulary of the statements --------------------------------------------------------------- *)

Definition expected_handled (g : cfg) : list nat := filter (passes g) (seq 0 (nrec g)).

Definition stuck (g : cfg) (s : state) : bool :=
  match step g s CM, step g s CF, step g s PC, step g s PF, step g s R with
  | None, None, None, None, None => true
  | _, _, _, _, _ => false
  end.

Definition finished (s : state) : bool :=
  match cm s, pc s with CExited, PDone => stopped s | _, _ => false end.

(* a canonical fair schedule: k rounds of every thread *)
Definition rounds (k : nat) : list label := flat_map (fun _ => [CM; CF; PC; PF; R]) (seq 0 k).
