(* Executable model of the record framing of mpservice.socket (write_record / read_record,
   src/mpservice/socket.py:140-163):  b'<request_id> <num_bytes> <encoder>\n' ++ payload.

   Bytes are naturals (0..255 in the correspondence; the theorems do not need the bound).
   The stream is the full byte sequence: asyncio's StreamReader.readuntil / readexactly are
   independent of how the bytes were chunked on arrival (trusted; exercised by the correspondence
   check with random chunkings). No proofs in this file. *)
From Coq Require Export List Arith Bool Decimal DecimalNat.
Export ListNotations.

Definition byte := nat.
Definition bytes := list byte.

Definition NL : byte := 10.
Definition SP : byte := 32.

(* str.split() separators *)
Definition is_ws (b : byte) : bool :=
  (b =? 32) || (b =? 9) || (b =? 10) || (b =? 11) || (b =? 12) || (b =? 13) || (b =? 28) || (b =? 29) || (b =? 30) || (b =? 31) || (b =? 133).

(* ---- decimal rendering of the length ---------------------------------------------------- *)

Fixpoint uint_bytes (u : uint) : bytes :=
  match u with
  | Nil => []
  | D0 r => 48 :: uint_bytes r | D1 r => 49 :: uint_bytes r | D2 r => 50 :: uint_bytes r
  | D3 r => 51 :: uint_bytes r | D4 r => 52 :: uint_bytes r | D5 r => 53 :: uint_bytes r
  | D6 r => 54 :: uint_bytes r | D7 r => 55 :: uint_bytes r | D8 r => 56 :: uint_bytes r
  | D9 r => 57 :: uint_bytes r
  end.

Fixpoint bytes_uint (l : bytes) : option uint :=
  match l with
  | [] => Some Nil
  | b :: r =>
      match bytes_uint r with
      | None => None
      | Some u =>
          match b with
          | 48 => Some (D0 u) | 49 => Some (D1 u) | 50 => Some (D2 u) | 51 => Some (D3 u)
          | 52 => Some (D4 u) | 53 => Some (D5 u) | 54 => Some (D6 u) | 55 => Some (D7 u)
          | 56 => Some (D8 u) | 57 => Some (D9 u)
          | _ => None
          end
      end
  end.

Definition render_nat (n : nat) : bytes := uint_bytes (Nat.to_uint n).   (* str(n).encode() *)
Definition parse_nat (l : bytes) : option nat :=                          (* int(s) for ASCII digits *)
  match l with
  | [] => None
  | _ => option_map Nat.of_uint (bytes_uint l)
  end.

(* ---- write_record ----------------------------------------------------------------------- *)

Definition header (id enc : bytes) (n : nat) : bytes := id ++ [SP] ++ render_nat n ++ [SP] ++ enc ++ [NL].
Definition encode_record (id enc payload : bytes) : bytes := header id enc (length payload) ++ payload.

(* ---- read_record ------------------------------------------------------------------------ *)

(* reader.readuntil(b'\n'): (line including the newline, remaining stream) *)
Fixpoint read_until_nl (s : bytes) : option (bytes * bytes) :=
  match s with
  | [] => None                         (* IncompleteReadError *)
  | b :: r => if b =? NL then Some ([b], r)
              else match read_until_nl r with
                   | Some (l, rest) => Some (b :: l, rest)
                   | None => None
                   end
  end.

(* str.split(): maximal runs of non-whitespace *)
Fixpoint split_ws_aux (cur : bytes) (s : bytes) : list bytes :=
  match s with
  | [] => match cur with [] => [] | _ => [cur] end
  | b :: r => if is_ws b then match cur with [] => split_ws_aux [] r | _ => cur :: split_ws_aux [] r end
              else split_ws_aux (cur ++ [b]) r
  end.
Definition split_ws (s : bytes) : list bytes := split_ws_aux [] s.

(* reader.readexactly(n) *)
Definition read_exactly (n : nat) (s : bytes) : option (bytes * bytes) :=
  if n <=? length s then Some (firstn n s, skipn n s) else None.

Record record := { r_id : bytes; r_enc : bytes; r_payload : bytes }.

Definition read_record (s : bytes) : option (record * bytes) :=
  match read_until_nl s with
  | None => None
  | Some (line, rest) =>
      match split_ws (removelast line) with           (* data[:-1].decode().split() *)
      | [id; num; enc] =>
          match parse_nat num with
          | None => None
          | Some n =>
              match read_exactly n rest with
              | Some (p, rest') => Some ({| r_id := id; r_enc := enc; r_payload := p |}, rest')
              | None => None
              end
          end
      | _ => None                                      (* ValueError: unpack *)
      end
  end.

(* decode a whole stream of records (fuel = an upper bound on the number of records) *)
Fixpoint read_all (fuel : nat) (s : bytes) : option (list record) :=
  match s with
  | [] => Some []
  | _ => match fuel with
         | O => None
         | S f => match read_record s with
                  | Some (r, rest) => option_map (cons r) (read_all f rest)
                  | None => None
                  end
         end
  end.

Definition no_ws (l : bytes) : bool := forallb (fun b => negb (is_ws b)) l.
Definition wf_token (l : bytes) : bool := negb (match l with [] => true | _ => false end) && no_ws l.
