(* Executable model of mpservice._queues.SingleLane (src/mpservice/_queues.py:28-100): the single-writer /
   single-reader bounded queue every stream operator and the batching worker hand their items over with. The other
   models (Buffer, FifoStream, BatchWorker) treat it as an atomic bounded FIFO; this model is the code itself, one
   step per access to a shared object: the mutex, the deque, the two conditions.

     put:  with not_full:                      PLock     acquire the mutex
             if 0 < maxsize <= len(queue):     PChk      len(queue)         (skipped when maxsize = 0)
               if not block: raise Full        -> PUnlock (raised)
               if not not_full.wait(timeout):  PWait     release the mutex, register as waiter
                 raise Full                    PWaiting -> PNotified | PExpired -> re-acquire the mutex
             queue.append(item)                PAct      (no second test after a wake-up: `if`, not `while`)
             not_empty.notify()                PNotify
                                               PUnlock   release the mutex
     get:  symmetric, with popleft and not_full.notify().
     full() / empty(): one unsynchronised read of len(queue).

   Threads: P = the writer, C = the reader, each running a script of operations. Label [P ex] / [C ex]: the thread
   moves; ex = its pending timed wait expires now (time is abstracted: a timed wait may expire at any step).
   No proofs in this file. *)
From MpV Require Export Lib.Trace.
Open Scope Z_scope.

Inductive pop := Put (x : Z) (block timed : bool) | PFull | PEmpty.
Inductive cop := Get (block timed : bool) | CFull | CEmpty.

Inductive res :=
| ROk (v : Z)          (* put returned (v = the item) / get returned v *)
| RExc                 (* queue.Full / queue.Empty raised *)
| RBool (b : bool).    (* answer of full() / empty() *)

Inductive pc :=
| TLock | TChk | TWait | TWaiting | TNotified | TExpired | TAct | TNotify
| TUnlock (raised : bool)
| TRead
| TDone.

Record cfg := { maxsize : nat; pscript : list pop; cscript : list cop }.

Record state := {
  pp : pc; cp : pc;
  ps : list pop; cs : list cop;          (* remaining operations; the head is the one in progress *)
  mutex : option nat;
  q : list Z;
  nf_wait : bool;                        (* the writer is registered on not_full *)
  ne_wait : bool;                        (* the reader is registered on not_empty *)
  c_hold : option Z;                     (* value popped by the get in progress *)
  (* history *)
  p_out : list res; c_out : list res;
  appended : list Z; popped : list Z;
  underflow : bool                       (* popleft was called on an empty deque (IndexError) *)
}.

Definition T_P := 1%nat.
Definition T_C := 2%nat.
Inductive label := P (ex : bool) | C (ex : bool).

Definition OP_LOCK_ACQ := 20%nat.
Definition OP_LOCK_REL := 21%nat.
Definition OP_DQ_LEN := 22%nat.
Definition OP_COND_WAIT := 23%nat.
Definition OP_COND_EXPIRE := 24%nat.
Definition OP_COND_WOKE := 25%nat.     (* val 1 = notified, 0 = timed out; mutex re-acquired *)
Definition OP_COND_NOTIFY := 26%nat.   (* val = number of waiters woken *)
Definition OP_SL_READ := 40%nat.       (* full() / empty(): val = answer *)

Definition p_start (l : list pop) : pc :=
  match l with [] => TDone | Put _ _ _ :: _ => TLock | _ => TRead end.
Definition c_start (l : list cop) : pc :=
  match l with [] => TDone | Get _ _ :: _ => TLock | _ => TRead end.

Definition init (g : cfg) : state :=
  {| pp := p_start (pscript g); cp := c_start (cscript g); ps := pscript g; cs := cscript g;
     mutex := None; q := []; nf_wait := false; ne_wait := false; c_hold := None;
     p_out := []; c_out := []; appended := []; popped := []; underflow := false |}.

Definition isfull (g : cfg) (s : state) : bool := (0 <? maxsize g)%nat && (maxsize g <=? length (q s))%nat.
Definition b2z (b : bool) : Z := if b then 1 else 0.
Definition ZofN (n : nat) : Z := Z.of_nat n.

Definition upd_p (s : state) (v : pc) : state :=
  {| pp := v; cp := cp s; ps := ps s; cs := cs s; mutex := mutex s; q := q s; nf_wait := nf_wait s; ne_wait := ne_wait s;
     c_hold := c_hold s; p_out := p_out s; c_out := c_out s; appended := appended s; popped := popped s; underflow := underflow s |}.
Definition upd_c (s : state) (v : pc) : state :=
  {| pp := pp s; cp := v; ps := ps s; cs := cs s; mutex := mutex s; q := q s; nf_wait := nf_wait s; ne_wait := ne_wait s;
     c_hold := c_hold s; p_out := p_out s; c_out := c_out s; appended := appended s; popped := popped s; underflow := underflow s |}.
Definition set_mutex (s : state) (v : option nat) : state :=
  {| pp := pp s; cp := cp s; ps := ps s; cs := cs s; mutex := v; q := q s; nf_wait := nf_wait s; ne_wait := ne_wait s;
     c_hold := c_hold s; p_out := p_out s; c_out := c_out s; appended := appended s; popped := popped s; underflow := underflow s |}.

(* the writer finishes its current operation with outcome r *)
Definition p_finish (s : state) (r : res) : state :=
  {| pp := p_start (tl (ps s)); cp := cp s; ps := tl (ps s); cs := cs s; mutex := mutex s; q := q s;
     nf_wait := nf_wait s; ne_wait := ne_wait s; c_hold := c_hold s;
     p_out := p_out s ++ [r]; c_out := c_out s; appended := appended s; popped := popped s; underflow := underflow s |}.
Definition c_finish (s : state) (r : res) : state :=
  {| pp := pp s; cp := c_start (tl (cs s)); ps := ps s; cs := tl (cs s); mutex := mutex s; q := q s;
     nf_wait := nf_wait s; ne_wait := ne_wait s; c_hold := None;
     p_out := p_out s; c_out := c_out s ++ [r]; appended := appended s; popped := popped s; underflow := underflow s |}.

Definition step_p (g : cfg) (s : state) (ex : bool) : option (state * event) :=
  match ps s with
  | [] => None
  | Put x block timed :: _ =>
      match pp s, ex with
      | TLock, false =>
          match mutex s with
          | None => Some (upd_p (set_mutex s (Some T_P)) (if (0 <? maxsize g)%nat then TChk else TAct), mkEv T_P OP_LOCK_ACQ 0)
          | Some _ => None
          end
      | TChk, false =>
          let e := mkEv T_P OP_DQ_LEN (ZofN (length (q s))) in
          if isfull g s then (if block then Some (upd_p s TWait, e) else Some (upd_p s (TUnlock true), e))
          else Some (upd_p s TAct, e)
      | TWait, false =>
          Some ({| pp := TWaiting; cp := cp s; ps := ps s; cs := cs s; mutex := None; q := q s; nf_wait := true;
                   ne_wait := ne_wait s; c_hold := c_hold s; p_out := p_out s; c_out := c_out s;
                   appended := appended s; popped := popped s; underflow := underflow s |},
                mkEv T_P OP_COND_WAIT 0)
      | TWaiting, true =>
          if timed
          then Some ({| pp := TExpired; cp := cp s; ps := ps s; cs := cs s; mutex := mutex s; q := q s; nf_wait := false;
                        ne_wait := ne_wait s; c_hold := c_hold s; p_out := p_out s; c_out := c_out s;
                        appended := appended s; popped := popped s; underflow := underflow s |},
                     mkEv T_P OP_COND_EXPIRE 0)
          else None
      | TNotified, false =>
          match mutex s with
          | None => Some (upd_p (set_mutex s (Some T_P)) TAct, mkEv T_P OP_COND_WOKE 1)
          | Some _ => None
          end
      | TExpired, false =>
          match mutex s with
          | None => Some (upd_p (set_mutex s (Some T_P)) (TUnlock true), mkEv T_P OP_COND_WOKE 0)
          | Some _ => None
          end
      | TAct, false =>
          Some ({| pp := TNotify; cp := cp s; ps := ps s; cs := cs s; mutex := mutex s; q := q s ++ [x]; nf_wait := nf_wait s;
                   ne_wait := ne_wait s; c_hold := c_hold s; p_out := p_out s; c_out := c_out s;
                   appended := appended s ++ [x]; popped := popped s; underflow := underflow s |},
                mkEv T_P OP_APPEND x)
      | TNotify, false =>
          if ne_wait s
          then Some ({| pp := TUnlock false; cp := TNotified; ps := ps s; cs := cs s; mutex := mutex s; q := q s;
                        nf_wait := nf_wait s; ne_wait := false; c_hold := c_hold s; p_out := p_out s; c_out := c_out s;
                        appended := appended s; popped := popped s; underflow := underflow s |},
                     mkEv T_P OP_COND_NOTIFY 1)
          else Some (upd_p s (TUnlock false), mkEv T_P OP_COND_NOTIFY 0)
      | TUnlock raised, false =>
          Some (p_finish (set_mutex s None) (if raised then RExc else ROk x), mkEv T_P OP_LOCK_REL 0)
      | _, _ => None
      end
  | PFull :: _ =>
      match pp s, ex with
      | TRead, false => Some (p_finish s (RBool (isfull g s)), mkEv T_P OP_SL_READ (b2z (isfull g s)))
      | _, _ => None
      end
  | PEmpty :: _ =>
      match pp s, ex with
      | TRead, false =>
          let b := match q s with [] => true | _ => false end in
          Some (p_finish s (RBool b), mkEv T_P OP_SL_READ (b2z b))
      | _, _ => None
      end
  end.

Definition step_c (g : cfg) (s : state) (ex : bool) : option (state * event) :=
  match cs s with
  | [] => None
  | Get block timed :: _ =>
      match cp s, ex with
      | TLock, false =>
          match mutex s with
          | None => Some (upd_c (set_mutex s (Some T_C)) TChk, mkEv T_C OP_LOCK_ACQ 0)
          | Some _ => None
          end
      | TChk, false =>
          let e := mkEv T_C OP_DQ_LEN (ZofN (length (q s))) in
          match q s with
          | [] => if block then Some (upd_c s TWait, e) else Some (upd_c s (TUnlock true), e)
          | _ => Some (upd_c s TAct, e)
          end
      | TWait, false =>
          Some ({| pp := pp s; cp := TWaiting; ps := ps s; cs := cs s; mutex := None; q := q s; nf_wait := nf_wait s;
                   ne_wait := true; c_hold := c_hold s; p_out := p_out s; c_out := c_out s;
                   appended := appended s; popped := popped s; underflow := underflow s |},
                mkEv T_C OP_COND_WAIT 0)
      | TWaiting, true =>
          if timed
          then Some ({| pp := pp s; cp := TExpired; ps := ps s; cs := cs s; mutex := mutex s; q := q s; nf_wait := nf_wait s;
                        ne_wait := false; c_hold := c_hold s; p_out := p_out s; c_out := c_out s;
                        appended := appended s; popped := popped s; underflow := underflow s |},
                     mkEv T_C OP_COND_EXPIRE 0)
          else None
      | TNotified, false =>
          match mutex s with
          | None => Some (upd_c (set_mutex s (Some T_C)) TAct, mkEv T_C OP_COND_WOKE 1)
          | Some _ => None
          end
      | TExpired, false =>
          match mutex s with
          | None => Some (upd_c (set_mutex s (Some T_C)) (TUnlock true), mkEv T_C OP_COND_WOKE 0)
          | Some _ => None
          end
      | TAct, false =>
          match q s with
          | [] => (* IndexError: pop from an empty deque; leaves the `with` block by the exception *)
              Some ({| pp := pp s; cp := TUnlock true; ps := ps s; cs := cs s; mutex := mutex s; q := []; nf_wait := nf_wait s;
                       ne_wait := ne_wait s; c_hold := None; p_out := p_out s; c_out := c_out s;
                       appended := appended s; popped := popped s; underflow := true |},
                    mkEv T_C OP_POPLEFT (-9999))
          | v :: r =>
              Some ({| pp := pp s; cp := TNotify; ps := ps s; cs := cs s; mutex := mutex s; q := r; nf_wait := nf_wait s;
                       ne_wait := ne_wait s; c_hold := Some v; p_out := p_out s; c_out := c_out s;
                       appended := appended s; popped := popped s ++ [v]; underflow := underflow s |},
                    mkEv T_C OP_POPLEFT v)
          end
      | TNotify, false =>
          if nf_wait s
          then Some ({| pp := TNotified; cp := TUnlock false; ps := ps s; cs := cs s; mutex := mutex s; q := q s;
                        nf_wait := false; ne_wait := ne_wait s; c_hold := c_hold s; p_out := p_out s; c_out := c_out s;
                        appended := appended s; popped := popped s; underflow := underflow s |},
                     mkEv T_C OP_COND_NOTIFY 1)
          else Some (upd_c s (TUnlock false), mkEv T_C OP_COND_NOTIFY 0)
      | TUnlock raised, false =>
          Some (c_finish (set_mutex s None)
                         (if raised then RExc else match c_hold s with Some v => ROk v | None => RExc end),
                mkEv T_C OP_LOCK_REL 0)
      | _, _ => None
      end
  | CFull :: _ =>
      match cp s, ex with
      | TRead, false => Some (c_finish s (RBool (isfull g s)), mkEv T_C OP_SL_READ (b2z (isfull g s)))
      | _, _ => None
      end
  | CEmpty :: _ =>
      match cp s, ex with
      | TRead, false =>
          let b := match q s with [] => true | _ => false end in
          Some (c_finish s (RBool b), mkEv T_C OP_SL_READ (b2z b))
      | _, _ => None
      end
  end.

Definition step (g : cfg) (s : state) (l : label) : option (state * event) :=
  match l with P ex => step_p g s ex | C ex => step_c g s ex end.

Definition oks (l : list res) : list Z :=
  flat_map (fun r => match r with ROk v => [v] | _ => [] end) l.

(* the item of a put that has been appended but whose put has not returned yet *)
Definition p_inflight (s : state) : list Z :=
  match pp s, ps s with
  | TNotify, Put x _ _ :: _ | TUnlock false, Put x _ _ :: _ => [x]
  | _, _ => []
  end.
Definition c_inflight (s : state) : list Z := match c_hold s with Some v => [v] | None => [] end.

Definition can_move (g : cfg) (s : state) (l : bool -> label) : bool :=
  match step g s (l false), step g s (l true) with None, None => false | _, _ => true end.

(* neither thread can move although neither has finished its script *)
Definition wedged (g : cfg) (s : state) : bool :=
  negb (can_move g s P) && negb (can_move g s C) &&
  negb (match pp s with TDone => true | _ => false end) && negb (match cp s with TDone => true | _ => false end).
