(* Executable model of mpservice.streamer._tee (Fork.__next__, src/mpservice/streamer/_tee.py:24-109)
   with n forks consumed by n threads. One step = one access to a shared object: head.value, the
   source-iterator lock, the source, the bounded window queue `buffer`, a box's `next` / `n` / lock.

   Label [Fk f expire]: fork f moves; expire = its timed acquire of the source lock (0.1 s) gives up.
   No proofs in this file. *)
From MpV Require Export Lib.Trace.
Open Scope Z_scope.

Inductive src_item := SData (x : Z) | SRaise (e : Z).

Record cfg := { nforks : nat; bufsize : nat; src : list src_item }.

Record box := { bval : Z; bnext : option nat; bn : nat; block : option nat }.

Inductive outcome := Finished | Raised (e : Z).

Inductive fpc :=
| PEntry                  (* start of a __next__ call *)
| PA2 | PA3 | PA4 | PA5 (b : nat) | PA6 (b : nat) | PA7
| PA7e (o : outcome)      (* leaving `with instream_lock` through StopIteration / an exception *)
| PA8 | PA9
| PB1 | PB2 | PB3 | PB4 | PB5 (b : nat) | PB6 (b : nat) | PB7
| PC1 | PC2 | PC3 | PC4 | PC5
| PR (v : Z)              (* hand the value to the consumer's loop body *)
| PDone (o : outcome).

Record fork := { nxt : option nat; started : bool; pc : fpc; recv : list Z }.

Record state := {
  forks : list fork;
  boxes : list box;
  head : option nat;
  buffer : list nat;
  ilock : option nat;
  rest : list src_item;
  pulled : nat
}.

Definition init (g : cfg) : state :=
  {| forks := repeat {| nxt := None; started := false; pc := PEntry; recv := [] |} (nforks g);
     boxes := []; head := None; buffer := []; ilock := None; rest := src g; pulled := 0 |}.

Inductive label := Fk (f : nat) (expire : bool).
Definition T_F (f : nat) := (10 + f)%nat.

Definition OP_HEAD_READ := 60%nat.    (* val = box index or -1 *)
Definition OP_HEAD_SET := 61%nat.
Definition OP_ILOCK_ACQ := 62%nat.    (* val 1 acquired / 0 timed out *)
Definition OP_ILOCK_REL := 63%nat.
Definition OP_BUF_PUT := 64%nat.
Definition OP_BUF_GET := 65%nat.
Definition OP_NEXT_READ := 66%nat.    (* read of box.next: val = index or -1 *)
Definition OP_LINK := 67%nat.         (* box.next := new box *)
Definition OP_BLOCK_ACQ := 68%nat.    (* val = box index *)
Definition OP_BLOCK_REL := 69%nat.
Definition OP_N_SET := 70%nat.        (* box.n := val *)

Fixpoint set_nth {A} (n : nat) (x : A) (l : list A) : list A :=
  match l, n with
  | [], _ => []
  | _ :: t, O => x :: t
  | h :: t, S m => h :: set_nth m x t
  end.

Definition oi (o : option nat) : Z := match o with Some i => Z.of_nat i | None => -1 end.

Definition set_fork (s : state) (f : nat) (k : fork) : state :=
  {| forks := set_nth f k (forks s); boxes := boxes s; head := head s; buffer := buffer s;
     ilock := ilock s; rest := rest s; pulled := pulled s |}.
Definition set_boxes (s : state) v := {| forks := forks s; boxes := v; head := head s; buffer := buffer s;
     ilock := ilock s; rest := rest s; pulled := pulled s |}.
Definition set_head (s : state) v := {| forks := forks s; boxes := boxes s; head := v; buffer := buffer s;
     ilock := ilock s; rest := rest s; pulled := pulled s |}.
Definition set_buffer (s : state) v := {| forks := forks s; boxes := boxes s; head := head s; buffer := v;
     ilock := ilock s; rest := rest s; pulled := pulled s |}.
Definition set_ilock (s : state) v := {| forks := forks s; boxes := boxes s; head := head s; buffer := buffer s;
     ilock := v; rest := rest s; pulled := pulled s |}.
Definition set_rest (s : state) r p := {| forks := forks s; boxes := boxes s; head := head s; buffer := buffer s;
     ilock := ilock s; rest := r; pulled := p |}.

Definition with_pc (k : fork) (p : fpc) : fork := {| nxt := nxt k; started := started k; pc := p; recv := recv k |}.
Definition with_nxt (k : fork) (n : option nat) (p : fpc) : fork := {| nxt := n; started := started k; pc := p; recv := recv k |}.

Definition buf_full (g : cfg) (s : state) : bool := (bufsize g <=? length (buffer s))%nat.

(* pulling the next source element; the new box is allocated here (it is still private to the fork) *)
Definition pull (s : state) : (state * option (Z * nat) * Z * option outcome) :=
  match rest s with
  | [] => (s, None, V_END, None)
  | SData x :: r =>
      let b := length (boxes s) in
      (set_boxes (set_rest s r (S (pulled s))) (boxes s ++ [{| bval := x; bnext := None; bn := 0; block := None |}]),
       Some (x, b), x, None)
  | SRaise e :: r => (set_rest s r (pulled s), None, v_exc e, Some (Raised e))
  end.

Definition step_f (g : cfg) (s : state) (f : nat) (expire : bool) : option (state * event) :=
  let t := T_F f in
  match nth_error (forks s) f with
  | None => None
  | Some k =>
      let go k' s' := set_fork s' f k' in
      match pc k, expire with
      | PEntry, false =>
          match nxt k with
          | None =>
              (* `if self.head.value is None` *)
              match head s with
              | None => Some (go (with_pc k PA2) s, mkEv t OP_HEAD_READ (-1))
              | Some h =>
                  if started k then Some (go (with_pc k (PDone Finished)) s, mkEv t OP_HEAD_READ (oi (Some h)))
                  else Some (go (with_pc k PA9) s, mkEv t OP_HEAD_READ (oi (Some h)))
              end
          | Some b =>
              (* `while self.next.next is None` *)
              match nth_error (boxes s) b with
              | Some bx =>
                  match bnext bx with
                  | None => Some (go (with_pc k PB2) s, mkEv t OP_NEXT_READ (-1))
                  | Some n' => Some (go (with_pc k PC1) s, mkEv t OP_NEXT_READ (oi (Some n')))
                  end
              | None => None
              end
          end
      | PA2, false =>
          match ilock s with
          | None => Some (go (with_pc k PA3) (set_ilock s (Some f)), mkEv t OP_ILOCK_ACQ 1)
          | Some _ => None
          end
      | PA3, false =>
          match head s with
          | None => Some (go (with_pc k PA4) s, mkEv t OP_HEAD_READ (-1))
          | Some h => Some (go (with_pc k PA7) s, mkEv t OP_HEAD_READ (oi (Some h)))
          end
      | PA4, false =>
          let '(s1, got, v, exc) := pull s in
          match got, exc with
          | Some (_, b), _ => Some (go (with_pc k (PA5 b)) s1, mkEv t OP_SRC_NEXT v)
          | None, Some o => Some (go (with_pc k (PA7e o)) s1, mkEv t OP_SRC_NEXT v)
          | None, None => Some (go (with_pc k (PA7e Finished)) s1, mkEv t OP_SRC_NEXT v)
          end
      | PA5 b, false =>
          if buf_full g s then None
          else Some (go (with_pc k (PA6 b)) (set_buffer s (buffer s ++ [b])), mkEv t OP_BUF_PUT (Z.of_nat b))
      | PA6 b, false => Some (go (with_pc k PA7) (set_head s (Some b)), mkEv t OP_HEAD_SET (Z.of_nat b))
      | PA7, false => Some (go (with_pc k PA8) (set_ilock s None), mkEv t OP_ILOCK_REL 0)
      | PA7e o, false => Some (go (with_pc k (PDone o)) (set_ilock s None), mkEv t OP_ILOCK_REL 0)
      | PA8, false | PA9, false =>
          (* `self.next = self.head.value`, then the recursive call *)
          Some (go (with_nxt k (head s) PEntry) s, mkEv t OP_HEAD_READ (oi (head s)))
      | PB2, false =>
          match ilock s with
          | None => Some (go (with_pc k PB3) (set_ilock s (Some f)), mkEv t OP_ILOCK_ACQ 1)
          | Some _ => None
          end
      | PB2, true =>
          match ilock s with
          | Some _ => Some (go (with_pc k PEntry) s, mkEv t OP_ILOCK_ACQ 0)   (* loop: re-read next.next *)
          | None => None
          end
      | PB3, false =>
          match nxt k with
          | Some b =>
              match nth_error (boxes s) b with
              | Some bx =>
                  match bnext bx with
                  | None => Some (go (with_pc k PB4) s, mkEv t OP_NEXT_READ (-1))
                  | Some n' => Some (go (with_pc k PB7) s, mkEv t OP_NEXT_READ (oi (Some n')))
                  end
              | None => None
              end
          | None => None
          end
      | PB4, false =>
          let '(s1, got, v, exc) := pull s in
          match got, exc with
          | Some (_, b), _ => Some (go (with_pc k (PB5 b)) s1, mkEv t OP_SRC_NEXT v)
          | None, Some o => (* the exception propagates; the source lock is NOT released *)
              Some (go (with_pc k (PDone o)) s1, mkEv t OP_SRC_NEXT v)
          | None, None => Some (go (with_pc k PB7) s1, mkEv t OP_SRC_NEXT v)
          end
      | PB5 b, false =>
          match nxt k with
          | Some cur =>
              match nth_error (boxes s) cur with
              | Some bx =>
                  Some (go (with_pc k (PB6 b))
                           (set_boxes s (set_nth cur {| bval := bval bx; bnext := Some b; bn := bn bx; block := block bx |} (boxes s))),
                        mkEv t OP_LINK (Z.of_nat b))
              | None => None
              end
          | None => None
          end
      | PB6 b, false =>
          if buf_full g s then None
          else Some (go (with_pc k PB7) (set_buffer s (buffer s ++ [b])), mkEv t OP_BUF_PUT (Z.of_nat b))
      | PB7, false => Some (go (with_pc k PC1) (set_ilock s None), mkEv t OP_ILOCK_REL 0)
      | PC1, false =>
          match nxt k with
          | Some b =>
              match nth_error (boxes s) b with
              | Some bx =>
                  match block bx with
                  | None => Some (go (with_pc k PC2)
                                     (set_boxes s (set_nth b {| bval := bval bx; bnext := bnext bx; bn := bn bx; block := Some f |} (boxes s))),
                                  mkEv t OP_BLOCK_ACQ (Z.of_nat b))
                  | Some _ => None
                  end
              | None => None
              end
          | None => None
          end
      | PC2, false =>
          match nxt k with
          | Some b =>
              match nth_error (boxes s) b with
              | Some bx =>
                  let n' := S (bn bx) in
                  Some (go (with_pc k (if (n' =? nforks g)%nat then PC3 else PC4))
                           (set_boxes s (set_nth b {| bval := bval bx; bnext := bnext bx; bn := n'; block := block bx |} (boxes s))),
                        mkEv t OP_N_SET (Z.of_nat n'))
              | None => None
              end
          | None => None
          end
      | PC3, false =>
          match buffer s with
          | [] => None
          | h :: r => Some (go (with_pc k PC4) (set_buffer s r), mkEv t OP_BUF_GET (Z.of_nat h))
          end
      | PC4, false =>
          match nxt k with
          | Some b =>
              match nth_error (boxes s) b with
              | Some bx => Some (go (with_pc k PC5)
                                    (set_boxes s (set_nth b {| bval := bval bx; bnext := bnext bx; bn := bn bx; block := None |} (boxes s))),
                                 mkEv t OP_BLOCK_REL (Z.of_nat b))
              | None => None
              end
          | None => None
          end
      | PC5, false =>
          match nxt k with
          | Some b =>
              match nth_error (boxes s) b with
              | Some bx =>
                  Some (go {| nxt := bnext bx; started := true; pc := PR (bval bx); recv := recv k |} s,
                        mkEv t OP_NEXT_READ (oi (bnext bx)))
              | None => None
              end
          | None => None
          end
      | PR v, false =>
          Some (go {| nxt := nxt k; started := started k; pc := PEntry; recv := recv k ++ [v] |} s, mkEv t OP_RECV v)
      | _, _ => None
      end
  end.

Definition step (g : cfg) (s : state) (l : label) : option (state * event) :=
  match l with Fk f ex => step_f g s f ex end.

Fixpoint datas (l : list src_item) : list Z :=
  match l with SData x :: r => x :: datas r | _ => [] end.

Definition fork_done (k : fork) : bool := match pc k with PDone _ => true | _ => false end.
Definition all_done (s : state) : bool := forallb fork_done (forks s).

Definition can_move (g : cfg) (s : state) (f : nat) : bool :=
  match step_f g s f false with Some _ => true | None => match step_f g s f true with Some _ => true | None => false end end.

(* nobody can move, some fork is not done: a hang (a fork polling a lock that is never released is
   counted as able to move; see [livelocked]) *)
Definition deadlocked (g : cfg) (s : state) : bool :=
  negb (all_done s) && forallb (fun f => negb (can_move g s f)) (seq 0 (nforks g)).
