(* Abstract specification of C06 over the operations an outside observer sees on a server's in-flight ledger, in the order
   they really happened (the ledger is observed under a lock):
     Acc    a request was entered into the ledger (accepted)
     Rel    the gather thread removed an entry (the slot came back)
     Len n  somebody asked for the size and was told n
   The specification keeps the backlog it deduces from Acc / Rel, refuses an Acc that would exceed the capacity, a Rel with
   nothing in flight, and a Len that disagrees with its own count (the log is then not a log of this ledger).
   Model/Server.v refines it: its ledger size is this counter, bounded in every reachable state (Proof/ServerProof.v).
   No proofs in this file. *)
From Coq Require Export List Arith.
Export ListNotations.

Inductive ev := Acc | Rel | Len (n : nat).

Record st := { backlog : nat; accepted : nat; released : nat; peak : nat }.
Definition init : st := {| backlog := 0; accepted := 0; released := 0; peak := 0 |}.

Inductive refusal := Overflow | Impossible | Inconsistent.

Definition step (cap : nat) (s : st) (e : ev) : st + refusal :=
  match e with
  | Acc => if backlog s <? cap
           then inl {| backlog := S (backlog s); accepted := S (accepted s); released := released s;
                       peak := Nat.max (peak s) (S (backlog s)) |}
           else inr Overflow
  | Rel => match backlog s with
           | 0 => inr Impossible
           | S b => inl {| backlog := b; accepted := accepted s; released := S (released s); peak := peak s |}
           end
  | Len n => if n =? backlog s then inl s else inr Inconsistent
  end.

Fixpoint accept (cap : nat) (s : st) (i : nat) (evs : list ev) : st + (nat * refusal) :=
  match evs with
  | [] => inl s
  | e :: r => match step cap s e with
              | inl s' => accept cap s' (S i) r
              | inr k => inr (i, k)
              end
  end.
