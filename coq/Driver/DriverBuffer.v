(* Trace-validation driver for the Buffer model: replays the schedule the implementation ran
   (the thread of each logged event) and compares events, final classification and outcome. *)
From MpV Require Export Model.Buffer.
From MpV Require Import Lib.Conc.

(* maxsize, source, stop_after, events (tid, op, val), verdict (0 ok | 1 deadlock), outcome code *)
Definition case := (nat * list src_item * option nat * list (nat * nat * Z) * nat * Z)%type.

Definition outcome_code (o : outcome) : Z :=
  match o with Running => (-1)%Z | Completed => 0%Z | Broke => 1%Z | Raised e => (2 + e)%Z end.

Definition final_outcome (s : state) : Z :=
  match cp s with
  | CDone o => outcome_code o
  | CSet o | CDrainChk o | CDrainGet o | CJoin o => outcome_code o   (* where it is stuck, if it is *)
  | _ => (-1)%Z
  end.

Definition label_of (t : nat) : option label :=
  match t with 0%nat => Some C | 1%nat => Some W | _ => None end.

Fixpoint labels (evs : list (nat * nat * Z)) : option (list label) :=
  match evs with
  | [] => Some []
  | (t, _, _) :: r => match label_of t, labels r with
                      | Some l, Some ls => Some (l :: ls)
                      | _, _ => None
                      end
  end.

(* result: 0 = agrees; otherwise 1 + an error code *)
Definition check_case (c : case) : nat :=
  let '(ms, sr, sa, evs, verdict, oc) := c in
  let g := {| maxsize := ms; src := sr; stop_after := sa; drain_join := true |} in
  match labels evs with
  | None => 1
  | Some ls =>
      let '(mevs, sf, bad) := replay step g (init g) ls in
      match bad with
      | Some _ => 2                                      (* a logged operation is not enabled in the model *)
      | None =>
          match first_diff 0 mevs (map (fun e => mkEv (fst (fst e)) (snd (fst e)) (snd e)) evs) with
          | Some _ => 3                                  (* events differ *)
          | None =>
              match verdict with
              | 0%nat => if final sf then (if (final_outcome sf =? oc)%Z then 0 else 5) else 4
              | _ => if deadlocked g sf then (if (oc =? -1)%Z || (final_outcome sf =? oc)%Z then 0 else 5) else 6
              end
          end
      end
  end%nat.

Fixpoint bad_from (i : nat) (cs : list case) : list (nat * nat) :=
  match cs with
  | [] => []
  | c :: rest => match check_case c with
                 | 0%nat => bad_from (S i) rest
                 | k => (i, k) :: bad_from (S i) rest
                 end
  end.
Definition bad_cases (cs : list case) : list (nat * nat) := bad_from 0 cs.
