(* Differential driver for the timed policy of Worker._get_input_batch against Model/EagerBatcher.v
   (same case format and comparison as Driver/DriverC19.v). *)
From MpV Require Export Driver.DriverC19.

Definition bad_cases (cs : list case) : list (nat * nat) := map (fun i => (i, 1%nat)) (bad_indices cs).
