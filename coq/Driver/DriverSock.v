(* Differential-correspondence driver for C18 (framing). *)
From MpV Require Export Model.SockFrame.

Fixpoint beq_bytes (a b : bytes) : bool :=
  match a, b with
  | [], [] => true
  | x :: a', y :: b' => (x =? y) && beq_bytes a' b'
  | _, _ => false
  end.

(* id, encoder, payload, following bytes, bytes written by the real write_record,
   what the real read_record returned from (wire ++ following): id, payload, number of bytes left;
   a cut position k < length wire and what the real read_record did with the first k bytes followed by
   end-of-stream (0 = IncompleteReadError, 1 = it returned a record, 2 = anything else) *)
Definition case := (bytes * bytes * bytes * bytes * bytes * (bytes * bytes * nat) * (nat * nat))%type.

Definition check_case (c : case) : nat :=
  let '(id, enc, payload, rest, wire, (oid, opayload, oleft), (cut, cutres)) := c in
  if negb (beq_bytes (encode_record id enc payload) wire) then 1
  else match read_record (wire ++ rest) with
       | None => 2
       | Some (r, rest') =>
           if beq_bytes (r_id r) oid && beq_bytes (r_payload r) opayload && (length rest' =? oleft)
              && beq_bytes (r_enc r) enc && beq_bytes rest' rest
           then match read_record (firstn cut wire) with
                | None => if cutres =? 0 then 0 else 4
                | Some _ => if cutres =? 1 then 0 else 4
                end
           else 3
       end.

Fixpoint bad_from (i : nat) (cs : list case) : list (nat * nat) :=
  match cs with
  | [] => []
  | c :: rest => match check_case c with
                 | 0 => bad_from (S i) rest
                 | k => (i, k) :: bad_from (S i) rest
                 end
  end.
Definition bad_cases (cs : list case) : list (nat * nat) := bad_from 0 cs.
