(* Trace-validation driver for the Server model. *)
From MpV Require Export Model.Server.
From MpV Require Import Lib.Conc.
Open Scope Z_scope.

(* capacity, callers (backpressure, x), nworkers, failing inputs (x, code), events (tid, op, val, expire),
   verdict (0 ok | 1 deadlock), max backlog observed by the harness *)
Definition case := (nat * list (bool * Z) * nat * list (Z * Z) * list (nat * nat * Z * bool) * nat * nat)%type.

Fixpoint lookup (k : Z) (l : list (Z * Z)) : option Z :=
  match l with [] => None | (a, b) :: r => if a =? k then Some b else lookup k r end.

Definition mk_cfg (cap : nat) (cs : list (bool * Z)) (nw : nat) (fail : list (Z * Z)) : cfg :=
  {| capacity := cap;
     callers := map (fun c => {| backpressure := fst c; arg := snd c |}) cs;
     nworkers := nw;
     serve := fun x => match lookup x fail with Some e => Err e | None => Ok (7 * x + 3) end |}.

Definition label_of (t : nat) (ex : bool) : option label :=
  match t with
  | 0%nat => Some M
  | 1%nat => Some G
  | 2%nat => Some Nf
  | _ => if (100 <=? t)%nat then Some (K (t - 100) ex)
         else if (10 <=? t)%nat then Some (B (t - 10)) else None
  end.

Fixpoint labels (evs : list (nat * nat * Z * bool)) : option (list label) :=
  match evs with
  | [] => Some []
  | (t, _, _, ex) :: r => match label_of t ex, labels r with
                          | Some l, Some ls => Some (l :: ls)
                          | _, _ => None
                          end
  end.

Definition check_case (c : case) : nat :=
  let '(cap, cs, nw, fail, evs, verdict, bmax) := c in
  let g := mk_cfg cap cs nw fail in
  match labels evs with
  | None => 1
  | Some ls =>
      let '(mevs, sf, bad) := replay step g (init g) ls in
      match bad with
      | Some _ => 2
      | None =>
          match first_diff 0 mevs (map (fun e => mkEv (fst (fst (fst e))) (snd (fst (fst e))) (snd (fst e))) evs) with
          | Some _ => 3
          | None => if (max_backlog sf =? bmax)%nat then 0 else 4
          end
      end
  end%nat.

Fixpoint bad_from (i : nat) (cs : list case) : list (nat * nat) :=
  match cs with
  | [] => []
  | c :: rest => match check_case c with
                 | 0%nat => bad_from (S i) rest
                 | k => (i, k) :: bad_from (S i) rest
                 end
  end.
Definition bad_cases (cs : list case) : list (nat * nat) := bad_from 0 cs.

Definition model_events (c : case) :=
  let '(cap, cs, nw, fail, evs, verdict, bmax) := c in
  let g := mk_cfg cap cs nw fail in
  match labels evs with
  | None => ([], None, 0%nat)
  | Some ls => let '(mevs, sf, bad) := replay step g (init g) ls in
               (map (fun e => (e_tid e, e_op e, e_val e)) mevs, bad, max_backlog sf)
  end.
