(* Driver for the real-run part of C06 / C07 on AsyncServer's admission gate: the tokens logged by the ledger and by the
   condition (a logging subclass of asyncio.Condition) during a real run are replayed, one model step per token, in
   Model/AGate.v with [pass_on := true].
   Tokens: 0 = ledger insert | 1 = ledger pop (gather thread) | 2 = a waiter starts waiting | 3 = a notified waiter resumes |
   4 = a waiter leaves, its future cancelled while waiting | 5 = a waiter leaves although it had been notified |
   6 / 7 = notify() woke 0 / 1 waiter | 8 = the future of a waiting caller is cancelled | 10 + k = len(ledger) gave k.
   Only token 1 comes from another thread than the event loop's; it can fall between any two others. *)
From MpV Require Export Model.AGate.
From Coq Require Import Bool.
Open Scope bool_scope.

Definition T_ACC := 0. Definition T_REL := 1. Definition T_WE := 2. Definition T_WO := 3.
Definition T_WC0 := 4. Definition T_WC1 := 5. Definition T_N0 := 6. Definition T_N1 := 7. Definition T_FC := 8.

(* the next token that the event loop's thread logged *)
Fixpoint next_loop (l : list nat) : option nat :=
  match l with
  | [] => None
  | 1 :: r => next_loop r
  | t :: _ => Some t
  end.

Record pst := {
  ms : state;
  woken : bool;             (* a notified waiter has resumed and has not yet re-tested the size *)
  skip_dec : bool;          (* the insert / wait that follows a size test already replayed at the test *)
  absorb_n : option nat     (* the notify() of a leaving waiter, already replayed with its leave: expected number woken *)
}.

Definition do (g : cfg) (ps : pst) (lb : label) (err : nat) (k : pst -> nat + pst) : nat + pst :=
  match step g (ms ps) lb with
  | Some (s', _) => k {| ms := s'; woken := woken ps; skip_dec := skip_dec ps; absorb_n := absorb_n ps |}
  | None => inl err
  end.

Definition woke_expected (s : state) : nat := if 0 <? w s then 1 else 0.

Definition feed1 (g : cfg) (ps : pst) (t : nat) (rest : list nat) : nat + pst :=
  match t with
  | 1 => do g ps Pop 2 inr
  | 0 | 2 => if skip_dec ps then inr {| ms := ms ps; woken := woken ps; skip_dec := false; absorb_n := absorb_n ps |} else inl 3
  | 3 => if woken ps then inl 4
         else if n (ms ps) =? 0 then inl 5
         else inr {| ms := ms ps; woken := true; skip_dec := skip_dec ps; absorb_n := absorb_n ps |}
  | 8 => do g ps FutCancel 14 inr
  | 4 | 5 =>
      if woken ps then inl 6 else
      (* the waiter must pass the notification on: the loop's next token is its notify() *)
      match next_loop rest with
      | Some 6 | Some 7 =>
          let lb := if t =? 4 then Leave else CancelNotified in
          let s0 := ms ps in
          let w_then := w s0 in
          do g ps lb (if t =? 4 then 15 else 16)
             (fun ps' => inr {| ms := ms ps'; woken := false; skip_dec := skip_dec ps';
                                absorb_n := Some (if 0 <? w_then then 1 else 0) |})
      | _ => inl 7
      end
  | 6 | 7 =>
      let k := t - 6 in
      match absorb_n ps with
      | Some k' => if k =? k' then inr {| ms := ms ps; woken := woken ps; skip_dec := skip_dec ps; absorb_n := None |} else inl 8
      | None =>
          if negb (k =? woke_expected (ms ps)) then inl 9
          else do g ps (if 0 <? p (ms ps) then Notify else Spurious) 17 inr
      end
  | _ =>
      if t <? 10 then inl 1 else
      let m := t - 10 in
      if negb (m =? b (ms ps)) then inl 10
      else match next_loop rest with
           | Some 0 | Some 2 =>
               (* a size test that is acted upon: the arrival of a caller, or a resumed waiter re-testing *)
               let accepted := b (ms ps) <? cap g in
               let want_acc := match next_loop rest with Some 0 => true | _ => false end in
               if negb (Bool.eqb accepted want_acc) then inl 11
               else do g ps (if woken ps then Run else Arrive) 18
                       (fun ps' => inr {| ms := ms ps'; woken := false; skip_dec := true; absorb_n := absorb_n ps' |})
           | Some 6 | Some 7 =>
               if woken ps then
                 (* a resumed waiter finds the ledger still full and its patience used up: wait_for(..., timeout <= 0) never
                    starts the wait; it leaves at once, passing the notification on - in the model: waits again, is
                    cancelled, leaves *)
                 if b (ms ps) <? cap g then inl 11
                 else do g ps Run 18 (fun ps1 =>
                      do g ps1 FutCancel 14 (fun ps2 =>
                      let w_then := w (ms ps2) in
                      do g ps2 Leave 15 (fun ps3 =>
                        inr {| ms := ms ps3; woken := false; skip_dec := false;
                               absorb_n := Some (if 0 <? w_then then 1 else 0) |})))
               else inr ps
           | _ => if woken ps then inl 12 else inr ps       (* an observation only (a rejection, the size in an error message) *)
           end
  end.

Fixpoint feed (g : cfg) (ps : pst) (i : nat) (toks : list nat) : (nat * nat) + pst :=
  match toks with
  | [] => inr ps
  | t :: r => match feed1 g ps t r with
              | inl e => inl (i, e)
              | inr ps' => feed g ps' (S i) r
              end
  end.

(* capacity, tokens, 1 = every caller had returned and the ledger was empty when logging stopped *)
Definition case := (nat * list nat * nat)%type.

Definition check_case (c : case) : nat :=
  let '(cp, toks, idle) := c in
  let g := {| cap := cp; pass_on := true |} in
  match feed g {| ms := init; woken := false; skip_dec := false; absorb_n := None |} 0 toks with
  | inl (_, e) => e
  | inr ps =>
      if woken ps || skip_dec ps || (match absorb_n ps with Some _ => true | None => false end) then 19
      else if (idle =? 1) && negb ((w (ms ps) =? 0) && (n (ms ps) =? 0) && (lv (ms ps) =? 0) && (b (ms ps) =? 0)) then 13
      else 0
  end.

Fixpoint bad_from (i : nat) (cs : list case) : list (nat * nat) :=
  match cs with
  | [] => []
  | c :: rest => match check_case c with
                 | 0 => bad_from (S i) rest
                 | k => (i, k) :: bad_from (S i) rest
                 end
  end.
Definition bad_cases (cs : list case) : list (nat * nat) := bad_from 0 cs.

(* diagnostics *)
Definition where_bad (c : case) : option (nat * nat) :=
  let '(cp, toks, idle) := c in
  match feed {| cap := cp; pass_on := true |} {| ms := init; woken := false; skip_dec := false; absorb_n := None |} 0 toks with
  | inl x => Some x
  | inr _ => None
  end.
