(* Differential driver for the log channel: the read sequence of the parent's logger thread, the records handled
   and the way the run ended, as observed on real processes, against Model/LogChan.v under a fair schedule. *)
From MpV Require Export Model.LogChan.
From MpV Require Import Lib.Conc.

(* levels, threshold, observed reads (record index or -1 for the end marker), observed handled indices,
   1 = the child exited and join returned in time *)
Definition case := (list nat * nat * list Z * list nat * nat)%type.

Definition list_eqb {A} (eqb : A -> A -> bool) (a b : list A) : bool :=
  Nat.eqb (length a) (length b) && forallb (fun p => eqb (fst p) (snd p)) (combine a b).

Definition check_case (c : case) : nat :=
  let '(lv, thr, rds, hd, fin) := c in
  let g := {| levels := lv; threshold := thr; pipe_cap := 4; flush_first := true |} in
  let s := run step g (init g) (rounds (3 * length lv + 20)) in
  if negb (finished s) then 9
  else if negb (list_eqb Z.eqb (map mval (reads s)) rds) then 1
  else if negb (list_eqb Nat.eqb (handled s) hd) then 2
  else if negb (Nat.eqb fin 1) then 3
  else 0.

Fixpoint bad_from (i : nat) (cs : list case) : list (nat * nat) :=
  match cs with
  | [] => []
  | c :: rest => match check_case c with
                 | 0 => bad_from (S i) rest
                 | k => (i, k) :: bad_from (S i) rest
                 end
  end.
Definition bad_cases (cs : list case) : list (nat * nat) := bad_from 0 cs.
