(* Trace-validation driver for the FifoStream model. *)
From MpV Require Export Model.FifoStream.
From MpV Require Import Lib.Conc.
Open Scope Z_scope.

(* cap, conc, src, has_pre, pre failures (x, e), call failures (x, e), (return_x, return_exc),
   stop_after, events, verdict (0 ok | 1 deadlock), outcome code *)
Definition case := (nat * nat * list src_item * bool * list (Z * Z) * list (Z * Z) * (bool * bool)
                    * option nat * list (nat * nat * Z) * nat * Z)%type.

Fixpoint lookup (k : Z) (l : list (Z * Z)) : option Z :=
  match l with [] => None | (a, b) :: r => if a =? k then Some b else lookup k r end.

Definition PRE_OFFSET := 100.

Definition mk_cfg (cp cc : nat) sr (hp : bool) pf cf (rx re : bool) sa : cfg :=
  {| cap := cp; conc := cc; src := sr;
     call := fun xx => let x := if hp then xx - PRE_OFFSET else xx in
                       match lookup x cf with Some e => Err e | None => Ok (3 * xx + 1) end;
     pre := if hp then Some (fun x => match lookup x pf with Some e => PreErr e | None => PreOk (x + PRE_OFFSET) end)
            else None;
     return_x := rx; return_exc := re; stop_after := sa |}.

Definition outcome_code (o : outcome) : Z :=
  match o with Completed => 0 | Broke => 1 | Raised e => 2 + e end.

Definition final_outcome (s : state) : Z :=
  match cp s with
  | CDone o | CSetStop o | CDrainChk o | CDrainGet o | CCancel _ o | CJoin o => outcome_code o
  | _ => -1
  end.

Definition label_of (t : nat) : option label :=
  match t with
  | 0%nat => Some C
  | 1%nat => Some F
  | _ => if (10 <=? t)%nat then Some (P (t - 10)) else None
  end.

Fixpoint labels (evs : list (nat * nat * Z)) : option (list label) :=
  match evs with
  | [] => Some []
  | (t, _, _) :: r => match label_of t, labels r with
                      | Some l, Some ls => Some (l :: ls)
                      | _, _ => None
                      end
  end.

Definition check_case (c : case) : nat :=
  let '(cp0, cc, sr, hp, pf, cf, (rx, re), sa, evs, verdict, oc) := c in
  let g := mk_cfg cp0 cc sr hp pf cf rx re sa in
  match labels evs with
  | None => 1
  | Some ls =>
      let '(mevs, sf, bad) := replay step g (init g) ls in
      match bad with
      | Some _ => 2
      | None =>
          match first_diff 0 mevs (map (fun e => mkEv (fst (fst e)) (snd (fst e)) (snd e)) evs) with
          | Some _ => 3
          | None =>
              match verdict with
              | 0%nat => if final sf then (if (final_outcome sf =? oc)%Z then 0 else 5) else 4
              | _ => if deadlocked g sf then 0 else 6
              end
          end
      end
  end%nat.

Fixpoint bad_from (i : nat) (cs : list case) : list (nat * nat) :=
  match cs with
  | [] => []
  | c :: rest => match check_case c with
                 | 0%nat => bad_from (S i) rest
                 | k => (i, k) :: bad_from (S i) rest
                 end
  end.
Definition bad_cases (cs : list case) : list (nat * nat) := bad_from 0 cs.

(* diagnostics: the model's events for a case *)
Definition model_events (c : case) :=
  let '(cp0, cc, sr, hp, pf, cf, (rx, re), sa, evs, verdict, oc) := c in
  let g := mk_cfg cp0 cc sr hp pf cf rx re sa in
  match labels evs with
  | None => ([], None)
  | Some ls => let '(mevs, sf, bad) := replay step g (init g) ls in
               (map (fun e => (e_tid e, e_op e, e_val e)) mevs, bad)
  end.
