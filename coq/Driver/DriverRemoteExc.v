(* Differential-correspondence driver for C15: the model predicts the observable relations between
   the texts carried by an exception along a journey; the harness measures the same relations on the
   real RemoteException + pickle. *)
From MpV Require Export Model.RemoteExc.
Open Scope Z_scope.

(* frames of the raise site of hop h with traceback depth d: distinct tokens per hop *)
Definition site (h : Z) (d : nat) : text := map (fun k => 100 * h + Z.of_nat k + 1) (seq 0 d).

(* per-hop action code: None = forward, Some d = re-raise with depth d *)
Definition to_act (h : Z) (a : option nat) : action :=
  match a with None => Forward | Some d => Reraise (site h d) end.

Fixpoint to_acts (h : Z) (l : list (option nat)) : list action :=
  match l with [] => [] | a :: r => to_act h a :: to_acts (h + 1) r end.

Fixpoint text_eqb (x y : text) : bool :=
  match x, y with
  | [], [] => true
  | a :: x', b :: y' => (a =? b) && text_eqb x' y'
  | _, _ => false
  end.

(* origin: raised? (Some depth) or a bare exception object (None); then the hops.
   observed: wrapped ok?, is_remote at the end, text1 contained in textk, text1 = textk *)
Definition case := (option nat * list (option nat) * (bool * bool * bool * bool))%type.

Definition model_obs (origin : option nat) (acts : list (option nat)) : bool * bool * bool * bool :=
  let e0 := {| cls := 1; args := [1]; live_tb := None; cause_tb := None |} in
  let first := match origin with Some d => hop 0 (Reraise (site 0 d)) e0 | None => hop 0 Forward e0 end in
  match first with
  | None => (false, false, false, false)
  | Some e1 =>
      match hops 1 (to_acts 1 acts) e1 with
      | None => (false, false, false, false)
      | Some ek => (true, is_remote ek, infixb (remote_text e1) (remote_text ek),
                    text_eqb (remote_text e1) (remote_text ek))
      end
  end.

Definition beq4 (a b : bool * bool * bool * bool) : bool :=
  let '(a1, a2, a3, a4) := a in let '(b1, b2, b3, b4) := b in
  Bool.eqb a1 b1 && Bool.eqb a2 b2 && Bool.eqb a3 b3 && Bool.eqb a4 b4.

Definition check_case (c : case) : nat :=
  let '(origin, acts, obs) := c in if beq4 (model_obs origin acts) obs then 0%nat else 1%nat.

Fixpoint bad_from (i : nat) (cs : list case) : list (nat * nat) :=
  match cs with
  | [] => []
  | c :: rest => match check_case c with
                 | 0%nat => bad_from (S i) rest
                 | k => (i, k) :: bad_from (S i) rest
                 end
  end.
Definition bad_cases (cs : list case) : list (nat * nat) := bad_from 0 cs.
