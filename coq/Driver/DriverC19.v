(* Correspondence driver for C19: evaluates the model on the inputs the implementation ran on
   and returns the indices of the cases whose observable result differs. *)
From MpV Require Export Model.EagerBatcher.

(* batch size, wait, arrivals, observed (finished?, [(items, emit time, clock when the batch's
   first item left the queue)]) *)
Definition case := (nat * Z * list (Z * option Z) * (bool * list (list Z * Z * Z)))%type.

Definition model_obs (bs : nat) (w : Z) (arr : list (Z * option Z)) : bool * list (list Z * Z * Z) :=
  let '(stt, out) := run {| bsize := bs; wait := w |}
                         (map (fun p => {| atime := fst p; amsg := snd p |}) arr) in
  (match stt with Finished => true | Blocked => false end,
   map (fun b => (items b, etime b, first_t b)) out).

Definition eq_batch (a b : list Z * Z * Z) : bool :=
  (if list_eq_dec Z.eq_dec (fst (fst a)) (fst (fst b)) then true else false)
  && (snd (fst a) =? snd (fst b)) && (snd a =? snd b).

Fixpoint eq_batches (a b : list (list Z * Z * Z)) : bool :=
  match a, b with
  | [], [] => true
  | x :: a', y :: b' => eq_batch x y && eq_batches a' b'
  | _, _ => false
  end.

Definition check_case (c : case) : bool :=
  let '(bs, w, arr, (fin, obs)) := c in
  let '(mfin, mobs) := model_obs bs w arr in
  Bool.eqb fin mfin && eq_batches obs mobs.

Fixpoint bad_from (i : nat) (cs : list case) : list nat :=
  match cs with
  | [] => []
  | c :: rest => if check_case c then bad_from (S i) rest else i :: bad_from (S i) rest
  end.

Definition bad_indices (cs : list case) : list nat := bad_from 0 cs.
