(* Driver for the real-run part of C08: the history of pull / hand-over / enter / exit events observed on a real parmap
   (thread pool, process pool or event loop; events ordered by a system-wide monotonic clock) is replayed in
   Model/ParSpec.v with capacity = 2 * concurrency. *)
From MpV Require Export Model.ParSpec.

(* concurrency, events (0 pull | 1 hand | 2 enter | 3 exit), observed peak look-ahead, observed peak running *)
Definition case := (nat * list nat * nat * nat)%type.

Definition ev_of (n : nat) : option ev :=
  match n with 0 => Some Pull | 1 => Some Hand | 2 => Some Enter | 3 => Some Exit | _ => None end.

Fixpoint evs_of (l : list nat) : option (list ev) :=
  match l with
  | [] => Some []
  | n :: r => match ev_of n, evs_of r with Some e, Some es => Some (e :: es) | _, _ => None end
  end.

Definition check_case (c : case) : nat :=
  let '(conc, evs, pa, pr) := c in
  match evs_of evs with
  | None => 9
  | Some es =>
      match accept (2 * conc) conc init 0 es with
      | inr (_, LookAhead) => 1
      | inr (_, Concurrency) => 2
      | inr (_, Impossible) => 3
      | inl s => if negb (Nat.eqb (peak_ahead s) pa) then 4
                 else if negb (Nat.eqb (peak_running s) pr) then 5 else 0
      end
  end.

Fixpoint bad_from (i : nat) (cs : list case) : list (nat * nat) :=
  match cs with
  | [] => []
  | c :: rest => match check_case c with
                 | 0 => bad_from (S i) rest
                 | k => (i, k) :: bad_from (S i) rest
                 end
  end.
Definition bad_cases (cs : list case) : list (nat * nat) := bad_from 0 cs.
