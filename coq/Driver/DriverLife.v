(* Trace-validation driver for the Lifecycle model. *)
From MpV Require Export Model.Lifecycle.
From MpV Require Import Lib.Conc.
Open Scope Z_scope.

Definition case := (nat * option nat * nat * list (nat * nat * Z) * nat)%type.

Definition label_of (t : nat) : option label :=
  match t with 0%nat => Some M | _ => if (10 <=? t)%nat then Some (W (t - 10)) else None end.

Fixpoint labels (evs : list (nat * nat * Z)) : option (list label) :=
  match evs with
  | [] => Some []
  | (t, _, _) :: r => match label_of t, labels r with
                      | Some l, Some ls => Some (l :: ls)
                      | _, _ => None
                      end
  end.

Definition check_case (c : case) : nat :=
  let '(n, f, k, evs, verdict) := c in
  let g := {| nworkers := n; init_fails := f; residual := k |} in
  match labels evs with
  | None => 1
  | Some ls =>
      let '(mevs, sf, bad) := replay step g (init g) ls in
      match bad with
      | Some _ => 2
      | None =>
          match first_diff 0 mevs (map (fun e => mkEv (fst (fst e)) (snd (fst e)) (snd e)) evs) with
          | Some _ => 3
          | None =>
              match verdict with
              | 0%nat => match mp sf with
                         | MRaised | MDone => if any_running sf then 4 else 0
                         | _ => 5
                         end
              | _ => 0
              end
          end
      end
  end%nat.

Fixpoint bad_from (i : nat) (cs : list case) : list (nat * nat) :=
  match cs with
  | [] => []
  | c :: rest => match check_case c with
                 | 0%nat => bad_from (S i) rest
                 | k => (i, k) :: bad_from (S i) rest
                 end
  end.
Definition bad_cases (cs : list case) : list (nat * nat) := bad_from 0 cs.
