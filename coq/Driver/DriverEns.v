(* Trace-validation driver for the Ensemble model. *)
From MpV Require Export Model.Ensemble.
From MpV Require Import Lib.Conc.
Open Scope Z_scope.

(* nmem, fail_fast, requests (uid, x), failures (member, x, code), events (tid, op, val),
   outputs in emission order: (uid, None = EnsembleError | Some [(value or error code, is_error)]) *)
Definition case := (nat * bool * list (nat * Z) * list (nat * Z * Z) * list (nat * nat * Z)
                    * list (nat * option (list (Z * bool))))%type.

Fixpoint lookup3 (j : nat) (x : Z) (l : list (nat * Z * Z)) : option Z :=
  match l with
  | [] => None
  | (a, b, c) :: r => if Nat.eqb a j && (b =? x) then Some c else lookup3 j x r
  end.

Definition mk_cfg (nm : nat) (ff : bool) rq fl : cfg :=
  {| nmem := nm; fail_fast := ff; reqs := rq;
     mfun := fun j x => match lookup3 j x fl with Some e => Err e | None => Ok (x * 10 + Z.of_nat j) end |}.

Definition label_of (t op : nat) : option label :=
  match t with
  | 0%nat => Some Env
  | 1%nat => Some E
  | 2%nat => Some (D false)
  | _ => if (10 <=? t)%nat then (if Nat.eqb op OP_MIN_GET then Some (Mt (t - 10)) else Some (Mp (t - 10))) else None
  end.

Fixpoint labels (evs : list (nat * nat * Z)) : option (list label) :=
  match evs with
  | [] => Some []
  | (t, op, _) :: r => match label_of t op, labels r with
                       | Some l, Some ls => Some (l :: ls)
                       | _, _ => None
                       end
  end.

Definition eres_eqb (a : eres) (b : option (list (Z * bool))) : bool :=
  match a, b with
  | EError, None => true
  | EList l, Some m =>
      (fix go (l : list res) (m : list (Z * bool)) : bool :=
         match l, m with
         | [], [] => true
         | Ok v :: l', (w, false) :: m' => (v =? w) && go l' m'
         | Err e :: l', (w, true) :: m' => (e =? w) && go l' m'
         | _, _ => false
         end) l m
  | _, _ => false
  end.

Fixpoint outs_eqb (a : list (nat * eres)) (b : list (nat * option (list (Z * bool)))) : bool :=
  match a, b with
  | [], [] => true
  | (u, r) :: a', (v, o) :: b' => Nat.eqb u v && eres_eqb r o && outs_eqb a' b'
  | _, _ => false
  end.

Definition check_case (c : case) : nat :=
  let '(nm, ff, rq, fl, evs, outs) := c in
  let g := mk_cfg nm ff rq fl in
  match labels evs with
  | None => 1
  | Some ls =>
      let '(mevs, sf, bad) := replay step g (init g) ls in
      match bad with
      | Some _ => 2
      | None =>
          match first_diff 0 mevs (map (fun e => mkEv (fst (fst e)) (snd (fst e)) (snd e)) evs) with
          | Some _ => 3
          | None => if outs_eqb (qout sf) outs then 0 else 4
          end
      end
  end%nat.

Fixpoint bad_from (i : nat) (cs : list case) : list (nat * nat) :=
  match cs with
  | [] => []
  | c :: rest => match check_case c with
                 | 0%nat => bad_from (S i) rest
                 | k => (i, k) :: bad_from (S i) rest
                 end
  end.
Definition bad_cases (cs : list case) : list (nat * nat) := bad_from 0 cs.
