(* Differential driver for method calls through proxies: the answers observed on a real ServerProcess against
   Model/ProxyCall.v. Answers are compared by kind, payload and exception class (and the key of a KeyError). *)
From MpV Require Export Model.ProxyCall.
Open Scope Z_scope.

(* initial objects, requests (object id, operation), observed answers *)
Definition case := (list obj * list (nat * op) * list resp)%type.

Definition listz_eqb (a b : list Z) : bool := if list_eq_dec Z.eq_dec a b then true else false.
Definition pair_dec : forall a b : Z * Z, {a = b} + {a <> b}.
Proof. decide equality; apply Z.eq_dec. Defined.
Definition pairs_eqb (a b : list (Z * Z)) : bool := if list_eq_dec pair_dec a b then true else false.

Definition val_eqb (a b : val) : bool :=
  match a, b with
  | VInt x, VInt y => x =? y
  | VNone, VNone => true
  | VBool x, VBool y => Bool.eqb x y
  | VList x, VList y => listz_eqb x y
  | VPairs x, VPairs y => pairs_eqb x y
  | _, _ => false
  end.

Definition resp_eqb (a b : resp) : bool :=
  match a, b with
  | ROk x, ROk y => val_eqb x y
  | RErr c x, RErr d y => Nat.eqb c d && match x, y with Some p, Some q => p =? q | None, _ => true | Some _, None => false end
  | RProxy x, RProxy y => Nat.eqb x y
  | _, _ => false
  end.

Fixpoint first_bad (i : nat) (m o : list resp) : nat :=
  match m, o with
  | [], [] => 0
  | x :: m', y :: o' => if resp_eqb x y then first_bad (S i) m' o' else S i
  | _, _ => 999
  end%nat.

Definition check_case (c : case) : nat :=
  let '(objs, reqs, obs) := c in
  first_bad 0 (snd (run objs reqs)) obs.

Fixpoint bad_from (i : nat) (cs : list case) : list (nat * nat) :=
  match cs with
  | [] => []
  | c :: rest => match check_case c with
                 | 0%nat => bad_from (S i) rest
                 | k => (i, k) :: bad_from (S i) rest
                 end
  end.
Definition bad_cases (cs : list case) : list (nat * nat) := bad_from 0 cs.
