(* Trace-validation driver for the Tee model. *)
From MpV Require Export Model.Tee.
From MpV Require Import Lib.Conc.
Open Scope Z_scope.

(* nforks, bufsize, src, events (tid, op, val, expire), verdict (0 ok | 1 deadlock | 2 step bound: prefix only) *)
Definition case := (nat * nat * list src_item * list (nat * nat * Z * bool) * nat)%type.

Definition label_of (t : nat) (ex : bool) : option label :=
  if (10 <=? t)%nat then Some (Fk (t - 10) ex) else None.

Fixpoint labels (evs : list (nat * nat * Z * bool)) : option (list label) :=
  match evs with
  | [] => Some []
  | (t, _, _, ex) :: r => match label_of t ex, labels r with
                          | Some l, Some ls => Some (l :: ls)
                          | _, _ => None
                          end
  end.

Definition check_case (c : case) : nat :=
  let '(n, bs, sr, evs, verdict) := c in
  let g := {| nforks := n; bufsize := bs; src := sr |} in
  match labels evs with
  | None => 1
  | Some ls =>
      let '(mevs, sf, bad) := replay step g (init g) ls in
      match bad with
      | Some _ => 2
      | None =>
          match first_diff 0 mevs (map (fun e => mkEv (fst (fst (fst e))) (snd (fst (fst e))) (snd (fst e))) evs) with
          | Some _ => 3
          | None =>
              match verdict with
              | 0%nat => if all_done sf then 0 else 4
              | 1%nat => if deadlocked g sf then 0 else 5
              | _ => 0
              end
          end
      end
  end%nat.

Fixpoint bad_from (i : nat) (cs : list case) : list (nat * nat) :=
  match cs with
  | [] => []
  | c :: rest => match check_case c with
                 | 0%nat => bad_from (S i) rest
                 | k => (i, k) :: bad_from (S i) rest
                 end
  end.
Definition bad_cases (cs : list case) : list (nat * nat) := bad_from 0 cs.
