(* Differential-correspondence driver for C12. *)
From MpV Require Export Model.ProcOutcome.
Open Scope Z_scope.

(* ending code: 0 Return v | 1 RaiseExc e | 2 ExitNone | 3 ExitInt n | 4 ExitOther | 5 RaiseUnsendable | 6 ReturnUnsendable | 7 HardExit n; with its Z argument;
   kill phase 0..4; signal; observed: future kind (1 result / 2 error), payload kind+value *)
Definition mk_ending (k : nat) (a : Z) : ending :=
  match k with 0%nat => Return a | 1%nat => RaiseExc a | 2%nat => ExitNone | 3%nat => ExitInt a | 4%nat => ExitOther
  | 5%nat => RaiseUnsendable | 6%nat => ReturnUnsendable | 7%nat => HardExit a
  | 8%nat => RaiseExc a        (* an exception of a class that needs several constructor arguments *)
  | 9%nat => ReturnUnloadable a
  | _ => RaiseExc a            (* 10: an exception whose truth value is false *)
  end.
Definition mk_phase (k : nat) : phase :=
  match k with 0%nat => NoKill | 1%nat => KillBefore | 2%nat => KillDuring | 3%nat => KillBetween | _ => KillAfter end.

(* payload code: (0,_) None | (1,v) value | (2,e) exception e | (3,n) SystemExit n | (4,_) SystemExit other | (5,code) OSError *)
Definition payload_code (p : payload) : nat * Z :=
  match p with
  | PNone => (0%nat, 0) | PVal v => (1%nat, v)
  | PExc e => (2%nat, e)
  | PSysExit n => (3%nat, n) | PSysExitOther => (4%nat, 0)
  | POSErr c => (5%nat, c)
  | PBad e => (9%nat, e)
  end.

Definition case := (nat * Z * nat * Z * (nat * nat * Z) * bool)%type.

Definition check_case (c : case) : nat :=
  let '(ek, ea, pk, sg, (fk, pkind, pval), is_thread) := c in
  let f := if is_thread then thread_future (mk_ending ek ea)
           else parent_future {| how := mk_ending ek ea; kill := mk_phase pk; sig := sg |} in
  match f with
  | Pending => 1%nat
  | FResult v => let '(k, x) := payload_code v in
                 if Nat.eqb fk 1 && Nat.eqb k pkind && (x =? pval) then 0%nat else 2%nat
  | FError e => let '(k, x) := payload_code e in
                if Nat.eqb fk 2 && Nat.eqb k pkind && (x =? pval) then 0%nat else 3%nat
  end.

Fixpoint bad_from (i : nat) (cs : list case) : list (nat * nat) :=
  match cs with
  | [] => []
  | c :: rest => match check_case c with
                 | 0%nat => bad_from (S i) rest
                 | k => (i, k) :: bad_from (S i) rest
                 end
  end.
Definition bad_cases (cs : list case) : list (nat * nat) := bad_from 0 cs.
