(* Trace-validation driver for the IterQueue model. *)
From MpV Require Export Model.IterQueue.
From MpV Require Import Lib.Conc.
Open Scope Z_scope.

(* nsup, ncons, qcap, rounds, items[round][supplier], events (tid, op, val, expire), verdict,
   end markers left in the queue when each renew began *)
Definition case := (nat * nat * nat * nat * list (list (list Z)) * list (nat * nat * Z * bool) * nat * list nat)%type.

Definition mk_cfg (m n qc r : nat) (it : list (list (list Z))) : cfg :=
  {| nsup := m; ncons := n; qcap := qc; rounds := r;
     items := fun rd s => nth s (nth rd it []) [];
     early := fun _ _ => [] |}.

Definition label_of (t : nat) (ex : bool) : option label :=
  match t with
  | 0%nat => Some Ren
  | _ => if (50 <=? t)%nat then Some (Con (t - 50))
         else if (10 <=? t)%nat then Some (Sup (t - 10) ex) else None
  end.

Fixpoint labels (evs : list (nat * nat * Z * bool)) : option (list label) :=
  match evs with
  | [] => Some []
  | (t, _, _, ex) :: r => match label_of t ex, labels r with
                          | Some l, Some ls => Some (l :: ls)
                          | _, _ => None
                          end
  end.

Fixpoint beq_natlist (a b : list nat) : bool :=
  match a, b with
  | [], [] => true
  | x :: a', y :: b' => Nat.eqb x y && beq_natlist a' b'
  | _, _ => false
  end.

Definition check_case (c : case) : nat :=
  let '(m, n, qc, r, it, evs, verdict, lft) := c in
  let g := mk_cfg m n qc r it in
  match labels evs with
  | None => 1
  | Some ls =>
      let '(mevs, sf, bad) := replay step g (init g) ls in
      match bad with
      | Some _ => 2
      | None =>
          match first_diff 0 mevs (map (fun e => mkEv (fst (fst (fst e))) (snd (fst (fst e))) (snd (fst e))) evs) with
          | Some _ => 3
          | None => if beq_natlist (firstn (length lft) (leftover_markers sf)) lft then 0 else 4
          end
      end
  end%nat.

Fixpoint bad_from (i : nat) (cs : list case) : list (nat * nat) :=
  match cs with
  | [] => []
  | c :: rest => match check_case c with
                 | 0%nat => bad_from (S i) rest
                 | k => (i, k) :: bad_from (S i) rest
                 end
  end.
Definition bad_cases (cs : list case) : list (nat * nat) := bad_from 0 cs.
