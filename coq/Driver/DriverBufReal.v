(* Driver for the real-run part of C05 on the identity stages that cannot be scheduled: SyncIter (async source, sync
   consumer), AsyncIter (sync source, async consumer) and AsyncBuffer run for real; what the consumer received and how
   the iteration ended is compared with the result of Model/Buffer.v (an identity stage with a hand-off queue, early stop
   and failure propagation) under a fair schedule. The model never deadlocks (C05_buffer_no_deadlock) and its result
   does not depend on the schedule. *)
From MpV Require Export Model.Buffer.
From MpV Require Import Lib.Conc Driver.DriverBuffer.
Open Scope Z_scope.

(* slots, source, stop_after, received, outcome code *)
Definition case := (nat * list src_item * option nat * list Z * Z)%type.

Definition rounds (k : nat) : list label := flat_map (fun _ => [C; W]) (seq 0 k).

Fixpoint zlist_eqb (a b : list Z) : bool :=
  match a, b with
  | [], [] => true
  | x :: r, y :: t => (x =? y) && zlist_eqb r t
  | _, _ => false
  end.

Definition check_case (c : case) : nat :=
  let '(ms, sr, sa, rcv, oc) := c in
  let g := {| maxsize := ms; src := sr; stop_after := sa; drain_join := true |} in
  let s := run step g (init g) (rounds (20 * (length sr + 4))) in
  if negb (final s) then 9%nat
  else if negb (zlist_eqb (received s) rcv) then 1%nat
  else if negb (DriverBuffer.final_outcome s =? oc) then 2%nat else 0%nat.

Fixpoint bad_from (i : nat) (cs : list case) : list (nat * nat) :=
  match cs with
  | [] => []
  | c :: rest => match check_case c with
                 | 0%nat => bad_from (S i) rest
                 | k => (i, k) :: bad_from (S i) rest
                 end
  end.
Definition bad_cases (cs : list case) : list (nat * nat) := bad_from 0 cs.
