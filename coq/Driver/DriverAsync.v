(* Differential-correspondence driver for C16: outputs of the sync and async variants vs the
   sequential reference [seq_run]. *)
From MpV Require Export Model.FifoStream.
From MpV Require Import Proof.SeqRun Driver.DriverFifo.
Open Scope Z_scope.

(* conc, src, has_pre, pre failures, call failures, (return_x, return_exc), stop_after,
   observed variants: list of (outputs as codes, ending code) *)
Definition case := (nat * list src_item * bool * list (Z * Z) * list (Z * Z) * (bool * bool) * option nat
                    * list (list Z * Z))%type.

Definition end_code (e : seq_end) : Z :=
  match e with SCompleted => 0 | SBroke => 1 | SRaised x => 2 + x end.

Fixpoint zlist_eqb (a b : list Z) : bool :=
  match a, b with
  | [], [] => true
  | x :: a', y :: b' => (x =? y) && zlist_eqb a' b'
  | _, _ => false
  end.

Definition check_case (c : case) : nat :=
  let '(cc, sr, hp, pf, cf, (rx, re), sa, obs) := c in
  let g := mk_cfg (2 * cc) cc sr hp pf cf rx re sa in
  let '(outs, e) := seq_run g in
  let want := map (fun p => out_code g (fst p) (snd p)) outs in
  if forallb (fun o => zlist_eqb (fst o) want && (snd o =? end_code e)) obs then 0%nat else 1%nat.

Fixpoint bad_from (i : nat) (cs : list case) : list (nat * nat) :=
  match cs with
  | [] => []
  | c :: rest => match check_case c with
                 | 0%nat => bad_from (S i) rest
                 | k => (i, k) :: bad_from (S i) rest
                 end
  end.
Definition bad_cases (cs : list case) : list (nat * nat) := bad_from 0 cs.
