(* Differential driver for the reference-count model: the server's table (per object, in creation order: Some count or
   None when absent) observed after every operation of a history on a real ServerProcess, against Model/Refcount.v. *)
From MpV Require Export Model.Refcount.

Definition case := (list op * list (option (list (option nat))))%type.

Definition opt_eqb (a b : option nat) : bool :=
  match a, b with
  | Some x, Some y => Nat.eqb x y
  | None, None => true
  | _, _ => false
  end.

Fixpoint table_eqb (m o : list (option nat)) : bool :=
  match m, o with
  | [], [] => true
  | x :: m', y :: o' => opt_eqb x y && table_eqb m' o'
  | _, _ => false
  end.

Definition now := {| adopt := true; exitfin := true |}.

(* code = 1 + index of the first step after which model and server differ; 0 = none; 1000 = the model saw an invalid operation *)
Fixpoint walk (i : nat) (s : state) (ops : list op) (obs : list (option (list (option nat)))) : nat :=
  match ops, obs with
  | o :: ops', ob :: obs' =>
      let s' := step now s o in
      match ob with
      | Some t => if table_eqb (cnt s') t then walk (S i) s' ops' obs' else S i
      | None => walk (S i) s' ops' obs'
      end
  | [], [] => if Nat.eqb (errors s) 0 then 0 else 1000
  | _, _ => 999
  end.

Definition check_case (c : case) : nat := walk 0 init (fst c) (snd c).

Fixpoint bad_from (i : nat) (cs : list case) : list (nat * nat) :=
  match cs with
  | [] => []
  | c :: rest => match check_case c with
                 | 0 => bad_from (S i) rest
                 | k => (i, k) :: bad_from (S i) rest
                 end
  end.
Definition bad_cases (cs : list case) : list (nat * nat) := bad_from 0 cs.
