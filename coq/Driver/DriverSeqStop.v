(* Trace-validation driver for the SeqStop model. *)
From MpV Require Export Lib.Trace.
From MpV Require Import Lib.Conc.
From MpV Require Model.SeqStop.
Import SeqStop.
Open Scope Z_scope.

(* workers of stage 1, requests in flight, events (tid, op, val), results the gather thread took,
   verdict (0 stop() returned | 1 the scheduler found nothing enabled | 2 step bound: prefix only) *)
Definition case := (nat * list Z * list (nat * nat * Z) * list Z * nat)%type.

Definition label_of (t : nat) : option label :=
  if (t =? 0)%nat then Some M else if (t =? 5)%nat then Some B else if (t =? 6)%nat then Some Out
  else if (10 <=? t)%nat then Some (A (t - 10)) else None.

Fixpoint labels (evs : list (nat * nat * Z)) : option (list label) :=
  match evs with
  | [] => Some []
  | (t, _, _) :: r => match label_of t, labels r with
                      | Some l, Some ls => Some (l :: ls)
                      | _, _ => None
                      end
  end.

Fixpoint zlist_eqb (a b : list Z) : bool :=
  match a, b with
  | [], [] => true
  | x :: a', y :: b' => (x =? y) && zlist_eqb a' b'
  | _, _ => false
  end.

Definition check_case (c : case) : nat :=
  let '(n, pend, evs, deliv, verdict) := c in
  let g := {| nw := n; pending := pend; reverse := false |} in
  match labels evs with
  | None => 1
  | Some ls =>
      let '(mevs, sf, bad) := replay step g (init g) ls in
      match bad with
      | Some _ => 2
      | None =>
          match first_diff 0 mevs (map (fun e => mkEv (fst (fst e)) (snd (fst e)) (snd e)) evs) with
          | Some _ => 3
          | None =>
              if negb (zlist_eqb (delivered sf) deliv) then 6
              else match verdict with
                   | 0%nat => if finished sf then 0 else 4
                   | 1%nat => if stuck g sf && negb (finished sf) then 0 else 5
                   | _ => 0
                   end
          end
      end
  end%nat.

Fixpoint bad_from (i : nat) (cs : list case) : list (nat * nat) :=
  match cs with
  | [] => []
  | c :: rest => match check_case c with
                 | 0%nat => bad_from (S i) rest
                 | k => (i, k) :: bad_from (S i) rest
                 end
  end.
Definition bad_cases (cs : list case) : list (nat * nat) := bad_from 0 cs.
