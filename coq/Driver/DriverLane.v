(* Trace-validation driver for the SingleLane model. *)
From MpV Require Export Lib.Trace.
From MpV Require Import Lib.Conc.
From MpV Require Model.Lane.
Import Lane.
Open Scope Z_scope.

(* maxsize, writer script, reader script, events (tid, op, val, expire), observed outcomes of the writer and of the reader,
   verdict (0 both threads finished | 1 the scheduler found nothing enabled | 2 step bound: prefix only) *)
Definition case := (nat * list pop * list cop * list (nat * nat * Z * bool) * list res * list res * nat)%type.

Definition label_of (t : nat) (ex : bool) : option label :=
  if (t =? 1)%nat then Some (P ex) else if (t =? 2)%nat then Some (C ex) else None.

Fixpoint labels (evs : list (nat * nat * Z * bool)) : option (list label) :=
  match evs with
  | [] => Some []
  | (t, _, _, ex) :: r => match label_of t ex, labels r with
                          | Some l, Some ls => Some (l :: ls)
                          | _, _ => None
                          end
  end.

Definition res_eqb (a b : res) : bool :=
  match a, b with
  | ROk x, ROk y => x =? y
  | RExc, RExc => true
  | RBool x, RBool y => Bool.eqb x y
  | _, _ => false
  end.
Fixpoint outs_eqb (a b : list res) : bool :=
  match a, b with
  | [], [] => true
  | x :: a', y :: b' => res_eqb x y && outs_eqb a' b'
  | _, _ => false
  end.

Definition is_done (p : pc) : bool := match p with TDone => true | _ => false end.

Definition check_case (c : case) : nat :=
  let '(n, ps0, cs0, evs, pobs, cobs, verdict) := c in
  let g := {| maxsize := n; pscript := ps0; cscript := cs0 |} in
  match labels evs with
  | None => 1
  | Some ls =>
      let '(mevs, sf, bad) := replay step g (init g) ls in
      match bad with
      | Some _ => 2
      | None =>
          match first_diff 0 mevs (map (fun e => mkEv (fst (fst (fst e))) (snd (fst (fst e))) (snd (fst e))) evs) with
          | Some _ => 3
          | None =>
              if negb (outs_eqb (p_out sf) pobs && outs_eqb (c_out sf) cobs) then 6
              else match verdict with
                   | 0%nat => if is_done (pp sf) && is_done (cp sf) then 0 else 4
                   | 1%nat => if negb (can_move g sf P) && negb (can_move g sf C) && negb (is_done (pp sf) && is_done (cp sf))
                              then 0 else 5
                   | _ => 0
                   end
          end
      end
  end%nat.

Fixpoint bad_from (i : nat) (cs : list case) : list (nat * nat) :=
  match cs with
  | [] => []
  | c :: rest => match check_case c with
                 | 0%nat => bad_from (S i) rest
                 | k => (i, k) :: bad_from (S i) rest
                 end
  end.
Definition bad_cases (cs : list case) : list (nat * nat) := bad_from 0 cs.
