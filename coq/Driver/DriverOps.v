(* Differential-correspondence driver for C03: pipelines as first-order codes over a small library
   of named functions that exists identically in harness/props/c03.py. *)
From MpV Require Export Model.Ops.
Open Scope Z_scope.

Fixpoint elem_eqb (a b : elem) : bool :=
  match a, b with
  | I x, I y => x =? y
  | N, N => true
  | X j, X k => j =? k
  | L l, L m =>
      (fix go (l m : list elem) : bool :=
         match l, m with
         | [], [] => true
         | x :: l', y :: m' => elem_eqb x y && go l' m'
         | _, _ => false
         end) l m
  | P a1 b1, P a2 b2 => elem_eqb a1 a2 && elem_eqb b1 b2
  | _, _ => false
  end.

Fixpoint list_eqb (l m : list elem) : bool :=
  match l, m with
  | [], [] => true
  | x :: l', y :: m' => elem_eqb x y && list_eqb l' m'
  | _, _ => false
  end.

Definition map_fn (id : nat) (x : elem) : fres :=
  match id with
  | 0%nat => FOk x
  | 1%nat => match x with I z => FOk (I (z + 1)) | _ => FErr 11 end
  | 2%nat => FOk N
  | 3%nat => FOk (L [x; x])
  | 4%nat => match x with I 3 => FErr 12 | _ => FOk x end
  | 5%nat => match x with I z => if Z.odd z then FOk (X 7) else FOk x | _ => FOk x end
  | 6%nat => FOk (P x x)
  | _ => match x with I 5 => FErr 17 | _ => FOk x end     (* raises a StopIteration: an error like any other *)
  end.

Definition pred_fn (id : nat) (x : elem) : pres :=
  match id with
  | 0%nat => POk true
  | 1%nat => match x with I z => POk (Z.even z) | N => POk false | _ => PErr 13 end
  | 2%nat => match x with N => POk false | _ => POk true end
  | 3%nat => match x with I 2 => PErr 14 | _ => POk true end
  | 4%nat => POk false
  | _ => match x with I 6 => PErr 18 | _ => POk true end   (* raises a StopIteration *)
  end.

Definition parity (x : elem) : elem := match x with I z => I (z mod 2) | _ => N end.

Definition key_fn (id : nat) (x : elem) : fres :=
  match id with
  | 0%nat => FOk (parity x)
  | 1%nat => FOk (I 0)
  | 2%nat => match x with X _ => FOk N | _ => FOk x end
  | _ => match x with I 4 => FErr 15 | _ => FOk (parity x) end
  end.

Definition acc_fn (id : nat) (a b : elem) : fres :=
  match id with
  | 0%nat => match a, b with I x, I y => FOk (I (x + y)) | _, _ => FErr 16 end
  | 1%nat => FOk b
  | _ => match b with I 7 => FErr 20 | _ => FOk b end      (* raises a StopIteration *)
  end.

Inductive opc :=
| CMap (f : nat) | CFilter (p : nat) | CFilterExc (drop keep : list Z) | CPeek
| CHead (n : nat) | CTail (n : nat) | CBatch (n : nat) | CUnbatch | CGroupby (k : nat)
| CAccum (f : nat) (init : option elem) | CBuffer (n : nat) | CParmap (f : nat) (rx re : bool)
| CShuffle (n : nat) (draws : list nat).

Definition mem (l : list Z) (k : Z) : bool := existsb (Z.eqb k) l.

Definition interp (c : opc) : op :=
  match c with
  | CMap f => OMap (map_fn f)
  | CFilter p => OFilter (pred_fn p)
  | CFilterExc d k => OFilterExc (mem d) (mem k)
  | CPeek => OPeek
  | CHead n => OHead n | CTail n => OTail n | CBatch n => OBatch n | CUnbatch => OUnbatch
  | CGroupby k => OGroupby (key_fn k) elem_eqb
  | CAccum f i => OAccum (acc_fn f) i
  | CBuffer n => OBuffer n
  | CParmap f rx re => OParmap (map_fn f) rx re
  | CShuffle n d => OShuffle n d (@rev elem)
  end.

(* pipeline, source script (elements, ending code: -1 = normal end), observed outputs, observed ending *)
Definition case := (list opc * list elem * Z * list elem * Z)%type.

Definition ending_code (e : ending) : Z := match e with End => -1 | Raise k => k end.

Definition check_case (c : case) : nat :=
  let '(ops, xs, upe, obs, obse) := c in
  let '(out, e) := run_pipeline (map interp ops) (xs, if upe =? -1 then End else Raise upe) in
  if negb (list_eqb out obs) then 1%nat
  else if negb (ending_code e =? obse) then 2%nat else 0%nat.

Fixpoint bad_from (i : nat) (cs : list case) : list (nat * nat) :=
  match cs with
  | [] => []
  | c :: rest => match check_case c with
                 | 0%nat => bad_from (S i) rest
                 | k => (i, k) :: bad_from (S i) rest
                 end
  end.
Definition bad_cases (cs : list case) : list (nat * nat) := bad_from 0 cs.
