(* Driver for the real-run part of C01 / C05: Stream.parmap on a real thread pool, a real process pool or with an async
   worker function runs unscheduled; what the consumer received and how the iteration ended is compared with what
   Model/FifoStream.v (capacity = 2 * concurrency) produces under a fair schedule - by C01_fifo_outputs_in_order /
   C01_fifo_complete the model produces the same under every schedule. *)
From MpV Require Export Model.FifoStream.
From MpV Require Import Lib.Conc Driver.DriverFifo.
Open Scope Z_scope.

(* conc, src, has_pre, pre failures, call failures, (return_x, return_exc), stop_after, received codes, outcome code *)
Definition case := (nat * list src_item * bool * list (Z * Z) * list (Z * Z) * (bool * bool) * option nat * list Z * Z)%type.

Definition rounds (cc k : nat) : list label := flat_map (fun _ => C :: F :: map P (seq 0 cc)) (seq 0 k).

Fixpoint zlist_eqb (a b : list Z) : bool :=
  match a, b with
  | [], [] => true
  | x :: r, y :: t => (x =? y) && zlist_eqb r t
  | _, _ => false
  end.

Definition model_result (cc : nat) sr (hp : bool) pf cf (rx re : bool) sa : bool * list Z * Z :=
  let g := DriverFifo.mk_cfg (2 * cc) cc sr hp pf cf rx re sa in
  let s := run step g (init g) (rounds cc (30 * (length sr + 4))) in
  (final s, map (fun p => out_code g (fst p) (snd p)) (received s), DriverFifo.final_outcome s).

Definition check_case (c : case) : nat :=
  let '(cc, sr, hp, pf, cf, (rx, re), sa, rcv, oc) := c in
  let '(fin, outs, moc) := model_result cc sr hp pf cf rx re sa in
  if negb fin then 9%nat
  else if negb (zlist_eqb outs rcv) then 1%nat
  else if negb (moc =? oc) then 2%nat else 0%nat.

Fixpoint bad_from (i : nat) (cs : list case) : list (nat * nat) :=
  match cs with
  | [] => []
  | c :: rest => match check_case c with
                 | 0%nat => bad_from (S i) rest
                 | k => (i, k) :: bad_from (S i) rest
                 end
  end.
Definition bad_cases (cs : list case) : list (nat * nat) := bad_from 0 cs.
