(* Trace-validation driver for the BatchWorker model. *)
From MpV Require Export Model.BatchWorker.
From MpV Require Import Lib.Conc.
Open Scope Z_scope.

(* bsize, request kinds (0 good, 1 exception value, 2 rejected by preprocess), poison uids,
   events (tid, op, val), the observed arguments of call, 0 = the run finished normally *)
Definition case := (nat * list nat * list nat * list (nat * nat * Z) * list (list nat) * nat)%type.

Definition kind_of (n : nat) : kind := match n with 0%nat => KGood | 1%nat => KExc | _ => KPre end.

Definition label_of (t op : nat) : option label :=
  match t with
  | 0%nat => Some Env
  | 1%nat => Some C
  | 2%nat => Some (B (Nat.eqb op OP_BUF_TIMEOUT))
  | _ => None
  end.

Fixpoint labels (evs : list (nat * nat * Z)) : option (list label) :=
  match evs with
  | [] => Some []
  | (t, op, _) :: r => match label_of t op, labels r with
                       | Some l, Some ls => Some (l :: ls)
                       | _, _ => None
                       end
  end.

Definition lists_eqb (a b : list (list nat)) : bool :=
  Nat.eqb (length a) (length b) && forallb (fun p => Nat.eqb (length (fst p)) (length (snd p)) && forallb (fun q => Nat.eqb (fst q) (snd q)) (combine (fst p) (snd p))) (combine a b).

Definition check_case (c : case) : nat :=
  let '(b, ks, ps, evs, cs, verdict) := c in
  let g := {| bsize := b; reqs := map kind_of ks; poison := ps; locked_check := true |} in
  match labels evs with
  | None => 1
  | Some ls =>
      let '(mevs, sf, bad) := replay step g (init g) ls in
      match bad with
      | Some _ => 2
      | None =>
          match first_diff 0 mevs (map (fun e => mkEv (fst (fst e)) (snd (fst e)) (snd e)) evs) with
          | Some _ => 3
          | None =>
              if negb (lists_eqb (calls sf) cs) then 4
              else match verdict with
                   | 0%nat => if all_done g sf then 0 else 5
                   | _ => 0
                   end
          end
      end
  end%nat.

Fixpoint bad_from (i : nat) (cs : list case) : list (nat * nat) :=
  match cs with
  | [] => []
  | c :: rest => match check_case c with
                 | 0%nat => bad_from (S i) rest
                 | k => (i, k) :: bad_from (S i) rest
                 end
  end.
Definition bad_cases (cs : list case) : list (nat * nat) := bad_from 0 cs.
