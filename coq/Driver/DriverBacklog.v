(* Driver for the real-run part of C06: the exact history of ledger operations of a real Server / AsyncServer (observed under
   a lock by a dict subclass standing in for the ledger) is replayed in Model/BacklogSpec.v. *)
From MpV Require Export Model.BacklogSpec.
From Coq Require Import Bool.
Open Scope bool_scope.

(* capacity, events (0 = Acc | 1 = Rel | n + 2 = Len n), observed peak, 1 = the harness saw the server idle at the end,
   gate tokens of an AsyncServer run ([] otherwise; replayed in Model/AGate.v by Driver/DriverGate.v) *)
From MpV Require Driver.DriverGate.
Definition case := (nat * list nat * nat * nat * list nat)%type.

Definition ev_of (n : nat) : ev := match n with 0 => Acc | 1 => Rel | S (S m) => Len m end.

Definition check_case (c : case) : nat :=
  let '(cap, evs, pk, idle, gtoks) := c in
  match accept cap init 0 (map ev_of evs) with
  | inr (_, Overflow) => 1
  | inr (_, Impossible) => 2
  | inr (_, Inconsistent) => 3
  | inl s => if negb (Nat.eqb (peak s) pk) then 4
             else if Nat.eqb idle 1 && negb (Nat.eqb (backlog s) 0) then 5
             else match gtoks with
                  | [] => 0
                  | _ => match DriverGate.check_case (cap, gtoks, idle) with 0 => 0 | k => 20 + k end
                  end
  end.

Fixpoint bad_from (i : nat) (cs : list case) : list (nat * nat) :=
  match cs with
  | [] => []
  | c :: rest => match check_case c with
                 | 0 => bad_from (S i) rest
                 | k => (i, k) :: bad_from (S i) rest
                 end
  end.
Definition bad_cases (cs : list case) : list (nat * nat) := bad_from 0 cs.
