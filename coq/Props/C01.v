(* C01 — parallel map (fifo_stream / Parmapper) is order-preserving. Statements only. *)
From MpV Require Import Proof.FifoCalls.
From MpV Require Import Lib.Conc Model.FifoStream Proof.FifoProof Proof.FifoComplete.

(* For every configuration (capacity, pool size, source of any length with failures anywhere,
   worker outcome table, preprocessor, return_x / return_exceptions, consumer stop position) and
   every interleaving of feeder, consumer and pool workers - including every completion order of
   the concurrent calls - what the consumer has been handed so far is exactly
   [(0, outcome 0); (1, outcome 1); ...; (k-1, outcome (k-1))]: one output per input, in input
   order, the i-th being the worker function's result (or exception) for the i-th input, where
   [outcome_of g i] is computed from the i-th source element alone. *)
Theorem C01_fifo_prefix : forall (g : cfg) (sched : list label),
  let s := run step g (init g) sched in
  received s = map (fun i => (i, outcome_of g i)) (seq 0 (length (received s))).
Proof. exact fifo_prefix. Qed.
Print Assumptions C01_fifo_prefix.

(* Without return_exceptions no exception object is ever delivered as an output. *)
Theorem C01_no_exception_output : forall (g : cfg) (sched : list label),
  return_exc g = false ->
  Forall (fun p => is_ok (snd p) = true) (received (run step g (init g) sched)).
Proof. exact fifo_no_exc_delivered. Qed.
Print Assumptions C01_no_exception_output.

(* When the iteration completes normally - in any schedule - the consumer has received exactly one
   output per source element (all of them, in input order, each the outcome of its own input), and
   the source itself did not fail. *)
Theorem C01_fifo_complete : forall (g : cfg) (sched : list label),
  let s := run step g (init g) sched in
  cp s = CDone Completed ->
  received s = map (fun i => (i, outcome_of g i)) (seq 0 (length (datas (src g))))
  /\ src g = map SData (datas (src g)).
Proof. exact fifo_complete. Qed.
Print Assumptions C01_fifo_complete.

(* The worker function is started at most once per element, and never for an element the preprocessor rejected
   (its future is created already failed). *)
Theorem C01_calls_once : forall g sched,
  NoDup (calls (run step g (init g) sched)) /\
  forall i, In i (calls (run step g (init g) sched)) -> forall e, pre_of g (val g i) <> PreErr e.
Proof. exact calls_once. Qed.
Print Assumptions C01_calls_once.

(* Non-vacuity: a run with out-of-order completion delivers in input order. *)
Example C01_example :
  let g := {| cap := 2; conc := 2; src := [SData 5; SData 6]; call := fun x => Ok (x * 10)%Z; pre := None;
              return_x := false; return_exc := false; stop_after := None |} in
  received (run step g (init g)
     [C; F; F; F; F; F; F; F; F; P 0; P 1; P 1; P 1; P 0; P 0; C; C; C; C; C; C]) =
  [(0, Ok 50%Z); (1, Ok 60%Z)].
Proof. vm_compute. reflexivity. Qed.
