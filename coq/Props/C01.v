(* C01 — parallel map (fifo_stream / Parmapper) is order-preserving. Statements only. *)
From MpV Require Import Proof.FifoCalls.
From MpV Require Import Lib.Conc Model.FifoStream Proof.FifoProof Proof.FifoComplete.

(* For every configuration (capacity, pool size, source of any length with failures anywhere,
   worker outcome table, preprocessor, return_x / return_exceptions, consumer stop position) and
   every interleaving of feeder, consumer and pool workers - including every completion order of
   the concurrent calls - what the consumer has been handed so far is exactly
   [(0, outcome 0); (1, outcome 1); ...; (k-1, outcome (k-1))]: one output per input, in input
   order, the i-th being the worker function's result (or exception) for the i-th input, where
   [outcome_of g i] is computed from the i-th source element alone. *)
Theorem C01_fifo_prefix : forall (g : cfg) (sched : list label),
  let s := run step g (init g) sched in
  received s = map (fun i => (i, outcome_of g i)) (seq 0 (length (received s))).
Proof. exact fifo_prefix. Qed.
Print Assumptions C01_fifo_prefix.

(* Without return_exceptions no exception object is ever delivered as an output. *)
Theorem C01_no_exception_output : forall (g : cfg) (sched : list label),
  return_exc g = false ->
  Forall (fun p => is_ok (snd p) = true) (received (run step g (init g) sched)).
Proof. exact fifo_no_exc_delivered. Qed.
Print Assumptions C01_no_exception_output.

(* When the iteration completes normally - in any schedule - the consumer has received exactly one
   output per source element (all of them, in input order, each the outcome of its own input), and
   the source itself did not fail. *)
Theorem C01_fifo_complete : forall (g : cfg) (sched : list label),
  let s := run step g (init g) sched in
  cp s = CDone Completed ->
  received s = map (fun i => (i, outcome_of g i)) (seq 0 (length (datas (src g))))
  /\ src g = map SData (datas (src g)).
Proof. exact fifo_complete. Qed.
Print Assumptions C01_fifo_complete.

(* The worker function is started at most once per element, and never for an element the preprocessor rejected
   (its future is created already failed). *)
Theorem C01_calls_once : forall g sched,
  NoDup (calls (run step g (init g) sched)) /\
  forall i, In i (calls (run step g (init g) sched)) -> forall e, pre_of g (val g i) <> PreErr e.
Proof. exact calls_once. Qed.
Print Assumptions C01_calls_once.

(* Non-vacuity: a run with out-of-order completion delivers in input order. *)
Example C01_example :
  let g := {| cap := 2; conc := 2; src := [SData 5; SData 6]; call := fun x => Ok (x * 10)%Z; pre := None;
              return_x := false; return_exc := false; stop_after := None |} in
  received (run step g (init g)
     [C; F; F; F; F; F; F; F; F; P 0; P 1; P 1; P 1; P 0; P 0; C; C; C; C; C; C]) =
  [(0, Ok 50%Z); (1, Ok 60%Z)].
Proof. vm_compute. reflexivity. Qed.

(* ---- the hand-off queue itself (anchor: "single-reader/single-writer bounded queue keeps FIFO order", _queues.py:28-71).
   The models above treat SingleLane as an atomic bounded FIFO; Model/Lane.v is its code, one step per access to the mutex,
   the deque and the two conditions, and these theorems discharge that treatment. ---- *)
From MpV Require Model.Lane Proof.LaneProof.

(* For every bound, every script of put / get operations (blocking, non-blocking, timed) and full() / empty() reads of the
   writer and of the reader, and every interleaving including every moment a timed wait may expire: the values get has
   returned so far, the value held by a get in progress and the queue content are together exactly the items put has
   accepted so far, in that order - nothing lost, duplicated, reordered or invented. *)
Theorem C01_singlelane_fifo : forall (g : Lane.cfg) (sched : list Lane.label),
  let s := run Lane.step g (Lane.init g) sched in
  Lane.oks (Lane.c_out s) ++ Lane.c_inflight s ++ Lane.q s = Lane.oks (Lane.p_out s) ++ Lane.p_inflight s.
Proof. exact LaneProof.lane_fifo. Qed.
Print Assumptions C01_singlelane_fifo.

(* popleft is never called on an empty deque, although get re-tests nothing after a wake-up (`if`, not `while`) *)
Theorem C01_singlelane_no_underflow : forall (g : Lane.cfg) (sched : list Lane.label),
  Lane.underflow (run Lane.step g (Lane.init g) sched) = false.
Proof. exact LaneProof.lane_no_underflow. Qed.
Print Assumptions C01_singlelane_no_underflow.

(* Every step of every run is a stutter, an atomic put into a queue that is not full, or an atomic get of the oldest item:
   SingleLane refines the atomic bounded FIFO of the stream models. *)
Theorem C01_singlelane_refines_atomic : forall (g : Lane.cfg) (sched : list Lane.label) (l : Lane.label) s' e,
  let s := run Lane.step g (Lane.init g) sched in
  Lane.step g s l = Some (s', e) ->
  Lane.q s' = Lane.q s
  \/ (exists x, Lane.q s' = Lane.q s ++ [x] /\ Lane.isfull g s = false /\ e_op e = OP_APPEND /\ e_val e = x)
  \/ (exists v, Lane.q s = v :: Lane.q s' /\ e_op e = OP_POPLEFT /\ e_val e = v).
Proof. exact LaneProof.lane_refines_atomic. Qed.
Print Assumptions C01_singlelane_refines_atomic.

(* Non-vacuity: bound 1, three blocking puts against three blocking gets; the writer waits on a full queue and is woken. *)
Example C01_singlelane_example :
  let g := {| Lane.maxsize := 1;
              Lane.pscript := [Lane.Put 5 true false; Lane.Put 6 true false; Lane.Put 7 true false];
              Lane.cscript := [Lane.Get true false; Lane.Get true false; Lane.Get true false] |} in
  let P := Lane.P false in let C := Lane.C false in
  let s := run Lane.step g (Lane.init g)
    [P; P; P; P; P;  P; P; P;            (* 5 is in; the second put finds the queue full and waits *)
     C; C; C; C; C;                      (* get returns 5 and wakes the writer *)
     P; P; P; P;                         (* 6 appended without a second test *)
     C; C; C; C; C;  P; P; P; P; P;  C; C; C; C; C] in
  Lane.oks (Lane.c_out s) = [5; 6; 7]%Z /\ Lane.pp s = Lane.TDone /\ Lane.cp s = Lane.TDone.
Proof. vm_compute. repeat split; reflexivity. Qed.
