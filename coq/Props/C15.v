(* C15 — exceptions keep type, args and traceback text across processes. Statements only.
   Model: Model/RemoteExc.v. A journey = raised at the origin (any frames), wrapped in
   RemoteException, pickled/unpickled, then any number of further hops, each of which either
   forwards the received exception object or re-raises it (any frames) before wrapping it again. *)
From MpV Require Import Model.RemoteExc Proof.RemoteExcProof.

(* For every exception class and args, every traceback depth/content, every number of hops >= 1
   and every forward/re-raise pattern: the exception arrives with its class and args, is a remote
   exception, its remote traceback text contains the originally formatted traceback, and is
   identical to it when the exception was only forwarded. *)
Theorem C15_journey : forall (frames0 : text) (acts : list action) (p : Z) (e0 : exc),
  live_tb e0 = None -> cause_tb e0 = None ->
  exists e1, hop p (Reraise frames0) e0 = Some e1 /\
  exists ek, hops (p + 1) acts e1 = Some ek
    /\ cls ek = cls e0 /\ args ek = args e0 /\ is_remote ek = true
    /\ Infix (remote_text e1) (remote_text ek)
    /\ (Forall (fun a => a = Forward) acts -> remote_text ek = remote_text e1)
    /\ remote_text e1 = [tok_proc p; TOK_HDR] ++ frames0 ++ [tok_exc (cls e0)].
Proof. exact journey. Qed.
Print Assumptions C15_journey.

(* an exception that carries neither a traceback nor a remote traceback cannot be wrapped *)
Theorem C15_wrap_needs_traceback : forall p e,
  live_tb e = None -> cause_tb e = None -> wrap p e = None.
Proof. exact wrap_needs_traceback. Qed.
Print Assumptions C15_wrap_needs_traceback.

(* the boolean sub-list test used by the correspondence driver is sound *)
Theorem C15_infixb_sound : forall x y, infixb x y = true -> Infix x y.
Proof. exact infixb_sound. Qed.
Print Assumptions C15_infixb_sound.

(* C15_ensemble_members_preserved_todo: exceptions nested in an EnsembleError are re-wrapped member by
   member (remote_exception.py:452-463); checked by the correspondence runs only. *)

Example C15_example :
  let e0 := {| cls := 7; args := [1; 2]; live_tb := None; cause_tb := None |} in
  option_map (fun e => (cls e, args e, is_remote e, remote_text e))
             (match hop 0 (Reraise [11; 12]) e0 with Some e1 => hops 1 [Forward; Reraise [21]] e1 | None => None end)
  = Some (7, [1; 2], true, [tok_proc 2; TOK_RTB; tok_proc 0; TOK_HDR; 11; 12; tok_exc 7; TOK_SEP; TOK_HDR; 21; tok_exc 7]).
Proof. vm_compute. reflexivity. Qed.
