(* C05 — streams end cleanly on early stop or failure. Statements only.

   Status on the current tree (see DESIGN.md section 7 and known_findings.json):
   the "nothing blocks forever" clause is FALSE for buffer(1)/buffer(2) and for a source raising a
   non-Exception signal (StopRequested); the faithful models exhibit the hangs below (witness
   schedules, replayed on the implementation by ./check C05). What is proved for all schedules is the
   safety half: a closed iterator has no live helper thread, and failures are delivered in stream
   order (C01_fifo_prefix / C01_no_exception_output); and fifo_stream / Parmapper never wedge when the
   source raises only ordinary exceptions (C05_fifo_no_deadlock), and neither does buffer(n) for n >= 3
   (C05_buffer3_no_deadlock). *)
From MpV Require Import Lib.Conc Proof.CleanupProof Proof.FifoLive.
From MpV Require Model.Buffer Model.FifoStream Proof.BufferLive.
From Coq Require Import List ZArith.
Import ListNotations.

(* every reachable state in which the consumer's iterator is closed has the worker thread finished *)
Theorem C05_buffer_closed_no_live_worker :
  forall (g : Buffer.cfg) (sched : list Buffer.label) (o : Buffer.outcome),
  Buffer.cp (run Buffer.step g (Buffer.init g) sched) = Buffer.CDone o ->
  Buffer.w_finished (run Buffer.step g (Buffer.init g) sched) = true.
Proof. exact B.closed_means_worker_gone. Qed.
Print Assumptions C05_buffer_closed_no_live_worker.

Theorem C05_fifo_closed_no_live_feeder :
  forall (g : FifoStream.cfg) (sched : list FifoStream.label) (o : FifoStream.outcome),
  FifoStream.cp (run FifoStream.step g (FifoStream.init g) sched) = FifoStream.CDone o ->
  FifoStream.f_finished (run FifoStream.step g (FifoStream.init g) sched) = true.
Proof. exact F.closed_means_feeder_gone. Qed.
Print Assumptions C05_fifo_closed_no_live_feeder.

(* fifo_stream / Parmapper never wedge: for every capacity >= 1, pool size >= 1, source that raises only ordinary
   exceptions (at any position), worker outcomes, preprocessor, flags, position at which the consumer stops early,
   and every interleaving of the feeder thread, the consuming thread and the pool workers: a state in which none of
   them can move is a final state (iterator closed, feeder finished). With a fair scheduler: nothing blocks forever. *)
Theorem C05_fifo_no_deadlock :
  forall (g : FifoStream.cfg) (sched : list FifoStream.label),
  no_base (FifoStream.src g) -> 1 <= FifoStream.cap g -> 1 <= FifoStream.conc g ->
  FifoStream.deadlocked g (run FifoStream.step g (FifoStream.init g) sched) = false.
Proof. exact fifo_no_deadlock. Qed.
Print Assumptions C05_fifo_no_deadlock.

(* Stream.buffer(n) never wedges, for every n >= 1: for every source that raises only ordinary exceptions (at any position),
   every position at which the consumer stops early (or none), and every interleaving of the worker thread and the
   consuming thread, a state in which neither can move is a final state (iterator closed, worker finished).
   [drain_join = true] is the finalizer as repaired (repair C: it keeps draining the queue while it waits for the worker). *)
Theorem C05_buffer_no_deadlock :
  forall (g : Buffer.cfg) (sched : list Buffer.label),
  BufferLive.no_base (Buffer.src g) -> 1 <= Buffer.maxsize g -> Buffer.drain_join g = true ->
  Buffer.deadlocked g (run Buffer.step g (Buffer.init g) sched) = false.
Proof. exact BufferLive.buffer_no_deadlock. Qed.
Print Assumptions C05_buffer_no_deadlock.

(* ... and the finalizer's loop ends: once the stop flag is set the worker has at most four steps left, each of its steps uses
   one up, and it can always take a step when the queue has room - which the drain provides. *)
Theorem C05_buffer_worker_runs_out :
  forall (g : Buffer.cfg) (s s' : Buffer.state) e,
  Buffer.stopped s = true -> Buffer.step_w g s = Some (s', e) ->
  Buffer.stopped s' = true /\ BufferLive.steps_left (Buffer.wp s') < BufferLive.steps_left (Buffer.wp s).
Proof. exact BufferLive.worker_step_after_stop_uses_one_up. Qed.
Print Assumptions C05_buffer_worker_runs_out.
Theorem C05_buffer_worker_can_move_when_room :
  forall (g : Buffer.cfg) (s : Buffer.state),
  length (Buffer.q s) < Buffer.maxsize g -> Buffer.w_finished s = false -> Buffer.wp s <> Buffer.WIdle ->
  Buffer.step_w g s <> None.
Proof. exact BufferLive.worker_can_move_when_room. Qed.
Print Assumptions C05_buffer_worker_can_move_when_room.

(* The finalizer before the repair (drain once, then join without a limit) needed three slots ... *)
Theorem C05_buffer3_no_deadlock_before_repair :
  forall (g : Buffer.cfg) (sched : list Buffer.label),
  BufferLive.no_base (Buffer.src g) -> 3 <= Buffer.maxsize g ->
  Buffer.deadlocked g (run Buffer.step g (Buffer.init g) sched) = false.
Proof. exact BufferLive.buffer3_no_deadlock_before_repair. Qed.
Print Assumptions C05_buffer3_no_deadlock_before_repair.

(* ... and hung with fewer: buffer(1) with an early break - _finalize drained and then joined, while the worker still had to
   put the element it held and the end marker into a queue of size 1. The same schedule ends with the repaired finalizer. *)
Theorem C05_buffer1_break_before_repair_refuted :
  exists (g : Buffer.cfg) (sched : list Buffer.label),
    Buffer.maxsize g = 1 /\ Buffer.drain_join g = false /\
    Buffer.deadlocked g (run Buffer.step g (Buffer.init g) sched) = true.
Proof.
  exists {| Buffer.maxsize := 1;
            Buffer.src := [Buffer.SData 0; Buffer.SData 1; Buffer.SData 2; Buffer.SData 3];
            Buffer.stop_after := Some 1; Buffer.drain_join := false |}.
  exists [Buffer.C; Buffer.W; Buffer.W; Buffer.W; Buffer.C; Buffer.C;   (* 0 handed over; consumer breaks *)
          Buffer.W; Buffer.W;                                           (* worker holds 1, passed the stop test *)
          Buffer.C; Buffer.C;                                           (* set stopped; queue seen empty *)
          Buffer.W; Buffer.W; Buffer.W].                                (* put 1; pull 2; sees stop; blocks on put(FINISHED) *)
  split; [reflexivity | split; [reflexivity | vm_compute; reflexivity]].
Qed.
Print Assumptions C05_buffer1_break_before_repair_refuted.

(* Refutation for a source that raises a BaseException (StopRequested): the feeder dies without
   leaving a marker and the consumer blocks in get() forever. *)
Theorem C05_fifo_stoprequested_no_deadlock_refuted :
  exists (g : FifoStream.cfg) (sched : list FifoStream.label),
    FifoStream.deadlocked g (run FifoStream.step g (FifoStream.init g) sched) = true.
Proof.
  exists {| FifoStream.cap := 1; FifoStream.conc := 1; FifoStream.src := [FifoStream.SRaiseBase 1];
            FifoStream.call := fun x => FifoStream.Ok x; FifoStream.pre := None;
            FifoStream.return_x := false; FifoStream.return_exc := false; FifoStream.stop_after := None |}.
  exists [FifoStream.C; FifoStream.F].
  vm_compute; reflexivity.
Qed.
Print Assumptions C05_fifo_stoprequested_no_deadlock_refuted.

(* The hand-off queue itself (Model/Lane.v = the code of SingleLane): no wake-up is lost. In every reachable state a
   writer sitting in not_full.wait() faces a queue that is really full, or a reader that has already popped and is about
   to notify it; symmetrically for the reader. Hence the lane never wedges its two users: if neither thread can move, one
   of them has finished its script. *)
From MpV Require Model.Lane Proof.LaneProof.
Theorem C05_singlelane_no_lost_wakeup : forall (g : Lane.cfg) (sched : list Lane.label),
  let s := run Lane.step g (Lane.init g) sched in
  (Lane.pp s = Lane.TWaiting -> (0 < Lane.maxsize g /\ Lane.maxsize g <= length (Lane.q s)) \/ Lane.cp s = Lane.TNotify) /\
  (Lane.cp s = Lane.TWaiting -> Lane.q s = [] \/ Lane.pp s = Lane.TNotify).
Proof. exact LaneProof.lane_no_lost_wakeup. Qed.
Print Assumptions C05_singlelane_no_lost_wakeup.

Theorem C05_singlelane_not_wedged : forall (g : Lane.cfg) (sched : list Lane.label),
  Lane.wedged g (run Lane.step g (Lane.init g) sched) = false.
Proof. exact LaneProof.lane_not_wedged. Qed.
Print Assumptions C05_singlelane_not_wedged.
