(* C08 — streaming has bounded look-ahead and bounded concurrency. Statements only. *)
From MpV Require Import Lib.Conc Model.Buffer Model.FifoStream Proof.BufferProof Proof.FifoProof.

(* fifo_stream / parmap: for every capacity, pool size, source (any length, any failures), worker
   outcome table, preprocessor, flags, consumer stop position, and every interleaving of feeder,
   consumer and pool workers: the number of elements pulled from the source and neither handed to
   the consumer nor discarded never exceeds capacity + 3. *)
Theorem C08_fifo_lookahead : forall (g : FifoStream.cfg) (sched : list FifoStream.label),
  FifoStream.ahead (run FifoStream.step g (FifoStream.init g) sched) <= FifoStream.cap g + 3.
Proof. exact fifo_lookahead. Qed.
Print Assumptions C08_fifo_lookahead.

(* Parmapper instantiates capacity = 2 * concurrency (the correspondence check runs Parmapper with
   the model's cap set to 2*conc): look-ahead <= 2*concurrency + 3. *)
Theorem C08_parmap_lookahead : forall (g : FifoStream.cfg) (sched : list FifoStream.label),
  FifoStream.cap g = 2 * FifoStream.conc g ->
  FifoStream.ahead (run FifoStream.step g (FifoStream.init g) sched) <= 2 * FifoStream.conc g + 3.
Proof. intros g sched H. rewrite <- H. apply fifo_lookahead. Qed.
Print Assumptions C08_parmap_lookahead.

(* at most [conc] invocations of the worker function are running, in every reachable state *)
Theorem C08_running_le_conc : forall (g : FifoStream.cfg) (sched : list FifoStream.label),
  FifoStream.running (run FifoStream.step g (FifoStream.init g) sched) <= FifoStream.conc g.
Proof. exact running_le_conc. Qed.
Print Assumptions C08_running_le_conc.

(* buffer(n): look-ahead <= n + 2 for every n, source, stop position and interleaving *)
Theorem C08_buffer_lookahead : forall (g : Buffer.cfg) (sched : list Buffer.label),
  Buffer.ahead (run Buffer.step g (Buffer.init g) sched) <= Buffer.maxsize g + 2.
Proof. exact buffer_lookahead. Qed.
Print Assumptions C08_buffer_lookahead.

(* Non-vacuity: the bound n + 2 is reached by a concrete schedule of Buffer(1). *)
Example C08_buffer_bound_tight :
  let g := {| Buffer.maxsize := 1; Buffer.src := [Buffer.SData 0; Buffer.SData 1; Buffer.SData 2; Buffer.SData 3];
              Buffer.stop_after := None |} in
  Buffer.ahead (run Buffer.step g (Buffer.init g)
                    [Buffer.C; Buffer.W; Buffer.W; Buffer.W; Buffer.C; Buffer.W; Buffer.W; Buffer.W;
                     Buffer.W; Buffer.W]) = 3.
Proof. vm_compute. reflexivity. Qed.

(* The hand-off queue itself (Model/Lane.v = the code of SingleLane, not the atomic FIFO assumed above): for every bound
   n > 0, every script of the writer and of the reader and every interleaving, the deque never holds more than n items -
   although put re-tests nothing after a wake-up. *)
From MpV Require Model.Lane Proof.LaneProof.
Theorem C08_singlelane_bound : forall (g : Lane.cfg) (sched : list Lane.label),
  0 < Lane.maxsize g -> length (Lane.q (run Lane.step g (Lane.init g) sched)) <= Lane.maxsize g.
Proof. exact LaneProof.lane_bound. Qed.
Print Assumptions C08_singlelane_bound.
