(* C08 — streaming has bounded look-ahead and bounded concurrency. Statements only. *)
From MpV Require Import Lib.Conc Model.Buffer Model.FifoStream Proof.BufferProof Proof.FifoProof.

(* fifo_stream / parmap: for every capacity, pool size, source (any length, any failures), worker
   outcome table, preprocessor, flags, consumer stop position, and every interleaving of feeder,
   consumer and pool workers: the number of elements pulled from the source and neither handed to
   the consumer nor discarded never exceeds capacity + 3. *)
Theorem C08_fifo_lookahead : forall (g : FifoStream.cfg) (sched : list FifoStream.label),
  FifoStream.ahead (run FifoStream.step g (FifoStream.init g) sched) <= FifoStream.cap g + 3.
Proof. exact fifo_lookahead. Qed.
Print Assumptions C08_fifo_lookahead.

(* Parmapper instantiates capacity = 2 * concurrency (the correspondence check runs Parmapper with
   the model's cap set to 2*conc): look-ahead <= 2*concurrency + 3. *)
Theorem C08_parmap_lookahead : forall (g : FifoStream.cfg) (sched : list FifoStream.label),
  FifoStream.cap g = 2 * FifoStream.conc g ->
  FifoStream.ahead (run FifoStream.step g (FifoStream.init g) sched) <= 2 * FifoStream.conc g + 3.
Proof. intros g sched H. rewrite <- H. apply fifo_lookahead. Qed.
Print Assumptions C08_parmap_lookahead.

(* at most [conc] invocations of the worker function are running, in every reachable state *)
Theorem C08_running_le_conc : forall (g : FifoStream.cfg) (sched : list FifoStream.label),
  FifoStream.running (run FifoStream.step g (FifoStream.init g) sched) <= FifoStream.conc g.
Proof. exact running_le_conc. Qed.
Print Assumptions C08_running_le_conc.

(* buffer(n): look-ahead <= n + 2 for every n, source, stop position and interleaving *)
Theorem C08_buffer_lookahead : forall (g : Buffer.cfg) (sched : list Buffer.label),
  Buffer.ahead (run Buffer.step g (Buffer.init g) sched) <= Buffer.maxsize g + 2.
Proof. exact buffer_lookahead. Qed.
Print Assumptions C08_buffer_lookahead.

(* Non-vacuity: the bound n + 2 is reached by a concrete schedule of Buffer(1). *)
Example C08_buffer_bound_tight :
  let g := {| Buffer.maxsize := 1; Buffer.src := [Buffer.SData 0; Buffer.SData 1; Buffer.SData 2; Buffer.SData 3];
              Buffer.stop_after := None; Buffer.drain_join := true |} in
  Buffer.ahead (run Buffer.step g (Buffer.init g)
                    [Buffer.C; Buffer.W; Buffer.W; Buffer.W; Buffer.C; Buffer.W; Buffer.W; Buffer.W;
                     Buffer.W; Buffer.W]) = 3.
Proof. vm_compute. reflexivity. Qed.

(* The hand-off queue itself (Model/Lane.v = the code of SingleLane, not the atomic FIFO assumed above): for every bound
   n > 0, every script of the writer and of the reader and every interleaving, the deque never holds more than n items -
   although put re-tests nothing after a wake-up. *)
From MpV Require Model.Lane Proof.LaneProof.
Theorem C08_singlelane_bound : forall (g : Lane.cfg) (sched : list Lane.label),
  0 < Lane.maxsize g -> length (Lane.q (run Lane.step g (Lane.init g) sched)) <= Lane.maxsize g.
Proof. exact LaneProof.lane_bound. Qed.
Print Assumptions C08_singlelane_bound.
(* What an outside observer of a real parmap (thread pool, process pool, event loop) sees - pulls, hand-overs, entries to and
   exits from the worker function - is checked against Model/ParSpec.v. A history the specification accepts respects both
   bounds after every event, for every capacity, concurrency and history length. *)
From MpV Require Model.ParSpec Proof.ParSpecProof.
Theorem C08_accepted_history_respects_bounds : forall (cap conc : nat) (evs : list ParSpec.ev) (sf : ParSpec.st),
  ParSpec.accept cap conc ParSpec.init 0 evs = inl sf ->
  forall k, exists sk, ParSpec.accept cap conc ParSpec.init 0 (firstn k evs) = inl sk /\
                       ParSpec.ahead sk <= cap + 3 /\ ParSpec.running sk <= conc.
Proof. exact ParSpecProof.accepted_respects_bounds. Qed.
Print Assumptions C08_accepted_history_respects_bounds.
(* ... and the specification refuses only a real excess: the pull that would make it capacity + 4 outstanding, the
   invocation that would make it concurrency + 1 running (or an impossible history). *)
Theorem C08_refusal_is_an_excess : forall (cap conc : nat) (s : ParSpec.st) (e : ParSpec.ev) (k : ParSpec.refusal),
  ParSpec.step cap conc s e = inr k ->
  match k with
  | ParSpec.LookAhead => e = ParSpec.Pull /\ cap + 3 <= ParSpec.ahead s
  | ParSpec.Concurrency => e = ParSpec.Enter /\ conc <= ParSpec.running s
  | ParSpec.Impossible => (e = ParSpec.Hand /\ ParSpec.pulled s <= ParSpec.handed s) \/ (e = ParSpec.Exit /\ ParSpec.running s = 0)
  end.
Proof. exact ParSpecProof.refusal_is_an_excess. Qed.
Print Assumptions C08_refusal_is_an_excess.
(* the detailed model of fifo_stream / Parmapper never leaves the specification *)
Theorem C08_fifo_model_within_spec : forall (g : FifoStream.cfg) (sched : list FifoStream.label),
  let s := run FifoStream.step g (FifoStream.init g) sched in
  FifoStream.ahead s <= FifoStream.cap g + 3 /\ FifoStream.running s <= FifoStream.conc g.
Proof. exact ParSpecProof.fifo_model_within_spec. Qed.
Print Assumptions C08_fifo_model_within_spec.
(* Non-vacuity: with concurrency 1 (capacity 2) a history reaching 5 outstanding elements is accepted, the sixth pull is not,
   and a second simultaneous invocation is not. *)
Example C08_spec_examples :
  (exists s, ParSpec.accept 2 1 ParSpec.init 0 [ParSpec.Pull; ParSpec.Enter; ParSpec.Pull; ParSpec.Pull; ParSpec.Pull; ParSpec.Pull;
                                               ParSpec.Exit; ParSpec.Hand; ParSpec.Pull] = inl s /\ ParSpec.peak_ahead s = 5) /\
  ParSpec.accept 2 1 ParSpec.init 0 (repeat ParSpec.Pull 6) = inr (5, ParSpec.LookAhead) /\
  ParSpec.accept 2 1 ParSpec.init 0 [ParSpec.Pull; ParSpec.Enter; ParSpec.Pull; ParSpec.Enter] = inr (3, ParSpec.Concurrency).
Proof. split; [eexists; split; vm_compute; reflexivity | split; vm_compute; reflexivity]. Qed.
