(* C14 — proxy calls behave like direct calls on the hosted object.
   Only statements here; proofs are in Proof/ProxyCallProof.v. *)
From MpV Require Import Model.ProxyCall Proof.ProxyCallProof.
Open Scope nat_scope.

(* For every history of requests to any hosted objects (from whichever proxies, threads and processes: a request
   carries only the object id) and every hosted list, dict or Value: the answers to the calls on that object, and its
   final state, are exactly those of the same calls made directly on it, one after the other. State changes are
   therefore visible through every proxy of the object, and calls on other objects never interfere. *)
Theorem C14_proxy_equals_direct : forall reqs s a x,
  nth_error s a = Some x -> is_plain x = true ->
  answers_to a reqs (snd (run s reqs)) = snd (direct x (ops_to a reqs)) /\
  nth_error (fst (run s reqs)) a = Some (fst (direct x (ops_to a reqs))).
Proof. exact proxy_equals_direct. Qed.
Print Assumptions C14_proxy_equals_direct.

(* A call that raises (IndexError, ValueError, KeyError) leaves the object as it was. *)
Theorem C14_error_leaves_state : forall x o c arg,
  snd (apply_plain x o) = RErr c arg -> fst (apply_plain x o) = x.
Proof. exact error_leaves_state. Qed.
Print Assumptions C14_error_leaves_state.

(* A request to one object leaves every other hosted object as it is. *)
Theorem C14_other_objects_untouched : forall s a o b,
  a <> b -> b < length s -> nth_error (fst (serve s a o)) b = nth_error s b.
Proof. exact serve_other. Qed.
Print Assumptions C14_other_objects_untouched.

(* A value returned through managed() comes back as a proxy to the hosted value, not a copy: what its owner sees
   of it afterwards is its state after whatever calls were made through that proxy. *)
Theorem C14_managed_value_is_live : forall s f made xs reqs,
  nth_error s f = Some (OFactory made) ->
  (forall p, In p reqs -> fst p <> f) ->
  let j := length s in
  let s1 := fst (serve s f (FMakeList xs)) in
  snd (serve s f (FMakeList xs)) = RProxy j /\
  exists l', fst (direct (OList xs) (ops_to j reqs)) = OList l' /\
             snd (serve (fst (run s1 reqs)) f (FPeek (length made))) = ROk (VList l').
Proof. exact managed_value_is_live. Qed.
Print Assumptions C14_managed_value_is_live.

(* Non-vacuity. *)
Example C14_example :
  let s := [OList [3; 1]%Z; ODict []; OFactory []] in
  snd (run s [(0, LAppend 2%Z); (1, DSet 5 7); (0, LSort); (0, LPopAt 9); (1, DGet 6); (0, LGet (-1)); (2, FMakeList [4]%Z);
              (3, LAppend 8%Z); (2, FPeek 0); (1, DPopItem)])
  = [ROk VNone; ROk VNone; ROk VNone; RErr E_INDEX None; RErr E_KEY (Some 6%Z); ROk (VInt 3); RProxy 3; ROk VNone;
     ROk (VList [4; 8]%Z); ROk (VPairs [(5, 7)]%Z)].
Proof. vm_compute. reflexivity. Qed.
