(* C09 — workers see well-formed batches; no request waits for a full batch.
   Only statements here; proofs are in Proof/BatchProof.v and Proof/EagerBatcherProof.v.

   Two models carry the property:
   - Model/BatchWorker.v: collector thread, buffer and batch consumer of one batching worker, every
     interleaving, time abstracted (a timed get may time out at any moment);
   - Model/EagerBatcher.v: the timed policy of one consumer pulling from a queue in virtual time; the
     correspondence check runs Worker._get_input_batch against it (it is the same algorithm as
     EagerBatcher.__iter__ with the end marker put back instead of remembered). *)
From MpV Require Import Lib.Conc Model.BatchWorker Proof.BatchProof.
From MpV Require Model.EagerBatcher Proof.EagerBatcherProof.
From Coq Require Import Lia.

(* For every batch size b > 1, request sequence (genuine inputs, exception values, elements rejected by
   preprocess), set of batches on which call raises, and every schedule: each argument of call is a list
   of 1..b uids, all of them genuine inputs (uid j+1 names request j). *)
Theorem C09_batches_wellformed : forall g sched l,
  (1 < bsize g)%nat -> In l (calls (run step g (init g) sched)) ->
  (1 <= length l <= bsize g)%nat /\ forall u, In u l -> exists j, u = S j /\ nth_error (reqs g) j = Some KGood.
Proof. exact batches_wellformed. Qed.
Print Assumptions C09_batches_wellformed.

(* No accepted input is given to call twice (neither in two batches nor twice in one), in any reachable state. *)
Theorem C09_batches_disjoint : forall g sched,
  (1 < bsize g)%nat -> NoDup (concat (calls (run step g (init g) sched))).
Proof. exact batches_disjoint. Qed.
Print Assumptions C09_batches_disjoint.

(* When the worker has shut down (stop marker sent, collector and consumer returned), the batches are exactly
   the genuine inputs, each once, in arrival order: nothing was dropped between collector and consumer. *)
Theorem C09_accepted_exactly_once : forall g sched,
  locked_check g = true -> (1 < bsize g)%nat ->
  all_done g (run step g (init g) sched) = true ->
  concat (calls (run step g (init g) sched)) = good_uids g (length (reqs g)).
Proof. exact accepted_exactly_once. Qed.
Print Assumptions C09_accepted_exactly_once.

(* No interleaving wedges the worker: a reachable state in which neither the producer, nor the collector, nor
   the consumer (whose timed get may always time out) can move is the final state. With a fair scheduler
   this is "a lone request is always served". *)
Theorem C09_no_wedge : forall g sched,
  locked_check g = true -> (1 < bsize g)%nat ->
  stuck g (run step g (init g) sched) = true -> all_done g (run step g (init g) sched) = true.
Proof. exact no_wedge. Qed.
Print Assumptions C09_no_wedge.

(* buffer.put in the collector and the consumer's put-back never block on a full buffer. *)
Theorem C09_puts_never_block : forall g sched,
  locked_check g = true ->
  let s := run step g (init g) sched in
  (c_room (cp s) = true \/ b_putback (bp s) = true) -> is_full g s = false.
Proof. exact puts_never_block. Qed.
Print Assumptions C09_puts_never_block.

(* The end marker is the last thing a batching worker puts into its output queue, and it puts it once: whatever is in
   the queue after any schedule, nothing follows an end marker and nothing before it is one. (Before repair N1 the
   collector thread forwarded the marker as soon as it saw it, ahead of the results of the items still buffered: the next
   stage then stopped reading while this one was still writing.) *)
Theorem C09_end_marker_is_last : forall g sched a b,
  locked_check g = true -> qout (run step g (init g) sched) = a ++ OStop :: b -> b = [] /\ no_ostop a = true.
Proof. exact marker_is_last. Qed.
Print Assumptions C09_end_marker_is_last.

(* The code before the repair (buffer.full() tested outside the mutex, single wait): a schedule after which
   collector and consumer wait for each other for ever while requests are still in the input queue. *)
Definition old_cfg := {| bsize := 2; reqs := repeat KGood 14; poison := []; locked_check := false |}.
Definition old_sched : list label :=
  repeat Env 15 ++ repeat C 400 ++ flat_map (fun _ => [B false; B false; B false; B true]) (seq 0 100) ++ [Csilent] ++ repeat C 5.
Theorem C09_unlocked_full_test_refuted :
  let s := run step old_cfg (init old_cfg) old_sched in
  stuck old_cfg s = true /\ all_done old_cfg s = false /\ cp s = CFullWait /\ bp s = BIdle /\ buf s = [] /\ length (qin s) = 3%nat.
Proof. vm_compute. repeat split; reflexivity. Qed.
Print Assumptions C09_unlocked_full_test_refuted.

(* The same schedule on the code as it is now ends in the final state. *)
Example C09_example_locked :
  let g := {| bsize := 2; reqs := repeat KGood 14; poison := []; locked_check := true |} in
  let s := run step g (init g) (old_sched ++ repeat C 400 ++ flat_map (fun _ => [B false; B false; B false; B true]) (seq 0 100) ++ repeat C 10) in
  all_done g s = true /\ concat (calls s) = seq 1 14 /\ (1 < bsize g)%nat.
Proof. vm_compute. repeat split; try reflexivity; try lia. Qed.

(* Non-vacuity with rejected elements and a failing batch. *)
Example C09_example_mixed :
  let g := {| bsize := 3; reqs := [KGood; KExc; KGood; KPre; KGood; KGood]; poison := [5%nat]; locked_check := true |} in
  let s := run step g (init g) (repeat Env 7 ++ repeat C 100 ++ flat_map (fun _ => [B false; B false; B false; B true]) (seq 0 30) ++ repeat C 10) in
  all_done g s = true /\ calls s = [[1; 3; 5]; [6]]%nat
  /\ qout s = [OErr 2; OErr 4; OErr 1; OErr 3; OErr 5; ORes 6; OStop]%nat.
Proof. vm_compute. repeat split; reflexivity. Qed.

(* -- the timed policy of the consumer (Model/EagerBatcher.v) ------------------------------------ *)
Import Model.EagerBatcher Proof.EagerBatcherProof.
Open Scope Z_scope.

(* A batch is released no later than batch_wait_time after its first element was taken; a batch released short
   of batch_size was released exactly at that deadline or because the end marker arrived. *)
Theorem C09_partial_batch_released_at_deadline : forall g arr b,
  cfg_ok g -> In b (snd (run g arr)) ->
  etime b <= first_t b + Z.max (wait g) (last_t b - first_t b)
  /\ (why b = TimedOut -> etime b = first_t b + wait g)
  /\ ((length (items b) < EagerBatcher.bsize g)%nat -> why b = GotEnd \/ why b = TimedOut).
Proof.
  intros g arr b Hg Hin.
  pose proof (run_batches_good g arr Hg) as H. rewrite Forall_forall in H. specialize (H b Hin).
  destruct H as (_ & Hshort & Hfull & Hend & Hto & Hord).
  split; [|split].
  - destruct (why b) eqn:E.
    + destruct (Hfull eq_refl) as [_ ->]. lia.
    + rewrite (Hend eq_refl). lia.
    + rewrite (Hto eq_refl). lia.
  - exact Hto.
  - intros Hl. destruct (Hshort Hl) as [->|[-> _]]; auto.
Qed.
Print Assumptions C09_partial_batch_released_at_deadline.

(* A lone request is served: one arrival, nothing else ever queued, the batch [z] is released exactly
   batch_wait_time after it was taken (at once when the wait is 0). *)
Theorem C09_lone_request_served : forall g t z,
  (1 < EagerBatcher.bsize g)%nat -> 0 <= wait g -> 0 <= t ->
  map (fun b => (items b, etime b)) (snd (run g [ {| atime := t; amsg := Some z |} ])) = [([z], t + wait g)].
Proof.
  intros g t z Hb Hw Ht. unfold run, run_from, step, idle_step, start. cbn [amsg atime].
  apply Nat.ltb_lt in Hb. rewrite Hb. cbn.
  replace (Z.max 0 t + Z.max 0 (Z.max 0 t + wait g - Z.max 0 t)) with (t + wait g) by lia. reflexivity.
Qed.
Print Assumptions C09_lone_request_served.
