(* C10 — tee forks see identical streams and cannot wedge each other. Statements only.
   Model: Model/Tee.v. Status on the current tree: the "no fork blocks forever" and "ends the way the
   source ended" clauses are FALSE (known findings C10-I, C10-J, C10-K; witnesses below are schedules
   observed on the implementation under the deterministic scheduler). Proved for all schedules:
   the source is pulled once per element, the shared boxes hold the pulled elements in order, and every
   fork has received a prefix of them (so all forks see the same elements in source order), and the source is never
   pulled more than buffer_size + 2 elements beyond what any fork has received (C10_tee_window; the bound is attained). *)
From MpV Require Import Lib.Conc Model.Tee Proof.TeeProof Proof.TeePrefix Proof.TeeWindow.

Theorem C10_source_pulled_once : forall (g : cfg) (sched : list label),
  let s := run step g (init g) sched in
  length (boxes s) = pulled s /\
  exists consumed, src g = consumed ++ rest s /\ map bval (boxes s) = datas_all consumed.
Proof. exact source_pulled_once. Qed.
Print Assumptions C10_source_pulled_once.

(* For every number of forks, window size, source (data elements and failures) and every interleaving, including
   every expiry of the timed acquisition of the source lock: what any fork has handed to its consumer so far is a
   prefix of the data elements pulled from the source, in source order. No fork ever sees an element twice, out of
   order, or an element the others do not see at the same position. *)
Theorem C10_fork_prefix : forall (g : cfg) (sched : list label) (f : nat) (k : fork),
  let s := run step g (init g) sched in
  nth_error (forks s) f = Some k ->
  exists consumed, src g = consumed ++ rest s /\ recv k = firstn (length (recv k)) (datas_all consumed).
Proof. exact fork_prefix_of_source. Qed.
Print Assumptions C10_fork_prefix.

(* Bounded window: for every number of forks, window size, source (data elements and failures) and every interleaving,
   including every expiry of the timed acquisition of the source lock, and for every fork: the number of elements pulled
   from the source never exceeds what that fork has been handed so far by more than buffer_size + 2. (Proof: box.n counts
   exactly the forks that have passed the box; the boxes pulled are the completed ones, the ones in the window queue and
   at most one held inside the source lock; a completed box has been passed by every fork.) *)
Theorem C10_tee_window : forall (g : cfg) (sched : list label) (f : nat) (k : fork),
  let s := run step g (init g) sched in
  nth_error (forks s) f = Some k -> pulled s <= length (recv k) + bufsize g + 2.
Proof. exact tee_window. Qed.
Print Assumptions C10_tee_window.

(* The bound is attained: buffer_size 2, fork 0 runs ahead, fork 1 has popped the first box but not yet received it. *)
Example C10_tee_window_tight :
  let g := {| nforks := 2; bufsize := 2; src := [SData 0; SData 1; SData 2; SData 3; SData 4; SData 5; SData 6] |} in
  let s := run step g (init g) (repeat (Fk 0 false) 60 ++ repeat (Fk 1 false) 6 ++ repeat (Fk 0 false) 60) in
  pulled s = 4 /\ option_map (fun k => length (recv k)) (nth_error (forks s) 1) = Some 0.
Proof. vm_compute. split; reflexivity. Qed.

(* C10-I: the first-element path takes the source lock unconditionally while a peer holds it blocked
   in buffer.put: both forks hang (2 forks, buffer_size 2, 3 elements). *)
Theorem C10_no_deadlock_refuted :
  exists (g : cfg) (sched : list label), deadlocked g (run step g (init g) sched) = true.
Proof.
  exists {| nforks := 2; bufsize := 2; src := [SData 0; SData 1; SData 2] |}.
  exists [Fk 1 false; Fk 1 false; Fk 1 false; Fk 0 false; Fk 1 false; Fk 1 false; Fk 1 false; Fk 1 false;
          Fk 1 false; Fk 1 false; Fk 1 false; Fk 1 false; Fk 1 false; Fk 1 false; Fk 1 false; Fk 1 false;
          Fk 1 false; Fk 1 false; Fk 1 false; Fk 1 false; Fk 1 false; Fk 1 false; Fk 1 false; Fk 1 false;
          Fk 1 false; Fk 1 false].
  vm_compute. reflexivity.
Qed.
Print Assumptions C10_no_deadlock_refuted.

(* C10-J and C10-K: when the source raises in the prefetch path the fork that pulled the failure
   ends with the exception (a) without releasing the source lock - its peer can never pull again -
   and (b) before delivering an element it had already pulled (element 2 here). *)
Theorem C10_source_failure_refuted :
  exists (g : cfg) (sched : list label),
    let s := run step g (init g) sched in
    ilock s = Some 1%nat
    /\ option_map pc (nth_error (forks s) 1) = Some (PDone (Raised 1))
    /\ option_map recv (nth_error (forks s) 1) = Some [0; 1]%Z
    /\ pulled s = 3%nat.
Proof.
  exists {| nforks := 2; bufsize := 2; src := [SData 0; SData 1; SData 2; SRaise 1; SData 3] |}.
  exists [Fk 0 false; Fk 0 false; Fk 0 false; Fk 0 false; Fk 0 false; Fk 1 false; Fk 0 false; Fk 0 false; Fk 1 false; Fk 1 false; Fk 1 false; Fk 1 false; Fk 1 false; Fk 1 false; Fk 1 false; Fk 1 false; Fk 1 false; Fk 1 false; Fk 1 false; Fk 1 false; Fk 0 false; Fk 1 false; Fk 1 false; Fk 1 false; Fk 1 false; Fk 1 false; Fk 1 false; Fk 1 false; Fk 1 false; Fk 0 false; Fk 1 false; Fk 0 false; Fk 0 false; Fk 0 false; Fk 1 false; Fk 1 false; Fk 1 false; Fk 1 false; Fk 0 false; Fk 1 false; Fk 1 false; Fk 1 false; Fk 1 false; Fk 1 false; Fk 1 false; Fk 1 false; Fk 0 false; Fk 0 false; Fk 0 false; Fk 0 false; Fk 0 false; Fk 0 false; Fk 0 false; Fk 0 false; Fk 0 false; Fk 0 false; Fk 0 true; Fk 0 false; Fk 0 true; Fk 0 false].
  vm_compute. repeat split; reflexivity.
Qed.
Print Assumptions C10_source_failure_refuted.
