(* C04 — a failing request fails alone, with its original error. Statements only.
   (Type/args/traceback preservation across process boundaries is C15; the batch clause - when a
   batched call fails exactly the members of that batch fail - is checked on the real Worker by the
   full-stack oracle runs, not by a theorem.) *)
From MpV Require Import Lib.Conc.
From MpV Require Model.Server Proof.ServerProof Model.Ensemble Proof.EnsembleProof.
From Coq Require Import List ZArith.
Import ListNotations.

(* Server layer: whatever subset of the requests fails (the servlet function returns Err for their
   inputs), a request that is answered gets exactly the outcome - result or error - of its own input,
   for every interleaving with the other requests, including their failures, timeouts and
   cancellations. *)
Theorem C04_failure_isolated :
  forall (g : Server.cfg) (sched : list Server.label) (i : nat) (r : Server.res),
  nth_error (Server.kp (run Server.step g (Server.init g) sched)) i = Some (Server.KDone (Server.Answered r)) ->
  r = ServerProof.result_of g i.
Proof. exact ServerProof.answers_are_own_results. Qed.
Print Assumptions C04_failure_isolated.

(* Ensemble: an error slot in an emitted list is the failing member's own error for that request's
   own input (no cross-talk of errors either) ... *)
Theorem C04_ensemble_errors_are_own :
  forall (g : Ensemble.cfg), NoDup (map fst (Ensemble.reqs g)) ->
  forall (sched : list Ensemble.label),
  Forall (fun p => EnsembleProof.eres_ok g (fst p) (snd p))
         (Ensemble.qout (run Ensemble.step g (Ensemble.init g) sched)).
Proof. exact EnsembleProof.no_cross_talk. Qed.
Print Assumptions C04_ensemble_errors_are_own.

(* ... and an EnsembleError is emitted only under the documented rules: with fail_fast some member
   fails on that request's input; without it every member fails on it. *)
Theorem C04_ensemble_error_only_when_justified :
  forall (g : Ensemble.cfg), NoDup (map fst (Ensemble.reqs g)) ->
  forall (sched : list Ensemble.label),
  Forall (fun p => EnsembleProof.eres_just g (fst p) (snd p))
         (Ensemble.qout (run Ensemble.step g (Ensemble.init g) sched)).
Proof. exact EnsembleProof.ensemble_error_justified. Qed.
Print Assumptions C04_ensemble_error_only_when_justified.
