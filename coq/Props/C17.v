(* C17 — IterableQueue delivers every item once and every consumer finishes. Statements only.
   Model: Model/IterQueue.v (thread flavour). *)
From MpV Require Import Lib.Conc Model.IterQueue Proof.IterQueueProof.
From Coq Require Import Permutation.

(* For every number of suppliers and consumers, queue bound, number of rounds, item lists and every
   interleaving: the items received so far (by all consumers, in all rounds), the items still in the
   queue and the items swallowed by a failing renew() are together exactly the items put so far -
   nothing is lost, duplicated or invented at any moment. *)
Theorem C17_items_exactly_once : forall (g : cfg) (sched : list label),
  let s := run step g (init g) sched in
  Permutation (recv_total s ++ items_of (q s) ++ renew_ate s) (put_all s).
Proof. exact items_exactly_once. Qed.
Print Assumptions C17_items_exactly_once.

(* "exactly one end marker remains when all consumers have finished" is FALSE on the current tree:
   two consumers can both observe that all suppliers' tokens have been used and both add the extra
   marker (queue.py:265-276). Witness: 2 suppliers without items, 2 consumers. The stray marker then
   corrupts the next round (known finding C17-Q). *)
Theorem C17_one_marker_left_refuted :
  exists (g : cfg) (sched : list label),
    leftover_markers (run step g (init g) sched) = [2%nat].
Proof.
  exists {| nsup := 2; ncons := 2; qcap := 0; rounds := 2; items := fun _ _ => []; early := fun _ _ => [] |}.
  exists [Sup 0 false; Sup 0 false; Sup 0 false; Sup 1 false; Sup 1 false; Sup 1 false;
          Con 0; Con 0; Con 0; Con 0; Con 0;          (* consumer 0 moved a token, about to test used.full() *)
          Con 1; Con 1; Con 1; Con 1; Con 1;          (* consumer 1 moved the second token *)
          Con 1; Con 1;                               (* sees full, adds the extra marker *)
          Con 0; Con 0;                               (* also sees full, adds another one *)
          Ren].
  vm_compute. reflexivity.
Qed.
Print Assumptions C17_one_marker_left_refuted.

(* "no item or end marker leaking between rounds" is FALSE on the current tree when a supplier that has ended its round puts
   data of the next round before the round's consumer has finished (the put_end docstring allows it): the item sits in front of
   the extra end marker, and renew() takes the item where it expects the marker (RuntimeError 'expecting None, got 2'; the item is
   lost, the stale marker stays). Witness: one supplier, one consumer; put 1, put_end, put 2, consume, renew. Known finding C17-E. *)
Theorem C17_early_put_swallowed_by_renew_refuted :
  exists (g : cfg) (sched : list label),
    let s := run step g (init g) sched in
    renew_ate s = [2%Z] /\ rp s = RFail /\ q s = [None].
Proof.
  exists {| nsup := 1; ncons := 1; qcap := 0; rounds := 2;
            items := fun r _ => match r with O => [1%Z] | _ => [] end;
            early := fun r _ => match r with O => [2%Z] | _ => [] end |}.
  exists [Sup 0 false; Sup 0 false; Sup 0 false; Sup 0 false;       (* put 1; put_end: spare, applied, end marker *)
          Sup 0 false;                                              (* the supplier already puts 2 (next round) *)
          Con 0; Con 0; Con 0; Con 0; Con 0; Con 0; Con 0; Con 0; Con 0; Con 0;   (* the consumer gets 1, the marker, posts the extra one *)
          Ren; Ren].                                                (* renew(): used is full; takes 2 instead of the marker *)
  vm_compute. repeat split; reflexivity.
Qed.
Print Assumptions C17_early_put_swallowed_by_renew_refuted.

(* C17_consumers_finish_todo, C17_round_complete_todo (every item put before put_end is received before the
   consumers of that round finish), C17_stop_unblocks_todo: not proved; they rest on the scheduler
   exploration (every explored run is classified and compared with the sequential expectation). *)
