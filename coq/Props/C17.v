(* C17 — IterableQueue delivers every item once and every consumer finishes. Statements only.
   Model: Model/IterQueue.v (thread flavour). *)
From MpV Require Import Lib.Conc Model.IterQueue Proof.IterQueueProof.
From Coq Require Import Permutation.

(* For every number of suppliers and consumers, queue bound, number of rounds, item lists and every
   interleaving: the items received so far (by all consumers, in all rounds), the items still in the
   queue and the items swallowed by a failing renew() are together exactly the items put so far -
   nothing is lost, duplicated or invented at any moment. *)
Theorem C17_items_exactly_once : forall (g : cfg) (sched : list label),
  let s := run step g (init g) sched in
  Permutation (recv_total s ++ items_of (q s) ++ renew_ate s) (put_all s).
Proof. exact items_exactly_once. Qed.
Print Assumptions C17_items_exactly_once.

(* "exactly one end marker remains when all consumers have finished" is FALSE on the current tree:
   two consumers can both observe that all suppliers' tokens have been used and both add the extra
   marker (queue.py:265-276). Witness: 2 suppliers without items, 2 consumers. The stray marker then
   corrupts the next round (known finding C17-Q). *)
Theorem C17_one_marker_left_refuted :
  exists (g : cfg) (sched : list label),
    leftover_markers (run step g (init g) sched) = [2%nat].
Proof.
  exists {| nsup := 2; ncons := 2; qcap := 0; rounds := 2; items := fun _ _ => [] |}.
  exists [Sup 0 false; Sup 0 false; Sup 0 false; Sup 1 false; Sup 1 false; Sup 1 false;
          Con 0; Con 0; Con 0; Con 0; Con 0;          (* consumer 0 moved a token, about to test used.full() *)
          Con 1; Con 1; Con 1; Con 1; Con 1;          (* consumer 1 moved the second token *)
          Con 1; Con 1;                               (* sees full, adds the extra marker *)
          Con 0; Con 0;                               (* also sees full, adds another one *)
          Ren].
  vm_compute. reflexivity.
Qed.
Print Assumptions C17_one_marker_left_refuted.

(* C17_consumers_finish_todo, C17_round_complete_todo (every item put before put_end is received before the
   consumers of that round finish), C17_stop_unblocks_todo: not proved; they rest on the scheduler
   exploration (every explored run is classified and compared with the sequential expectation). *)
