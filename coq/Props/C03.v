(* C03 — stream pipelines equal their sequential meaning. Statements only.
   [run_op o (xs, up)] is the model of consuming operator o over a source that yields xs and then
   ends normally ([End]) or raises ([Raise e]).  All statements are for every element list (any
   length, any elements: ints, None, exception objects, nested lists) and every parameter value. *)
From MpV Require Import Model.Ops Proof.OpsProof.
From Coq Require Import Permutation Lia.

Theorem C03_map : forall f g xs up, total f g -> run_op (OMap f) (xs, up) = (map g xs, up).
Proof. exact map_spec. Qed.
Print Assumptions C03_map.

(* an exception raised by the function at the first failing element propagates at that position *)
Theorem C03_map_first_failure : forall f g pre x post e up,
  (forall y, In y pre -> f y = FOk (g y)) -> f x = FErr e ->
  run_op (OMap f) (pre ++ x :: post, up) = (map g pre, Raise e).
Proof. exact map_first_failure. Qed.
Print Assumptions C03_map_first_failure.

Theorem C03_filter : forall p b xs up,
  (forall x, p x = POk (b x)) -> run_op (OFilter p) (xs, up) = (filter b xs, up).
Proof. exact filter_spec. Qed.
Print Assumptions C03_filter.

Theorem C03_peek_buffer_identity : forall o xs up,
  o = OPeek \/ (exists n, o = OBuffer n) -> run_op o (xs, up) = (xs, up).
Proof. exact identity_spec. Qed.
Print Assumptions C03_peek_buffer_identity.

Theorem C03_parmap : forall f g rx re xs up,
  total f g -> run_op (OParmap f rx re) (xs, up) = (map (parmap_out g rx) xs, up).
Proof. exact parmap_spec. Qed.
Print Assumptions C03_parmap.

Theorem C03_parmap_return_exceptions : forall f rx xs up,
  run_op (OParmap f rx true) (xs, up) = (map (parmap_exc_out f rx) xs, up).
Proof. exact parmap_return_exceptions_spec. Qed.
Print Assumptions C03_parmap_return_exceptions.

Theorem C03_head : forall n xs, (1 <= n)%nat -> run_op (OHead n) (xs, End) = (firstn n xs, End).
Proof. exact head_spec. Qed.
Print Assumptions C03_head.

(* "keeps the first n elements and ignores all the rest": whatever follows the n-th element - more
   elements, the end of the source or a failure of the source - does not change the result *)
Theorem C03_head_ignores_the_rest : forall n xs rest up,
  (1 <= n)%nat -> length xs = n -> run_op (OHead n) (xs ++ rest, up) = (xs, End).
Proof. exact head_ignores_rest. Qed.
Print Assumptions C03_head_ignores_the_rest.

(* head never pulls more than n elements, however long the source is (n >= 1: the constructor
   rejects n = 0) *)
Theorem C03_head_pulls : forall n st, (1 <= n)%nat -> (pulls_of (OHead n) st <= n)%nat.
Proof. exact head_pulls. Qed.
Print Assumptions C03_head_pulls.

Theorem C03_tail : forall n xs, (1 <= n)%nat -> run_op (OTail n) (xs, End) = (lastn n xs, End).
Proof. exact tail_spec. Qed.
Print Assumptions C03_tail.

(* batch: the batches are lists of 1..n elements whose concatenation is the input, all of size n
   except possibly the last (by construction of [chunks]); unbatch inverts batch *)
Theorem C03_batch : forall n xs, run_op (OBatch n) (xs, End) = (chunks n xs, End).
Proof. exact batch_spec. Qed.
Print Assumptions C03_batch.

Theorem C03_batch_partition : forall n xs, (1 <= n)%nat ->
  flat_map unL (chunks n xs) = xs /\ Forall (is_batch n) (chunks n xs).
Proof. exact batch_flatten. Qed.
Print Assumptions C03_batch_partition.

Theorem C03_unbatch : forall ls, run_op OUnbatch (map L ls, End) = (concat ls, End).
Proof. exact unbatch_spec_lists. Qed.
Print Assumptions C03_unbatch.

Theorem C03_unbatch_batch : forall n xs, (1 <= n)%nat ->
  run_pipeline [OBatch n; OUnbatch] (xs, End) = (xs, End).
Proof.
  intros n xs Hn. unfold run_pipeline; cbn [fold_left]. rewrite batch_spec. now apply unbatch_of_chunks.
Qed.
Print Assumptions C03_unbatch_batch.

Theorem C03_accumulate : forall f g init xs,
  (forall a b, f a b = FOk (g a b)) ->
  run_op (OAccum f init) (xs, End) = (accumulate_spec g init xs, End).
Proof. exact accumulate_meets_spec. Qed.
Print Assumptions C03_accumulate.

Theorem C03_groupby : forall key k keq xs,
  total key k -> run_op (OGroupby key keq) (xs, End) = (groupby_spec k keq xs, End).
Proof. exact groupby_meets_spec. Qed.
Print Assumptions C03_groupby.

Theorem C03_groupby_partition : forall k keq xs, flat_map group_members (groupby_spec k keq xs) = xs.
Proof. exact groupby_flatten. Qed.
Print Assumptions C03_groupby_partition.

(* shuffle yields a permutation of its input for every buffer size, every sequence of random draws
   and every final in-buffer shuffle that is itself a permutation *)
Theorem C03_shuffle_is_permutation : forall n draws perm xs,
  (1 <= n)%nat -> (forall l, Permutation (perm l) l) ->
  Permutation (fst (run_op (OShuffle n draws perm) (xs, End))) xs
  /\ snd (run_op (OShuffle n draws perm) (xs, End)) = End.
Proof. exact shuffle_is_permutation. Qed.
Print Assumptions C03_shuffle_is_permutation.

(* a pipeline is the composition of its operators, in order *)
Theorem C03_pipeline_composes : forall a b st, run_pipeline (a ++ b) st = run_pipeline b (run_pipeline a st).
Proof. exact pipeline_app. Qed.
Print Assumptions C03_pipeline_composes.

(* incremental consumption: the first k outputs of a chain of inline one-to-one operators are
   determined by the first k source elements (so producing them needs no element beyond k; the
   look-ahead that buffer / parmap add on top is bounded by C08) *)
Theorem C03_one_to_one_chain_incremental : forall ops k xs,
  Forall inline_1to1 ops ->
  fst (run_pipeline ops (firstn k xs, End)) = firstn k (fst (run_pipeline ops (xs, End))).
Proof. intros ops k xs H. now destruct (inline_chain_prefix ops k xs H). Qed.
Print Assumptions C03_one_to_one_chain_incremental.

(* Non-vacuity *)
Example C03_example :
  run_pipeline [OMap (fun x => match x with I z => FOk (I (z + 1)) | _ => FErr 1%Z end); OBatch 2; OHead 2]
               ([I 1; I 2; I 3; I 4; I 5]%Z, End)
  = ([L [I 2; I 3]; L [I 4; I 5]]%Z, End).
Proof. vm_compute. reflexivity. Qed.
