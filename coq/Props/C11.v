(* C11 — server starts all-or-nothing and stops completely. Statements only.
   Model: Model/Lifecycle.v (start handshake and stop sentinel of a simple servlet with real Workers),
   after the repair recorded in known_findings.json (a failed start stops what was started).
   Liveness (the stop sequence terminates; re-entering works) is not proved: it rests on the scheduled
   exploration, where every explored run - single servlets and whole servlet trees, with a failing
   worker at every position, residual requests, and a second enter/exit cycle - must finish. Process
   servlets (pipe-backed queues) are not scheduled. *)
From MpV Require Import Lib.Conc Model.Lifecycle Proof.LifecycleProof.

(* for every number of workers, every failing worker index and every interleaving: if start() raises
   because a worker failed to initialise, no worker thread is left running *)
Theorem C11_start_all_or_nothing : forall (g : cfg) (sched : list label),
  mp (run step g (init g) sched) = MRaised -> any_running (run step g (init g) sched) = false.
Proof. exact start_all_or_nothing. Qed.
Print Assumptions C11_start_all_or_nothing.

(* when stop() has returned, every worker thread has finished, whatever requests were left unanswered *)
Theorem C11_stop_leaves_nothing : forall (g : cfg) (sched : list label),
  mp (run step g (init g) sched) = MDone -> any_running (run step g (init g) sched) = false.
Proof. exact stop_leaves_nothing. Qed.
Print Assumptions C11_stop_leaves_nothing.

(* Non-vacuity: worker 1 of 3 fails; worker 0 is stopped before the error is raised. *)
Example C11_example :
  let g := {| nworkers := 3; init_fails := Some 1%nat; residual := 0 |} in
  let s := run step g (init g) [M; W 0; M; M; W 1; M; M; W 0; W 0; W 0; M; M] in
  mp s = MRaised /\ wp s = [WDone; WDeadInit; WNew].
Proof. vm_compute. split; reflexivity. Qed.

(* ---- stopping a sequence while requests are still in flight (Model/SeqStop.v): two stages, a pipe between them that
   cannot hold a result (results larger than the OS pipe buffer; the stop marker always fits), the gather thread reading
   the output until the marker ---- *)
From MpV Require Model.SeqStop Proof.SeqStopProof.

(* For every list of abandoned requests and every interleaving of the stopping thread, the two workers and the gather
   thread: stopping the members in their order never wedges - a state in which nobody can move has the stop() call
   returned, both workers and the gather thread ended. *)
Theorem C11_sequence_stop_completes : forall (g : SeqStop.cfg) (sched : list SeqStop.label),
  SeqStop.nw g = 1%nat -> SeqStop.reverse g = false ->
  SeqStop.stuck g (run SeqStop.step g (SeqStop.init g) sched) = true ->
  SeqStop.finished (run SeqStop.step g (SeqStop.init g) sched) = true.
Proof. exact SeqStopProof.sequence_stop_completes. Qed.
Print Assumptions C11_sequence_stop_completes.

(* Why the order matters: stopping the last stage first (the seeded change C11_sequential_stop_reverse_order) leaves
   the first stage writing into a pipe nobody reads. *)
Theorem C11_reverse_stop_order_refuted :
  exists (g : SeqStop.cfg) (sched : list SeqStop.label),
    SeqStop.nw g = 1%nat /\ SeqStop.reverse g = true /\
    SeqStop.stuck g (run SeqStop.step g (SeqStop.init g) sched) = true /\
    SeqStop.finished (run SeqStop.step g (SeqStop.init g) sched) = false.
Proof.
  exists {| SeqStop.nw := 1; SeqStop.pending := [1; 2]%Z; SeqStop.reverse := true |}.
  exists [SeqStop.A 0; SeqStop.M; SeqStop.B; SeqStop.B; SeqStop.B; SeqStop.B; SeqStop.B; SeqStop.Out;
          SeqStop.M; SeqStop.M; SeqStop.A 0; SeqStop.A 0].
  vm_compute. repeat split; reflexivity.
Qed.
Print Assumptions C11_reverse_stop_order_refuted.

(* Known finding C11-N2 on the current tree: with two workers in the first stage, the first one to take the stop marker
   forwards it while its peer still holds a request; the second stage and the gather thread end, and the peer's result
   can never be written: stop() waits for that worker for ever. *)
Theorem C11_two_workers_stop_refuted :
  exists (g : SeqStop.cfg) (sched : list SeqStop.label),
    SeqStop.nw g = 2%nat /\ SeqStop.reverse g = false /\
    SeqStop.stuck g (run SeqStop.step g (SeqStop.init g) sched) = true /\
    SeqStop.finished (run SeqStop.step g (SeqStop.init g) sched) = false.
Proof.
  exists {| SeqStop.nw := 2; SeqStop.pending := [1; 2; 3]%Z; SeqStop.reverse := false |}.
  exists [SeqStop.M; SeqStop.A 0; SeqStop.A 1; SeqStop.B; SeqStop.A 0; SeqStop.B; SeqStop.B; SeqStop.A 0;
          SeqStop.B; SeqStop.A 0; SeqStop.B; SeqStop.B; SeqStop.A 0; SeqStop.A 0; SeqStop.A 0;
          SeqStop.B; SeqStop.B; SeqStop.B; SeqStop.B; SeqStop.Out; SeqStop.Out; SeqStop.Out; SeqStop.M].
  vm_compute. repeat split; reflexivity.
Qed.
Print Assumptions C11_two_workers_stop_refuted.
