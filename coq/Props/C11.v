(* C11 — server starts all-or-nothing and stops completely. Statements only.
   Model: Model/Lifecycle.v (start handshake and stop sentinel of a simple servlet with real Workers),
   after the repair recorded in known_findings.json (a failed start stops what was started).
   Liveness (the stop sequence terminates; re-entering works) is not proved: it rests on the scheduled
   exploration, where every explored run - single servlets and whole servlet trees, with a failing
   worker at every position, residual requests, and a second enter/exit cycle - must finish. Process
   servlets (pipe-backed queues) are not scheduled. *)
From MpV Require Import Lib.Conc Model.Lifecycle Proof.LifecycleProof.

(* for every number of workers, every failing worker index and every interleaving: if start() raises
   because a worker failed to initialise, no worker thread is left running *)
Theorem C11_start_all_or_nothing : forall (g : cfg) (sched : list label),
  mp (run step g (init g) sched) = MRaised -> any_running (run step g (init g) sched) = false.
Proof. exact start_all_or_nothing. Qed.
Print Assumptions C11_start_all_or_nothing.

(* when stop() has returned, every worker thread has finished, whatever requests were left unanswered *)
Theorem C11_stop_leaves_nothing : forall (g : cfg) (sched : list label),
  mp (run step g (init g) sched) = MDone -> any_running (run step g (init g) sched) = false.
Proof. exact stop_leaves_nothing. Qed.
Print Assumptions C11_stop_leaves_nothing.

(* Non-vacuity: worker 1 of 3 fails; worker 0 is stopped before the error is raised. *)
Example C11_example :
  let g := {| nworkers := 3; init_fails := Some 1%nat; residual := 0 |} in
  let s := run step g (init g) [M; W 0; M; M; W 1; M; M; W 0; W 0; W 0; M; M] in
  mp s = MRaised /\ wp s = [WDone; WDeadInit; WNew].
Proof. vm_compute. split; reflexivity. Qed.
