(* C18 — socket transport framing: records are delivered intact. Statements only.
   (The multiplexing half of the property - responses matched to requests by id across connections -
   and the pipe transport are covered by sampled loopback runs in the check, not by a theorem.) *)
From MpV Require Import Model.SockFrame Proof.SockFrameProof Proof.SockFrameTrunc.

(* For every payload (any bytes, any length: newlines, header-like text, empty), every request id
   and encoder name that are non-empty and contain no whitespace, and every following bytes:
   reading a record from what write_record wrote returns exactly that id, encoder and payload and
   leaves exactly the following bytes in the stream. *)
Theorem C18_frame_roundtrip : forall id enc payload rest,
  wf_token id = true -> wf_token enc = true ->
  read_record (encode_record id enc payload ++ rest) =
    Some ({| r_id := id; r_enc := enc; r_payload := payload |}, rest).
Proof. exact frame_roundtrip. Qed.
Print Assumptions C18_frame_roundtrip.

(* a stream of any number of records decodes to the same records in the same order *)
Theorem C18_frames_concat : forall rs,
  forallb wf_record rs = true -> read_all (length rs) (encode_all rs) = Some rs.
Proof. exact frames_concat. Qed.
Print Assumptions C18_frames_concat.

(* the decimal length field round-trips for every length *)
Theorem C18_length_field_roundtrip : forall n, parse_nat (render_nat n) = Some n.
Proof. exact parse_render. Qed.
Print Assumptions C18_length_field_roundtrip.

(* A record that has not arrived completely is never delivered: for every strict prefix of an
   encoded record followed by the end of the stream (the peer closed the connection), read_record
   yields nothing (IncompleteReadError in the code) - never a shorter or different record. *)
Theorem C18_truncated_record_not_delivered : forall id enc payload k,
  wf_token id = true -> wf_token enc = true ->
  k < length (encode_record id enc payload) ->
  read_record (firstn k (encode_record id enc payload)) = None.
Proof. exact truncated_record_not_delivered. Qed.
Print Assumptions C18_truncated_record_not_delivered.

Example C18_example :
  read_record (encode_record [97; 49] [112] [10; 53; 32; 120; 10] ++ [1; 2]) =
  Some ({| r_id := [97; 49]; r_enc := [112]; r_payload := [10; 53; 32; 120; 10] |}, [1; 2]).
Proof. vm_compute. reflexivity. Qed.
