(* C12 — Process and Thread objects report how their target really ended. Statements only.
   Model: Model/ProcOutcome.v (after the repair recorded in known_findings.json: an unexpected
   signal resolves the future with an OSError instead of killing the collector thread). *)
From MpV Require Import Model.ProcOutcome Proof.ProcOutcomeProof.

(* for every way the target ends, every kill phase and every signal, the parent's future is
   resolved - which is what makes wait / as_completed return *)
Theorem C12_future_always_resolved : forall g, parent_future g <> Pending.
Proof. exact future_always_resolved. Qed.
Print Assumptions C12_future_always_resolved.

(* join / result / exception / wait agree with each other in every case *)
Theorem C12_accessors_agree : forall g,
  match parent_future g with
  | FResult v => acc_result (parent_future g) = Returns v /\ acc_join (parent_future g) = Returns PNone
                 /\ acc_exception (parent_future g) = Returns PNone /\ acc_wait (parent_future g) = Returns PNone
  | FError e => acc_result (parent_future g) = Raises e /\ acc_join (parent_future g) = Raises e
                /\ acc_exception (parent_future g) = Returns e /\ acc_wait (parent_future g) = Returns PNone
  | Pending => False
  end.
Proof. exact accessors_agree. Qed.
Print Assumptions C12_accessors_agree.

(* a returned value is returned, a raised exception is re-raised, sys.exit codes map as documented *)
Theorem C12_normal_endings : forall g,
  kill g = NoKill ->
  parent_future g =
    match how g with
    | Return v => FResult (PVal v)
    | RaiseExc e => FError (PExc e)
    | ExitNone => FResult PNone
    | ExitInt n => if (n =? 0)%Z then FResult PNone else FError (PSysExit n)
    | ExitOther => FError PSysExitOther
    | RaiseUnsendable | ReturnUnsendable => FError (POSErr (-1))
    | HardExit n => if (- n =? 15)%Z then FResult PNone else FError (POSErr (- n))
    | ReturnUnloadable e => FError (PExc e)
    end.
Proof. exact normal_endings. Qed.
Print Assumptions C12_normal_endings.

(* a child that ends by itself without having delivered an outcome the parent can use - it raised or returned something
   that cannot be pickled, returned something that cannot be unpickled, or called os._exit - is reported as an error
   through the future, never as a normal return of None (and the future is resolved: C12_future_always_resolved) *)
Theorem C12_silent_child_failure_is_error : forall g,
  kill g = NoKill -> sendable (how g) = false -> (forall n, how g = HardExit n -> n <> (-15)%Z) ->
  exists c, parent_future g = FError c.
Proof. exact silent_child_failure_is_error. Qed.
Print Assumptions C12_silent_child_failure_is_error.

(* death by an unexpected signal before the result was sent surfaces as an error; SIGTERM (terminate()) as result None *)
Theorem C12_unexpected_signal_is_error : forall g,
  kill g = KillBefore \/ kill g = KillDuring ->
  parent_future g = if (sig g =? 15)%Z then FResult PNone else FError (OS_ERROR (sig g)).
Proof. exact killed_before_result. Qed.
Print Assumptions C12_unexpected_signal_is_error.

Theorem C12_killed_after_sends_reports_result : forall g,
  kill g = KillAfter -> sendable (how g) = true ->
  parent_future g = parent_future {| how := how g; kill := NoKill; sig := sig g |}.
Proof. exact killed_after_sends. Qed.
Print Assumptions C12_killed_after_sends_reports_result.

Theorem C12_thread_matches_process : forall h,
  sendable h = true ->
  thread_future h = match parent_future {| how := h; kill := NoKill; sig := 15 |} with
                    | FResult v => FResult v | FError e => FError e | Pending => Pending end.
Proof. exact thread_matches_process. Qed.
Print Assumptions C12_thread_matches_process.
