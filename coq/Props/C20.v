(* C20 — child-process log records all reach the parent, once and in order.
   Only statements here; proofs are in Proof/LogChanProof.v. *)
From MpV Require Import Lib.Conc Model.LogChan Proof.LogChanProof.
From Coq Require Import Lia.

(* For every list of record levels (any number of records), parent threshold, pipe capacity and every
   interleaving of the child, its queue feeder, the parent's result collector, its feeder and the logger
   thread - with or without the flush - what the parent has handled at any moment is the level-filtered image
   of an initial segment of the emitted records: in emission order, none twice, none invented. *)
Theorem C20_handled_in_order_once : forall g sched,
  let s := run step g (init g) sched in
  exists n, n <= nrec g /\ handled s = filter (passes g) (seq 0 n).
Proof. exact handled_in_order_once. Qed.
Print Assumptions C20_handled_in_order_once.

(* With the flush before the outcome is reported (the code as it is now): once the logger thread has stopped,
   every record emitted by the child - including the last ones before it returned, raised or exited - has been
   handled. *)
Theorem C20_all_records_handled : forall g sched,
  flush_first g = true ->
  let s := run step g (init g) sched in
  stopped s = true -> handled s = expected_handled g.
Proof. exact all_records_handled. Qed.
Print Assumptions C20_all_records_handled.

(* However many records and however small the pipe: a state in which nothing can move is the final one -
   the child has exited (join returns), the outcome has been delivered and the logger thread has stopped. *)
Theorem C20_no_wedge : forall g sched,
  flush_first g = true -> 0 < pipe_cap g ->
  stuck g (run step g (init g) sched) = true -> finished (run step g (init g) sched) = true.
Proof. exact no_wedge. Qed.
Print Assumptions C20_no_wedge.

(* The code before the repair (outcome reported without flushing the log queue first). *)
Definition old3 := {| levels := [20; 20; 20]; threshold := 10; pipe_cap := 10; flush_first := false |}.
Theorem C20_records_lost_without_flush_refuted :
  let s := run step old3 (init old3) ([CM; CM; CM; CM; CM; PC; PC; PF] ++ [CF; CF; CF] ++ [R; R; R; R] ++ [CM]) in
  stopped s = true /\ handled s = [] /\ expected_handled old3 = [0; 1; 2] /\ cm s = CExited.
Proof. vm_compute. repeat split; reflexivity. Qed.
Print Assumptions C20_records_lost_without_flush_refuted.

Definition old5 := {| levels := [20; 20; 20; 20; 20]; threshold := 10; pipe_cap := 2; flush_first := false |}.
Theorem C20_child_cannot_exit_without_flush_refuted :
  let s := run step old5 (init old5) (repeat CM 7 ++ [PC; PC; PF; R] ++ repeat CF 5 ++ repeat CM 3 ++ repeat R 3) in
  stuck old5 s = true /\ finished s = false /\ cm s = CExit /\ length (cbuf s) = 3 /\ handled s = [].
Proof. vm_compute. repeat split; reflexivity. Qed.
Print Assumptions C20_child_cannot_exit_without_flush_refuted.

(* Non-vacuity: the same configurations with the flush, under a fair schedule, end in the final state with
   everything handled; a threshold drops exactly the records below it. *)
Example C20_example_flush :
  let g := {| levels := [20; 10; 30; 20; 40]; threshold := 20; pipe_cap := 2; flush_first := true |} in
  let s := run step g (init g) (rounds 40) in
  finished s = true /\ handled s = [0; 2; 3; 4] /\ reads s = [Rec 0; Rec 1; Rec 2; Rec 3; Rec 4; EndMark] /\ 0 < pipe_cap g.
Proof. vm_compute. repeat split; try reflexivity. lia. Qed.
