(* C06 — backlog never exceeds capacity; slots are always returned. Statements only.
   Model: Model/Server.v (Server._enqueue / _wait_for_result / gather / notifier over an abstract
   servlet), after the repairs recorded in known_findings.json (while-loop around the not-full wait;
   ledger entry before the input is queued). *)
From MpV Require Import Proof.ServerLedger Proof.ServerReject.
From MpV Require Import Lib.Conc Model.Server Proof.ServerProof.

(* For every capacity, every number of concurrent callers (each with or without backpressure), every
   number of servlet workers, every servlet function and every interleaving - including every
   moment at which a timed wait may expire - the number of requests recorded as in flight never
   exceeds the capacity, now and at every earlier instant of the run. *)
Theorem C06_backlog_le_capacity : forall (g : cfg) (sched : list label),
  (backlog (run step g (init g) sched) <= capacity g)%nat
  /\ (max_backlog (run step g (init g) sched) <= capacity g)%nat.
Proof. exact backlog_le_capacity. Qed.
Print Assumptions C06_backlog_le_capacity.

(* Every accepted request gives its slot back exactly when its result emerges: for every configuration and every
   interleaving (including every moment a timed wait may expire), request u is in the ledger iff it is in flight -
   recorded but not yet queued, in the input queue, held by a servlet worker, in the output queue, or just taken by
   the gather thread - and it is in at most one of those places. *)
Theorem C06_ledger_is_in_flight : forall g sched u,
  let s := run step g (init g) sched in
  led u s = inflight u s /\ (inflight u s <= 1)%nat.
Proof. exact ledger_is_in_flight. Qed.
Print Assumptions C06_ledger_is_in_flight.

(* ... so an idle server has backlog zero, whether the requests succeeded, failed, timed out or were cancelled *)
Theorem C06_idle_backlog_zero : forall g sched,
  quiet (run step g (init g) sched) -> ledger (run step g (init g) sched) = [].
Proof. exact idle_backlog_zero. Qed.
Print Assumptions C06_idle_backlog_zero.

(* ... and no result ever finds its ledger entry missing (the defect repaired by commit c677130). *)
Theorem C06_no_result_dropped : forall g sched, dropped_results (run step g (init g) sched) = [].
Proof. exact no_result_dropped. Qed.
Print Assumptions C06_no_result_dropped.

(* A rejected request leaves nothing behind: for every configuration and interleaving, a caller that is being or has been
   rejected (at once, or after its wait expired) has no ledger entry, is in no queue, with no worker and not with the
   gather thread, and is not among the condition's waiters. *)
Theorem C06_rejected_leaves_nothing : forall g sched i pc,
  let s := run step g (init g) sched in
  nth_error (kp s) i = Some pc -> rejected_pc pc = true ->
  led i s = 0%nat /\ inflight i s = 0%nat /\ ~ In i (waiters s).
Proof. exact rejected_leaves_nothing. Qed.
Print Assumptions C06_rejected_leaves_nothing.

(* A caller that asked for backpressure never waits: at no moment of any run is it about to wait, queued on the
   condition, woken, or rejected "after waiting" (so with a full backlog its only way out is the immediate
   ServerBacklogFull, which by the theorem above leaves nothing behind). *)
Theorem C06_backpressure_never_waits : forall g sched i pc kc,
  nth_error (kp (run step g (init g) sched)) i = Some pc -> nth_error (callers g) i = Some kc ->
  backpressure kc = true -> waits_pc pc = false /\ ~ In i (waiters (run step g (init g) sched)).
Proof. exact backpressure_never_waits. Qed.
Print Assumptions C06_backpressure_never_waits.

(* Non-vacuity: with capacity 1 and three waiting callers the bound is reached, not exceeded. *)
Example C06_example :
  let g := {| capacity := 1;
              callers := [ {| backpressure := false; arg := 0%Z |}; {| backpressure := false; arg := 1%Z |};
                           {| backpressure := false; arg := 2%Z |} ];
              nworkers := 1; serve := fun x => Ok x |} in
  let s := run step g (init g)
    [K 0 false; K 0 false; K 0 false; K 0 false; K 0 false;      (* caller 0 accepted *)
     K 1 false; K 1 false; K 1 false;                            (* caller 1 waits *)
     B 0; B 0; G; G; G; G; G;                                    (* request 0 answered, slot freed *)
     Nf; Nf; Nf; Nf;                                             (* caller 1 notified *)
     K 2 false; K 2 false; K 2 false; K 2 false; K 2 false;      (* caller 2 slips in *)
     K 1 false; K 1 false; K 1 false]                            (* caller 1 re-checks and waits again *)
  in max_backlog s = 1%nat /\ nth_error (kp s) 1 = Some KWaiting.
Proof. vm_compute. split; reflexivity. Qed.

(* Non-vacuity of the rejection theorems: with capacity 1, a second caller using backpressure is rejected at once. *)
Example C06_reject_example :
  let g := {| capacity := 1;
              callers := [ {| backpressure := false; arg := 0%Z |}; {| backpressure := true; arg := 1%Z |} ];
              nworkers := 1; serve := fun x => Ok x |} in
  let s := run step g (init g)
    [K 0 false; K 0 false; K 0 false; K 0 false; K 0 false;      (* caller 0 accepted *)
     K 1 false; K 1 false; K 1 false]                            (* caller 1: lock, full, raise *)
  in nth_error (kp s) 1 = Some (KDone Rejected) /\ ledger s = [0%nat].
Proof. vm_compute. split; reflexivity. Qed.
(* AsyncServer and servers over process servlets run for real; the exact history of their ledger operations is checked
   against Model/BacklogSpec.v. A history the specification accepts has at most [cap] requests in flight after every
   operation, for every capacity and history length, and the counters add up. *)
From MpV Require Model.BacklogSpec Proof.BacklogSpecProof.
Theorem C06_accepted_history_bounded : forall (cap : nat) (evs : list BacklogSpec.ev) (sf : BacklogSpec.st),
  BacklogSpec.accept cap BacklogSpec.init 0 evs = inl sf ->
  forall k, exists sk, BacklogSpec.accept cap BacklogSpec.init 0 (firstn k evs) = inl sk /\
                       BacklogSpec.backlog sk <= cap /\
                       BacklogSpec.accepted sk = BacklogSpec.released sk + BacklogSpec.backlog sk.
Proof. exact BacklogSpecProof.accepted_history_bounded. Qed.
Print Assumptions C06_accepted_history_bounded.
(* a history that ends idle has given every slot back *)
Theorem C06_idle_means_all_slots_back : forall (cap : nat) (evs : list BacklogSpec.ev) (sf : BacklogSpec.st),
  BacklogSpec.accept cap BacklogSpec.init 0 evs = inl sf -> BacklogSpec.backlog sf = 0 ->
  BacklogSpec.accepted sf = BacklogSpec.released sf.
Proof. exact BacklogSpecProof.idle_means_all_slots_back. Qed.
Print Assumptions C06_idle_means_all_slots_back.
(* the specification refuses only what is really wrong *)
Theorem C06_refusal_is_real : forall (cap : nat) (s : BacklogSpec.st) (e : BacklogSpec.ev) (k : BacklogSpec.refusal),
  BacklogSpec.step cap s e = inr k ->
  match k with
  | BacklogSpec.Overflow => e = BacklogSpec.Acc /\ cap <= BacklogSpec.backlog s
  | BacklogSpec.Impossible => e = BacklogSpec.Rel /\ BacklogSpec.backlog s = 0
  | BacklogSpec.Inconsistent => exists n, e = BacklogSpec.Len n /\ n <> BacklogSpec.backlog s
  end.
Proof. exact BacklogSpecProof.refusal_is_real. Qed.
Print Assumptions C06_refusal_is_real.
Example C06_spec_examples :
  (exists s, BacklogSpec.accept 2 BacklogSpec.init 0 [BacklogSpec.Len 0; BacklogSpec.Acc; BacklogSpec.Acc; BacklogSpec.Len 2;
                                                       BacklogSpec.Rel; BacklogSpec.Acc; BacklogSpec.Rel; BacklogSpec.Rel] = inl s
             /\ BacklogSpec.peak s = 2 /\ BacklogSpec.backlog s = 0) /\
  BacklogSpec.accept 2 BacklogSpec.init 0 [BacklogSpec.Acc; BacklogSpec.Acc; BacklogSpec.Acc] = inr (2, BacklogSpec.Overflow).
Proof. split; [eexists; repeat split; vm_compute; reflexivity | vm_compute; reflexivity]. Qed.
(* AsyncServer's admission gate at the granularity of its code (Model/AGate.v): the ledger never exceeds the capacity, with or
   without the pass-on repair, for every history. *)
From MpV Require Model.AGate Proof.AGateProof.
Theorem C06_async_gate_bounded : forall (g : AGate.cfg) (sched : list AGate.label),
  AGate.b (run AGate.step g AGate.init sched) <= AGate.cap g.
Proof. exact AGateProof.gate_bounded. Qed.
Print Assumptions C06_async_gate_bounded.
