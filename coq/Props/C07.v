(* C07 — an abandoned request (timeout, dropped stream) never harms the server. Statements only.
   Model: Model/Server.v after the repair of the cancelled()/set_result race (known_findings.json).
   A caller's deadline may expire at any step ([K i true]); it then cancels its future. *)
From MpV Require Import Lib.Conc Model.Server Proof.ServerProof Proof.ServerLive.

(* wherever the abandonment falls relative to the gather thread receiving, checking and resolving the
   request, the gather thread is never killed by an exception *)
Theorem C07_gather_never_dies : forall (g : cfg) (sched : list label),
  gather_dead (run step g (init g) sched) = false.
Proof. exact gather_never_dies. Qed.
Print Assumptions C07_gather_never_dies.

(* every other request that is answered is answered with the servlet's result for its own input,
   whatever timeouts and cancellations happened around it *)
Theorem C07_others_unaffected : forall (g : cfg) (sched : list label) (i : nat) (r : res),
  nth_error (kp (run step g (init g) sched)) i = Some (KDone (Answered r)) -> r = result_of g i.
Proof. exact answers_are_own_results. Qed.
Print Assumptions C07_others_unaffected.

(* The server never wedges, whatever was abandoned and whenever: for every capacity, set of callers (with or without
   backpressure), number of workers, servlet function and every interleaving - including every moment at which a caller's
   deadline may expire and every position of the abandonment relative to the arrival of the result - a state in which no
   thread can take a step is the state in which every caller has its outcome, the workers, the gather thread and the
   notifier have ended and the `with server` block has been left. With a fair scheduler: every other request is still
   answered (or times out by its own deadline) and the server shuts down normally. *)
Theorem C07_server_never_wedges : forall (g : cfg) (sched : list label),
  stuck g (run step g (init g) sched) -> finished (run step g (init g) sched).
Proof. exact server_never_wedges. Qed.
Print Assumptions C07_server_never_wedges.

(* the finished state is reached, e.g. after a timed-out request: one caller, deadline expires, late result discarded *)
Example C07_finished_example :
  let g := {| capacity := 2; callers := [ {| backpressure := true; arg := 5%Z |} ];
              nworkers := 1; serve := fun x => Ok x |} in
  let s := run step g (init g)
    ([K 0 false; K 0 false; K 0 false; K 0 false; K 0 false; B 0; B 0; G; G; G; K 0 true; K 0 false; G; G]
     ++ [Nf; Nf; Nf; Nf; M; B 0; B 0; M; G; G; Nf; G; M]) in
  mp s = MDone /\ np s = NDone /\ nth_error (kp s) 0 = Some (KDone TimedOut) /\ bp s = [BDone].
Proof. vm_compute. repeat split; reflexivity. Qed.

(* Non-vacuity: the cancel lands between the gather thread's cancelled() test and its set_result;
   the late result is discarded and the gather thread carries on. *)
Example C07_example :
  let g := {| capacity := 2; callers := [ {| backpressure := true; arg := 5%Z |} ];
              nworkers := 1; serve := fun x => Ok x |} in
  let s := run step g (init g)
    [K 0 false; K 0 false; K 0 false; K 0 false; K 0 false; B 0; B 0; G; G; G;
     K 0 true; K 0 false;       (* deadline expires; cancel() succeeds *)
     G; G]                      (* set_result fails with InvalidStateError, caught; notification sent *)
  in gp s = GGet /\ nth_error (kp s) 0 = Some (KDone TimedOut) /\ gather_dead s = false.
Proof. vm_compute. repeat split; reflexivity. Qed.
(* AsyncServer's admission gate (Model/AGate.v; tied to the code by replaying the ledger and asyncio.Condition tokens of real
   runs): for every capacity and every history of arriving callers, emerging results, waiters resuming, waiters cancelled or
   timing out - before or after they were notified - no caller is ever left waiting in front of free room without a wake-up
   under way. An abandoned wait therefore never costs another caller its turn. *)
From MpV Require Model.AGate Proof.AGateProof.
Theorem C07_async_gate_never_starves : forall (g : AGate.cfg) (sched : list AGate.label),
  AGate.pass_on g = true -> AGate.starving g (run AGate.step g AGate.init sched) = false.
Proof. exact AGateProof.gate_never_starves. Qed.
Print Assumptions C07_async_gate_never_starves.
(* The code before repair LN (a cancelled or timed-out waiter did not pass its notification on): the statement is false. *)
Theorem C07_async_gate_without_pass_on_refuted :
  exists sched, AGate.starving {| AGate.cap := 1; AGate.pass_on := false |}
                               (run AGate.step {| AGate.cap := 1; AGate.pass_on := false |} AGate.init sched) = true.
Proof. exact AGateProof.gate_starves_without_pass_on. Qed.
Print Assumptions C07_async_gate_without_pass_on_refuted.
