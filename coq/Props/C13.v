(* C13 — hosted objects live exactly as long as some proxy refers to them.
   Only statements here; proofs are in Proof/RefcountProof.v. *)
From MpV Require Import Model.Refcount Proof.RefcountProof.

(* For every history of creating, pickling, unpickling once, passing to child processes, storing in and removing
   from hosted containers, returning via managed(), deleting proxies and exiting processes - and for every variant of
   the code (with or without the two repairs): an object to which a reference exists (a live proxy in any process,
   a pickle in transit, a proxy stored in a hosted container) is alive. Nothing is destroyed prematurely. *)
Theorem C13_referenced_is_alive : forall g ops x,
  0 < nrefs x (refs (run g ops)) -> alive (run g ops) x = true.
Proof. exact referenced_is_alive. Qed.
Print Assumptions C13_referenced_is_alive.

(* For the code as it is now, after every history the server's count of every object is exactly the number of
   references to it, and a destroyed object has none. *)
Theorem C13_count_is_references : forall ops x,
  match get_cnt (run now ops) x with
  | Some n => n = nrefs x (refs (run now ops)) /\ 0 < n
  | None => nrefs x (refs (run now ops)) = 0
  end.
Proof. exact count_is_references. Qed.
Print Assumptions C13_count_is_references.

(* ... hence an object is destroyed (and its shared memory block released by its finalizer) as soon as the last
   reference is gone. *)
Theorem C13_destroyed_when_unreferenced : forall ops x,
  nrefs x (refs (run now ops)) = 0 -> alive (run now ops) x = false.
Proof. exact destroyed_when_unreferenced. Qed.
Print Assumptions C13_destroyed_when_unreferenced.

(* Before the repairs: a proxy passed as a process argument never gives its reference back ... *)
Theorem C13_inherited_proxy_leaks_refuted :
  let s := run {| adopt := false; exitfin := true |} [OCreate 0 1; OPickle 1 true 2; OUnpickle 2 1 3; ODrop 3; ODrop 1] in
  nrefs 0 (refs s) = 0 /\ get_cnt s 0 = Some 1.
Proof. vm_compute. split; reflexivity. Qed.
Print Assumptions C13_inherited_proxy_leaks_refuted.

(* ... and neither does a proxy that is still alive when its process exits. *)
Theorem C13_exit_without_finalizers_leaks_refuted :
  let s := run {| adopt := true; exitfin := false |} [OCreate 0 1; OPickle 1 false 2; OUnpickle 2 1 3; ODrop 1; OExit 1] in
  nrefs 0 (refs s) = 0 /\ get_cnt s 0 = Some 1.
Proof. vm_compute. split; reflexivity. Qed.
Print Assumptions C13_exit_without_finalizers_leaks_refuted.

(* Known finding C13-PKL on the current tree: __reduce__ adds the reference for the transit as a side effect; when the
   message that contains the pickle then fails to be pickled as a whole, the pickle never leaves and will never be
   unpickled - the reference it holds (the only one left here) keeps the object hosted for ever. *)
Theorem C13_failed_pickle_leaks_refuted :
  let s := run now [OCreate 0 1; OPickle 1 false 2; ODrop 1] in
  get_cnt s 0 = Some 1 /\ map r_h (refs s) = [HTransit false].
Proof. vm_compute. split; reflexivity. Qed.
Print Assumptions C13_failed_pickle_leaks_refuted.

(* Non-vacuity: nesting, cascade, and the same two histories on the code as it is now. *)
Example C13_example_nesting :
  let s := run now [OCreate 0 1; OCreate 0 2; OStore 2 0 3; ODrop 2; OPickle 1 false 4; OUnpickle 4 1 5] in
  cnt s = [Some 2; Some 1] /\ errors s = 0
  /\ cnt (run now [OCreate 0 1; OCreate 0 2; OStore 2 0 3; ODrop 2; OPickle 1 false 4; OUnpickle 4 1 5; ODrop 1; OExit 1]) = [None; None].
Proof. vm_compute. repeat split; reflexivity. Qed.

Example C13_example_repaired :
  cnt (run now [OCreate 0 1; OPickle 1 true 2; OUnpickle 2 1 3; ODrop 3; ODrop 1]) = [None]
  /\ cnt (run now [OCreate 0 1; OPickle 1 false 2; OUnpickle 2 1 3; ODrop 1; OExit 1]) = [None]
  /\ cnt (run now [OCreate 0 1; OCreate 0 2; OStore 1 1 3; ORemove 3 0 true 4; ODrop 1; ODrop 2]) = [Some 1; None].
Proof. vm_compute. repeat split; reflexivity. Qed.
