(* C02 — Server answers every request with its own result (no cross-talk). Statements only. *)
From MpV Require Import Lib.Conc.
From MpV Require Model.Server Proof.ServerProof Model.Ensemble Proof.EnsembleProof.
From Coq Require Import List ZArith.
Import ListNotations.

(* Server layer (callers, ledger, gather, notifier) over an abstract servlet that answers pending
   requests in any order, with request ids unique while in flight: for every number of concurrent
   callers, capacity, servlet function and interleaving (including timeouts and cancellations of
   other requests), a request that is answered receives the servlet's result for its own input. *)
Theorem C02_server_answers_own_result :
  forall (g : Server.cfg) (sched : list Server.label) (i : nat) (r : Server.res),
  nth_error (Server.kp (run Server.step g (Server.init g) sched)) i = Some (Server.KDone (Server.Answered r)) ->
  r = ServerProof.result_of g i.
Proof. exact ServerProof.answers_are_own_results. Qed.
Print Assumptions C02_server_answers_own_result.

(* Ensemble (enqueue / dequeue threads and the catalog keyed by request id) over members that answer
   in any order: if the ids of the requests are distinct - which the server's counter guarantees since
   the repair recorded in known_findings.json - then for every number of members, fail_fast setting,
   member functions and interleaving, every emitted result for id u is built only from the members'
   results for u's own input. *)
Theorem C02_ensemble_no_cross_talk :
  forall (g : Ensemble.cfg), NoDup (map fst (Ensemble.reqs g)) ->
  forall (sched : list Ensemble.label),
  Forall (fun p => EnsembleProof.eres_ok g (fst p) (snd p))
         (Ensemble.qout (run Ensemble.step g (Ensemble.init g) sched)).
Proof. exact EnsembleProof.no_cross_talk. Qed.
Print Assumptions C02_ensemble_no_cross_talk.

(* The hypothesis is necessary: when an id is handed out again after its request was answered (what
   id(future) allowed on the pinned tree), a slow member's late result for the old request is filed
   under the new one. Request 2 (input 2) is answered [20; 11] - 11 is member 1's result for input 1. *)
Theorem C02_cross_talk_when_ids_are_reused :
  exists (g : Ensemble.cfg) (sched : list Ensemble.label),
    Ensemble.qout (run Ensemble.step g (Ensemble.init g) sched)
    = [(1%nat, Ensemble.EError); (1%nat, Ensemble.EList [Ensemble.Ok 20%Z; Ensemble.Ok 11%Z])].
Proof.
  exists {| Ensemble.nmem := 2; Ensemble.fail_fast := true; Ensemble.reqs := [(1%nat, 1%Z); (1%nat, 2%Z)];
            Ensemble.mfun := fun j x => if (Nat.eqb j 0 && Z.eqb x 1)%bool then Ensemble.Err 50%Z
                                        else Ensemble.Ok (x * 10 + Z.of_nat j)%Z |}.
  exists [Ensemble.Env; Ensemble.E; Ensemble.E; Ensemble.E; Ensemble.Mt 0; Ensemble.Mp 0; Ensemble.E;
          Ensemble.Mt 1; Ensemble.D false; Ensemble.D false; Ensemble.D false; Ensemble.D false; Ensemble.D false;
          Ensemble.Env; Ensemble.E; Ensemble.E; Ensemble.E; Ensemble.Mp 1; Ensemble.Mt 0; Ensemble.Mp 0;
          Ensemble.D false; Ensemble.D false; Ensemble.D false; Ensemble.D false; Ensemble.D false; Ensemble.D false;
          Ensemble.D false; Ensemble.D false; Ensemble.D false; Ensemble.D false; Ensemble.D false; Ensemble.D false].
  vm_compute. reflexivity.
Qed.
Print Assumptions C02_cross_talk_when_ids_are_reused.
