(* C16 — async variants give the same answers as their sync counterparts. Statements only.
   Both fifo_stream (threads) and async_fifo_stream (cooperative tasks) are executions of the
   FifoStream machine: a cooperative execution is one particular family of schedules, and the
   theorems below hold for ALL schedules, hence for every completion order in either flavour.
   (The async code is tied to the model by differential outputs against [seq_run] under many
   completion orders, see harness/props/c16.py.) *)
From MpV Require Import Lib.Conc Model.FifoStream Proof.FifoProof Proof.FifoComplete Proof.SeqRun.

(* any two executions deliver the same outputs as far as both have got *)
Theorem C16_runs_agree_on_common_prefix : forall (g : cfg) (sched1 sched2 : list label),
  let s1 := run step g (init g) sched1 in
  let s2 := run step g (init g) sched2 in
  firstn (Nat.min (length (received s1)) (length (received s2))) (received s1) =
  firstn (Nat.min (length (received s1)) (length (received s2))) (received s2).
Proof. exact runs_agree. Qed.
Print Assumptions C16_runs_agree_on_common_prefix.

(* two executions that both complete deliver exactly the same outputs: values, exception objects,
   order and pairing with inputs *)
Theorem C16_completed_runs_equal : forall (g : cfg) (sched1 sched2 : list label),
  cp (run step g (init g) sched1) = CDone Completed ->
  cp (run step g (init g) sched2) = CDone Completed ->
  received (run step g (init g) sched1) = received (run step g (init g) sched2).
Proof. exact completed_runs_equal. Qed.
Print Assumptions C16_completed_runs_equal.

(* an element rejected by the preprocessor yields that element's own exception *)
Theorem C16_rejected_element_own_exception : forall (g : cfg) (sched : list label) i r p e,
  In (i, r) (received (run step g (init g) sched)) ->
  pre g = Some p -> p (val g i) = PreErr e -> r = Err e.
Proof.
  intros g sched i r p e Hin Hp He.
  rewrite (fifo_prefix g sched) in Hin. unfold expected_prefix in Hin.
  apply in_map_iff in Hin. destruct Hin as [j [Hj _]]. inversion Hj; subst.
  unfold outcome_of, pre_of. rewrite Hp, He. reflexivity.
Qed.
Print Assumptions C16_rejected_element_own_exception.

(* the sequential reference used by the correspondence check delivers a prefix of the same list *)
Theorem C16_reference_is_in_order : forall g,
  fst (seq_run g) = expected_prefix g (length (fst (seq_run g))).
Proof. exact seq_run_prefix. Qed.
Print Assumptions C16_reference_is_in_order.
