(* C19 — EagerBatcher partitions its input and waits no longer than told.
   Only statements here; proofs are in Proof/EagerBatcherProof.v. *)
From MpV Require Import Model.EagerBatcher Proof.EagerBatcherProof Proof.EagerBatcherTime.
From Coq Require Import Sorted.

(* For every batch size >= 1, wait >= 0 and every arrival sequence (any times, any length):
   the concatenation of the emitted batches is exactly the items before the end marker. *)
Theorem C19_eb_partition : forall g arr,
  cfg_ok g -> concat (map items (snd (run g arr))) = before_end arr.
Proof. exact run_partition. Qed.
Print Assumptions C19_eb_partition.

(* Every emitted batch has 1..batch_size items; a batch shorter than batch_size was emitted
   only because the end marker arrived, or because the queue head (if any) arrived later than
   wait after the batch's first item; emission happens at the justifying event: the clock
   of the last consumed message (full batch / end marker) or exactly first_t + wait. *)
Theorem C19_eb_batches_justified_and_prompt : forall g arr,
  cfg_ok g -> Forall (good_batch g) (snd (run g arr)).
Proof. exact run_batches_good. Qed.
Print Assumptions C19_eb_batches_justified_and_prompt.

(* The generator returns iff an end marker is among the arrivals (otherwise it is blocked in
   the untimed get, having already emitted every batch — see C19_eb_partition). *)
Theorem C19_eb_finishes_iff_end : forall g arr,
  cfg_ok g -> (fst (run g arr) = Finished <-> has_end arr = true).
Proof. exact run_status. Qed.
Print Assumptions C19_eb_finishes_iff_end.

(* "Waits no longer than told", as an upper bound for every batch whatever made it go out: a
   batch is yielded at most [wait] after its first item left the queue - also when it is
   full or cut short by the end marker.  [first_t] is compared with the implementation by the
   correspondence check (the clock at which the virtual queue handed out the batch's first
   item), like [items] and [etime]. *)
Theorem C19_eb_waits_no_longer_than_told : forall g arr,
  cfg_ok g ->
  Forall (fun b => first_t b <= etime b <= first_t b + wait g) (snd (run g arr)).
Proof. exact run_wait_bound. Qed.
Print Assumptions C19_eb_waits_no_longer_than_told.

(* The yields happen in clock order, and the first item of each batch is taken from the queue
   at or after the previous yield (no item is fetched ahead of the batch before it). *)
Theorem C19_eb_yields_in_clock_order : forall g arr,
  cfg_ok g ->
  Sorted Z.le (map etime (snd (run g arr))) /\ starts_after 0 (snd (run g arr)).
Proof. exact run_yields_in_clock_order. Qed.
Print Assumptions C19_eb_yields_in_clock_order.

(* Non-vacuity: a concrete run exercising full, timed-out and end-flushed batches. *)
Example C19_example :
  let g := {| bsize := 3; wait := 5 |} in
  let arr := [ {| atime := 1; amsg := Some 10 |}; {| atime := 2; amsg := Some 11 |};
               {| atime := 2; amsg := Some 12 |}; {| atime := 4; amsg := Some 13 |};
               {| atime := 20; amsg := Some 14 |}; {| atime := 21; amsg := None |} ] in
  cfg_ok g /\
  map (fun b => (items b, etime b, why b)) (snd (run g arr)) =
    [ ([10; 11; 12], 2, Full); ([13], 9, TimedOut); ([14], 21, GotEnd) ].
Proof. split; [unfold cfg_ok; cbn; lia | vm_compute; reflexivity]. Qed.
