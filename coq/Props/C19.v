(* C19 — EagerBatcher partitions its input and waits no longer than told.
   Only statements here; proofs are in Proof/EagerBatcherProof.v. *)
From MpV Require Import Model.EagerBatcher Proof.EagerBatcherProof.

(* For every batch size >= 1, wait >= 0 and every arrival sequence (any times, any length):
   the concatenation of the emitted batches is exactly the items before the end marker. *)
Theorem C19_eb_partition : forall g arr,
  cfg_ok g -> concat (map items (snd (run g arr))) = before_end arr.
Proof. exact run_partition. Qed.
Print Assumptions C19_eb_partition.

(* Every emitted batch has 1..batch_size items; a batch shorter than batch_size was emitted
   only because the end marker arrived, or because the queue head (if any) arrived later than
   wait after the batch's first item; emission happens at the justifying event: the clock
   of the last consumed message (full batch / end marker) or exactly first_t + wait. *)
Theorem C19_eb_batches_justified_and_prompt : forall g arr,
  cfg_ok g -> Forall (good_batch g) (snd (run g arr)).
Proof. exact run_batches_good. Qed.
Print Assumptions C19_eb_batches_justified_and_prompt.

(* The generator returns iff an end marker is among the arrivals (otherwise it is blocked in
   the untimed get, having already emitted every batch — see C19_eb_partition). *)
Theorem C19_eb_finishes_iff_end : forall g arr,
  cfg_ok g -> (fst (run g arr) = Finished <-> has_end arr = true).
Proof. exact run_status. Qed.
Print Assumptions C19_eb_finishes_iff_end.

(* Non-vacuity: a concrete run exercising full, timed-out and end-flushed batches. *)
Example C19_example :
  let g := {| bsize := 3; wait := 5 |} in
  let arr := [ {| atime := 1; amsg := Some 10 |}; {| atime := 2; amsg := Some 11 |};
               {| atime := 2; amsg := Some 12 |}; {| atime := 4; amsg := Some 13 |};
               {| atime := 20; amsg := Some 14 |}; {| atime := 21; amsg := None |} ] in
  cfg_ok g /\
  map (fun b => (items b, etime b, why b)) (snd (run g arr)) =
    [ ([10; 11; 12], 2, Full); ([13], 9, TimedOut); ([14], 21, GotEnd) ].
Proof. split; [unfold cfg_ok; cbn; lia | vm_compute; reflexivity]. Qed.
