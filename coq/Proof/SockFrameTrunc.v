(* C18, second part: a record that has not arrived completely is never delivered as a record.
   For every strict prefix of an encoded record (the connection closed, or the bytes so far),
   read_record yields nothing (asyncio.IncompleteReadError in the code) - never a shorter or
   different record. *)
From MpV Require Import Model.SockFrame Proof.SockFrameProof.
From Coq Require Import Lia.

Lemma read_until_nl_none a :
  forallb (fun b => negb (b =? NL)) a = true -> read_until_nl a = None.
Proof.
  induction a as [|b a IH]; cbn; intros H; [reflexivity|].
  apply andb_true_iff in H. destruct H as [H1 H2]. apply negb_true_iff in H1. rewrite H1.
  now rewrite IH.
Qed.

Lemma forallb_firstn {A} (f : A -> bool) k l : forallb f l = true -> forallb f (firstn k l) = true.
Proof.
  revert k; induction l as [|x l IH]; intros k H; destruct k; cbn in *; try reflexivity.
  apply andb_true_iff in H. destruct H as [H1 H2]. rewrite H1. now apply IH.
Qed.

Lemma read_exactly_short n s : length s < n -> read_exactly n s = None.
Proof.
  intros H. unfold read_exactly. destruct (n <=? length s) eqn:E; [|reflexivity].
  apply Nat.leb_le in E. lia.
Qed.

Lemma truncated_record_not_delivered id enc payload k :
  wf_token id = true -> wf_token enc = true ->
  k < length (encode_record id enc payload) ->
  read_record (firstn k (encode_record id enc payload)) = None.
Proof.
  intros Hi He Hk. unfold read_record, encode_record, header in *.
  pose proof (render_wf (length payload)) as Hn.
  set (line := id ++ [SP] ++ render_nat (length payload) ++ [SP] ++ enc) in *.
  assert (Hline : forallb (fun b => negb (b =? NL)) line = true).
  { unfold wf_token in *. apply andb_true_iff in Hi, He, Hn.
    destruct Hi as [_ Hi], He as [_ He], Hn as [_ Hn].
    apply line_no_nl; assumption. }
  assert (Heq : (id ++ [SP] ++ render_nat (length payload) ++ [SP] ++ enc ++ [NL]) ++ payload
                = line ++ NL :: payload).
  { unfold line. rewrite <- !app_assoc. reflexivity. }
  rewrite Heq in *. clear Heq.
  rewrite app_length in Hk. cbn [length] in Hk.
  rewrite firstn_app.
  destruct (Nat.le_gt_cases k (length line)) as [Hle|Hgt].
  - (* the newline has not arrived *)
    replace (k - length line) with 0 by lia. cbn [firstn]. rewrite app_nil_r.
    rewrite read_until_nl_none; [reflexivity|]. now apply forallb_firstn.
  - (* the header is complete, the payload is not *)
    rewrite firstn_all2 by lia.
    destruct (k - length line) as [|k'] eqn:Ek; [lia|]. cbn [firstn].
    rewrite read_until_nl_app by exact Hline.
    rewrite removelast_snoc. unfold line. rewrite split_header by assumption.
    rewrite parse_render. rewrite read_exactly_short; [reflexivity|].
    rewrite firstn_length. lia.
Qed.
