(* C07 / C06 / C02, liveness as absence of wedged states: in the Server model a state in which no thread can move is the
   state in which everything has finished - every caller has its outcome, the workers, the gather thread and the notifier
   have ended and the `with server` block has been left. *)
From MpV Require Import Lib.Tac Lib.Conc Model.Server Proof.ServerProof.
From MpV Require Proof.ServerLedger.
Open Scope nat_scope.

Local Arguments T_K : simpl never.
Local Arguments T_B : simpl never.

Lemma nth_error_set_nth_same {A} n (x : A) l y : nth_error l n = Some y -> nth_error (set_nth n x l) n = Some x.
Proof. revert n; induction l as [|h t IH]; intros [|n] H; cbn in *; try discriminate; auto. Qed.
Lemma set_nth_length {A} n (x : A) l : length (set_nth n x l) = length l.
Proof. revert n; induction l as [|h t IH]; intros [|n]; cbn; auto. Qed.

(* ---- tokens of the shutdown sequence ---- *)
Definition gfin (p : gpc) : bool := match p with GFinalPut _ | GJoin _ | GDone _ => true | _ => false end.
Definition gjd (p : gpc) : bool := match p with GJoin _ | GDone _ => true | _ => false end.

Definition Tok (s : state) : Prop :=
  (mp s <> MRun -> In Stop (q_in s) \/ exists j, nth_error (bp s) j = Some BRePut)
  /\ (mp s = MJoinG \/ mp s = MDone -> In OStop (q_out s) \/ gfin (gp s) = true)
  /\ (gjd (gp s) = true -> In false (q_notify s) \/ np s = NDone).

Lemma tok_init g : Tok (init g).
Proof. unfold Tok, init; cbn. repeat split; try (intros [H|H]; discriminate); try discriminate. congruence. Qed.

Lemma in_snoc {A} (x y : A) l : In x l -> In x (l ++ [y]).
Proof. intros H. apply in_or_app. left; exact H. Qed.
Lemma in_snoc_self {A} (x : A) l : In x (l ++ [x]).
Proof. apply in_or_app. right; left; reflexivity. Qed.

Ltac use_eq :=
  repeat match goal with
         | E : gp ?s = _ |- _ => rewrite E in *; clear E
         | E : np ?s = _ |- _ => rewrite E in *; clear E
         | E : mp ?s = _ |- _ => rewrite E in *; clear E
         end.

Lemma in_tail {A} (x h : A) l : In x (h :: l) -> x <> h -> In x l.
Proof. intros [H|H] Hne; [congruence|exact H]. Qed.

Lemma reput_other (b : list bpc) j j0 v old :
  nth_error b j = Some old -> old <> BRePut -> nth_error b j0 = Some BRePut -> nth_error (set_nth j v b) j0 = Some BRePut.
Proof.
  intros Hj Ho Hj0. destruct (Nat.eq_dec j j0) as [->|Hne]; [congruence|]. rewrite nth_error_set_nth_neq by assumption. exact Hj0.
Qed.

Ltac tok_close :=
  intros; use_eq; cbn in *;
  intuition (try discriminate; try congruence; eauto using in_snoc, in_snoc_self).

Lemma tok_step g s l s' e : Tok s -> step g s l = Some (s', e) -> Tok s'.
Proof.
  intros (H1 & H2 & H3) Hs. destruct l as [i ex| | |j|]; cbn in Hs.
  - unfold step_k in Hs. break_match_hyp Hs; inv Hs;
      unfold Tok, set_kp, set_lock, set_waiters, set_ledger, set_qin, set_futs; cbn;
      (split; [|split]); try exact H1; try exact H2; try exact H3.
    tok_close.
  - unfold step_g in Hs. break_match_hyp Hs; inv Hs;
      unfold Tok, set_gp, set_qout, set_ledger, set_futs, set_qn, add_dropped; cbn in *;
      (split; [|split]); try exact H1; try exact H2; try exact H3; try (intros; discriminate); tok_close.
  - unfold step_n in Hs. break_match_hyp Hs; inv Hs;
      unfold Tok, set_np, set_qn, set_lock, set_kp, set_waiters; cbn in *;
      (split; [|split]); try exact H1; try exact H2; try exact H3; tok_close.
  - unfold step_b in Hs. break_match_hyp Hs; inv Hs;
      unfold Tok, set_bp, set_qin, set_qout; cbn in *;
      (split; [|split]); try exact H1; try exact H2; try exact H3; tok_close.
    all: try (right; eexists; eapply nth_error_set_nth_same; eassumption).
    all: try match goal with Hx : exists _, _ |- _ => destruct Hx as [j0 Hj0]; right; exists j0; eapply reput_other; eauto; discriminate end.
  - unfold step_m in Hs. break_match_hyp Hs; inv Hs;
      unfold Tok, set_mp, set_qin, set_qout; cbn in *;
      (split; [|split]); try exact H1; try exact H2; try exact H3; tok_close.
Qed.

(* ---- validity of indices and request ids; a cancelled future belongs to a caller that has timed out ---- *)
Definition g_uid (p : gpc) : option nat := match p with GPop u _ | GChk u _ | GSet u _ => Some u | _ => None end.

Definition Val (g : cfg) (s : state) : Prop :=
  length (kp s) = length (callers g) /\ length (futs s) = length (callers g)
  /\ (forall u, In (Req u) (q_in s) -> u < length (callers g))
  /\ (forall j u, nth_error (bp s) j = Some (BHold u) -> u < length (callers g))
  /\ (forall u y, In (Ans u y) (q_out s) -> u < length (callers g))
  /\ (forall u, g_uid (gp s) = Some u -> u < length (callers g))
  /\ (forall i, nth_error (futs s) i = Some FCancelled -> nth_error (kp s) i = Some (KDone TimedOut)).

Lemma val_init g : Val g (init g).
Proof.
  unfold Val, init; cbn. rewrite !repeat_length. repeat split; try (intros; contradiction); try discriminate.
  - intros j u H. apply nth_error_In, repeat_spec in H. discriminate.
  - intros i H. apply nth_error_In, repeat_spec in H. discriminate.
Qed.

Ltac canc_close C1 Ei :=
  let i0 := fresh "i0" in let Hc := fresh "Hc" in
  intros i0 Hc;
  match goal with |- nth_error (set_nth ?i _ _) _ = _ =>
    destruct (Nat.eq_dec i i0) as [<-|Hne];
    [ rewrite (nth_error_set_nth_same _ _ _ _ Ei); first [reflexivity | (exfalso; specialize (C1 _ Hc); congruence)]
    | rewrite nth_error_set_nth_neq by assumption; apply C1;
      first [exact Hc | (rewrite nth_error_set_nth_neq in Hc by assumption; exact Hc)] ]
  end.

Lemma val_step g s l s' e :
  (forall w, In w (waiters s) -> nth_error (kp s) w = Some KWaiting) ->
  Val g s -> step g s l = Some (s', e) -> Val g s'.
Proof.
  intros HW (L1 & L2 & U1 & U2 & U3 & U4 & C1) Hs. destruct l as [i ex| | |j|]; cbn in Hs.
  - unfold step_k in Hs.
    destruct (nth_error (kp s) i) as [pc|] eqn:Ei; [|discriminate].
    destruct (nth_error (callers g) i) as [kc|] eqn:Ec; [|discriminate].
    assert (Hi : i < length (callers g)) by (apply nth_error_Some; congruence).
    destruct pc, ex; try discriminate Hs; break_match_hyp Hs; inv Hs;
      unfold Val, set_kp, set_lock, set_waiters, set_ledger, set_qin, set_futs; cbn;
      rewrite ?set_nth_length; (repeat split); try assumption.
    all: try (canc_close C1 Ei; fail).
    all: try (intros u Hu; apply in_app_or in Hu as [Hu|[Hu|[]]]; [eauto|injection Hu as <-; exact Hi]).
  - unfold step_g in Hs. break_match_hyp Hs; inv Hs;
      unfold Val, set_gp, set_qout, set_ledger, set_futs, set_qn, add_dropped; cbn in *;
      rewrite ?set_nth_length; (repeat split); try assumption; try (intros; discriminate).
    all: try (intros u1 y1 Hin; apply (U3 u1 y1); right; exact Hin).
    all: try (intros u1 Hu; injection Hu as <-; match goal with E : q_out _ = Ans ?uu ?yy :: _ |- _ => apply (U3 uu yy) end; left; reflexivity).
    all: try (intros i0 Hc;
              match type of Hc with nth_error (set_nth ?u0 _ (futs ?ss)) _ = _ =>
                destruct (Nat.eq_dec u0 i0) as [<-|Hne];
                [ match goal with E : nth_error (futs ss) u0 = Some _ |- _ => rewrite (nth_error_set_nth_same _ _ _ _ E) in Hc; discriminate Hc end
                | rewrite nth_error_set_nth_neq in Hc by assumption; apply C1; exact Hc ]
              end).
  - unfold step_n in Hs. break_match_hyp Hs; inv Hs;
      unfold Val, set_np, set_qn, set_lock, set_kp, set_waiters; cbn in *;
      rewrite ?set_nth_length; (repeat split); try assumption.
    intros i0 Hc. assert (Hw : nth_error (kp s) n = Some KWaiting) by (apply HW; left; reflexivity).
    destruct (Nat.eq_dec n i0) as [<-|Hne]; [specialize (C1 _ Hc); congruence|].
    rewrite nth_error_set_nth_neq by assumption. apply C1; exact Hc.
  - unfold step_b in Hs. break_match_hyp Hs; inv Hs;
      unfold Val, set_bp, set_qin, set_qout; cbn in *;
      rewrite ?set_nth_length; (repeat split); try assumption.
    all: try (intros u1 Hin; apply (U1 u1); right; exact Hin).
    all: try (intros u1 Hu; apply in_app_or in Hu as [Hu|[Hu|[]]]; [eauto|discriminate Hu]).
    all: try (intros u1 y1 Hu; apply in_app_or in Hu as [Hu|[Hu|[]]]; [eauto|injection Hu as <- _; eapply U2; eassumption]).
    all: try (intros j0 u1 Hj0;
              match type of Hj0 with nth_error (set_nth ?jj _ (bp ?ss)) _ = _ =>
                destruct (Nat.eq_dec jj j0) as [<-|Hne];
                [ match goal with E : nth_error (bp ss) jj = Some _ |- _ => rewrite (nth_error_set_nth_same _ _ _ _ E) in Hj0 end;
                  first [discriminate Hj0 | (injection Hj0 as <-; apply (U1 u1); left; reflexivity)]
                | rewrite nth_error_set_nth_neq in Hj0 by assumption; eapply U2; exact Hj0 ]
              end).
    intros j0 u1 Hj0. destruct (Nat.eq_dec j j0) as [<-|Hne].
    + match goal with E : nth_error (bp s) j = Some _ |- _ => rewrite (nth_error_set_nth_same _ _ _ _ E) in Hj0 end.
      injection Hj0 as Hj0. subst u1. apply (U1 u). left. reflexivity.
    + rewrite nth_error_set_nth_neq in Hj0 by assumption. eapply U2; exact Hj0.
  - unfold step_m in Hs. break_match_hyp Hs; inv Hs;
      unfold Val, set_mp, set_qin, set_qout; cbn in *;
      rewrite ?set_nth_length; (repeat split); try assumption.
    all: try (intros u1 Hu; apply in_app_or in Hu as [Hu|[Hu|[]]]; [eauto|discriminate Hu]).
    all: try (intros u1 y1 Hu; apply in_app_or in Hu as [Hu|[Hu|[]]]; [eauto|discriminate Hu]).
    all: try (match goal with E : gp _ = _ |- _ => rewrite E end; assumption).
Qed.

(* ---- whoever holds the condition's lock is a thread that can move ---- *)
Definition LockC (s : state) : Prop :=
  forall t, lock s = Some t ->
    (exists i pc, nth_error (kp s) i = Some pc /\ held pc = true /\ t = T_K i)
    \/ (t = T_N /\ (np s = NNotify \/ np s = NUnlock)).

Lemma lockc_init g : LockC (init g).
Proof. intros t H. discriminate. Qed.

Lemma lockc_step g s l s' e : InvB g s -> LockC s -> step g s l = Some (s', e) -> LockC s'.
Proof.
  intros (HP & _ & _ & _ & HN) HC Hs. destruct l as [i ex| | |j|]; cbn in Hs.
  - unfold step_k in Hs.
    destruct (nth_error (kp s) i) as [pc|] eqn:Ei; [|discriminate].
    destruct (nth_error (callers g) i) as [kc|] eqn:Ec; [|discriminate].
    pose proof (HP i pc Ei) as Hme.
    destruct pc, ex; try discriminate Hs; cbn in Hme; try (specialize (Hme eq_refl));
      break_match_hyp Hs; inv Hs; unfold LockC, set_kp, set_lock, set_waiters, set_ledger, set_qin, set_futs; cbn;
      intros t Ht; try discriminate Ht.
    all: first
      [ solve [left; exists i; eexists; split; [eapply nth_error_set_nth_same; exact Ei|split; [reflexivity|congruence]]]
      | solve [destruct (HC t Ht) as [(j & pcj & Hj & Hh & Hteq)|Hn];
               [left; exists j, pcj; split; [|auto];
                destruct (Nat.eq_dec i j) as [<-|Hne];
                [rewrite Ei in Hj; inv Hj; discriminate Hh | rewrite nth_error_set_nth_neq by assumption; exact Hj]
               |right; exact Hn]] ].
  - unfold step_g in Hs. break_match_hyp Hs; inv Hs;
      unfold LockC, set_gp, set_qout, set_ledger, set_futs, set_qn, add_dropped; cbn; exact HC.
  - unfold step_n in Hs. break_match_hyp Hs; inv Hs;
      unfold LockC, set_np, set_qn, set_lock, set_kp, set_waiters; cbn; intros t Ht; try discriminate Ht.
    all: first
      [ solve [right; split; [congruence|auto]]
      | solve [right; split; [match goal with E : np _ = NNotify |- _ => specialize (HN (or_introl E)) end; congruence|auto]]
      | solve [destruct (HC t Ht) as [Hl|[_ [Hn|Hn]]]; [left; exact Hl|congruence|congruence]]
      | solve [right; split; [specialize (HN (or_introl eq_refl)); congruence|auto]] ].
  - unfold step_b in Hs. break_match_hyp Hs; inv Hs; unfold LockC, set_bp, set_qin, set_qout; cbn; exact HC.
  - unfold step_m in Hs. break_match_hyp Hs; inv Hs; unfold LockC, set_mp, set_qin, set_qout; cbn; exact HC.
Qed.

(* ---- a state in which nothing can move ---- *)
Definition stuck (g : cfg) (s : state) : Prop :=
  (forall i ex, step_k g s i ex = None) /\ step_g g s = None /\ step_n g s = None
  /\ (forall j, step_b g s j = None) /\ step_m g s = None.

Definition finished (s : state) : Prop :=
  mp s = MDone /\ (exists d, gp s = GDone d) /\ np s = NDone
  /\ (forall j p, nth_error (bp s) j = Some p -> p = BDone)
  /\ (forall i pc, nth_error (kp s) i = Some pc -> exists o, pc = KDone o).

Lemma held_steps g s i pc kc :
  nth_error (kp s) i = Some pc -> nth_error (callers g) i = Some kc -> held pc = true -> step_k g s i false <> None.
Proof.
  intros Hi Hc Hh. unfold step_k. rewrite Hi, Hc. destruct pc; try discriminate Hh; try discriminate.
  destruct (capacity g <=? length (ledger s)); [destruct (backpressure kc)|]; discriminate.
Qed.

Lemma stuck_lock_free g s : InvB g s -> Val g s -> LockC s -> stuck g s -> lock s = None.
Proof.
  intros HB (L1 & _) HC (Hk & _ & Hn & _). destruct (lock s) as [t|] eqn:El; [exfalso|reflexivity].
  destruct (HC t El) as [(i & pc & Hi & Hh & _)|(_ & [Hp|Hp])].
  - assert (Hlt : i < length (callers g)) by (rewrite <- L1; apply nth_error_Some; congruence).
    destruct (nth_error (callers g) i) as [kc|] eqn:Ec; [|apply nth_error_None in Ec; lia].
    apply (held_steps g s i pc kc Hi Ec Hh). apply Hk.
  - unfold step_n in Hn. rewrite Hp in Hn. destruct (waiters s); discriminate.
  - unfold step_n in Hn. rewrite Hp in Hn. discriminate.
Qed.

Lemma stuck_callers_done g s :
  Val g s -> lock s = None -> stuck g s -> forall i pc, nth_error (kp s) i = Some pc -> exists o, pc = KDone o.
Proof.
  intros (L1 & L2 & _ & _ & _ & _ & C1) Hl (Hk & _) i pc Hi.
  assert (Hlt : i < length (callers g)) by (rewrite <- L1; apply nth_error_Some; congruence).
  destruct (nth_error (callers g) i) as [kc|] eqn:Ec; [|apply nth_error_None in Ec; lia].
  destruct (nth_error (futs s) i) as [f|] eqn:Ef; [|apply nth_error_None in Ef; lia].
  pose proof (Hk i false) as H0. pose proof (Hk i true) as H1. unfold step_k in H0, H1. rewrite Hi, Ec in H0, H1.
  destruct pc; try (eexists; reflexivity); exfalso; rewrite ?Hl, ?Ef in *; try discriminate.
  - destruct (capacity g <=? length (ledger s)); [destruct (backpressure kc)|]; discriminate.
  - destruct f; try discriminate. specialize (C1 _ Ef). congruence.
  - destruct f; discriminate.
Qed.

Lemma stuck_workers_done g s :
  Val g s -> Tok s -> stuck g s -> forall j p, nth_error (bp s) j = Some p -> p = BDone.
Proof.
  intros (_ & _ & _ & U2 & _) (T1 & _) (_ & _ & _ & Hb & Hm) j p Hj.
  assert (Hrun : mp s <> MRun) by (intros E; unfold step_m in Hm; rewrite E in Hm; discriminate).
  assert (Hno : forall j', nth_error (bp s) j' <> Some BRePut).
  { intros j' E. specialize (Hb j'). unfold step_b in Hb. rewrite E in Hb. discriminate. }
  destruct (T1 Hrun) as [Hq|[j' Hj']]; [|exfalso; eapply Hno; eauto].
  pose proof (Hb j) as H. unfold step_b in H. rewrite Hj in H.
  destruct p; try reflexivity; exfalso.
  - destruct (q_in s) as [|[u|] r]; [contradiction|discriminate|discriminate].
  - assert (Hu : u < length (callers g)) by (eapply U2; eauto).
    destruct (nth_error (callers g) u) eqn:Ec; [discriminate|apply nth_error_None in Ec; lia].
  - discriminate.
Qed.

Lemma all_done_of s : (forall j p, nth_error (bp s) j = Some p -> p = BDone) -> all_b_done s = true.
Proof.
  intros H. unfold all_b_done. apply forallb_forall. intros p Hp. apply In_nth_error in Hp as [j Hj].
  rewrite (H _ _ Hj). reflexivity.
Qed.

(* Nothing can move only when everything has finished. *)
Lemma stuck_is_finished g s :
  InvB g s -> Val g s -> LockC s -> Tok s -> stuck g s -> finished s.
Proof.
  intros HB HV HC HT Hst.
  pose proof (stuck_lock_free g s HB HV HC Hst) as Hl.
  pose proof (stuck_callers_done g s HV Hl Hst) as Hk.
  pose proof (stuck_workers_done g s HV HT Hst) as Hb.
  destruct HV as (_ & L2 & _ & _ & _ & U4 & _). destruct HT as (_ & T2 & T3).
  destruct Hst as (_ & Hg & Hn & _ & Hm).
  (* the notifier is idle or done *)
  assert (Hnp : (np s = NGet /\ q_notify s = []) \/ np s = NDone).
  { unfold step_n in Hn. destruct (np s); try discriminate Hn; auto.
    - destruct (q_notify s) as [|[|] r]; try discriminate Hn. left; auto.
    - rewrite Hl in Hn. discriminate.
    - destruct (waiters s); discriminate. }
  (* M is past the point where it waits for the workers *)
  assert (Hmp : mp s = MJoinG \/ mp s = MDone).
  { unfold step_m in Hm. destruct (mp s); try discriminate Hm; auto.
    rewrite (all_done_of s Hb) in Hm. discriminate. }
  (* the gather thread has finished *)
  assert (Hgp : exists d, gp s = GDone d).
  { unfold step_g in Hg. destruct (gp s) as [|u y|u y|u y| |d|d|d] eqn:Eg; try discriminate Hg.
    - destruct (T2 Hmp) as [Hq|Hq]; [|discriminate]. destruct (q_out s) as [|[u y|] r]; [contradiction|discriminate|discriminate].
    - destruct (mem_nat u (ledger s)); discriminate.
    - assert (Hu : u < length (futs s)) by (rewrite L2; apply U4; reflexivity).
      destruct (nth_error (futs s) u) as [[| |]|] eqn:Ef; try discriminate Hg. apply nth_error_None in Ef. lia.
    - assert (Hu : u < length (futs s)) by (rewrite L2; apply U4; reflexivity).
      destruct (nth_error (futs s) u) as [[| |]|] eqn:Ef; try discriminate Hg. apply nth_error_None in Ef. lia.
    - exfalso. destruct (T3 eq_refl) as [Hq|Hq].
      + destruct Hnp as [[Hn1 Hn2]|Hn1]; [rewrite Hn2 in Hq; contradiction|rewrite Hn1 in Hg; discriminate].
      + rewrite Hq in Hg. discriminate.
    - eauto. }
  destruct Hgp as [d Hgd].
  assert (Hnd : np s = NDone).
  { assert (Hj : gjd (gp s) = true) by (rewrite Hgd; reflexivity).
    destruct (T3 Hj) as [Hq|Hq]; [|exact Hq]. destruct Hnp as [[_ Hn2]|Hn1]; [rewrite Hn2 in Hq; contradiction|exact Hn1]. }
  repeat split; auto; [|eauto].
  destruct Hmp as [Hj|Hd]; [|exact Hd]. unfold step_m in Hm. rewrite Hj, Hgd in Hm. discriminate.
Qed.

Lemma live_run g sched :
  let s := run step g (init g) sched in InvB g s /\ Val g s /\ LockC s /\ Tok s.
Proof.
  intros s.
  assert (H : forall s0, (ServerLedger.InvL s0 /\ InvB g s0 /\ Val g s0 /\ LockC s0 /\ Tok s0) -> forall l s1 e, step g s0 l = Some (s1, e) ->
              ServerLedger.InvL s1 /\ InvB g s1 /\ Val g s1 /\ LockC s1 /\ Tok s1).
  { intros s0 (HL & HB & HV & HC & HT) l s1 e Hs. split; [|split; [|split; [|split]]].
    - eapply ServerLedger.invl_step; eauto.
    - eapply invb_step; eauto.
    - eapply val_step; eauto. destruct HL as (_ & Hw & _). exact Hw.
    - eapply lockc_step; eauto.
    - eapply tok_step; eauto. }
  assert (HI : ServerLedger.InvL s /\ InvB g s /\ Val g s /\ LockC s /\ Tok s).
  { apply (inv_run step g (fun s0 => ServerLedger.InvL s0 /\ InvB g s0 /\ Val g s0 /\ LockC s0 /\ Tok s0)).
    - intros s0 l s1 e Hi Hs. eapply H; eauto.
    - split; [apply ServerLedger.invl_init|split; [apply invb_init|split; [apply val_init|split; [apply lockc_init|apply tok_init]]]]. }
  tauto.
Qed.

(* For every capacity, set of callers, number of workers, servlet function and every interleaving - including every moment
   at which a timed wait may expire - a state in which no thread can take a step is the state in which every caller has its
   outcome, the workers, the gather thread and the notifier have ended, and the `with server` block has been left. *)
Theorem server_never_wedges g sched :
  stuck g (run step g (init g) sched) -> finished (run step g (init g) sched).
Proof. intros H. destruct (live_run g sched) as (HB & HV & HC & HT). eapply stuck_is_finished; eauto. Qed.
