From MpV Require Import Lib.Tac Lib.Conc Model.Ensemble.
Open Scope nat_scope.

(* ---- list helpers ------------------------------------------------------------------------ *)

Lemma nth_error_set_nth_eq {A} n (x : A) l y :
  nth_error (set_nth n x l) n = Some y -> y = x.
Proof.
  revert n; induction l as [|h t IH]; intros [|n]; cbn; intros H; try discriminate.
  - now inv H.
  - eauto.
Qed.

Lemma nth_error_set_nth_neq {A} n m (x : A) l :
  n <> m -> nth_error (set_nth n x l) m = nth_error l m.
Proof. revert n m; induction l as [|h t IH]; intros [|n] [|m] Hne; cbn; auto; try congruence. Qed.

Lemma nth_error_set_nth_cases {A} n m (x : A) l y :
  nth_error (set_nth n x l) m = Some y -> (m = n /\ y = x) \/ nth_error l m = Some y.
Proof.
  intros H. destruct (Nat.eq_dec n m) as [->|Hne].
  - left. split; [reflexivity|]. eapply nth_error_set_nth_eq; eauto.
  - right. now rewrite nth_error_set_nth_neq in H.
Qed.

(* ---- the invariant ------------------------------------------------------------------------ *)

Section WithCfg.
  Variable g : cfg.
  Hypothesis uids_distinct : NoDup (map fst (reqs g)).

  Definition msg_ok (p : nat * Z) : Prop := In p (reqs g).

  Definition out_ok (j : nat) (p : nat * res) : Prop :=
    exists x, In (fst p, x) (reqs g) /\ snd p = mfun g j x.

  Definition entry_ok (en : entry) : Prop :=
    exists x, In (e_uid en, x) (reqs g) /\
              forall k r, nth_error (e_slots en) k = Some (Some r) -> r = mfun g k x.

  (* an emitted result for uid u is built only from the members' results for u's own input
     (an unfilled slot shows up as the placeholder Err (-1)) *)
  Definition eres_ok (u : nat) (r : eres) : Prop :=
    exists x, In (u, x) (reqs g) /\
      match r with
      | EError => True
      | EList l => forall k v, nth_error l k = Some v -> v = mfun g k x \/ v = Err (-1)%Z
      end.

  Definition ep_ok (e : epc) : Prop :=
    match e with EGet => True | ECat u x | EPut u x _ => In (u, x) (reqs g) end.

  Definition dp_ok (d : dpc) : Prop :=
    match d with
    | DCat j u y => out_ok j (u, y)
    | DPop _ u r | DEmit _ u r => eres_ok u r
    | _ => True
    end.

  Definition Inv (s : state) : Prop :=
    Forall msg_ok (qin s)
    /\ ep_ok (ep s)
    /\ (forall j q, nth_error (qins s) j = Some q -> Forall msg_ok q)
    /\ (forall j p, nth_error (mhold s) j = Some (Some p) -> msg_ok p)
    /\ (forall j q, nth_error (qouts s) j = Some q -> Forall (out_ok j) q)
    /\ Forall entry_ok (catalog s)
    /\ dp_ok (dp s)
    /\ Forall (fun p => eres_ok (fst p) (snd p)) (qout s).

  Lemma same_input u x x' : In (u, x) (reqs g) -> In (u, x') (reqs g) -> x = x'.
  Proof.
    clear - uids_distinct. induction (reqs g) as [|[a b] l IH]; cbn in *; intros H1 H2; [contradiction|].
    inv uids_distinct. destruct H1 as [H1|H1], H2 as [H2|H2].
    - congruence.
    - inv H1. exfalso. apply H3. apply in_map_iff. exists (u, x'). auto.
    - inv H2. exfalso. apply H3. apply in_map_iff. exists (u, x). auto.
    - eauto.
  Qed.

  Lemma inv_init : Inv (init g).
  Proof.
    unfold Inv, init; cbn. repeat split; try constructor.
    - intros j q H. apply nth_error_In, repeat_spec in H. subst. constructor.
    - intros j p H. apply nth_error_In, repeat_spec in H. discriminate.
    - intros j q H. apply nth_error_In, repeat_spec in H. subst. constructor.
  Qed.

  Lemma cat_find_in u c en : cat_find u c = Some en -> In en c /\ e_uid en = u.
  Proof.
    induction c as [|e r IH]; cbn; [discriminate|].
    destruct (Nat.eqb (e_uid e) u) eqn:E; intros H.
    - inv H. apply Nat.eqb_eq in E. auto.
    - destruct (IH H). auto.
  Qed.

  Lemma forall_filter {A} (P : A -> Prop) f l : Forall P l -> Forall P (filter f l).
  Proof. induction 1; cbn; [constructor|]. destruct (f x); [constructor|]; assumption. Qed.

  Lemma to_list_nth slots k v :
    nth_error (to_list slots) k = Some v ->
    (exists r, nth_error slots k = Some (Some r) /\ v = r) \/ v = Err (-1)%Z.
  Proof.
    unfold to_list. rewrite nth_error_map. destruct (nth_error slots k) as [[r|]|]; cbn; intros H; inv H; eauto.
  Qed.

  Lemma inv_step s l s' e : Inv s -> step g s l = Some (s', e) -> Inv s'.
  Proof.
    intros (Hqin & Hep & Hqins & Hhold & Hqouts & Hcat & Hdp & Hqout) Hs.
    destruct l as [| |ex|j|j]; cbn in Hs.
    - (* Env *)
      unfold step_env in Hs. destruct (nth_error (reqs g) (env_next s)) as [[u x]|] eqn:En; [|discriminate].
      destruct (negb (id_free g s u)); [discriminate|]. inv Hs. unfold Inv, upd; cbn.
      repeat split; try assumption.
      apply Forall_app; split; [assumption|]. constructor; [|constructor].
      eapply nth_error_In; eauto.
    - (* E *)
      unfold step_e in Hs. destruct (ep s) as [|u x|u x j] eqn:Ee; cbn in Hep.
      + destruct (qin s) as [|[u x] r] eqn:Eq; [discriminate|]. inv Hs. unfold Inv, upd; cbn.
        inv Hqin. repeat split; assumption.
      + inv Hs. unfold Inv, upd; cbn. repeat split; try assumption.
        unfold cat_set. apply Forall_app; split; [apply forall_filter; assumption|].
        constructor; [|constructor]. exists x. cbn. split; [assumption|].
        intros k r Hk. apply nth_error_In, repeat_spec in Hk. discriminate.
      + destruct (nth_error (qins s) j) as [qj|] eqn:Eq; [|discriminate]. inv Hs. unfold Inv, upd; cbn.
        repeat split; try assumption.
        * destruct (S j <? nmem g); cbn; [assumption|exact I].
        * intros k q Hk. apply nth_error_set_nth_cases in Hk. destruct Hk as [[-> ->]|Hk]; [|eauto].
          apply Forall_app; split; [eauto|]. constructor; [assumption|constructor].
    - (* D *)
      unfold step_d in Hs. destruct (dp s) as [j ae|j|j u y|j u r|j u r] eqn:Ed; destruct ex; try discriminate Hs; cbn in Hdp.
      + destruct (nth_error (qouts s) j) as [[|p q]|] eqn:Eq; inv Hs; unfold Inv, set_dp, upd; cbn;
          repeat split; try assumption; try exact I.
        destruct (S j <? nmem g); exact I.
      + destruct (nth_error (qouts s) j) as [[|[u y] q]|] eqn:Eq; try discriminate. inv Hs. unfold Inv, upd; cbn.
        pose proof (Hqouts _ _ Eq) as Hq. inv Hq.
        repeat split; try assumption.
        intros k q' Hk. apply nth_error_set_nth_cases in Hk. destruct Hk as [[-> ->]|Hk]; [assumption|eauto].
      + destruct (cat_find u (catalog s)) as [en|] eqn:Ec.
        * destruct (cat_find_in _ _ _ Ec) as [Hin Hu]. inv Hs. unfold Inv, upd; cbn.
          rewrite Forall_forall in Hcat. pose proof (Hcat _ Hin) as (x & Hx & Hslots).
          destruct Hdp as (x' & Hx' & Hy). cbn in Hx', Hy.
          assert (x' = x) by (eapply same_input; eauto; rewrite <- Hu; exact Hx). subst x'.
          assert (Hnew : forall k r, nth_error (set_nth j (Some y) (e_slots en)) k = Some (Some r) -> r = mfun g k x).
          { intros k r Hk. apply nth_error_set_nth_cases in Hk. destruct Hk as [[-> Hk]|Hk]; [injection Hk as Hk; subst r; exact Hy|eauto]. }
          repeat split; try assumption.
          -- (* catalog *)
             apply Forall_forall. intros e' He'. apply in_map_iff in He'. destruct He' as (e0 & <- & He0).
             destruct (Nat.eqb (e_uid e0) (e_uid en)) eqn:E0.
             ++ exists x. cbn. split; [exact Hx|exact Hnew].
             ++ apply Hcat; assumption.
          -- (* next program point *)
             destruct (fail_fast g && is_err y); cbn.
             ++ exists x. split; [exact Hx|exact I].
             ++ destruct (Nat.eqb (S (e_n en)) (nmem g)); cbn; [|exact I].
                exists x. split; [exact Hx|].
                destruct (all_filled_err (set_nth j (Some y) (e_slots en))); [exact I|].
                intros k v Hk. apply to_list_nth in Hk. destruct Hk as [(r & Hr & Hv)|Hv]; subst v; [left; eauto|right; reflexivity].
        * inv Hs. unfold Inv, set_dp, upd; cbn. repeat split; try assumption; exact I.
      + inv Hs. unfold Inv, upd; cbn. repeat split; try assumption.
        unfold cat_remove. apply forall_filter. assumption.
      + inv Hs. unfold Inv, upd; cbn. repeat split; try assumption; try exact I.
        apply Forall_app; split; [assumption|]. constructor; [exact Hdp|constructor].
    - (* member takes a request *)
      unfold step_mt in Hs.
      destruct (nth_error (mhold s) j) as [[p|]|] eqn:Eh; try discriminate.
      destruct (nth_error (qins s) j) as [[|[u x] r]|] eqn:Eq; try discriminate. inv Hs. unfold Inv, upd; cbn.
      pose proof (Hqins _ _ Eq) as Hq. inv Hq.
      repeat split; try assumption.
      + intros k q Hk. apply nth_error_set_nth_cases in Hk. destruct Hk as [[-> ->]|Hk]; [assumption|eauto].
      + intros k p Hk. apply nth_error_set_nth_cases in Hk. destruct Hk as [[-> Hk]|Hk]; [inv Hk; assumption|eauto].
    - (* member answers *)
      unfold step_mp in Hs.
      destruct (nth_error (mhold s) j) as [[[u x]|]|] eqn:Eh; try discriminate.
      destruct (nth_error (qouts s) j) as [qo|] eqn:Eq; try discriminate. inv Hs. unfold Inv, upd; cbn.
      pose proof (Hhold _ _ Eh) as Hp.
      repeat split; try assumption.
      + intros k p Hk. apply nth_error_set_nth_cases in Hk. destruct Hk as [[-> Hk]|Hk]; [discriminate|eauto].
      + intros k q Hk. apply nth_error_set_nth_cases in Hk. destruct Hk as [[-> ->]|Hk]; [|eauto].
        apply Forall_app; split; [eauto|]. constructor; [|constructor]. exists x. cbn. auto.
  Qed.

  Lemma no_cross_talk sched :
    Forall (fun p => eres_ok (fst p) (snd p)) (qout (run step g (init g) sched)).
  Proof.
    assert (H : Inv (run step g (init g) sched)).
    { apply (inv_run step g Inv); [intros; eapply inv_step; eauto | apply inv_init]. }
    apply H.
  Qed.
End WithCfg.

(* ---- C04: an EnsembleError is emitted only under the documented rules --------------------- *)

Section ErrorRule.
  Variable g : cfg.
  Hypothesis uids_distinct : NoDup (map fst (reqs g)).

  (* why an EnsembleError for input x is legitimate *)
  Definition err_justified (x : Z) : Prop :=
    if fail_fast g then exists j, j < nmem g /\ is_err (mfun g j x) = true
    else forall k, k < nmem g -> is_err (mfun g k x) = true.

  Definition eres_just (u : nat) (r : eres) : Prop :=
    match r with
    | EError => exists x, In (u, x) (reqs g) /\ err_justified x
    | EList _ => True
    end.

  Definition dp_just (d : dpc) : Prop :=
    match d with
    | DCat j _ _ => j < nmem g
    | DGet j | DChk j _ => j <= nmem g
    | DPop j u r | DEmit j u r => j < nmem g /\ eres_just u r
    end.

  Definition InvE (s : state) : Prop :=
    Inv g s
    /\ Forall (fun en => length (e_slots en) = nmem g) (catalog s)
    /\ dp_just (dp s)
    /\ Forall (fun p => eres_just (fst p) (snd p)) (qout s)
    /\ length (qouts s) = nmem g.

  Lemma set_nth_length {A} n (x : A) l : length (set_nth n x l) = length l.
  Proof. revert n; induction l as [|h t IH]; intros [|n]; cbn; auto. Qed.

  Lemma all_filled_err_nth slots k :
    all_filled_err slots = true -> k < length slots -> exists e, nth_error slots k = Some (Some (Err e)).
  Proof.
    unfold all_filled_err. revert k; induction slots as [|o r IH]; intros k H Hk; cbn in *; [lia|].
    apply andb_true_iff in H. destruct H as [H1 H2]. destruct k as [|k]; cbn.
    - destruct o as [[v|e]|]; try discriminate. eauto.
    - apply IH; [assumption|lia].
  Qed.

  Lemma inve_init : InvE (init g).
  Proof.
    unfold InvE, init; cbn. repeat split; try constructor; try apply (inv_init g); try lia.
    now rewrite repeat_length.
  Qed.

  Lemma inve_step s l s' e : InvE s -> step g s l = Some (s', e) -> InvE s'.
  Proof.
    intros (HI & Hlen & Hdp & Hqo & Hnq) Hs.
    assert (HI' : Inv g s') by (eapply inv_step; eauto).
    split; [exact HI'|].
    destruct HI as (_ & _ & _ & _ & Hqouts & Hcat & HdpI & _).
    destruct l as [| |ex|j|j]; cbn in Hs.
    - unfold step_env in Hs. break_match_hyp Hs; inv Hs; unfold upd; cbn. repeat split; assumption.
    - unfold step_e in Hs. break_match_hyp Hs; inv Hs; unfold upd; cbn; repeat split; try assumption.
      unfold cat_set. apply Forall_app; split; [apply forall_filter; assumption|].
      constructor; [cbn; apply repeat_length|constructor].
    - unfold step_d in Hs. destruct (dp s) as [j ae|j|j u y|j u r|j u r] eqn:Ed; destruct ex; try discriminate Hs; cbn in Hdp.
      + assert (Hjr : nth_error (qouts s) j <> None -> j < nmem g)
          by (intros Hn; rewrite <- Hnq; apply nth_error_Some; exact Hn).
        destruct (nth_error (qouts s) j) as [[|p q]|] eqn:Eq; inv Hs; unfold set_dp, upd; cbn;
          (split; [assumption|split; [|split; assumption]]).
        * destruct (S j <? nmem g) eqn:E; bool_to_prop; cbn; lia.
        * assert (j < nmem g) by (apply Hjr; discriminate). lia.
      + assert (Hjr : nth_error (qouts s) j <> None -> j < nmem g)
          by (intros Hn; rewrite <- Hnq; apply nth_error_Some; exact Hn).
        destruct (nth_error (qouts s) j) as [[|[u y] q]|] eqn:Eq; try discriminate. inv Hs. unfold upd; cbn.
        split; [assumption|split; [|split; [assumption|now rewrite set_nth_length]]].
        apply Hjr; discriminate.
      + destruct (cat_find u (catalog s)) as [en|] eqn:Ec.
        * destruct (cat_find_in _ _ _ Ec) as [Hin Hu]. inv Hs. unfold upd; cbn.
          rewrite Forall_forall in Hcat, Hlen. pose proof (Hcat _ Hin) as (x & Hx & Hslots).
          pose proof (Hlen _ Hin) as Hl.
          destruct HdpI as (x' & Hx' & Hy). cbn in Hx', Hy.
          assert (x' = x) by (eapply (same_input g uids_distinct); eauto; rewrite <- Hu; exact Hx). subst x'.
          repeat split; try assumption.
          -- apply Forall_forall. intros e' He'. apply in_map_iff in He'. destruct He' as (e0 & <- & He0).
             destruct (Nat.eqb (e_uid e0) (e_uid en)); cbn; [rewrite set_nth_length; exact Hl|apply Hlen; assumption].
          -- destruct (fail_fast g && is_err y) eqn:Eff; cbn.
             ++ apply andb_true_iff in Eff. destruct Eff as [Eff Ey]. split; [exact Hdp|].
                exists x. split; [exact Hx|]. unfold err_justified. rewrite Eff. exists j. split; [exact Hdp|congruence].
             ++ destruct (Nat.eqb (S (e_n en)) (nmem g)) eqn:En; cbn; [|lia].
                split; [exact Hdp|].
                destruct (all_filled_err (set_nth j (Some y) (e_slots en))) eqn:Ea; [|exact I].
                exists x. split; [exact Hx|]. unfold err_justified.
                assert (Hall : forall k, k < nmem g -> is_err (mfun g k x) = true).
                { intros k Hk. destruct (all_filled_err_nth _ k Ea) as [e0 He0]; [rewrite set_nth_length; lia|].
                  apply nth_error_set_nth_cases in He0. destruct He0 as [[-> He0]|He0].
                  - injection He0 as He0. rewrite <- Hy, <- He0. reflexivity.
                  - rewrite <- (Hslots _ _ He0). reflexivity. }
                destruct (fail_fast g); [|exact Hall].
                exists j. split; [exact Hdp|apply Hall; exact Hdp].
        * inv Hs. unfold set_dp, upd; cbn. repeat split; try assumption. lia.
      + inv Hs. unfold upd; cbn. destruct Hdp as [Hj Hr]. repeat split; try assumption.
        unfold cat_remove. apply forall_filter. assumption.
      + inv Hs. unfold upd; cbn. destruct Hdp as [Hj Hr]. repeat split; try assumption; try lia.
        apply Forall_app; split; [assumption|]. constructor; [exact Hr|constructor].
    - unfold step_mt in Hs. break_match_hyp Hs; inv Hs; unfold upd; cbn. repeat split; assumption.
    - unfold step_mp in Hs. break_match_hyp Hs; inv Hs; unfold upd; cbn. repeat split; try assumption.
      now rewrite set_nth_length.
  Qed.
End ErrorRule.

Lemma ensemble_error_justified g (Hd : NoDup (map fst (reqs g))) sched :
  Forall (fun p => eres_just g (fst p) (snd p)) (qout (run step g (init g) sched)).
Proof.
  assert (H : InvE g (run step g (init g) sched)).
  { apply (inv_run step g (InvE g)); [intros; eapply inve_step; eauto | apply inve_init]. }
  apply H.
Qed.
