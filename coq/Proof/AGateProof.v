(* Model/AGate.v: the repaired admission gate of AsyncServer never leaves a caller waiting in front of free room without a
   wake-up under way; before the repair it does. *)
From MpV Require Import Lib.Conc Model.AGate.
From Coq Require Import Lia.

(* every free slot that somebody is waiting for has a wake-up under way: a notify() not yet run, or a notified waiter that has
   not yet run *)
Definition Inv (g : cfg) (s : state) : Prop := b s <= cap g /\ (0 < w s -> cap g - b s <= n s + p s).

Lemma init_inv g : Inv g init.
Proof. unfold Inv, init; simpl; lia. Qed.

Lemma notify_b s : b (notify s) = b s.
Proof. unfold notify; destruct (w s); reflexivity. Qed.
Lemma notify_p s : p (notify s) = p s.
Proof. unfold notify; destruct (w s); reflexivity. Qed.

Lemma notify_cases s :
  (w s = 0 /\ notify s = s) \/ (exists w', w s = S w' /\ w (notify s) = w' /\ n (notify s) = S (n s)).
Proof. unfold notify. destruct (w s) as [|w']; [left; auto | right; exists w'; auto]. Qed.

Ltac after_notify st :=
  rewrite notify_b, notify_p; cbn [b p];
  let H0 := fresh "H0" in let w'' := fresh "w''" in let H1 := fresh "H1" in let H2 := fresh "H2" in let H3 := fresh "H3" in
  destruct (notify_cases st) as [[H0 ->]|(w'' & H1 & H2 & H3)]; cbn [b p w n] in *; [lia | rewrite H2, H3; lia].

Lemma step_inv g s l s' e : pass_on g = true -> Inv g s -> step g s l = Some (s', e) -> Inv g s'.
Proof.
  intros Hp [Hb Hw] Hs. unfold Inv. destruct l; cbn [step] in Hs.
  - destruct (Nat.ltb_spec (b s) (cap g)); injection Hs as <- _; cbn [b p w n]; lia.
  - destruct (b s) as [|b'] eqn:Eb; [discriminate|]. injection Hs as <- _. cbn [b p w n]. lia.
  - destruct (p s) as [|p'] eqn:Ep; [discriminate|]. injection Hs as <- _.
    after_notify {| b := b s; p := p'; w := w s; n := n s; lv := lv s; served := served s; gone := gone s |}.
  - destruct (n s) as [|n'] eqn:En; [discriminate|].
    destruct (Nat.ltb_spec (b s) (cap g)); injection Hs as <- _; cbn [b p w n]; lia.
  - destruct (w s) as [|w'] eqn:Ew; [discriminate|]. injection Hs as <- _. cbn [b p w n]. lia.
  - destruct (lv s) as [|l'] eqn:El; [discriminate|]. rewrite Hp in Hs. injection Hs as <- _.
    after_notify {| b := b s; p := p s; w := w s; n := n s; lv := l'; served := served s; gone := S (gone s) |}.
  - destruct (n s) as [|n'] eqn:En; [discriminate|]. rewrite Hp in Hs. injection Hs as <- _.
    after_notify {| b := b s; p := p s; w := w s; n := n'; lv := lv s; served := served s; gone := S (gone s) |}.
  - injection Hs as <- _. after_notify s.
Qed.

Lemma run_inv g sched : pass_on g = true -> forall s, Inv g s -> Inv g (run step g s sched).
Proof.
  intros Hp. induction sched as [|l r IH]; intros s Hi; cbn [run]; [exact Hi|].
  destruct (step g s l) as [[s' e]|] eqn:Hs; [apply IH; eapply step_inv; eauto | apply IH; exact Hi].
Qed.

Theorem gate_never_starves g sched : pass_on g = true -> starving g (run step g init sched) = false.
Proof.
  intros Hp. destruct (run_inv g sched Hp init (init_inv g)) as [Hb Hw].
  unfold starving. destruct (Nat.ltb_spec 0 (w (run step g init sched))) as [Hw0|]; [|reflexivity].
  destruct (Nat.eqb_spec (n (run step g init sched)) 0) as [Hn|]; [|reflexivity].
  destruct (Nat.eqb_spec (p (run step g init sched)) 0) as [Hp0|]; [|reflexivity].
  destruct (Nat.ltb_spec (b (run step g init sched)) (cap g)); [|reflexivity].
  specialize (Hw Hw0). lia.
Qed.

(* before the repair: a notified waiter that is cancelled takes the wake-up with it *)
Theorem gate_starves_without_pass_on :
  exists sched, starving {| cap := 1; pass_on := false |} (run step {| cap := 1; pass_on := false |} init sched) = true.
Proof. exists [Arrive; Arrive; Arrive; Pop; Notify; CancelNotified]. vm_compute. reflexivity. Qed.

(* the bound does not depend on the repair *)
Definition InvB (g : cfg) (s : state) : Prop := b s <= cap g.
Lemma step_invb g s l s' e : InvB g s -> step g s l = Some (s', e) -> InvB g s'.
Proof.
  unfold InvB. intros Hb Hs. destruct l; cbn [step] in Hs.
  - destruct (Nat.ltb_spec (b s) (cap g)); injection Hs as <- _; cbn [b]; lia.
  - destruct (b s) as [|b'] eqn:Eb; [discriminate|]. injection Hs as <- _. cbn [b]. lia.
  - destruct (p s) as [|p'] eqn:Ep; [discriminate|]. injection Hs as <- _. rewrite notify_b. cbn [b]. lia.
  - destruct (n s) as [|n'] eqn:En; [discriminate|].
    destruct (Nat.ltb_spec (b s) (cap g)); injection Hs as <- _; cbn [b]; lia.
  - destruct (w s) as [|w'] eqn:Ew; [discriminate|]. injection Hs as <- _. cbn [b]. lia.
  - destruct (lv s) as [|l'] eqn:El; [discriminate|]. injection Hs as <- _.
    destruct (pass_on g); [rewrite notify_b|]; cbn [b]; lia.
  - destruct (n s) as [|n'] eqn:En; [discriminate|]. injection Hs as <- _.
    destruct (pass_on g); [rewrite notify_b|]; cbn [b]; lia.
  - injection Hs as <- _. rewrite notify_b. lia.
Qed.
Theorem gate_bounded g sched : b (run step g init sched) <= cap g.
Proof.
  assert (H : forall s, InvB g s -> InvB g (run step g s sched)).
  { induction sched as [|l r IH]; intros s Hi; cbn [run]; [exact Hi|].
    destruct (step g s l) as [[s' e]|] eqn:Hs; [apply IH; eapply step_invb; eauto | apply IH; exact Hi]. }
  apply H. unfold InvB, init; simpl; lia.
Qed.

(* nobody is lost: every caller that arrived has been served, has left, or is still waiting / notified *)
Definition arrived_so_far (s : state) : nat := served s + gone s + w s + n s + lv s.
Lemma notify_count s : arrived_so_far (notify s) = arrived_so_far s.
Proof. unfold notify, arrived_so_far. destruct (w s) as [|w'] eqn:E; cbn [served gone w n lv]; lia. Qed.
