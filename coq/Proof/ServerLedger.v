(* The ledger of the Server model holds exactly the requests in flight: every accepted request gives its slot back
   when its result emerges, no result is ever dropped for want of a ledger entry, and an idle server has backlog zero. *)
From MpV Require Import Lib.Tac Lib.Conc Model.Server Proof.ServerProof.
Open Scope nat_scope.

Definition is_req (u : nat) (m : qmsg) : bool := match m with Req v => Nat.eqb u v | Stop => false end.
Definition is_hold (u : nat) (p : bpc) : bool := match p with BHold v => Nat.eqb u v | _ => false end.
Definition is_ans (u : nat) (m : omsg) : bool := match m with Ans v _ => Nat.eqb u v | OStop => false end.

Definition cnt {A} (f : A -> bool) (l : list A) : nat := length (filter f l).
Definition c_kput (u : nat) (s : state) : nat := match nth_error (kp s) u with Some KPut => 1 | _ => 0 end.
Definition c_gpop (u : nat) (p : gpc) : nat := match p with GPop v _ => if Nat.eqb u v then 1 else 0 | _ => 0 end.

(* where a request can be between acceptance and the emergence of its result *)
Definition inflight (u : nat) (s : state) : nat :=
  c_kput u s + cnt (is_req u) (q_in s) + cnt (is_hold u) (bp s) + cnt (is_ans u) (q_out s) + c_gpop u (gp s).
Definition led (u : nat) (s : state) : nat := cnt (Nat.eqb u) (ledger s).

Definition passed (pc : kpc) : bool :=
  match pc with
  | KPut | KUnlock None | KWaitRes | KCancel | KDone (Answered _) | KDone TimedOut => true
  | _ => false
  end.

Definition InvL (s : state) : Prop :=
  (forall u, led u s = inflight u s /\ inflight u s <= 1 /\
             (forall pc, nth_error (kp s) u = Some pc -> passed pc = false -> inflight u s = 0) /\
             (nth_error (kp s) u = None -> inflight u s = 0))
  /\ (forall w, In w (waiters s) -> nth_error (kp s) w = Some KWaiting)
  /\ NoDup (waiters s)
  /\ dropped_results s = [].

Lemma cnt_app {A} (f : A -> bool) a b : cnt f (a ++ b) = cnt f a + cnt f b.
Proof. unfold cnt. now rewrite filter_app, app_length. Qed.
Lemma cnt_cons {A} (f : A -> bool) x l : cnt f (x :: l) = (if f x then 1 else 0) + cnt f l.
Proof. unfold cnt. cbn. destruct (f x); reflexivity. Qed.
Lemma cnt_nil {A} (f : A -> bool) : cnt f [] = 0.
Proof. reflexivity. Qed.

Lemma cnt_set_nth {A} (f : A -> bool) j v l old :
  nth_error l j = Some old ->
  cnt f (set_nth j v l) + (if f old then 1 else 0) = cnt f l + (if f v then 1 else 0).
Proof.
  revert j; induction l as [|h t IH]; intros [|j] H; cbn in H; try discriminate.
  - inv H. cbn [set_nth]. rewrite !cnt_cons. lia.
  - cbn [set_nth]. rewrite !cnt_cons. specialize (IH j H). lia.
Qed.

Lemma cnt_remove_nat u x l : cnt (Nat.eqb u) (remove_nat x l) = if Nat.eqb u x then 0 else cnt (Nat.eqb u) l.
Proof.
  unfold remove_nat. induction l as [|h t IH]; cbn [filter]; [destruct (Nat.eqb u x); reflexivity|].
  destruct (Nat.eqb x h) eqn:E; cbn [negb].
  - apply Nat.eqb_eq in E. subst h. rewrite cnt_cons, IH. destruct (Nat.eqb u x); reflexivity.
  - rewrite !cnt_cons, IH. destruct (Nat.eqb u x) eqn:E2; [|reflexivity].
    apply Nat.eqb_eq in E2. subst x. rewrite E. reflexivity.
Qed.

Lemma mem_nat_cnt u l : mem_nat u l = true <-> 0 < cnt (Nat.eqb u) l.
Proof.
  unfold mem_nat. induction l as [|h t IH]; cbn [existsb]; [cbn; split; [discriminate|lia]|].
  rewrite cnt_cons. destruct (Nat.eqb u h); cbn; [split; [lia|reflexivity]|]. rewrite IH. lia.
Qed.

Lemma repeat_nth {A} (x y : A) n i : nth_error (repeat x n) i = Some y -> y = x.
Proof. intros H. apply nth_error_In, repeat_spec in H. exact H. Qed.

Lemma cnt_repeat_false {A} (f : A -> bool) x n : f x = false -> cnt f (repeat x n) = 0.
Proof. intros H. induction n; cbn [repeat]; [reflexivity|]. rewrite cnt_cons, H, IHn. reflexivity. Qed.

Lemma invl_init g : InvL (init g).
Proof.
  unfold InvL, init, inflight, led, c_kput; cbn [kp q_in bp q_out gp ledger waiters dropped_results].
  repeat split; try (intros; cbn; contradiction); try constructor.
  - rewrite cnt_nil. rewrite cnt_repeat_false by reflexivity. rewrite !cnt_nil.
    destruct (nth_error (repeat KLock (length (callers g))) u) eqn:E; [apply repeat_nth in E; subst|]; cbn; reflexivity.
  - rewrite cnt_repeat_false by reflexivity. rewrite !cnt_nil.
    destruct (nth_error (repeat KLock (length (callers g))) u) eqn:E; [apply repeat_nth in E; subst|]; cbn; lia.
  - intros pc H _. rewrite cnt_repeat_false by reflexivity. rewrite !cnt_nil. apply repeat_nth in H. subst. rewrite ?H.
    destruct (nth_error (repeat KLock (length (callers g))) u) eqn:E; [apply repeat_nth in E; subst|]; cbn; reflexivity.
  - intros H. rewrite H. rewrite cnt_repeat_false by reflexivity. rewrite !cnt_nil. reflexivity.
Qed.

Lemma nth_error_set_nth_same {A} n (x : A) l y : nth_error l n = Some y -> nth_error (set_nth n x l) n = Some x.
Proof. revert n; induction l as [|h t IH]; intros [|n] H; cbn in *; try discriminate; auto. Qed.

(* the part of the state the per-request facts look at *)
Definition PU (k : list kpc) (qi : list qmsg) (b : list bpc) (qo : list omsg) (gpc0 : gpc) (lg : list nat) (u : nat) : Prop :=
  let fl := (match nth_error k u with Some KPut => 1 | _ => 0 end) + cnt (is_req u) qi + cnt (is_hold u) b + cnt (is_ans u) qo + c_gpop u gpc0 in
  cnt (Nat.eqb u) lg = fl /\ fl <= 1 /\
  (forall pc, nth_error k u = Some pc -> passed pc = false -> fl = 0) /\
  (nth_error k u = None -> fl = 0).

Lemma invl_pu s : InvL s <->
  (forall u, PU (kp s) (q_in s) (bp s) (q_out s) (gp s) (ledger s) u)
  /\ (forall w, In w (waiters s) -> nth_error (kp s) w = Some KWaiting) /\ NoDup (waiters s) /\ dropped_results s = [].
Proof. unfold InvL, PU, inflight, led, c_kput. reflexivity. Qed.

Ltac pu_close H3 H4 :=
  repeat split; try lia; try (intros pc0 Hq Hf; specialize (H3 _ Hq Hf); lia); try (intros Hq; specialize (H4 Hq); lia).

(* caller i moves between two program points, neither of which is KPut, keeping its answer to [passed] *)
Lemma pu_kp k qi b qo g0 lg i pc pc' :
  nth_error k i = Some pc -> pc <> KPut -> pc' <> KPut -> (passed pc' = false -> passed pc = false) ->
  forall u, PU k qi b qo g0 lg u -> PU (set_nth i pc' k) qi b qo g0 lg u.
Proof.
  intros Hi Hp Hp' Hps u (H1 & H2 & H3 & H4). unfold PU.
  destruct (Nat.eq_dec i u) as [->|Hne].
  - rewrite (nth_error_set_nth_same _ pc' _ _ Hi). rewrite Hi in *.
    assert (E : forall p : kpc, p <> KPut -> match p with KPut => 1 | _ => 0 end = 0) by (intros p Hq; destruct p; congruence).
    rewrite (E pc Hp) in *. rewrite (E pc' Hp'). repeat split; auto.
    + intros pc0 Hq Hf. inv Hq. eapply H3; eauto.
    + discriminate.
  - rewrite nth_error_set_nth_neq by assumption. repeat split; auto.
Qed.

(* pipeline[uid] = fut *)
Lemma pu_set k qi b qo g0 lg i :
  nth_error k i = Some KSet ->
  forall u, PU k qi b qo g0 lg u -> PU (set_nth i KPut k) qi b qo g0 (lg ++ [i]) u.
Proof.
  intros Hi u (H1 & H2 & H3 & H4). unfold PU. rewrite cnt_app, cnt_cons, cnt_nil.
  destruct (Nat.eq_dec i u) as [->|Hne].
  - rewrite (nth_error_set_nth_same _ KPut _ _ Hi). rewrite Hi in *. rewrite Nat.eqb_refl.
    specialize (H3 _ eq_refl eq_refl). repeat split; try lia.
    + intros pc0 Hq Hf. inv Hq. discriminate.
    + discriminate.
  - rewrite nth_error_set_nth_neq by assumption. assert (E : Nat.eqb u i = false) by (apply Nat.eqb_neq; congruence). rewrite E.
    pu_close H3 H4.
Qed.

(* self._input_buffer.put((uid, x)) *)
Lemma pu_put k qi b qo g0 lg i :
  nth_error k i = Some KPut ->
  forall u, PU k qi b qo g0 lg u -> PU (set_nth i (KUnlock None) k) (qi ++ [Req i]) b qo g0 lg u.
Proof.
  intros Hi u (H1 & H2 & H3 & H4). unfold PU. rewrite cnt_app, cnt_cons, cnt_nil. cbn [is_req].
  destruct (Nat.eq_dec i u) as [->|Hne].
  - rewrite (nth_error_set_nth_same _ (KUnlock None) _ _ Hi). rewrite Hi in *. rewrite Nat.eqb_refl.
    repeat split; try lia.
    + intros pc0 Hq Hf. inv Hq. discriminate.
    + discriminate.
  - rewrite nth_error_set_nth_neq by assumption. assert (E : Nat.eqb u i = false) by (apply Nat.eqb_neq; congruence). rewrite E.
    pu_close H3 H4.
Qed.

(* a servlet worker takes a request / answers it; the stop marker passes through *)
Lemma pu_take k qi b qo g0 lg j v :
  nth_error b j = Some BGet ->
  forall u, PU k (Req v :: qi) b qo g0 lg u -> PU k qi (set_nth j (BHold v) b) qo g0 lg u.
Proof.
  intros Hj u. unfold PU. rewrite cnt_cons. cbn [is_req].
  pose proof (cnt_set_nth (is_hold u) j (BHold v) b BGet Hj) as Hc. cbn [is_hold] in Hc.
  intros (H1 & H2 & H3 & H4). destruct (Nat.eqb u v); pu_close H3 H4.
Qed.

Lemma pu_answer k qi b qo g0 lg j v y :
  nth_error b j = Some (BHold v) ->
  forall u, PU k qi b qo g0 lg u -> PU k qi (set_nth j BGet b) (qo ++ [Ans v y]) g0 lg u.
Proof.
  intros Hj u. unfold PU. rewrite cnt_app, cnt_cons, cnt_nil. cbn [is_ans].
  pose proof (cnt_set_nth (is_hold u) j BGet b (BHold v) Hj) as Hc. cbn [is_hold] in Hc.
  intros (H1 & H2 & H3 & H4). destruct (Nat.eqb u v); pu_close H3 H4.
Qed.

Lemma pu_bp_neutral k qi b qo g0 lg j old v :
  nth_error b j = Some old -> (forall u, is_hold u old = false) -> (forall u, is_hold u v = false) ->
  forall u, PU k qi b qo g0 lg u -> PU k qi (set_nth j v b) qo g0 lg u.
Proof.
  intros Hj Ho Hv u. unfold PU. pose proof (cnt_set_nth (is_hold u) j v b old Hj) as Hc. rewrite Ho, Hv in Hc.
  replace (cnt (is_hold u) (set_nth j v b)) with (cnt (is_hold u) b) by lia. auto.
Qed.

(* the gather thread takes an answer from the output queue, pops the ledger *)
Lemma pu_gget k qi b qo lg v y :
  forall u, PU k qi b (Ans v y :: qo) GGet lg u -> PU k qi b qo (GPop v y) lg u.
Proof.
  intros u. unfold PU. rewrite cnt_cons. cbn [is_ans c_gpop].
  intros (H1 & H2 & H3 & H4). destruct (Nat.eqb u v); pu_close H3 H4.
Qed.

Lemma pu_gpop k qi b qo lg v y g' :
  c_gpop v g' = 0 -> (forall u, c_gpop u g' = 0) ->
  forall u, PU k qi b qo (GPop v y) lg u -> PU k qi b qo g' (remove_nat v lg) u.
Proof.
  intros _ Hg u. unfold PU. rewrite cnt_remove_nat, Hg. cbn [c_gpop].
  intros (H1 & H2 & H3 & H4). destruct (Nat.eqb u v); pu_close H3 H4.
Qed.

Lemma pu_gp_neutral k qi b qo lg g0 g' :
  (forall u, c_gpop u g0 = 0) -> (forall u, c_gpop u g' = 0) ->
  forall u, PU k qi b qo g0 lg u -> PU k qi b qo g' lg u.
Proof. intros H0 H' u. unfold PU. now rewrite H0, H'. Qed.

Lemma pu_qin_stop_app k qi b qo g0 lg : forall u, PU k qi b qo g0 lg u -> PU k (qi ++ [Stop]) b qo g0 lg u.
Proof. intros u. unfold PU. rewrite cnt_app, cnt_cons, cnt_nil. cbn [is_req]. now rewrite !Nat.add_0_r. Qed.
Lemma pu_qin_stop_pop k qi b qo g0 lg : forall u, PU k (Stop :: qi) b qo g0 lg u -> PU k qi b qo g0 lg u.
Proof. intros u. unfold PU. rewrite cnt_cons. cbn [is_req]. auto. Qed.
Lemma pu_qout_stop_app k qi b qo g0 lg : forall u, PU k qi b qo g0 lg u -> PU k qi b (qo ++ [OStop]) g0 lg u.
Proof. intros u. unfold PU. rewrite cnt_app, cnt_cons, cnt_nil. cbn [is_ans]. now rewrite !Nat.add_0_r. Qed.
Lemma pu_qout_stop_pop k qi b qo g0 lg : forall u, PU k qi b (OStop :: qo) g0 lg u -> PU k qi b qo g0 lg u.
Proof. intros u. unfold PU. rewrite cnt_cons. cbn [is_ans]. auto. Qed.

Lemma NoDup_app_snoc {A} (l : list A) x : NoDup l -> ~ In x l -> NoDup (l ++ [x]).
Proof.
  induction l as [|h t IH]; cbn; intros Hn Hi; [constructor; [intros []|constructor]|].
  inversion Hn as [|? ? Hh Ht]; subst. constructor.
  - intros Hin. apply in_app_or in Hin. destruct Hin as [Hin|[<-|[]]]; [contradiction|]. apply Hi. now left.
  - apply IH; [exact Ht|]. intros Hin. apply Hi. now right.
Qed.

Lemma nodup_remove_nat x l : NoDup l -> NoDup (remove_nat x l).
Proof. unfold remove_nat. apply NoDup_filter. Qed.

Lemma in_remove_nat x w l : In w (remove_nat x l) -> In w l /\ w <> x.
Proof.
  unfold remove_nat. intros H. apply filter_In in H. destruct H as [H1 H2]. split; [exact H1|].
  apply negb_true_iff, Nat.eqb_neq in H2. congruence.
Qed.

(* the waiters clause when caller i moves away from / stays away from KWaiting and the waiter list keeps only
   waiters other than i *)
Lemma waiters_kp (k : list kpc) i pc' (ws ws' : list nat) :
  (forall w, In w ws -> nth_error k w = Some KWaiting) ->
  (forall w, In w ws' -> In w ws /\ w <> i) ->
  forall w, In w ws' -> nth_error (set_nth i pc' k) w = Some KWaiting.
Proof.
  intros HW Hs w Hw. destruct (Hs w Hw) as [Hin Hne]. rewrite nth_error_set_nth_neq by congruence. auto.
Qed.

Lemma invl_step_k g s i ex s' e : InvL s -> step_k g s i ex = Some (s', e) -> InvL s'.
Proof.
  intros HI Hs. apply invl_pu in HI. destruct HI as (HU0 & HW & HN & HD).
  assert (HU : forall u, PU (kp s) (q_in s) (bp s) (q_out s) (gp s) (ledger s) u) by exact HU0. clear HU0. unfold step_k in Hs.
  destruct (nth_error (kp s) i) as [pc|] eqn:Ei; [|discriminate].
  destruct (nth_error (callers g) i) as [kc|] eqn:Ec; [|discriminate].
  assert (Hnw : pc <> KWaiting -> forall w, In w (waiters s) -> In w (waiters s) /\ w <> i).
  { intros Hp w Hw. split; [exact Hw|]. intros ->. rewrite (HW _ Hw) in Ei. congruence. }
  destruct pc, ex; try discriminate Hs; break_match_hyp Hs; inv Hs; apply invl_pu;
    unfold set_kp, set_lock, set_waiters, set_ledger, set_qin, set_futs;
    cbn [kp q_in bp q_out gp ledger waiters dropped_results];
    (split; [|split; [|split; [|exact HD]]]);
    try exact HN;
    try (intros u; eapply pu_kp; [exact Ei|discriminate|discriminate|cbn; congruence|apply HU]);
    try (eapply waiters_kp; [exact HW|apply Hnw; discriminate]).
  - (* KWait -> KWaiting: joins the waiters *)
    intros w Hw. apply in_app_or in Hw. destruct Hw as [Hw|[<-|[]]].
    + destruct (Hnw ltac:(discriminate) w Hw) as [_ Hne]. rewrite nth_error_set_nth_neq by congruence. auto.
    + eapply nth_error_set_nth_same; eauto.
  - apply NoDup_app_snoc; [exact HN|]. intros Hin. rewrite (HW _ Hin) in Ei. discriminate.
  - (* KWaiting: the timeout fires *)
    eapply waiters_kp; [exact HW|]. intros w Hw. apply in_remove_nat in Hw. exact Hw.
  - apply nodup_remove_nat. exact HN.
  - (* KSet *)
    intros u. eapply pu_set; [exact Ei|apply HU].
  - (* KPut *)
    intros u. eapply pu_put; [exact Ei|apply HU].
Qed.

Lemma invl_step_g g s s' e : InvL s -> step_g g s = Some (s', e) -> InvL s'.
Proof.
  intros HI Hs. apply invl_pu in HI. destruct HI as (HU0 & HW & HN & HD).
  assert (HU : forall u, PU (kp s) (q_in s) (bp s) (q_out s) (gp s) (ledger s) u) by exact HU0. clear HU0. unfold step_g in Hs.
  destruct (gp s) as [|u y|u y|u y| | | |] eqn:Eg.
  - (* GGet *)
    destruct (q_out s) as [|[v y|] r] eqn:Eq; [discriminate| |]; inv Hs; apply invl_pu;
      unfold set_gp, set_qout; cbn [kp q_in bp q_out gp ledger waiters dropped_results];
      (split; [|split; [exact HW|split; [exact HN|exact HD]]]); intros u; specialize (HU u); try rewrite Eq in HU; try rewrite Eg in HU.
    + apply pu_gget. exact HU.
    + eapply pu_gp_neutral; [| |apply pu_qout_stop_pop; exact HU]; intros; reflexivity.
  - (* GPop: the entry is there *)
    destruct (mem_nat u (ledger s)) eqn:Em.
    + inv Hs. apply invl_pu. unfold set_gp, set_ledger; cbn [kp q_in bp q_out gp ledger waiters dropped_results].
      split; [|split; [exact HW|split; [exact HN|exact HD]]]. intros v. specialize (HU v). try rewrite Eg in HU.
      eapply pu_gpop; [reflexivity| |exact HU]. intros; reflexivity.
    + exfalso. specialize (HU u). try rewrite Eg in HU. destruct HU as (H1 & _). cbn [c_gpop] in H1. rewrite Nat.eqb_refl in H1.
      assert (0 < cnt (Nat.eqb u) (ledger s)) by lia. apply mem_nat_cnt in H. congruence.
  - break_match_hyp Hs; inv Hs; apply invl_pu; unfold set_gp; cbn [kp q_in bp q_out gp ledger waiters dropped_results];
      (split; [|split; [exact HW|split; [exact HN|exact HD]]]); intros v; specialize (HU v); try rewrite Eg in HU;
      (eapply pu_gp_neutral; [| |exact HU]; intros; reflexivity).
  - break_match_hyp Hs; inv Hs; apply invl_pu; unfold set_gp, set_futs; cbn [kp q_in bp q_out gp ledger waiters dropped_results];
      (split; [|split; [exact HW|split; [exact HN|exact HD]]]); intros v; specialize (HU v); try rewrite Eg in HU;
      (eapply pu_gp_neutral; [| |exact HU]; intros; reflexivity).
  - inv Hs. apply invl_pu. unfold set_gp, set_qn; cbn [kp q_in bp q_out gp ledger waiters dropped_results].
    split; [|split; [exact HW|split; [exact HN|exact HD]]]. intros v. specialize (HU v). try rewrite Eg in HU.
    eapply pu_gp_neutral; [| |exact HU]; intros; reflexivity.
  - inv Hs. apply invl_pu. unfold set_gp, set_qn; cbn [kp q_in bp q_out gp ledger waiters dropped_results].
    split; [|split; [exact HW|split; [exact HN|exact HD]]]. intros v. specialize (HU v). try rewrite Eg in HU.
    eapply pu_gp_neutral; [| |exact HU]; intros; reflexivity.
  - break_match_hyp Hs; inv Hs. apply invl_pu. unfold set_gp; cbn [kp q_in bp q_out gp ledger waiters dropped_results].
    split; [|split; [exact HW|split; [exact HN|exact HD]]]. intros v. specialize (HU v). try rewrite Eg in HU.
    eapply pu_gp_neutral; [| |exact HU]; intros; reflexivity.
  - discriminate.
Qed.

Lemma invl_step_n g s s' e : InvL s -> step_n g s = Some (s', e) -> InvL s'.
Proof.
  intros HI Hs. apply invl_pu in HI. destruct HI as (HU0 & HW & HN & HD).
  assert (HU : forall u, PU (kp s) (q_in s) (bp s) (q_out s) (gp s) (ledger s) u) by exact HU0. clear HU0. unfold step_n in Hs.
  destruct (np s) eqn:En.
  - destruct (q_notify s) as [|[|] r]; [discriminate| |]; inv Hs; apply invl_pu; unfold set_np, set_qn;
      cbn [kp q_in bp q_out gp ledger waiters dropped_results]; auto.
  - destruct (lock s); [discriminate|]. inv Hs. apply invl_pu. unfold set_np, set_lock; cbn [kp q_in bp q_out gp ledger waiters dropped_results]. auto.
  - destruct (waiters s) as [|w r] eqn:Ew; inv Hs; apply invl_pu; unfold set_np, set_kp, set_waiters;
      cbn [kp q_in bp q_out gp ledger waiters dropped_results].
    + rewrite Ew. auto.
    + assert (Hk : nth_error (kp s) w = Some KWaiting) by (apply HW; now left).
      inversion HN as [|? ? Hnin Hnd]; subst.
      split; [|split; [|split; [exact Hnd|exact HD]]].
      * intros u. eapply pu_kp; [exact Hk|discriminate|discriminate|reflexivity|apply HU].
      * intros w' Hw'. rewrite nth_error_set_nth_neq by (intros ->; contradiction). apply HW. now right.
  - inv Hs. apply invl_pu. unfold set_np, set_lock; cbn [kp q_in bp q_out gp ledger waiters dropped_results]. auto.
  - discriminate.
Qed.

Lemma invl_step_b g s j s' e : InvL s -> step_b g s j = Some (s', e) -> InvL s'.
Proof.
  intros HI Hs. apply invl_pu in HI. destruct HI as (HU0 & HW & HN & HD).
  assert (HU : forall u, PU (kp s) (q_in s) (bp s) (q_out s) (gp s) (ledger s) u) by exact HU0. clear HU0. unfold step_b in Hs.
  destruct (nth_error (bp s) j) as [[|u| |]|] eqn:Ej; try discriminate.
  - destruct (q_in s) as [|[v|] r] eqn:Eq; [discriminate| |]; inv Hs; apply invl_pu; unfold set_bp, set_qin;
      cbn [kp q_in bp q_out gp ledger waiters dropped_results];
      (split; [|split; [exact HW|split; [exact HN|exact HD]]]); intros u; specialize (HU u); try rewrite Eq in HU.
    + eapply pu_take; [exact Ej|exact HU].
    + eapply pu_bp_neutral; [exact Ej|intros; reflexivity|intros; reflexivity|]. apply pu_qin_stop_pop. exact HU.
  - destruct (nth_error (callers g) u) as [kc|]; [|discriminate]. inv Hs. apply invl_pu. unfold set_bp, set_qout;
      cbn [kp q_in bp q_out gp ledger waiters dropped_results].
    split; [|split; [exact HW|split; [exact HN|exact HD]]]. intros v. eapply pu_answer; [exact Ej|apply HU].
  - inv Hs. apply invl_pu. unfold set_bp, set_qin; cbn [kp q_in bp q_out gp ledger waiters dropped_results].
    split; [|split; [exact HW|split; [exact HN|exact HD]]]. intros v.
    eapply pu_bp_neutral; [exact Ej|intros; reflexivity|intros; reflexivity|]. apply pu_qin_stop_app. apply HU.
Qed.

Lemma invl_step_m g s s' e : InvL s -> step_m g s = Some (s', e) -> InvL s'.
Proof.
  intros HI Hs. apply invl_pu in HI. destruct HI as (HU0 & HW & HN & HD).
  assert (HU : forall u, PU (kp s) (q_in s) (bp s) (q_out s) (gp s) (ledger s) u) by exact HU0. clear HU0. unfold step_m in Hs.
  destruct (mp s); break_match_hyp Hs; inv Hs; apply invl_pu; unfold set_mp, set_qin, set_qout;
    cbn [kp q_in bp q_out gp ledger waiters dropped_results];
    (split; [|split; [exact HW|split; [exact HN|exact HD]]]); intros v;
    first [apply pu_qin_stop_app; apply HU | apply pu_qout_stop_app; apply HU | apply HU
          | (match goal with E : gp s = _ |- _ => rewrite E end; apply HU)].
Qed.

Lemma invl_step g s l s' e : InvL s -> step g s l = Some (s', e) -> InvL s'.
Proof.
  intros HI Hs. destruct l as [i ex| | |j|]; cbn in Hs.
  - eapply invl_step_k; eauto.
  - eapply invl_step_g; eauto.
  - eapply invl_step_n; eauto.
  - eapply invl_step_b; eauto.
  - eapply invl_step_m; eauto.
Qed.

Lemma invl_run g sched : InvL (run step g (init g) sched).
Proof. apply (inv_run step g InvL); [intros; eapply invl_step; eauto | apply invl_init]. Qed.

(* the backlog is exactly the set of requests in flight: accepted, result not yet emerged *)
Lemma ledger_is_in_flight g sched u :
  let s := run step g (init g) sched in
  led u s = inflight u s /\ inflight u s <= 1.
Proof. intros s. destruct (invl_run g sched) as (H & _). destruct (H u) as (H1 & H2 & _). auto. Qed.

(* no result ever finds its ledger entry missing *)
Lemma no_result_dropped g sched : dropped_results (run step g (init g) sched) = [].
Proof. destruct (invl_run g sched) as (_ & _ & _ & H). exact H. Qed.

Definition quiet (s : state) : Prop :=
  (forall u, c_kput u s = 0) /\ (forall u, cnt (is_req u) (q_in s) = 0) /\ (forall u, cnt (is_hold u) (bp s) = 0)
  /\ (forall u, cnt (is_ans u) (q_out s) = 0) /\ (forall u, c_gpop u (gp s) = 0).

Lemma cnt_zero_nil l : (forall u, cnt (Nat.eqb u) l = 0) -> l = [].
Proof. destruct l as [|h t]; [reflexivity|]. intros H. specialize (H h). rewrite cnt_cons, Nat.eqb_refl in H. lia. Qed.

(* an idle server - nothing queued, no worker holding a request, the gather thread waiting - has backlog zero *)
Lemma idle_backlog_zero g sched :
  quiet (run step g (init g) sched) -> ledger (run step g (init g) sched) = [].
Proof.
  intros (Q1 & Q2 & Q3 & Q4 & Q5). apply cnt_zero_nil. intros u.
  destruct (ledger_is_in_flight g sched u) as [H _]. unfold led, inflight in H. rewrite H, Q1, Q2, Q3, Q4, Q5. reflexivity.
Qed.
