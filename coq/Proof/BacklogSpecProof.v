(* Model/BacklogSpec.v: an accepted history never has more than [cap] requests in flight, after any prefix; the counters
   add up (in flight = accepted - released), so a history that ends with backlog 0 has given every slot back. *)
From MpV Require Import Model.BacklogSpec.
From Coq Require Import Lia.

Definition Good (cap : nat) (s : st) : Prop :=
  backlog s <= cap /\ accepted s = released s + backlog s /\ backlog s <= peak s /\ peak s <= cap.

Lemma init_good cap : Good cap init.
Proof. unfold Good, init; simpl; lia. Qed.

Lemma step_good cap s e s' : Good cap s -> step cap s e = inl s' -> Good cap s'.
Proof.
  unfold Good. intros (H1 & H2 & H3 & H4) Hs. destruct e as [| |n]; unfold step in Hs.
  - destruct (Nat.ltb_spec (backlog s) cap); [|discriminate]. injection Hs as <-.
    cbn [backlog accepted released peak]. lia.
  - destruct (backlog s) as [|b] eqn:Hb; [discriminate|]. injection Hs as <-.
    cbn [backlog accepted released peak]. lia.
  - destruct (n =? backlog s); [|discriminate]. injection Hs as <-. lia.
Qed.

Lemma accept_prefix_good cap evs : forall s i sf,
  Good cap s -> accept cap s i evs = inl sf ->
  forall k, exists sk, accept cap s i (firstn k evs) = inl sk /\ Good cap sk.
Proof.
  induction evs as [|e r IH]; intros s i sf Hg Ha k.
  - rewrite firstn_nil. simpl. eauto.
  - destruct k as [|k]; [simpl; eauto|].
    simpl in Ha |- *. destruct (step cap s e) as [s'|] eqn:Hs; [|discriminate].
    apply (IH s' (S i) sf); [eapply step_good; eauto | exact Ha].
Qed.

Theorem accepted_history_bounded cap evs sf :
  accept cap init 0 evs = inl sf ->
  forall k, exists sk, accept cap init 0 (firstn k evs) = inl sk /\ backlog sk <= cap /\
                       accepted sk = released sk + backlog sk.
Proof.
  intros Ha k. destruct (accept_prefix_good cap evs init 0 sf (init_good cap) Ha k) as (sk & Hk & Hg).
  exists sk. split; [exact Hk|]. destruct Hg as (H1 & H2 & _). split; assumption.
Qed.

Theorem idle_means_all_slots_back cap evs sf :
  accept cap init 0 evs = inl sf -> backlog sf = 0 -> accepted sf = released sf.
Proof.
  intros Ha H0. destruct (accepted_history_bounded cap evs sf Ha (length evs)) as (sk & Hk & _ & Hc).
  rewrite firstn_all in Hk. rewrite Ha in Hk. injection Hk as <-. lia.
Qed.

Theorem refusal_is_real cap s e k :
  step cap s e = inr k ->
  match k with
  | Overflow => e = Acc /\ cap <= backlog s
  | Impossible => e = Rel /\ backlog s = 0
  | Inconsistent => exists n, e = Len n /\ n <> backlog s
  end.
Proof.
  destruct e as [| |n]; unfold step; intros Hs.
  - destruct (Nat.ltb_spec (backlog s) cap); [discriminate|]. injection Hs as <-. split; [reflexivity|lia].
  - destruct (backlog s) eqn:Hb; [|discriminate]. injection Hs as <-. split; reflexivity.
  - destruct (Nat.eqb_spec n (backlog s)); [discriminate|]. injection Hs as <-. exists n. split; [reflexivity|assumption].
Qed.
