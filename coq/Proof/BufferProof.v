From MpV Require Import Lib.Tac Lib.Conc Model.Buffer.
Open Scope nat_scope.

(* number of data elements in the hand-off queue *)
Fixpoint ndata (l : list item) : nat :=
  match l with
  | [] => 0
  | Data _ :: r => S (ndata r)
  | _ :: r => ndata r
  end.

Lemma ndata_app a b : ndata (a ++ b) = ndata a + ndata b.
Proof. induction a as [|[x| | |e] a IH]; cbn; lia. Qed.

Lemma ndata_le l : ndata l <= length l.
Proof. induction l as [|[x| | |e] l IH]; cbn; lia. Qed.

Definition held_w (s : state) : nat := match wp s with WChk _ | WPut _ => 1 | _ => 0 end.
Definition held_c (s : state) : nat := match cp s with CYield _ => 1 | _ => 0 end.

(* counting invariant: every pulled element is in exactly one place *)
Definition Inv (g : cfg) (s : state) : Prop :=
  pulled s = ndata (q s) + held_w s + held_c s + length (received s) + dropped s
  /\ length (q s) <= maxsize g
  /\ (cp s = CStart -> wp s = WIdle).

Lemma inv_init g : Inv g (init g).
Proof. unfold Inv, init, held_w, held_c; cbn. repeat split; lia. Qed.

Lemma inv_step g s l s' e : Inv g s -> step g s l = Some (s', e) -> Inv g s'.
Proof.
  destruct s as [w c qq st rs pu re dr]. unfold Inv, held_w, held_c. cbn.
  intros (H1 & H2 & H3) Hs. destruct l; cbn in Hs.
  - unfold step_w, w_put, full, upd_w in Hs; cbn in Hs.
    break_match_hyp Hs; inv Hs; cbn in *; bool_to_prop;
      rewrite ?app_length, ?ndata_app in *; cbn in *;
      (split; [|split]; [lia | lia | intros Hc; try discriminate Hc; try (specialize (H3 Hc); discriminate H3); auto]).
  - unfold step_c, c_pop, upd_c, after_recv in Hs; cbn in Hs.
    break_match_hyp Hs; inv Hs; cbn in *; bool_to_prop;
      rewrite ?app_length, ?ndata_app in *; cbn in *;
      try (rewrite H3 in * by reflexivity);
      (split; [|split]; [lia | lia | intros Hc; try discriminate Hc; try (specialize (H3 Hc); discriminate H3); auto]).
Qed.

Lemma inv_run_all g sched : Inv g (run step g (init g) sched).
Proof. apply (inv_run step g (Inv g)); [intros; eapply inv_step; eauto | apply inv_init]. Qed.

Lemma buffer_lookahead g sched :
  ahead (run step g (init g) sched) <= maxsize g + 2.
Proof.
  pose proof (inv_run_all g sched) as (H1 & H2 & _). set (s := run step g (init g) sched) in *.
  unfold ahead. pose proof (ndata_le (q s)).
  assert (held_w s <= 1) by (unfold held_w; destruct (wp s); lia).
  assert (held_c s <= 1) by (unfold held_c; destruct (cp s); lia).
  lia.
Qed.
