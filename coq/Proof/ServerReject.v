(* C06: a rejected request leaves nothing behind, and a caller using backpressure never waits. *)
From MpV Require Import Lib.Tac Lib.Conc Model.Server Proof.ServerProof Proof.ServerLedger.
Open Scope nat_scope.

Definition rejected_pc (pc : kpc) : bool :=
  match pc with KUnlock (Some _) | KDone Rejected | KDone RejectedAfterWait => true | _ => false end.

(* a request that is being / has been rejected is nowhere: not in the ledger, not queued, not held by a worker,
   not in the output queue, not with the gather thread, and its caller is not among the condition's waiters *)
Lemma rejected_leaves_nothing g sched i pc :
  let s := run step g (init g) sched in
  nth_error (kp s) i = Some pc -> rejected_pc pc = true ->
  led i s = 0 /\ inflight i s = 0 /\ ~ In i (waiters s).
Proof.
  intros s Hi Hr. destruct (invl_run g sched) as (H & Hw & _). fold s in H, Hw.
  destruct (H i) as (H1 & _ & H3 & _).
  assert (Hp : passed pc = false) by (destruct pc as [| | | | | | | |[[|]|]| | |[]]; cbn in *; congruence).
  specialize (H3 _ Hi Hp). repeat split; try lia.
  intros Hin. apply Hw in Hin. rewrite Hi in Hin. inv Hin. discriminate.
Qed.

(* program points only a caller without backpressure can be at *)
Definition waits_pc (pc : kpc) : bool :=
  match pc with
  | KWait | KWaiting | KNotified | KExpired | KUnlock (Some true) | KDone RejectedAfterWait => true
  | _ => false
  end.

Definition InvBP (g : cfg) (s : state) : Prop :=
  forall i pc kc, nth_error (kp s) i = Some pc -> nth_error (callers g) i = Some kc ->
                  backpressure kc = true -> waits_pc pc = false.

Lemma invbp_kp g s i pc' :
  InvBP g s ->
  (forall kc, nth_error (callers g) i = Some kc -> backpressure kc = true -> waits_pc pc' = false) ->
  forall s', kp s' = set_nth i pc' (kp s) -> InvBP g s'.
Proof.
  intros H Hn s' Hk j pc kc Hj Hc Hb. rewrite Hk in Hj.
  destruct (Nat.eq_dec i j) as [->|Hne].
  - destruct (nth_error (kp s) j) eqn:E.
    + rewrite (nth_error_set_nth_same _ pc' _ _ E) in Hj. inv Hj. eapply Hn; eauto.
    + assert (nth_error (set_nth j pc' (kp s)) j = None).
      { clear -E. revert j E. induction (kp s) as [|h t IH]; intros [|j] E; cbn in *; try discriminate; auto. }
      congruence.
  - rewrite nth_error_set_nth_neq in Hj by assumption. eapply H; eauto.
Qed.

Lemma invbp_same g s s' : InvBP g s -> kp s' = kp s -> InvBP g s'.
Proof. intros H Hk j pc kc Hj. rewrite Hk in Hj. eapply H; eauto. Qed.

Lemma invbp_init g : InvBP g (init g).
Proof. intros i pc kc Hi _ _. cbn in Hi. apply repeat_nth in Hi. subst. reflexivity. Qed.

Lemma invbp_step g s l s' e : InvL s -> InvBP g s -> step g s l = Some (s', e) -> InvBP g s'.
Proof.
  intros HL H Hs. destruct l as [i ex| | |j|]; cbn in Hs.
  - (* caller *)
    unfold step_k in Hs.
    destruct (nth_error (kp s) i) as [pc|] eqn:Ei; [|discriminate].
    destruct (nth_error (callers g) i) as [kc|] eqn:Ec; [|discriminate].
    assert (Hpc : backpressure kc = true -> waits_pc pc = false) by (intros Hb; eapply H; eauto).
    destruct pc; destruct ex; try discriminate Hs; break_match_hyp Hs; inv Hs;
      (eapply invbp_kp; [exact H| |reflexivity]); intros kc' Ec' Hb'; rewrite Ec in Ec'; inv Ec';
      try reflexivity; try (specialize (Hpc Hb'); discriminate Hpc); try congruence.
  - (* gather *)
    unfold step_g in Hs. break_match_hyp Hs; inv Hs; (eapply invbp_same; [exact H|reflexivity]).
  - (* notifier *)
    unfold step_n in Hs. break_match_hyp Hs; inv Hs; try (eapply invbp_same; [exact H|reflexivity]).
    eapply invbp_kp; [exact H| |reflexivity].
    intros kc Ec Hb. destruct HL as (_ & Hw & _).
    match goal with Hq : waiters s = ?w :: _ |- _ => specialize (Hw w); rewrite Hq in Hw; specialize (Hw (or_introl eq_refl)) end.
    specialize (H _ _ _ Hw Ec Hb). discriminate H.
  - unfold step_b in Hs. break_match_hyp Hs; inv Hs; (eapply invbp_same; [exact H|reflexivity]).
  - unfold step_m in Hs. break_match_hyp Hs; inv Hs; (eapply invbp_same; [exact H|reflexivity]).
Qed.

Lemma invbp_run g sched : InvBP g (run step g (init g) sched).
Proof.
  assert (H : InvL (run step g (init g) sched) /\ InvBP g (run step g (init g) sched)).
  { apply (inv_run step g (fun s => InvL s /\ InvBP g s)).
    - intros s l s' e [H1 H2] Hs. split; [eapply invl_step; eauto|eapply invbp_step; eauto].
    - split; [apply invl_init|apply invbp_init]. }
  exact (proj2 H).
Qed.

(* a caller that asked for backpressure is never made to wait: it is never queued on the condition, never woken,
   never rejected "after waiting" *)
Lemma backpressure_never_waits g sched i pc kc :
  nth_error (kp (run step g (init g) sched)) i = Some pc -> nth_error (callers g) i = Some kc ->
  backpressure kc = true -> waits_pc pc = false /\ ~ In i (waiters (run step g (init g) sched)).
Proof.
  intros Hi Hc Hb. pose proof (invbp_run g sched _ _ _ Hi Hc Hb) as Hw. split; [exact Hw|].
  intros Hin. destruct (invl_run g sched) as (_ & Hq & _). apply Hq in Hin. rewrite Hi in Hin. inv Hin. discriminate.
Qed.
