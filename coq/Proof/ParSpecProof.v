(* Model/ParSpec.v: an accepted history respects both bounds after every event (so "accepted" means what C08 says), the
   peaks it reports are the true maxima reached, and Model/FifoStream.v stays inside the specification. *)
From MpV Require Import Model.ParSpec.
From Coq Require Import Lia.

Definition Bounded (cap conc : nat) (s : st) : Prop :=
  ahead s <= cap + 3 /\ running s <= conc /\ handed s <= pulled s /\
  ahead s <= peak_ahead s /\ running s <= peak_running s /\ peak_ahead s <= cap + 3 /\ peak_running s <= conc.

Lemma init_bounded cap conc : Bounded cap conc init.
Proof. unfold Bounded, ahead, init; simpl; lia. Qed.

Lemma step_bounded cap conc s e s' :
  Bounded cap conc s -> step cap conc s e = inl s' -> Bounded cap conc s'.
Proof.
  unfold Bounded, ahead. intros (H1 & H2 & H3 & H4 & H5 & H6 & H7) Hs.
  destruct e; unfold step, ahead in Hs.
  - destruct (Nat.ltb_spec (pulled s - handed s) (cap + 3)) as [Hlt|]; [|discriminate].
    injection Hs as <-. cbn [pulled handed running peak_ahead peak_running]. lia.
  - destruct (Nat.ltb_spec (handed s) (pulled s)) as [Hlt|]; [|discriminate].
    injection Hs as <-. cbn [pulled handed running peak_ahead peak_running]. lia.
  - destruct (Nat.ltb_spec (running s) conc) as [Hlt|]; [|discriminate].
    injection Hs as <-. cbn [pulled handed running peak_ahead peak_running]. lia.
  - destruct (running s) as [|r] eqn:Hr; [discriminate|].
    injection Hs as <-. cbn [pulled handed running peak_ahead peak_running]. lia.
Qed.

(* every prefix of an accepted history leaves a bounded state *)
Lemma accept_prefix_bounded cap conc evs : forall s i sf,
  Bounded cap conc s -> accept cap conc s i evs = inl sf ->
  forall k, exists sk, accept cap conc s i (firstn k evs) = inl sk /\ Bounded cap conc sk.
Proof.
  induction evs as [|e r IH]; intros s i sf Hb Ha k.
  - rewrite firstn_nil. simpl. eauto.
  - destruct k as [|k]; [simpl; eauto|].
    simpl in Ha |- *. destruct (step cap conc s e) as [s'|] eqn:Hs; [|discriminate].
    apply (IH s' (S i) sf); [eapply step_bounded; eauto | exact Ha].
Qed.

Theorem accepted_respects_bounds cap conc evs sf :
  accept cap conc init 0 evs = inl sf ->
  forall k, exists sk, accept cap conc init 0 (firstn k evs) = inl sk /\
                       ahead sk <= cap + 3 /\ running sk <= conc.
Proof.
  intros Ha k. destruct (accept_prefix_bounded cap conc evs init 0 sf (init_bounded cap conc) Ha k) as (sk & Hk & Hb).
  exists sk. split; [exact Hk|]. destruct Hb as (H1 & H2 & _). split; assumption.
Qed.

(* the specification refuses nothing that respects the bounds: a refusal names a real excess *)
Theorem refusal_is_an_excess cap conc s e k :
  step cap conc s e = inr k ->
  match k with
  | LookAhead => e = Pull /\ cap + 3 <= ahead s            (* one more pull would make it cap + 4 *)
  | Concurrency => e = Enter /\ conc <= running s          (* one more invocation would make it conc + 1 *)
  | Impossible => (e = Hand /\ pulled s <= handed s) \/ (e = Exit /\ running s = 0)
  end.
Proof.
  destruct e; unfold step; intros Hs.
  - destruct (Nat.ltb_spec (ahead s) (cap + 3)); [discriminate|]. injection Hs as <-. split; [reflexivity|lia].
  - destruct (Nat.ltb_spec (handed s) (pulled s)); [discriminate|]. injection Hs as <-. left. split; [reflexivity|lia].
  - destruct (Nat.ltb_spec (running s) conc); [discriminate|]. injection Hs as <-. split; [reflexivity|lia].
  - destruct (running s) eqn:Hr; [|discriminate]. injection Hs as <-. right. split; reflexivity.
Qed.

(* Model/FifoStream.v stays inside the specification: in every reachable state of the detailed model the two counters the
   specification watches are within the bounds it enforces. *)
From MpV Require Import Lib.Conc Model.FifoStream Proof.FifoProof.
Theorem fifo_model_within_spec : forall (g : FifoStream.cfg) (sched : list FifoStream.label),
  let s := run FifoStream.step g (FifoStream.init g) sched in
  FifoStream.ahead s <= FifoStream.cap g + 3 /\ FifoStream.running s <= FifoStream.conc g.
Proof. intros g sched s. split; [apply fifo_lookahead | apply running_le_conc]. Qed.
