From MpV Require Import Lib.Tac Model.ProxyCall.
From Coq Require Import Lia.
Open Scope nat_scope.

Lemma nth_error_set_obj_same n x l : n < length l -> nth_error (set_obj n x l) n = Some x.
Proof. revert n; induction l as [|h t IH]; intros [|n] H; cbn in *; try lia; auto. apply IH. lia. Qed.
Lemma nth_error_set_obj_other n m x l : n <> m -> nth_error (set_obj n x l) m = nth_error l m.
Proof. revert n m; induction l as [|h t IH]; intros [|n] [|m] H; cbn; auto; try congruence. Qed.
Lemma set_obj_length n x l : length (set_obj n x l) = length l.
Proof. revert n; induction l as [|h t IH]; intros [|n]; cbn; auto. Qed.

Lemma nth_error_lt {A} (l : list A) n x : nth_error l n = Some x -> n < length l.
Proof. intros H. apply nth_error_Some. congruence. Qed.

(* a request to one object leaves every other hosted object as it is *)
Lemma serve_other s a o b : a <> b -> b < length s -> nth_error (fst (serve s a o)) b = nth_error s b.
Proof.
  intros Hne Hb. unfold serve.
  destruct (nth_error s a) as [[l|d|z|made|ns]|] eqn:Ea; cbn [fst]; auto.
  - destruct (apply_list l o) as [[l' r]|]; cbn [fst]; auto. now apply nth_error_set_obj_other.
  - destruct (apply_dict d o) as [[d' r]|]; cbn [fst]; auto. now apply nth_error_set_obj_other.
  - destruct o; cbn [fst]; auto. now apply nth_error_set_obj_other.
  - destruct o; cbn [fst]; auto.
    + rewrite nth_error_app1 by (rewrite set_obj_length; exact Hb). now apply nth_error_set_obj_other.
    + destruct (nth_error made i) as [j|]; cbn [fst]; auto. destruct (nth_error s j) as [[| | | |]|]; cbn [fst]; auto.
  - destruct o; cbn [fst]; auto; try (now apply nth_error_set_obj_other);
      destruct (d_get k ns); cbn [fst]; auto; now apply nth_error_set_obj_other.
Qed.

Lemma serve_length s a o : length s <= length (fst (serve s a o)).
Proof.
  unfold serve.
  destruct (nth_error s a) as [[l|d|z|made|ns]|] eqn:Ea; cbn [fst]; auto.
  - destruct (apply_list l o) as [[l' r]|]; cbn [fst]; rewrite ?set_obj_length; auto.
  - destruct (apply_dict d o) as [[d' r]|]; cbn [fst]; rewrite ?set_obj_length; auto.
  - destruct o; cbn [fst]; rewrite ?set_obj_length; auto.
  - destruct o; cbn [fst]; rewrite ?app_length, ?set_obj_length; auto; try lia.
    destruct (nth_error made i) as [j|]; cbn [fst]; auto. destruct (nth_error s j) as [[| | | |]|]; cbn [fst]; auto.
  - destruct o; cbn [fst]; rewrite ?set_obj_length; auto; destruct (d_get k ns); cbn [fst]; rewrite ?set_obj_length; auto.
Qed.

(* a request to a list, dict or Value is the direct call on that object *)
Lemma serve_plain s a x o :
  nth_error s a = Some x -> is_plain x = true ->
  serve s a o = (set_obj a (fst (apply_plain x o)) s, snd (apply_plain x o)) \/
  (serve s a o = (s, snd (apply_plain x o)) /\ fst (apply_plain x o) = x).
Proof.
  intros Ha Hp. unfold serve, apply_plain. rewrite Ha. destruct x as [l|d|z|made|ns]; try discriminate.
  - destruct (apply_list l o) as [[l' r]|]; cbn [fst snd]; auto.
  - destruct (apply_dict d o) as [[d' r]|]; cbn [fst snd]; auto.
  - destruct o; cbn [fst snd]; auto.
  - destruct o; cbn [fst snd]; auto; destruct (d_get k ns); cbn [fst snd]; auto.
Qed.

Lemma apply_plain_plain x o : is_plain x = true -> is_plain (fst (apply_plain x o)) = true.
Proof.
  intros H. unfold apply_plain. destruct x as [l|d|z|made|ns]; try discriminate.
  - destruct (apply_list l o) as [[l' r]|]; reflexivity.
  - destruct (apply_dict d o) as [[d' r]|]; reflexivity.
  - destruct o; reflexivity.
  - destruct o; try reflexivity; destruct (d_get k ns); reflexivity.
Qed.

Definition ops_to (a : nat) (reqs : list (nat * op)) : list op := map snd (filter (fun p => Nat.eqb (fst p) a) reqs).
Definition answers_to (a : nat) (reqs : list (nat * op)) (rs : list resp) : list resp :=
  map snd (filter (fun p => Nat.eqb (fst (fst p)) a) (combine reqs rs)).

(* whatever other objects are called in between, and whichever proxies carry the requests, the answers to the calls
   on one hosted list, dict or Value - and its final state - are those of the same calls made directly on it *)
Lemma proxy_equals_direct : forall reqs s a x,
  nth_error s a = Some x -> is_plain x = true ->
  answers_to a reqs (snd (run s reqs)) = snd (direct x (ops_to a reqs)) /\
  nth_error (fst (run s reqs)) a = Some (fst (direct x (ops_to a reqs))).
Proof.
  induction reqs as [|[id o] rest IH]; intros s a x Ha Hp; cbn [run].
  - cbn. auto.
  - destruct (serve s id o) as [s1 r] eqn:Es. destruct (run s1 rest) as [s2 rs] eqn:Er.
    unfold ops_to, answers_to. cbn [filter combine map fst snd].
    destruct (Nat.eqb id a) eqn:E; bool_to_prop.
    + subst id. cbn [map snd direct].
      destruct (apply_plain x o) as [x1 r1] eqn:Ea.
      assert (H1 : nth_error s1 a = Some x1 /\ r = r1).
      { destruct (serve_plain s a x o Ha Hp) as [Hs|[Hs Hx]]; rewrite Ea in *; cbn [fst snd] in *; rewrite Es in Hs; inv Hs.
        - split; [|reflexivity]. apply nth_error_set_obj_same. eapply nth_error_lt; eauto.
        - split; [exact Ha|reflexivity]. }
      destruct H1 as [H1 ->].
      assert (Hp1 : is_plain x1 = true) by (pose proof (apply_plain_plain x o Hp) as Q; rewrite Ea in Q; exact Q).
      destruct (IH s1 a x1 H1 Hp1) as [I1 I2]. rewrite Er in I1, I2. cbn [fst snd] in I1, I2.
      fold (ops_to a rest). destruct (direct x1 (ops_to a rest)) as [x2 rs2] eqn:Ed. cbn [fst snd] in *.
      split; [f_equal; exact I1|exact I2].
    + assert (H1 : nth_error s1 a = Some x).
      { pose proof (serve_other s id o a E (nth_error_lt _ _ _ Ha)) as Q. rewrite Es in Q. cbn [fst] in Q. congruence. }
      destruct (IH s1 a x H1 Hp) as [I1 I2]. rewrite Er in I1, I2. cbn [fst snd] in I1, I2.
      split; [exact I1|exact I2].
Qed.

(* a call that raises leaves the object as it was *)
Lemma error_leaves_state x o c arg : snd (apply_plain x o) = RErr c arg -> fst (apply_plain x o) = x.
Proof.
  unfold apply_plain. destruct x as [l|d|z|made|ns]; cbn [fst snd]; auto.
  - destruct (apply_list l o) as [[l' r]|] eqn:E; cbn [fst snd]; auto. intros ->.
    unfold apply_list in E. destruct o; try discriminate; break_match_hyp E; inv E; reflexivity.
  - destruct (apply_dict d o) as [[d' r]|] eqn:E; cbn [fst snd]; auto. intros ->.
    unfold apply_dict in E. destruct o; try discriminate; break_match_hyp E; inv E; reflexivity.
  - destruct o; cbn [fst snd]; auto; discriminate.
  - destruct o; cbn [fst snd]; auto; destruct (d_get k ns); cbn [fst snd]; auto; discriminate.
Qed.

(* a value returned through managed() is hosted: the answer is a proxy to it, and what the owner sees of it is its
   current state after whatever calls were made through that proxy *)
Lemma managed_value_is_live s f made xs reqs :
  nth_error s f = Some (OFactory made) ->
  (forall p, In p reqs -> fst p <> f) ->
  let j := length s in
  let s1 := fst (serve s f (FMakeList xs)) in
  snd (serve s f (FMakeList xs)) = RProxy j /\
  exists l', fst (direct (OList xs) (ops_to j reqs)) = OList l' /\
             snd (serve (fst (run s1 reqs)) f (FPeek (length made))) = ROk (VList l').
Proof.
  intros Hf Hnf j s1. unfold s1, serve at 1 2. rewrite Hf. cbn [fst snd]. split; [reflexivity|].
  set (s0 := set_obj f (OFactory (made ++ [length s])) s ++ [OList xs]).
  assert (Hflt : f < length s) by (eapply nth_error_lt; eauto).
  assert (Hj : nth_error s0 j = Some (OList xs)).
  { unfold s0, j. rewrite nth_error_app2 by (rewrite set_obj_length; lia). rewrite set_obj_length, Nat.sub_diag. reflexivity. }
  assert (Hf0 : nth_error s0 f = Some (OFactory (made ++ [length s]))).
  { unfold s0. rewrite nth_error_app1 by (rewrite set_obj_length; lia). apply nth_error_set_obj_same. lia. }
  destruct (proxy_equals_direct reqs s0 j (OList xs) Hj eq_refl) as [_ H2].
  (* the factory is not called, so it still has the same record of what it made *)
  assert (Hf2 : forall rq st, (forall p, In p rq -> fst p <> f) -> nth_error st f = Some (OFactory (made ++ [length s])) ->
                 nth_error (fst (run st rq)) f = Some (OFactory (made ++ [length s]))).
  { induction rq as [|[id o] rest IH]; intros st Hn Hst; cbn [run]; [exact Hst|].
    destruct (serve st id o) as [st1 r] eqn:Es. destruct (run st1 rest) as [st2 rs] eqn:Er. cbn [fst].
    assert (Hid : id <> f) by (apply (Hn (id, o)); now left).
    assert (H1 : nth_error st1 f = Some (OFactory (made ++ [length s]))).
    { pose proof (serve_other st id o f Hid (nth_error_lt _ _ _ Hst)) as Q. rewrite Es in Q. cbn [fst] in Q. congruence. }
    specialize (IH st1 (fun p Hp => Hn p (or_intror Hp)) H1). rewrite Er in IH. exact IH. }
  specialize (Hf2 reqs s0 Hnf Hf0).
  assert (Hpl : is_plain (fst (direct (OList xs) (ops_to j reqs))) = true).
  { generalize (ops_to j reqs) (OList xs) (eq_refl : is_plain (OList xs) = true).
    induction l as [|o l IH]; intros x Hx; cbn [direct]; [exact Hx|].
    destruct (apply_plain x o) as [x1 r1] eqn:Ea. destruct (direct x1 l) as [x2 rs2] eqn:Ed. cbn [fst].
    pose proof (apply_plain_plain x o Hx) as Q. rewrite Ea in Q. specialize (IH x1 Q). rewrite Ed in IH. exact IH. }
  (* a list stays a list *)
  assert (Hl : exists l', fst (direct (OList xs) (ops_to j reqs)) = OList l').
  { clear. generalize (ops_to j reqs). clear. intros ops. revert xs. induction ops as [|o ops IH]; intros ys; cbn [direct]; [exists ys; reflexivity|].
    unfold apply_plain. destruct (apply_list ys o) as [[l1 r1]|].
    - destruct (direct (OList l1) ops) as [x2 rs2] eqn:Ed. cbn [fst]. specialize (IH l1). rewrite Ed in IH. exact IH.
    - destruct (direct (OList ys) ops) as [x2 rs2] eqn:Ed. cbn [fst]. specialize (IH ys). rewrite Ed in IH. exact IH. }
  destruct Hl as [l' Hl]. exists l'. split; [exact Hl|].
  replace (fst (serve s f (FMakeList xs))) with s0 by (unfold serve; rewrite Hf; reflexivity).
  unfold serve. rewrite Hf2. rewrite nth_error_app2 by lia. rewrite Nat.sub_diag. cbn [nth_error].
  unfold j in H2, Hl. rewrite H2, Hl. reflexivity.
Qed.
