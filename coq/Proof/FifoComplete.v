(* Completeness of fifo_stream (C01): when the iteration completes normally the consumer has
   received one output for every source element and the source did not fail. *)
From MpV Require Import Lib.Tac Lib.Conc Model.FifoStream Proof.FifoProof.
Open Scope nat_scope.
Local Arguments seq : simpl never.

Definition is_task (it : qitem) : Prop := match it with Task _ => True | _ => False end.

Definition clean (g : cfg) (s : state) : Prop :=
  rest s = [] /\ pulled s = length (datas (src g)) /\ src g = map SData (datas (src g)).

Definition srcrel (g : cfg) (s : state) : Prop :=
  exists done, src g = map SData done ++ rest s /\ length done = pulled s.

Definition feeding (f : fpc) : bool :=
  match f with FIdle | FNext | FChk _ | FPre _ | FSubmit _ _ | FPut _ => true | _ => false end.

Definition f_over (f : fpc) : bool := match f with FDone | FDead _ => true | _ => false end.

Definition cp_outcome (c : cpc) : option outcome :=
  match c with
  | CSetStop o | CDrainChk o | CDrainGet o | CCancel _ o | CJoin o | CDone o => Some o
  | _ => None
  end.

Definition Inv3 (g : cfg) (s : state) : Prop :=
  (feeding (fp s) = true -> srcrel g s)
  /\ (phase1 (cp s) = true -> fp s = FPutEnd -> clean g s)
  /\ (phase1 (cp s) = true -> In QEnd (q s) ->
        clean g s /\ fp s = FDone /\ exists pre, q s = pre ++ [QEnd] /\ Forall is_task pre)
  /\ (phase1 (cp s) = true -> f_over (fp s) = false -> Forall is_task (q s))
  /\ (cp_outcome (cp s) = Some Completed ->
        clean g s /\ fp s = FDone /\ length (received s) = pulled s).

Lemma datas_map l : datas (map SData l) = l.
Proof. induction l; cbn; congruence. Qed.

Lemma srcrel_end_clean g s : srcrel g s -> rest s = [] -> clean g s.
Proof.
  intros [done [H1 H2]] Hr. rewrite Hr, app_nil_r in H1.
  assert (Hd : datas (src g) = done) by (rewrite H1; apply datas_map).
  unfold clean. rewrite Hd. auto.
Qed.

Lemma inv3_init g : Inv3 g (init g).
Proof.
  unfold Inv3, init; cbn. repeat split; try discriminate; try contradiction.
  - intros _. exists []. cbn. auto.
  - intros _ _. constructor.
Qed.

(* the pool workers do not touch anything Inv3 talks about *)
Lemma inv3_step_p g s j s' e : Inv3 g s -> step_p g s j = Some (s', e) -> Inv3 g s'.
Proof.
  destruct s as [f c p qq wq fu ts rs pu re dr ca]. unfold Inv3, clean, srcrel. cbn.
  intros H Hs. unfold step_p, with_pp, with_workq, with_futs, with_calls in Hs; cbn in Hs.
  break_match_hyp Hs; inv Hs; cbn in *; exact H.
Qed.

Lemma forall_task_app l it : Forall is_task l -> is_task it -> Forall is_task (l ++ [it]).
Proof. intros H1 H2. apply Forall_app; split; [assumption|constructor; [assumption|constructor]]. Qed.

Lemma in_task_not_end l : Forall is_task l -> ~ In QEnd l.
Proof. intros H Hin. rewrite Forall_forall in H. exact (H _ Hin). Qed.

(* the feeder's steps; needs Inv2's "phase 1 => to_stop is false" *)
Lemma inv3_step_f g s s' e : Inv2 g s -> Inv3 g s -> step_f g s = Some (s', e) -> Inv3 g s'.
Proof.
  destruct s as [f c p qq wq fu ts rs pu re dr ca]. unfold Inv2, Inv3, clean, srcrel. cbn.
  intros (_ & _ & _ & HD & _) (HJ & H1 & H2 & HK & HI) Hs.
  assert (Hts : phase1 c = true -> ts = false) by (intros Hp; apply HD; assumption).
  assert (Hnot1 : forall o, cp_outcome c = Some o -> phase1 c = false) by (destruct c; cbn; congruence).
  unfold step_f, f_put, qfull, with_fp, with_q, with_pulled, with_rest, with_dropped, with_futs, with_workq in Hs;
    cbn in Hs.
  destruct f; try discriminate Hs; cbn in *;
    try (destruct (HJ eq_refl) as [done [Hsrc Hlen]]);
    break_match_hyp Hs; inv Hs; cbn in *;
    (split; [|split; [|split; [|split]]]).
  (* conjunct 5: Completed would mean the feeder is already FDone *)
  all: try (intros Ho; destruct (HI Ho) as (_ & Hf & _); discriminate Hf).
  (* conjunct 1 *)
  all: try (intros Hx; discriminate Hx).
  all: try (intros _; exists done; split; first [assumption | reflexivity]).
  all: try (intros _; exists (done ++ [x]); rewrite map_app, <- app_assoc, app_length; cbn; split; [exact Hsrc|lia]).
  (* conjunct 2 *)
  all: try (intros _ Hx; discriminate Hx).
  all: try (intros Hp _; specialize (Hts Hp); discriminate Hts).
  all: try (intros Hp _; rewrite app_nil_r in Hsrc; rewrite Hsrc, datas_map; repeat split; reflexivity).
  (* conjuncts 3 and 4 when the queue is unchanged *)
  all: try (intros Hp Hin; exfalso; eapply in_task_not_end; [apply HK; auto|exact Hin]).
  all: try (intros Hp _; apply HK; auto).
  (* a task or the exception marker joins the queue *)
  all: try (intros Hp Hin; exfalso; apply in_app_or in Hin; destruct Hin as [Hin|[Hin|[]]]; [|discriminate Hin];
            eapply in_task_not_end; [apply HK; auto|exact Hin]).
  all: try (intros Hp _; apply forall_task_app; [apply HK; auto|exact I]).
  (* the end marker joins the queue *)
  all: try (intros Hp _; split; [apply (H1 Hp eq_refl)|split; [reflexivity|exists qq; split; [reflexivity|apply HK; auto]]]).
Qed.

Lemma task_head_split i q' pre :
  Task i :: q' = pre ++ [QEnd] -> Forall is_task pre ->
  exists pre', q' = pre' ++ [QEnd] /\ Forall is_task pre'.
Proof.
  destruct pre as [|a pre']; cbn; intros H HF; [discriminate|].
  injection H as Ha Hq. subst. exists pre'. split; [reflexivity|now inv HF].
Qed.

Lemma end_head_split q' pre :
  QEnd :: q' = pre ++ [QEnd] -> Forall is_task pre -> q' = [].
Proof.
  destruct pre as [|a pre']; cbn; intros H HF.
  - now injection H.
  - injection H as Ha _. subst a. inv HF. contradiction.
Qed.

Lemma seq_len_eq (l : list nat) n : l = seq 0 n -> length l = n.
Proof. intros ->. apply seq_length. Qed.

(* the consumer's steps *)
Lemma inv3_step_c g s s' e : Inv2 g s -> Inv3 g s -> step_c g s = Some (s', e) -> Inv3 g s'.
Proof.
  destruct s as [f c p qq wq fu ts rs pu re dr ca]. unfold Inv2, Inv3, clean, srcrel, cidx, fidx. cbn.
  intros (_ & _ & _ & HD & _ & _ & HG) (HJ & H1 & H2 & HK & HI) Hs.
  unfold step_c, after_recv, with_cp, with_fp, with_q, with_received, with_dropped, with_stop, with_futs in Hs;
    cbn in Hs.
  destruct c; try discriminate Hs; cbn in *;
    try (destruct (HG eq_refl) as (-> & -> & -> & -> & ->));
    break_match_hyp Hs; inv Hs; cbn in *;
    (split; [|split; [|split; [|split]]]).
  (* conjunct 1: the feeder's side is untouched *)
  all: try (intros Hf; apply HJ; exact Hf).
  all: try (intros _; apply HJ; reflexivity).
  (* conjuncts 2-4 when the consumer has left phase 1 *)
  all: try (intros Hx; discriminate Hx).
  (* conjunct 2 *)
  all: try (intros _ Hf; first [discriminate Hf | apply (H1 eq_refl Hf)]).
  (* conjunct 5 *)
  all: try (intros Ho; first [discriminate Ho | exact (HI Ho)]).
  (* a task was popped *)
  all: try (intros _ Hin;
            destruct (H2 eq_refl (or_intror Hin)) as (Hc & Hfd & pre & Hq & Hpre);
            split; [exact Hc|split; [exact Hfd|]]; eapply task_head_split; eassumption).
  all: try (intros _ Hf; pose proof (HK eq_refl Hf) as HT; inv HT; assumption).
  (* conjuncts 3, 4: queue unchanged *)
  all: try (intros _ Hin; first [contradiction | exact (H2 eq_refl Hin)]).
  all: try (intros _ Hf; first [apply Forall_nil | exact (HK eq_refl Hf)]).
  (* the end marker was popped: the iteration completes *)
  all: try (intros _;
            destruct (H2 eq_refl (or_introl eq_refl)) as (Hc & Hfd & pre & Hq & Hpre);
            pose proof (end_head_split _ _ Hq Hpre) as Hl; subst;
            destruct (HD eq_refl) as (_ & Heq); cbn in Heq; rewrite ?app_nil_r in Heq;
            apply seq_len_eq in Heq; rewrite map_length in Heq;
            split; [exact Hc|split; [reflexivity|exact Heq]]).
Qed.

Definition Inv23 (g : cfg) (s : state) : Prop := Inv2 g s /\ Inv3 g s.

Lemma inv23_step g s l s' e : Inv23 g s -> step g s l = Some (s', e) -> Inv23 g s'.
Proof.
  intros [H2 H3] Hs. split; [eapply inv2_step; eauto|].
  destruct l as [| |j]; cbn in Hs;
    [eapply inv3_step_f | eapply inv3_step_c | eapply inv3_step_p]; eauto.
Qed.

Lemma inv23_run g sched : Inv23 g (run step g (init g) sched).
Proof.
  apply (inv_run step g (Inv23 g)); [intros; eapply inv23_step; eauto|].
  split; [apply inv2_init | apply inv3_init].
Qed.

(* when the iteration completes normally the consumer has received exactly one output per source
   element, in order, each the outcome of its own input, and the source did not fail *)
Lemma fifo_complete g sched :
  let s := run step g (init g) sched in
  cp s = CDone Completed ->
  received s = expected_prefix g (length (datas (src g))) /\ src g = map SData (datas (src g)).
Proof.
  cbn. intros Hc. destruct (inv23_run g sched) as [(HA & _ & HC & _) (_ & _ & _ & _ & HI)].
  rewrite Hc in HI. destruct (HI eq_refl) as ((_ & Hp & Hsrc) & _ & Hlen).
  split; [|exact Hsrc]. rewrite <- Hp, <- Hlen. apply recv_shape; assumption.
Qed.
