(* Completeness of fifo_stream (C01): when the iteration completes normally the consumer has
   received one output for every source element and the source did not fail. *)
From MpV Require Import Lib.Tac Lib.Conc Model.FifoStream Proof.FifoProof.
Open Scope nat_scope.
Local Arguments seq : simpl never.

Definition is_task (it : qitem) : Prop := match it with Task _ => True | _ => False end.

Definition clean (g : cfg) (s : state) : Prop :=
  rest s = [] /\ pulled s = length (datas (src g)) /\ src g = map SData (datas (src g)).

Definition srcrel (g : cfg) (s : state) : Prop :=
  exists done, src g = map SData done ++ rest s /\ length done = pulled s.

Definition feeding (f : fpc) : bool :=
  match f with FIdle | FNext | FChk _ | FPre _ | FSubmit _ _ | FPut _ => true | _ => false end.

Definition f_over (f : fpc) : bool := match f with FDone | FDead _ => true | _ => false end.

Definition cp_outcome (c : cpc) : option outcome :=
  match c with
  | CSetStop o | CDrainChk o | CDrainGet o | CCancel _ o | CJoin o | CDone o => Some o
  | _ => None
  end.

Definition Inv3 (g : cfg) (s : state) : Prop :=
  (feeding (fp s) = true -> srcrel g s)
  /\ (phase1 (cp s) = true -> fp s = FPutEnd -> clean g s)
  /\ (phase1 (cp s) = true -> In QEnd (q s) ->
        clean g s /\ fp s = FDone /\ exists pre, q s = pre ++ [QEnd] /\ Forall is_task pre)
  /\ (phase1 (cp s) = true -> f_over (fp s) = false -> Forall is_task (q s))
  /\ (cp_outcome (cp s) = Some Completed ->
        clean g s /\ fp s = FDone /\ length (received s) = pulled s).

Lemma datas_map l : datas (map SData l) = l.
Proof. induction l; cbn; congruence. Qed.

Lemma srcrel_end_clean g s : srcrel g s -> rest s = [] -> clean g s.
Proof.
  intros [done [H1 H2]] Hr. rewrite Hr, app_nil_r in H1.
  assert (Hd : datas (src g) = done) by (rewrite H1; apply datas_map).
  unfold clean. rewrite Hd. auto.
Qed.

Lemma inv3_init g : Inv3 g (init g).
Proof.
  unfold Inv3, init; cbn. repeat split; try discriminate; try contradiction.
  - intros _. exists []. cbn. auto.
  - intros _ _. constructor.
Qed.

(* the pool workers do not touch anything Inv3 talks about *)
Lemma inv3_step_p g s j s' e : Inv3 g s -> step_p g s j = Some (s', e) -> Inv3 g s'.
Proof.
  destruct s as [f c p qq wq fu ts rs pu re dr ca]. unfold Inv3, clean, srcrel. cbn.
  intros H Hs. unfold step_p, with_pp, with_workq, with_futs, with_calls in Hs; cbn in Hs.
  break_match_hyp Hs; inv Hs; cbn in *; exact H.
Qed.
