From MpV Require Import Model.ProcOutcome.
From Coq Require Import Lia.

Lemma collect_resolved msgs code : collect msgs code <> Pending.
Proof.
  unfold collect. destruct msgs as [|m1 [|m2 r]].
  - destruct (- code =? 15); discriminate.
  - destruct m1; destruct (- code =? 15); discriminate.
  - destruct m1; destruct m2; discriminate.
Qed.

Lemma future_always_resolved g : parent_future g <> Pending.
Proof. unfold parent_future. destruct (child_run g) as [msgs code]. apply collect_resolved. Qed.

Lemma accessors_agree g :
  match parent_future g with
  | FResult v => acc_result (parent_future g) = Returns v /\ acc_join (parent_future g) = Returns PNone
                 /\ acc_exception (parent_future g) = Returns PNone /\ acc_wait (parent_future g) = Returns PNone
  | FError e => acc_result (parent_future g) = Raises e /\ acc_join (parent_future g) = Raises e
                /\ acc_exception (parent_future g) = Returns e /\ acc_wait (parent_future g) = Returns PNone
  | Pending => False
  end.
Proof.
  pose proof (future_always_resolved g) as H. destruct (parent_future g); cbn; auto.
Qed.

Lemma normal_endings g :
  kill g = NoKill ->
  parent_future g =
    match how g with
    | Return v => FResult (PVal v)
    | RaiseExc e => FError (PExc e)
    | ExitNone => FResult PNone
    | ExitInt n => if n =? 0 then FResult PNone else FError (PSysExit n)
    | ExitOther => FError PSysExitOther
    | RaiseUnsendable | ReturnUnsendable => FError (POSErr (-1))
    | HardExit n => if - n =? 15 then FResult PNone else FError (POSErr (- n))
    | ReturnUnloadable e => FError (PExc e)
    end.
Proof.
  intros Hk. unfold parent_future, child_run. rewrite Hk.
  destruct (how g) as [v|e| |n| | | |n|e]; cbn; try reflexivity.
  destruct (n =? 0); reflexivity.
Qed.

(* a child that ends by itself without having delivered its outcome - an outcome that cannot be pickled, os._exit - is
   reported as an error, never as a normal return *)
Lemma silent_child_failure_is_error g :
  kill g = NoKill -> sendable (how g) = false -> (forall n, how g = HardExit n -> n <> -15) ->
  exists c, parent_future g = FError c.
Proof.
  intros Hk Hs Hn. rewrite (normal_endings g Hk). destruct (how g) as [v|e| |n| | | |n|e]; try discriminate Hs; eauto.
  destruct (- n =? 15) eqn:E; [|eauto]. exfalso. apply (Hn n eq_refl). apply Z.eqb_eq in E. lia.
Qed.

Lemma killed_before_result g :
  kill g = KillBefore \/ kill g = KillDuring ->
  parent_future g = if sig g =? 15 then FResult PNone else FError (OS_ERROR (sig g)).
Proof.
  intros [Hk|Hk]; unfold parent_future, child_run; rewrite Hk;
    destruct (child_plan (how g)) as [[m1 m2] code]; cbn;
    rewrite !Z.opp_involutive; destruct (sig g =? 15); reflexivity.
Qed.

(* a kill after both messages were sent does not change what the parent reports *)
Lemma killed_after_sends g :
  kill g = KillAfter -> sendable (how g) = true ->
  parent_future g = parent_future {| how := how g; kill := NoKill; sig := sig g |}.
Proof.
  intros Hk Hs. unfold parent_future, child_run. rewrite Hk. cbn.
  destruct (how g) as [v|e| |n| | | |n|e]; try discriminate Hs; cbn; try reflexivity.
  destruct (n =? 0); reflexivity.
Qed.

Lemma thread_matches_process h :
  sendable h = true ->
  thread_future h = match parent_future {| how := h; kill := NoKill; sig := 15 |} with
                    | FResult v => FResult v | FError e => FError e | Pending => Pending end.
Proof.
  intros Hs. rewrite normal_endings by reflexivity. cbn.
  destruct h as [v|e| |n| | | |n|e]; try discriminate Hs; cbn; try reflexivity. destruct (n =? 0); reflexivity.
Qed.
