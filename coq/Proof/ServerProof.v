From MpV Require Import Lib.Tac Lib.Conc Model.Server.
Open Scope nat_scope.

Local Arguments T_K : simpl never.
Local Arguments T_B : simpl never.

(* ---- list helpers ------------------------------------------------------------------------ *)

Lemma nth_error_set_nth_eq {A} n (x : A) l y :
  nth_error (set_nth n x l) n = Some y -> y = x.
Proof.
  revert n; induction l as [|h t IH]; intros [|n]; cbn; intros H; try discriminate.
  - now inv H.
  - eauto.
Qed.

Lemma nth_error_set_nth_neq {A} n m (x : A) l :
  n <> m -> nth_error (set_nth n x l) m = nth_error l m.
Proof. revert n m; induction l as [|h t IH]; intros [|n] [|m] Hne; cbn; auto; try congruence. Qed.

Lemma remove_nat_length x l : length (remove_nat x l) <= length l.
Proof. unfold remove_nat. induction l as [|a l IH]; cbn; [lia|]. destruct (negb (x =? a)); cbn; lia. Qed.

Lemma T_K_inj i j : T_K i = T_K j -> i = j.
Proof. unfold T_K; lia. Qed.

(* ---- C06: the backlog never exceeds the capacity ----------------------------------------- *)

(* program points at which caller i holds the condition's lock *)
Definition held (pc : kpc) : bool :=
  match pc with KCheck | KWait | KSet | KPut | KUnlock _ => true | _ => false end.

Definition InvB (g : cfg) (s : state) : Prop :=
  (forall i pc, nth_error (kp s) i = Some pc -> held pc = true -> lock s = Some (T_K i))
  /\ (forall i, nth_error (kp s) i = Some KSet -> length (ledger s) < capacity g)
  /\ length (ledger s) <= capacity g
  /\ max_backlog s <= capacity g
  /\ (np s = NNotify \/ np s = NUnlock -> lock s = Some T_N).

Lemma T_N_not_K i : T_K i <> T_N.
Proof. unfold T_N, T_K. lia. Qed.

Lemma invb_init g : InvB g (init g).
Proof.
  unfold InvB, init; cbn. repeat split; try lia.
  - intros i pc H Hh. apply nth_error_In, repeat_spec in H. subst. discriminate.
  - intros i H. apply nth_error_In, repeat_spec in H. discriminate.
  - intros [H|H]; discriminate.
Qed.

(* what happens to the lock in a caller step *)
Ltac other_caller HP i j Hj Hh :=
  (* j <> i: its pc is unchanged; old invariant gives lock s = Some (T_K j) *)
  rewrite nth_error_set_nth_neq in Hj by congruence;
  pose proof (HP j _ Hj Hh) as Hlk; cbn in Hlk |- *.

Lemma invb_step_k g s i ex s' e : InvB g s -> step_k g s i ex = Some (s', e) -> InvB g s'.
Proof.
  intros (HP & HQ & HL & HM & HN) Hs. unfold step_k in Hs.
  destruct (nth_error (kp s) i) as [pc|] eqn:Ei; [|discriminate].
  destruct (nth_error (callers g) i) as [kc|] eqn:Ec; [|discriminate].
  pose proof (HP i pc Ei) as Hme.
  destruct pc, ex; try discriminate Hs; cbn in Hme;
    try (specialize (Hme eq_refl));
    break_match_hyp Hs; inv Hs; bool_to_prop;
    unfold InvB, set_kp, set_lock, set_waiters, set_ledger, set_qin, set_futs; cbn;
    (split; [|split; [|split; [|split]]]);
    try lia;
    try (intros Hn; specialize (HN Hn); cbn; first [ exact HN | congruence | (exfalso; rewrite Hme in HN; inv HN; eapply T_N_not_K; eassumption) ]);
    try (intros j pcj Hj Hh; destruct (Nat.eq_dec j i) as [->|Hne];
         [ apply nth_error_set_nth_eq in Hj; subst; try discriminate Hh; try reflexivity; try assumption
         | other_caller HP i j Hj Hh; try congruence;
           try (exfalso; assert (HT : T_K i = T_K j) by congruence; apply T_K_inj in HT; congruence) ]);
    try (intros j Hj; destruct (Nat.eq_dec j i) as [->|Hne];
         [ apply nth_error_set_nth_eq in Hj; try discriminate Hj; try lia
         | rewrite nth_error_set_nth_neq in Hj by congruence;
           try (apply HQ in Hj; lia);
           (* another caller in KSet would hold the lock we hold *)
           try (pose proof (HP j _ Hj eq_refl) as Hlk; exfalso;
                assert (HT : T_K i = T_K j) by congruence; apply T_K_inj in HT; congruence) ]).
  all: try (rewrite app_length; cbn; pose proof (HQ i Ei); lia).
  all: try (rewrite app_length; cbn; pose proof (HQ i Ei); apply Nat.max_lub; lia).
Qed.

Lemma invb_step_g g s s' e : InvB g s -> step_g g s = Some (s', e) -> InvB g s'.
Proof.
  intros (HP & HQ & HL & HM & HN) Hs. unfold step_g in Hs.
  break_match_hyp Hs; inv Hs;
    unfold InvB, set_gp, set_qout, set_ledger, set_futs, set_qn, add_dropped; cbn;
    (split; [exact HP|split; [|split; [|split; [|first [exact HN | intros Hx; match goal with E : np s = _ |- _ => rewrite E in Hx end; exact (HN Hx)]]]]]); try assumption;
    try (intros i Hi; specialize (HQ i Hi); pose proof (remove_nat_length u (ledger s)); lia);
    try (pose proof (remove_nat_length u (ledger s)); lia);
    try (pose proof (remove_nat_length u (ledger s)); apply Nat.max_lub; lia).
Qed.

Lemma invb_step_n g s s' e : InvB g s -> step_n g s = Some (s', e) -> InvB g s'.
Proof.
  intros (HP & HQ & HL & HM & HN) Hs. unfold step_n in Hs.
  destruct (np s) eqn:En; try discriminate Hs.
  - (* NGet *) break_match_hyp Hs; inv Hs; unfold InvB, set_np, set_qn; cbn;
      (split; [exact HP|split; [exact HQ|split; [exact HL|split; [exact HM|]]]]);
      intros [H|H]; discriminate H.
  - (* NLock: acquires a free lock *)
    destruct (lock s) eqn:El; [discriminate|]. inv Hs. unfold InvB, set_np, set_lock; cbn.
    split; [|split; [exact HQ|split; [exact HL|split; [exact HM|intros _; reflexivity]]]].
    intros i pc Hi Hh. specialize (HP i pc Hi Hh). congruence.
  - (* NNotify *)
    specialize (HN (or_introl eq_refl)).
    destruct (waiters s) as [|w r] eqn:Ew; inv Hs; unfold InvB, set_np, set_kp, set_waiters; cbn.
    + split; [exact HP|split; [exact HQ|split; [exact HL|split; [exact HM|intros _; exact HN]]]].
    + split; [|split; [|split; [exact HL|split; [exact HM|intros _; exact HN]]]].
      * intros i pc Hi Hh. destruct (Nat.eq_dec w i) as [->|Hne].
        -- apply nth_error_set_nth_eq in Hi. subst. discriminate.
        -- rewrite nth_error_set_nth_neq in Hi by assumption. eauto.
      * intros i Hi. destruct (Nat.eq_dec w i) as [->|Hne].
        -- apply nth_error_set_nth_eq in Hi. discriminate.
        -- rewrite nth_error_set_nth_neq in Hi by assumption. eauto.
  - (* NUnlock *)
    specialize (HN (or_intror eq_refl)). inv Hs. unfold InvB, set_np, set_lock; cbn.
    split; [|split; [exact HQ|split; [exact HL|split; [exact HM|intros [H|H]; discriminate H]]]].
    intros i pc Hi Hh. specialize (HP i pc Hi Hh). exfalso.
    assert (HT : T_K i = T_N) by congruence. eapply T_N_not_K; exact HT.
Qed.

Lemma invb_step_b g s j s' e : InvB g s -> step_b g s j = Some (s', e) -> InvB g s'.
Proof.
  intros (HP & HQ & HL & HM & HN) Hs. unfold step_b in Hs.
  break_match_hyp Hs; inv Hs; unfold InvB, set_bp, set_qin, set_qout; cbn;
    (split; [exact HP|split; [exact HQ|split; [exact HL|split; [exact HM|exact HN]]]]).
Qed.

Lemma invb_step_m g s s' e : InvB g s -> step_m g s = Some (s', e) -> InvB g s'.
Proof.
  intros (HP & HQ & HL & HM & HN) Hs. unfold step_m in Hs.
  break_match_hyp Hs; inv Hs; unfold InvB, set_mp, set_qin, set_qout; cbn;
    (split; [exact HP|split; [exact HQ|split; [exact HL|split; [exact HM|exact HN]]]]).
Qed.

Lemma invb_step g s l s' e : InvB g s -> step g s l = Some (s', e) -> InvB g s'.
Proof.
  destruct l as [i ex| | |j|]; cbn; intros H Hs;
    [eapply invb_step_k | eapply invb_step_g | eapply invb_step_n | eapply invb_step_b | eapply invb_step_m]; eauto.
Qed.

Lemma backlog_le_capacity g sched :
  backlog (run step g (init g) sched) <= capacity g /\ max_backlog (run step g (init g) sched) <= capacity g.
Proof.
  assert (H : InvB g (run step g (init g) sched)).
  { apply (inv_run step g (InvB g)); [intros; eapply invb_step; eauto | apply invb_init]. }
  destruct H as (_ & _ & HL & HM & _). unfold backlog. auto.
Qed.

(* ---- C07: the gather thread is never killed ----------------------------------------------- *)

Definition InvG (s : state) : Prop :=
  match gp s with GFinalPut d | GJoin d | GDone d => d = false | _ => True end.

Lemma invg_step g s l s' e : InvG s -> step g s l = Some (s', e) -> InvG s'.
Proof.
  unfold InvG. intros H Hs. destruct l as [i ex| | |j|]; cbn in Hs.
  - unfold step_k in Hs. break_match_hyp Hs; inv Hs; cbn; exact H.
  - unfold step_g in Hs. break_match_hyp Hs; inv Hs; cbn in *; try exact I; try reflexivity; try exact H.
  - unfold step_n in Hs. break_match_hyp Hs; inv Hs; cbn; exact H.
  - unfold step_b in Hs. break_match_hyp Hs; inv Hs; cbn; exact H.
  - unfold step_m in Hs. break_match_hyp Hs; inv Hs; cbn in *; first [exact H | reflexivity | exact I | (match goal with E : gp s = _ |- _ => rewrite E end; reflexivity)].
Qed.

Lemma gather_never_dies g sched : gather_dead (run step g (init g) sched) = false.
Proof.
  assert (H : InvG (run step g (init g) sched)).
  { apply (inv_run step g InvG); [intros; eapply invg_step; eauto | exact I]. }
  unfold InvG in H. unfold gather_dead. destruct (gp (run step g (init g) sched)); try reflexivity; now subst.
Qed.

(* ---- C02 / C07: every answer is the servlet's function of the caller's own input ---------- *)

Definition result_of (g : cfg) (u : nat) : res :=
  match nth_error (callers g) u with Some kc => serve g (arg kc) | None => Ok 0%Z end.

Definition gp_ok (g : cfg) (p : gpc) : Prop :=
  match p with GPop u y | GChk u y | GSet u y => y = result_of g u | _ => True end.

Definition InvR (g : cfg) (s : state) : Prop :=
  (forall i r, nth_error (futs s) i = Some (FDone r) -> r = result_of g i)
  /\ (forall u y, In (Ans u y) (q_out s) -> y = result_of g u)
  /\ gp_ok g (gp s)
  /\ (forall i r, nth_error (kp s) i = Some (KDone (Answered r)) -> r = result_of g i).

Lemma invr_init g : InvR g (init g).
Proof.
  unfold InvR, init; cbn. repeat split.
  - intros i r H. apply nth_error_In, repeat_spec in H. discriminate.
  - intros u y [].
  - intros i r H. apply nth_error_In, repeat_spec in H. discriminate.
Qed.

Lemma invr_step g s l s' e : InvR g s -> step g s l = Some (s', e) -> InvR g s'.
Proof.
  intros (HF & HO & HG & HK) Hs. destruct l as [i ex| | |j|]; cbn in Hs.
  - (* caller *)
    unfold step_k in Hs.
    destruct (nth_error (kp s) i) as [pc|] eqn:Ei; [|discriminate].
    destruct (nth_error (callers g) i) as [kc|] eqn:Ec; [|discriminate].
    destruct pc, ex; try discriminate Hs; break_match_hyp Hs; inv Hs;
      unfold InvR, set_kp, set_lock, set_waiters, set_ledger, set_qin, set_futs; cbn;
      (split; [|split; [exact HO|split; [exact HG|]]]);
      try exact HF;
      try (intros j0 r0 Hj0; destruct (Nat.eq_dec i j0) as [->|Hne];
           [ apply nth_error_set_nth_eq in Hj0; first [discriminate Hj0 | (inv Hj0; eauto)]
           | rewrite nth_error_set_nth_neq in Hj0 by assumption; eauto ]).
  - (* gather *)
    unfold step_g in Hs.
    break_match_hyp Hs; inv Hs;
      unfold InvR, set_gp, set_qout, set_ledger, set_futs, set_qn, add_dropped; cbn in *;
      (split; [|split; [|split; [|exact HK]]]);
      try exact HF; try exact HO; try exact I; try exact HG;
      try (intros u0 y0 Hin; apply HO; rewrite Heql; right; exact Hin);
      try (apply HO; rewrite Heql; left; reflexivity);
      try (intros j0 r0 Hj0; destruct (Nat.eq_dec u j0) as [->|Hne];
           [ apply nth_error_set_nth_eq in Hj0; inv Hj0; exact HG
           | rewrite nth_error_set_nth_neq in Hj0 by assumption; eauto ]).
    all: try (intros u0 y0 Hin; apply HO; right; exact Hin).
    all: try (apply HO; left; reflexivity).
    all: try (intros j0 r0 Hj0; destruct (Nat.eq_dec u j0) as [Heq|Hne];
              [ subst j0; apply nth_error_set_nth_eq in Hj0; injection Hj0 as Hj0; congruence
              | rewrite nth_error_set_nth_neq in Hj0 by assumption; eauto ]).
  - (* notifier *)
    unfold step_n in Hs.
    break_match_hyp Hs; inv Hs; unfold InvR, set_np, set_qn, set_lock, set_kp, set_waiters; cbn;
      (split; [exact HF|split; [exact HO|split; [exact HG|]]]); try exact HK.
    intros i r Hi. destruct (Nat.eq_dec n i) as [->|Hne].
    + apply nth_error_set_nth_eq in Hi. discriminate.
    + rewrite nth_error_set_nth_neq in Hi by assumption. eauto.
  - (* servlet worker *)
    unfold step_b in Hs.
    break_match_hyp Hs; inv Hs; unfold InvR, set_bp, set_qin, set_qout; cbn;
      (split; [exact HF|split; [|split; [exact HG|exact HK]]]); try exact HO.
    intros u0 y0 Hin. apply in_app_or in Hin. destruct Hin as [Hin|[Hin|[]]]; [eauto|].
    injection Hin as <- <-. unfold result_of.
    match goal with E : nth_error (callers g) _ = Some _ |- _ => now rewrite E end.
  - unfold step_m in Hs.
    break_match_hyp Hs; inv Hs; unfold InvR, set_mp, set_qin, set_qout; cbn;
      (split; [exact HF|split; [|split; [first [exact HG | (match goal with E : gp s = _ |- _ => rewrite E end; exact I)]|exact HK]]]); try exact HO.
    intros u0 y0 Hin. apply in_app_or in Hin. destruct Hin as [Hin|[Hin|[]]]; [eauto|discriminate].
Qed.

Lemma answers_are_own_results g sched i r :
  nth_error (kp (run step g (init g) sched)) i = Some (KDone (Answered r)) -> r = result_of g i.
Proof.
  assert (H : InvR g (run step g (init g) sched)).
  { apply (inv_run step g (InvR g)); [intros; eapply invr_step; eauto | apply invr_init]. }
  destruct H as (_ & _ & _ & HK). apply HK.
Qed.
