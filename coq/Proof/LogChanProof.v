From MpV Require Import Lib.Tac Lib.Conc Model.LogChan.
Open Scope nat_scope.

Definition recs (l : list msg) : list nat := flat_map (fun m => match m with Rec i => [i] | EndMark => [] end) l.
Fixpoint nend (l : list msg) : nat :=
  match l with [] => 0 | Rec _ :: r => nend r | EndMark :: r => S (nend r) end.
Definition is_nil {A} (l : list A) : bool := match l with [] => true | _ => false end.
(* no record behind the end marker *)
Fixpoint ends_ok (l : list msg) : bool :=
  match l with [] => true | Rec _ :: r => ends_ok r | EndMark :: r => is_nil r end.

Lemma recs_app a b : recs (a ++ b) = recs a ++ recs b.
Proof. unfold recs. apply flat_map_app. Qed.
Lemma recs_rec i r : recs (Rec i :: r) = i :: recs r.
Proof. reflexivity. Qed.
Lemma recs_end r : recs (EndMark :: r) = recs r.
Proof. reflexivity. Qed.
Lemma recs_nil : recs [] = [].
Proof. reflexivity. Qed.
Local Arguments recs : simpl never.
Local Arguments seq : simpl never.
Ltac rs := rewrite ?recs_app, ?recs_rec, ?recs_end, ?recs_nil, ?app_nil_r in *.
Lemma nend_app a b : nend (a ++ b) = nend a + nend b.
Proof. induction a as [|[i|] a IH]; cbn; auto. Qed.
Lemma ends_ok_snoc l m : ends_ok (l ++ [m]) = ends_ok l && (nend l =? 0).
Proof.
  induction l as [|[i|] r IH]; cbn; auto.
  - destruct m; reflexivity.
  - destruct r; cbn; reflexivity.
Qed.
Lemma ends_ok_end r : ends_ok (EndMark :: r) = true -> r = [].
Proof. cbn. destruct r; [reflexivity|discriminate]. Qed.

Definition emitted (g : cfg) (s : state) : nat := match cm s with CEmit k => k | _ => nrec g end.

(* ---- order: holds with and without the flush ------------------------------------------------ *)
Record InvO (g : cfg) (s : state) : Prop := {
  o_seq : recs (reads s) ++ recs (pipe s) ++ recs (cbuf s) = seq 0 (emitted g s);
  o_pbuf : recs (pbuf s) = [];
  o_handled : handled s = filter (passes g) (recs (reads s));
  o_le : emitted g s <= nrec g
}.

Lemma invo_init g : InvO g (init g).
Proof. constructor; cbn; auto. lia. Qed.

Ltac mk := constructor; unfold emitted in *; cbn [cm cbuf pipe sent pc pbuf stopped reads handled] in *.

Lemma invo_step g s l s' e : InvO g s -> step g s l = Some (s', e) -> InvO g s'.
Proof.
  intros [H1 H2 H3 H4] H. unfold emitted in *.
  destruct s as [c cb pi se p pb st rd hd]; cbn [cm cbuf pipe sent pc pbuf stopped reads handled] in *.
  destruct l; cbn [step cm cbuf pipe sent pc pbuf stopped reads handled] in H.
  - (* child main *)
    destruct c as [k| | | |].
    + destruct (k <? nrec g) eqn:E; inv H; bool_to_prop; mk; auto; try lia.
      * rewrite seq_S, <- H1. rs. rewrite <- !app_assoc. reflexivity.
      * destruct (flush_first g); cbn; replace (nrec g) with k by lia; auto.
      * destruct (flush_first g); cbn; lia.
    + destruct cb; inv H. mk; auto.
    + inv H. mk; auto.
    + destruct cb; inv H. mk; auto.
    + discriminate.
  - (* child feeder *)
    destruct cb as [|m r]; [discriminate|]. destruct (length pi <? pipe_cap g); inv H.
    mk; auto. rewrite <- H1. destruct m; rs; rewrite <- ?app_assoc; reflexivity.
  - (* parent collector *)
    destruct p.
    + destruct se; inv H. mk; auto.
    + inv H. mk; auto. rs. rewrite H2. reflexivity.
    + discriminate.
  - (* parent feeder *)
    destruct pb as [|m r]; [discriminate|]. destruct (length pi <? pipe_cap g); inv H.
    destruct m as [i|]; rs; [discriminate|].
    mk; auto. rs. exact H1.
  - (* logger thread *)
    destruct st; [discriminate|]. destruct pi as [|[i|] r]; inv H.
    + mk; auto.
      * rs. rewrite <- app_assoc. exact H1.
      * rs. rewrite filter_app. cbn [filter]. destruct (passes g i); now rewrite ?app_nil_r.
    + mk; auto.
      * rs. exact H1.
      * rs. reflexivity.
Qed.

Lemma invo_run g sched : InvO g (run step g (init g) sched).
Proof. apply (inv_run step g (InvO g)); [intros; eapply invo_step; eauto | apply invo_init]. Qed.

Lemma seq_prefix_gen a : forall b st k, a ++ b = seq st k -> a = seq st (length a).
Proof.
  induction a as [|x a IH]; intros b st k H; [reflexivity|].
  destruct k as [|k]; [discriminate|]. rewrite <- cons_seq in H. cbn [app] in H.
  injection H as Hx Hr. subst x. cbn [length]. rewrite <- cons_seq. f_equal. eapply IH; eauto.
Qed.

Lemma seq_prefix a b k : a ++ b = seq 0 k -> a = seq 0 (length a).
Proof. apply seq_prefix_gen. Qed.

(* what the parent has handled so far is, at every moment and in both variants of the protocol, the level-filtered
   image of an initial segment of the emitted records: in emission order, none twice, none invented *)
Lemma handled_in_order_once g sched :
  let s := run step g (init g) sched in
  exists n, n <= nrec g /\ handled s = filter (passes g) (seq 0 n).
Proof.
  intros s. destruct (invo_run g sched) as [H1 _ H3 H4]. fold s in H1, H3, H4.
  exists (length (recs (reads s))). split.
  - assert (length (recs (reads s)) <= emitted g s).
    { rewrite <- (seq_length (emitted g s) 0), <- H1, app_length. lia. }
    lia.
  - rewrite H3. f_equal. eapply seq_prefix; eauto.
Qed.

(* ---- completeness and absence of wedged states: the protocol with the flush ------------------- *)
Definition c_after (c : cpc) : bool := match c with CExit | CExited => true | _ => false end.
Definition c_send (c : cpc) : bool := match c with CSend => true | _ => false end.
Definition p_started (p : ppc) : bool := match p with PRecv => false | _ => true end.
Definition p_done (p : ppc) : bool := match p with PDone => true | _ => false end.

Record InvF (g : cfg) (s : state) : Prop := {
  f_sent : sent s = c_after (cm s);
  f_flushed : c_send (cm s) || c_after (cm s) = true -> cbuf s = [];
  f_started : p_started (pc s) = true -> sent s = true;
  f_count : nend (pbuf s) + nend (pipe s) + nend (reads s) = (if p_done (pc s) then 1 else 0);
  f_cbuf : nend (cbuf s) = 0;
  f_ends : ends_ok (pipe s) = true;
  f_stopped : stopped s = (0 <? nend (reads s));
  f_pbuf : recs (pbuf s) = [];
  f_after : 0 < nend (reads s) -> recs (pipe s) = []
}.

Lemma invf_init g : InvF g (init g).
Proof. constructor; cbn; auto; discriminate. Qed.

Ltac fz :=
  cbn [cm cbuf pipe sent pc pbuf stopped reads handled c_after c_send p_started p_done orb nend] in *;
  rewrite ?nend_app, ?ends_ok_snoc in *; rs; cbn [nend app] in *;
  auto; try lia; try congruence; try discriminate.

Lemma invf_step g s l s' e : flush_first g = true -> InvF g s -> step g s l = Some (s', e) -> InvF g s'.
Proof.
  intros HF [H1 H2 H3 H4 H5 H6 H7 H8 H9] H.
  destruct s as [c cb pi se p pb st rd hd]; cbn [cm cbuf pipe sent pc pbuf stopped reads handled] in *.
  destruct l; cbn [step cm cbuf pipe sent pc pbuf stopped reads handled] in H; try rewrite HF in H.
  - destruct c as [k| | | |].
    + destruct (k <? nrec g); injection H as <- <-; constructor; fz.
    + destruct cb; [|discriminate]. injection H as <- <-. constructor; fz.
    + injection H as <- <-. constructor; fz.
    + destruct cb; [|discriminate]. injection H as <- <-. constructor; fz.
    + discriminate.
  - destruct cb as [|m r]; [discriminate|]. destruct (length pi <? pipe_cap g); [|discriminate]. injection H as <- <-.
    assert (Hc : c_send c || c_after c = false).
    { destruct (c_send c || c_after c) eqn:E; [|reflexivity]. specialize (H2 eq_refl). discriminate. }
    apply orb_false_iff in Hc. destruct Hc as [Hcs Hca]. rewrite Hca in H1. subst se.
    assert (Hp : p_started p = false) by (destruct (p_started p); [specialize (H3 eq_refl); discriminate|reflexivity]).
    assert (Hd : p_done p = false) by (destruct p; cbn in *; congruence).
    rewrite Hd in H4. destruct m as [i|]; cbn [nend] in H5; [|discriminate].
    constructor; fz.
    + rewrite Hcs, Hca. discriminate.
    + rewrite Hd. lia.
    + rewrite H6. cbn. apply Nat.eqb_eq. lia.
  - destruct p.
    + destruct se eqn:Es; [|discriminate]. injection H as <- <-. constructor; fz.
    + injection H as <- <-. constructor; fz.
    + discriminate.
  - destruct pb as [|m r]; [discriminate|]. destruct (length pi <? pipe_cap g); [|discriminate]. injection H as <- <-.
    destruct m as [i|]; rs; [discriminate|].
    constructor; fz.
    + rewrite H6. cbn. apply Nat.eqb_eq. destruct (p_done p); lia.
  - destruct st; [discriminate|]. destruct pi as [|[i|] r]; [discriminate| |]; injection H as <- <-.
    + constructor; fz.
      * now rewrite Nat.add_0_r.
      * rewrite Nat.add_0_r. intros Hn. specialize (H9 Hn). discriminate.
    + pose proof (ends_ok_end _ H6) as Hr. subst r. constructor; fz.
      symmetry. apply Nat.ltb_lt. lia.
Qed.

Lemma invf_run g sched : flush_first g = true -> InvF g (run step g (init g) sched).
Proof. intros HF. apply (inv_run step g (InvF g)); [intros; eapply invf_step; eauto | apply invf_init]. Qed.

(* when the logger thread has stopped, every record the child emitted has been handled (subject to the level),
   in emission order, once *)
Lemma all_records_handled g sched :
  flush_first g = true ->
  let s := run step g (init g) sched in
  stopped s = true -> handled s = expected_handled g.
Proof.
  intros HF s Hst.
  destruct (invo_run g sched) as [O1 O2 O3 O4]. destruct (invf_run g sched HF) as [F1 F2 F3 F4 F5 F6 F7 F8 F9].
  fold s in O1, O2, O3, O4, F1, F2, F3, F4, F5, F6, F7, F8, F9.
  rewrite Hst in F7. symmetry in F7. apply Nat.ltb_lt in F7.
  assert (Hd : p_done (pc s) = true) by (destruct (p_done (pc s)); [reflexivity|lia]).
  assert (Hs : sent s = true) by (apply F3; destruct (pc s); cbn in *; congruence).
  rewrite Hs in F1. symmetry in F1.
  assert (Hcb : cbuf s = []) by (apply F2; rewrite F1; apply orb_true_r).
  rewrite (F9 F7), Hcb in O1. rs. cbn [app] in O1.
  assert (He : emitted g s = nrec g) by (unfold emitted; destruct (cm s); cbn in F1; congruence).
  rewrite He in O1. rewrite O3, O1. reflexivity.
Qed.

Lemma step_none_cm g s :
  step g s CM = None -> (cm s = CFlush /\ cbuf s <> []) \/ (cm s = CExit /\ cbuf s <> []) \/ cm s = CExited.
Proof.
  cbn [step]. destruct (cm s) as [k| | | |]; intros H.
  - destruct (k <? nrec g); discriminate.
  - destruct (cbuf s); [discriminate|]. left. split; [reflexivity|discriminate].
  - discriminate.
  - destruct (cbuf s); [discriminate|]. right. left. split; [reflexivity|discriminate].
  - auto.
Qed.

(* a state in which no thread can move is the final one: the child has exited (so join returns), the collector has
   delivered the outcome and the logger thread has stopped *)
Lemma stuck_is_finished g s :
  flush_first g = true -> 0 < pipe_cap g -> InvF g s -> stuck g s = true -> finished s = true.
Proof.
  intros HF Hcap [F1 F2 F3 F4 F5 F6 F7 F8 F9] Hst. unfold stuck in Hst.
  destruct (step g s CM) eqn:Ecm; [destruct p; discriminate|].
  destruct (step g s CF) eqn:Ecf; [destruct p; discriminate|].
  destruct (step g s PC) eqn:Epc; [destruct p; discriminate|].
  destruct (step g s PF) eqn:Epf; [destruct p; discriminate|].
  destruct (step g s R) eqn:Er; [destruct p; discriminate|]. clear Hst.
  apply step_none_cm in Ecm. cbn [step] in Ecf, Epc, Epf, Er.
  (* the logger thread has stopped: otherwise the pipe is empty, so both feeders have nothing left, the child
     has exited, the collector has put the end marker, and the marker is nowhere *)
  assert (Hstop : stopped s = true).
  { destruct (stopped s) eqn:Es; [reflexivity|exfalso].
    destruct (pipe s) as [|m r] eqn:Ep; [|destruct m; discriminate].
    assert (Hlt : (length (@nil msg) <? pipe_cap g) = true) by (apply Nat.ltb_lt; cbn; lia).
    rewrite Hlt in Ecf, Epf.
    destruct (cbuf s) eqn:Ecb; [|discriminate]. destruct (pbuf s) eqn:Epb; [|discriminate].
    destruct Ecm as [[_ Hn]|[[_ Hn]|Hex]]; try (now apply Hn).
    rewrite Hex in F1. cbn in F1. rewrite F1 in Epc.
    destruct (pc s) eqn:Ep'; try discriminate.
    cbn in F4. symmetry in F7. apply Nat.ltb_ge in F7. lia. }
  rewrite Hstop in F7. symmetry in F7. apply Nat.ltb_lt in F7.
  assert (Hd : p_done (pc s) = true) by (destruct (p_done (pc s)); [reflexivity|lia]).
  assert (Hs : sent s = true) by (apply F3; destruct (pc s); cbn in *; congruence).
  rewrite Hs in F1. symmetry in F1.
  assert (Hcb : cbuf s = []) by (apply F2; rewrite F1; apply orb_true_r).
  unfold finished. destruct Ecm as [[_ Hn]|[[_ Hn]|Hex]]; try (exfalso; now apply Hn).
  rewrite Hex. destruct (pc s); cbn in Hd; try discriminate. exact Hstop.
Qed.

Lemma no_wedge g sched :
  flush_first g = true -> 0 < pipe_cap g ->
  stuck g (run step g (init g) sched) = true -> finished (run step g (init g) sched) = true.
Proof. intros HF Hc. apply stuck_is_finished; auto using invf_run. Qed.
