From MpV Require Import Lib.Tac Model.RemoteExc.

Lemma infix_refl x : Infix x x.
Proof. exists [], []. now rewrite app_nil_r. Qed.

Lemma infix_trans x y z : Infix x y -> Infix y z -> Infix x z.
Proof.
  intros [a [b ->]] [c [d ->]]. exists (c ++ a), (b ++ d). now rewrite <- !app_assoc.
Qed.

(* what arrives after a hop *)
Definition arrived (e : exc) : Prop := live_tb e = None /\ exists t, cause_tb e = Some t.

Lemma hop_arrived p a e e' : hop p a e = Some e' -> arrived e' /\ cls e' = cls e /\ args e' = args e.
Proof.
  unfold hop, wrap, arrived. destruct a; cbn.
  - destruct (live_tb e); [|destruct (cause_tb e)]; intros H; inv H; cbn;
      (split; [split; [reflexivity|eexists; reflexivity]|split; reflexivity]).
  - intros H; inv H; cbn. (split; [split; [reflexivity|eexists; reflexivity]|split; reflexivity]).
Qed.

(* one hop from an exception that arrived from another process: the text it carries afterwards
   contains the text it arrived with; identical if it was only forwarded *)
Lemma hop_text p a e e' :
  arrived e -> hop p a e = Some e' ->
  Infix (remote_text e) (remote_text e') /\ (a = Forward -> remote_text e' = remote_text e).
Proof.
  intros [Hl [t Ht]]. unfold hop, wrap. destruct a; cbn.
  - rewrite Hl, Ht. intros H; inv H. unfold remote_text; cbn. rewrite Ht.
    split; [apply infix_refl|reflexivity].
  - intros H; inv H. unfold remote_text, format_exception; cbn. rewrite Ht. split; [|discriminate].
    exists [tok_proc p; TOK_RTB], ([TOK_SEP] ++ [TOK_HDR] ++ frames ++ [tok_exc (cls e)]).
    cbn. now rewrite <- !app_assoc.
Qed.

Lemma hop_never_fails_after_arrival p a e : arrived e -> exists e', hop p a e = Some e'.
Proof.
  intros [Hl [t Ht]]. unfold hop, wrap. destruct a; cbn; [rewrite Hl, Ht|]; eauto.
Qed.

Lemma hops_from_arrived acts : forall p e,
  arrived e ->
  exists ek, hops p acts e = Some ek
    /\ cls ek = cls e /\ args ek = args e /\ is_remote ek = true
    /\ Infix (remote_text e) (remote_text ek)
    /\ (Forall (fun a => a = Forward) acts -> remote_text ek = remote_text e).
Proof.
  induction acts as [|a acts IH]; intros p e Ha; cbn.
  - exists e. destruct Ha as [_ [t Ht]]. unfold is_remote. rewrite Ht.
    repeat split; auto using infix_refl.
  - destruct (hop_never_fails_after_arrival p a e Ha) as [e1 H1]. rewrite H1.
    destruct (hop_arrived _ _ _ _ H1) as (Ha1 & Hc & Hg).
    destruct (hop_text _ _ _ _ Ha H1) as (Hi & Hf).
    destruct (IH (p + 1)%Z e1 Ha1) as (ek & Hk & Hck & Hgk & Hr & Hik & Hfk).
    exists ek. repeat split; try congruence.
    + eapply infix_trans; eassumption.
    + intros HF. inv HF. rewrite Hfk by assumption. auto.
Qed.

(* the whole journey: raised at the origin with some frames, wrapped, then any number of hops *)
Lemma journey frames0 acts p e0 :
  live_tb e0 = None -> cause_tb e0 = None ->
  exists e1, hop p (Reraise frames0) e0 = Some e1 /\
  exists ek, hops (p + 1) acts e1 = Some ek
    /\ cls ek = cls e0 /\ args ek = args e0 /\ is_remote ek = true
    /\ Infix (remote_text e1) (remote_text ek)
    /\ (Forall (fun a => a = Forward) acts -> remote_text ek = remote_text e1)
    /\ remote_text e1 = [tok_proc p; TOK_HDR] ++ frames0 ++ [tok_exc (cls e0)].
Proof.
  intros Hl Hc. unfold hop at 1, wrap; cbn.
  set (e1 := transport (reraise frames0 e0, [tok_proc p] ++ format_exception (reraise frames0 e0) frames0)).
  exists e1. split; [reflexivity|].
  assert (Ha : arrived e1) by (subst e1; unfold arrived; cbn; split; [reflexivity|eexists; reflexivity]).
  destruct (hops_from_arrived acts (p + 1)%Z e1 Ha) as (ek & Hk & Hck & Hgk & Hr & Hik & Hfk).
  exists ek. subst e1; cbn in *. repeat split; try assumption.
  unfold remote_text, format_exception; cbn. now rewrite Hc.
Qed.

(* an exception object without any traceback information cannot be wrapped *)
Lemma wrap_needs_traceback p e : live_tb e = None -> cause_tb e = None -> wrap p e = None.
Proof. unfold wrap. now intros -> ->. Qed.

Lemma infixb_sound x y : infixb x y = true -> Infix x y.
Proof.
  assert (Hp : forall x y, prefixb x y = true -> exists post, y = x ++ post).
  { induction x0 as [|a x0 IH]; intros [|b y0]; cbn; intros H; try discriminate; eauto.
    apply andb_true_iff in H. destruct H as [H1 H2]. apply Z.eqb_eq in H1. subst.
    destruct (IH _ H2) as [post ->]. eauto. }
  induction y as [|b y IH]; cbn; intros H.
  - apply orb_true_iff in H. destruct H as [H|H]; [|discriminate].
    destruct (Hp _ _ H) as [post ->]. exists [], post. reflexivity.
  - apply orb_true_iff in H. destruct H as [H|H].
    + destruct (Hp _ _ H) as [post ->]. exists [], post. reflexivity.
    + destruct (IH H) as [pre [post ->]]. exists (b :: pre), post. reflexivity.
Qed.
