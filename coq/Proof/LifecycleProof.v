From MpV Require Import Lib.Tac Lib.Conc Model.Lifecycle.
Open Scope nat_scope.

Lemma nth_error_set_nth_eq {A} n (x : A) l y :
  nth_error (set_nth n x l) n = Some y -> y = x.
Proof.
  revert n; induction l as [|h t IH]; intros [|n]; cbn; intros H; try discriminate.
  - now inv H.
  - eauto.
Qed.

Lemma nth_error_set_nth_neq {A} n m (x : A) l :
  n <> m -> nth_error (set_nth n x l) m = nth_error l m.
Proof. revert n m; induction l as [|h t IH]; intros [|n] [|m] Hne; cbn; auto; try congruence. Qed.

Lemma set_nth_length {A} n (x : A) l : length (set_nth n x l) = length l.
Proof. revert n; induction l as [|h t IH]; intros [|n]; cbn; auto. Qed.

Definition fin (s : state) (k : nat) : Prop := forall p, nth_error (wp s) k = Some p -> w_finished p = true.
Definition fresh (s : state) (k : nat) : Prop := forall p, nth_error (wp s) k = Some p -> p = WNew.

(* which workers can be running at each program point of the starting / stopping thread *)
Definition Inv (g : cfg) (s : state) : Prop :=
  length (wp s) = nworkers g /\
  match mp s with
  | MSpawn i => forall k, i <= k -> fresh s k
  | MHand i => forall k, i < k -> fresh s k
  | MFailPut i => 0 < i /\ forall k, i < k -> fresh s k
  | MFailJoin i j => (forall k, k < j -> fin s k) /\ (forall k, i < k -> fresh s k) /\ j < i
  | MFailJoinSelf i => (forall k, k < i -> fin s k) /\ (forall k, i < k -> fresh s k)
  | MRaised => forall k, fin s k \/ fresh s k
  | MStopJoin j => forall k, k < j -> fin s k
  | MDone => forall k, fin s k
  | _ => True
  end.

Lemma inv_init g : Inv g (init g).
Proof.
  unfold Inv, init; cbn. split; [apply repeat_length|].
  intros k _ p H. apply nth_error_In, repeat_spec in H. exact H.
Qed.

Lemma fin_stable_w g s i s' e k : step_w g s i = Some (s', e) -> fin s k -> fin s' k.
Proof.
  unfold step_w, fin. intros Hs Hf p Hp.
  destruct (nth_error (wp s) i) as [pi|] eqn:Ei; [|discriminate].
  destruct (Nat.eq_dec i k) as [->|Hne].
  - specialize (Hf _ Ei). destruct pi; try discriminate Hf; discriminate Hs.
  - destruct pi; try discriminate Hs; break_match_hyp Hs; inv Hs; unfold fin in *; cbn [wp] in Hp;
      rewrite nth_error_set_nth_neq in Hp by assumption; eauto.
Qed.

Lemma fresh_stable_w g s i s' e k : step_w g s i = Some (s', e) -> fresh s k -> fresh s' k.
Proof.
  unfold step_w, fresh. intros Hs Hf p Hp.
  destruct (nth_error (wp s) i) as [pi|] eqn:Ei; [|discriminate].
  destruct (Nat.eq_dec i k) as [->|Hne].
  - specialize (Hf _ Ei). subst pi. discriminate Hs.
  - destruct pi; try discriminate Hs; break_match_hyp Hs; inv Hs; cbn [wp] in Hp;
      rewrite nth_error_set_nth_neq in Hp by assumption; eauto.
Qed.

Lemma mp_w g s i s' e : step_w g s i = Some (s', e) -> mp s' = mp s /\ length (wp s') = length (wp s).
Proof.
  unfold step_w. intros Hs. destruct (nth_error (wp s) i) as [pi|]; [|discriminate].
  destruct pi; try discriminate Hs; break_match_hyp Hs; inv Hs; cbn; rewrite ?set_nth_length; auto.
Qed.

Lemma inv_step g s l s' e : Inv g s -> step g s l = Some (s', e) -> Inv g s'.
Proof.
  intros [HL HI] Hs. destruct l as [|i]; cbn in Hs.
  - (* the starting / stopping thread *)
    unfold step_m in Hs. destruct (mp s) eqn:Em.
    + (* MSpawn *)
      destruct (i <? nworkers g) eqn:E; inv Hs; unfold Inv; cbn; (split; [rewrite ?set_nth_length; exact HL|]).
      * intros k Hk p Hp. cbn [wp] in Hp. rewrite nth_error_set_nth_neq in Hp by lia. eapply HI; [|exact Hp]. lia.
      * exact I.
    + (* MHand *)
      destruct (q_out s) as [|[n| |x|] r]; try discriminate; inv Hs; unfold Inv; cbn; (split; [exact HL|]).
      * intros k Hk. apply HI. lia.
      * destruct i as [|i']; cbn.
        -- split; [intros k Hk; lia|exact HI].
        -- split; [lia|exact HI].
    + (* MFailPut *)
      destruct HI as [Hpos HI]. inv Hs. unfold Inv; cbn. split; [exact HL|].
      split; [intros k Hk; lia|]. split; [exact HI|exact Hpos].
    + (* MFailJoin *)
      destruct HI as (Hf & Hn & Hji).
      destruct (nth_error (wp s) j) as [p|] eqn:Ej; [|discriminate].
      destruct (w_finished p) eqn:Ef; [|discriminate]. inv Hs. unfold Inv; cbn. split; [exact HL|].
      assert (Hfj : forall k, k < S j -> fin {| mp := mp s; wp := wp s; q_in := q_in s; q_out := q_out s |} k).
      { intros k Hk p' Hp'. cbn in Hp'. destruct (Nat.eq_dec k j) as [->|Hne].
        - rewrite Ej in Hp'. inv Hp'. exact Ef.
        - apply (Hf k); [lia|exact Hp']. }
      destruct (S j <? i) eqn:E; bool_to_prop; cbn.
      * split; [|split; [exact Hn|exact E]]. intros k Hk p' Hp'. eapply Hfj; eauto.
      * split; [|exact Hn]. intros k Hk p' Hp'. eapply (Hfj k); [lia|exact Hp'].
    + (* MFailJoinSelf *)
      destruct HI as (Hf & Hn).
      destruct (nth_error (wp s) i) as [p|] eqn:Ei; [|discriminate].
      destruct (w_finished p) eqn:Ef; [|discriminate]. inv Hs. unfold Inv; cbn. split; [exact HL|].
      intros k. destruct (Nat.lt_trichotomy k i) as [Hlt|[->|Hgt]].
      * left. intros p' Hp'. eapply Hf; eauto.
      * left. intros p' Hp'. cbn in Hp'. rewrite Ei in Hp'. inv Hp'. exact Ef.
      * right. intros p' Hp'. eapply Hn; eauto.
    + discriminate.
    + (* MPutItem *)
      destruct k as [|k']; inv Hs; unfold Inv; cbn; (split; [exact HL|]); [intros k Hk; lia|exact I].
    + discriminate.
    + (* MStopJoin *)
      destruct (j <? nworkers g) eqn:E; bool_to_prop.
      * destruct (nth_error (wp s) j) as [p|] eqn:Ej; [|discriminate].
        destruct (w_finished p) eqn:Ef; [|discriminate]. inv Hs. unfold Inv; cbn. split; [exact HL|].
        intros k Hk p' Hp'. cbn in Hp'. destruct (Nat.eq_dec k j) as [->|Hne].
        -- rewrite Ej in Hp'. inv Hp'. exact Ef.
        -- apply (HI k); [lia|exact Hp'].
      * inv Hs. unfold Inv; cbn. split; [exact HL|].
        intros k p' Hp'. cbn in Hp'.
        assert (k < length (wp s)) by (apply nth_error_Some; congruence).
        apply (HI k); [lia|exact Hp'].
    + discriminate.
  - (* a worker *)
    destruct (mp_w _ _ _ _ _ Hs) as [Hm Hlen].
    unfold Inv. rewrite Hm, Hlen. split; [exact HL|].
    destruct (mp s); try exact I.
    + intros k Hk. eapply fresh_stable_w; eauto.
    + intros k Hk. eapply fresh_stable_w; eauto.
    + destruct HI as [Hpos HI]. split; [exact Hpos|]. intros k Hk. eapply fresh_stable_w; eauto.
    + destruct HI as (Hf & Hn & Hji). split; [|split; [|exact Hji]].
      * intros k Hk. eapply fin_stable_w; eauto.
      * intros k Hk. eapply fresh_stable_w; eauto.
    + destruct HI as (Hf & Hn). split.
      * intros k Hk. eapply fin_stable_w; eauto.
      * intros k Hk. eapply fresh_stable_w; eauto.
    + intros k. destruct (HI k) as [H|H]; [left; eapply fin_stable_w; eauto|right; eapply fresh_stable_w; eauto].
    + intros k Hk. eapply fin_stable_w; eauto.
    + intros k. eapply fin_stable_w; eauto.
Qed.

Lemma not_running_of (s : state) :
  (forall k, fin s k \/ fresh s k) -> any_running s = false.
Proof.
  intros H. unfold any_running. apply Bool.not_true_is_false. intros Hex.
  apply existsb_exists in Hex. destruct Hex as (p & Hin & Hr).
  apply In_nth_error in Hin. destruct Hin as [k Hk].
  destruct (H k) as [Hf|Hf].
  - specialize (Hf _ Hk). destruct p; discriminate.
  - specialize (Hf _ Hk). subst. discriminate.
Qed.

(* if start() raises because a worker failed to initialise, no worker thread is left running *)
Lemma start_all_or_nothing g sched :
  mp (run step g (init g) sched) = MRaised -> any_running (run step g (init g) sched) = false.
Proof.
  intros Hm.
  assert (H : Inv g (run step g (init g) sched))
    by (apply (inv_run step g (Inv g)); [intros; eapply inv_step; eauto | apply inv_init]).
  destruct H as [_ H]. rewrite Hm in H. now apply not_running_of.
Qed.

(* when stop() has returned every worker thread has finished, whatever requests were left in the queue *)
Lemma stop_leaves_nothing g sched :
  mp (run step g (init g) sched) = MDone -> any_running (run step g (init g) sched) = false.
Proof.
  intros Hm.
  assert (H : Inv g (run step g (init g) sched))
    by (apply (inv_run step g (Inv g)); [intros; eapply inv_step; eauto | apply inv_init]).
  destruct H as [_ H]. rewrite Hm in H. apply not_running_of. intros k. left. apply H.
Qed.
