From MpV Require Import Lib.Tac Lib.Conc Model.Tee.
Open Scope nat_scope.

Lemma set_nth_length {A} n (x : A) l : length (set_nth n x l) = length l.
Proof. revert n; induction l as [|h t IH]; intros [|n]; cbn; auto. Qed.

Fixpoint datas_all (l : list src_item) : list Z :=
  match l with
  | [] => []
  | SData x :: r => x :: datas_all r
  | SRaise _ :: r => datas_all r
  end.

Lemma datas_all_app a b : datas_all (a ++ b) = datas_all a ++ datas_all b.
Proof. induction a as [|[x|e] a IH]; cbn; congruence. Qed.

(* replacing a box by one with the same value does not change the values held *)
Lemma map_bval_set_nth i bx' l bx :
  nth_error l i = Some bx -> bval bx' = bval bx -> map bval (set_nth i bx' l) = map bval l.
Proof.
  revert i; induction l as [|h t IH]; intros [|i]; cbn; intros H Hv; try discriminate.
  - inv H. now rewrite Hv.
  - f_equal. eauto.
Qed.

(* the source is pulled once per element: the boxes hold, in order, exactly the data elements pulled so far *)
Definition InvS (g : cfg) (s : state) : Prop :=
  length (boxes s) = pulled s
  /\ exists consumed, src g = consumed ++ rest s /\ map bval (boxes s) = datas_all consumed.

Lemma invs_init g : InvS g (init g).
Proof. unfold InvS, init; cbn. split; [reflexivity|]. exists []. auto. Qed.

Lemma invs_pull g s s1 got v exc :
  InvS g s -> pull s = (s1, got, v, exc) -> InvS g s1.
Proof.
  intros (HL & consumed & HS & HB) Hp. unfold pull in Hp.
  destruct (rest s) as [|[x|e] r] eqn:Er; injection Hp as Hs1 _ _ _; subst s1.
  - split; [assumption|]. exists consumed. rewrite Er. auto.
  - unfold InvS; cbn. split; [rewrite app_length; cbn; lia|].
    exists (consumed ++ [SData x]). rewrite <- app_assoc. cbn. split; [exact HS|].
    rewrite map_app, datas_all_app, HB. reflexivity.
  - unfold InvS; cbn. split; [assumption|].
    exists (consumed ++ [SRaise e]). rewrite <- app_assoc. cbn. split; [exact HS|].
    rewrite datas_all_app, HB. cbn. now rewrite app_nil_r.
Qed.

(* steps other than a pull leave pulled, rest and the box values unchanged *)
Definition same_source (s s' : state) : Prop :=
  pulled s' = pulled s /\ rest s' = rest s /\ length (boxes s') = length (boxes s)
  /\ map bval (boxes s') = map bval (boxes s).

Lemma invs_same g s s' : InvS g s -> same_source s s' -> InvS g s'.
Proof.
  intros (HL & consumed & HS & HB) (H1 & H2 & H3 & H4). unfold InvS.
  rewrite H1, H2, H3, H4. eauto.
Qed.

Lemma invs_step g s l s' e : InvS g s -> step g s l = Some (s', e) -> InvS g s'.
Proof.
  intros HI Hs. destruct l as [f ex]. cbn in Hs. unfold step_f in Hs.
  destruct (nth_error (forks s) f) as [k|] eqn:Ek; [|discriminate].
  destruct (pc k) eqn:Epc; destruct ex; try discriminate Hs.
  all: try (destruct (pull s) as [[[s1 got] v] exc] eqn:Ep; pose proof (invs_pull _ _ _ _ _ _ HI Ep) as HI1;
            break_match_hyp Hs; inv Hs;
            (eapply invs_same; [exact HI1|]); unfold same_source, set_fork; cbn; auto; fail).
  all: break_match_hyp Hs; inv Hs;
       (eapply invs_same; [exact HI|]);
       unfold same_source, set_fork, set_boxes, set_head, set_buffer, set_ilock; cbn;
       rewrite ?set_nth_length; repeat split; try reflexivity;
       try (eapply map_bval_set_nth; [eassumption|reflexivity]).
Qed.

Lemma source_pulled_once g sched :
  let s := run step g (init g) sched in
  length (boxes s) = pulled s /\
  exists consumed, src g = consumed ++ rest s /\ map bval (boxes s) = datas_all consumed.
Proof. apply (inv_run step g (InvS g)); [intros; eapply invs_step; eauto | apply invs_init]. Qed.
