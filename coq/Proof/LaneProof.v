(* SingleLane (Model/Lane.v) is a linearizable bounded FIFO for one writer and one reader. *)
From MpV Require Import Lib.Tac Lib.Conc Model.Lane.
From Coq Require Import ZifyBool.
Import ListNotations.
Open Scope nat_scope.

Definition holds (p : pc) : bool :=
  match p with TChk | TWait | TAct | TNotify | TUnlock _ => true | _ => false end.

Definition p_ok (s : state) : Prop :=
  match pp s, ps s with
  | TDone, [] => True
  | TRead, (PFull | PEmpty) :: _ => True
  | TDone, _ | TRead, _ => False
  | _, Put _ _ _ :: _ => True
  | _, _ => False
  end.
Definition c_ok (s : state) : Prop :=
  match cp s, cs s with
  | TDone, [] => True
  | TRead, (CFull | CEmpty) :: _ => True
  | TDone, _ | TRead, _ => False
  | _, Get _ _ :: _ => True
  | _, _ => False
  end.

Definition mutex_ok (s : state) : Prop :=
  match mutex s with
  | None => holds (pp s) = false /\ holds (cp s) = false
  | Some t => (t = T_P /\ holds (pp s) = true /\ holds (cp s) = false)
              \/ (t = T_C /\ holds (pp s) = false /\ holds (cp s) = true)
  end.

Definition is_pc (a b : pc) : bool :=
  match a, b with
  | TLock, TLock | TChk, TChk | TWait, TWait | TWaiting, TWaiting | TNotified, TNotified | TExpired, TExpired
  | TAct, TAct | TNotify, TNotify | TRead, TRead | TDone, TDone => true
  | TUnlock x, TUnlock y => Bool.eqb x y
  | _, _ => false
  end.

Record Inv (g : cfg) (s : state) : Prop := {
  i_pok : p_ok s;
  i_cok : c_ok s;
  i_mutex : mutex_ok s;
  i_nf : nf_wait s = is_pc (pp s) TWaiting;
  i_ne : ne_wait s = is_pc (cp s) TWaiting;
  i_fifo : popped s ++ q s = appended s;
  i_pout : appended s = oks (p_out s) ++ p_inflight s;
  i_cout : popped s = oks (c_out s) ++ c_inflight s;
  i_hold : (c_hold s = None) <-> (is_pc (cp s) TNotify || is_pc (cp s) (TUnlock false) = false);
  i_bound : 0 < maxsize g -> length (q s) <= maxsize g;
  i_pact : 0 < maxsize g -> is_pc (pp s) TAct || is_pc (pp s) TNotified = true -> length (q s) < maxsize g;
  i_cnot : 0 < maxsize g -> is_pc (cp s) TNotify = true -> length (q s) < maxsize g;
  i_cact : is_pc (cp s) TAct || is_pc (cp s) TNotified = true -> q s <> [];
  i_pnot : is_pc (pp s) TNotify = true -> q s <> [];
  i_under : underflow s = false;
  i_pwt : is_pc (pp s) TWait = true -> 0 < maxsize g /\ maxsize g <= length (q s);
  i_cwt : is_pc (cp s) TWait = true -> q s = [];
  i_pwait : is_pc (pp s) TWaiting = true -> (0 < maxsize g /\ maxsize g <= length (q s)) \/ is_pc (cp s) TNotify = true;
  i_cwait : is_pc (cp s) TWaiting = true -> q s = [] \/ is_pc (pp s) TNotify = true
}.

Lemma oks_app a b : oks (a ++ b) = oks a ++ oks b.
Proof. unfold oks. apply flat_map_app. Qed.

Lemma inv_init g : Inv g (init g).
Proof.
  unfold init. destruct (pscript g) as [|[x b t| |] r], (cscript g) as [|[b' t'| |] r'];
    constructor; unfold p_ok, c_ok, mutex_ok, p_inflight, c_inflight; cbn; auto; try lia; try discriminate;
    try (split; auto; fail); try (intros; discriminate).
Qed.

Arguments oks : simpl never.
Arguments p_start : simpl never.
Arguments c_start : simpl never.

Lemma oks_snoc_ok a v : oks (a ++ [ROk v]) = oks a ++ [v].
Proof. rewrite oks_app. reflexivity. Qed.
Lemma oks_snoc_exc a : oks (a ++ [RExc]) = oks a.
Proof. rewrite oks_app. cbn. apply app_nil_r. Qed.
Lemma oks_snoc_bool a b : oks (a ++ [RBool b]) = oks a.
Proof. rewrite oks_app. cbn. apply app_nil_r. Qed.

Lemma snoc_not_nil {A} (l : list A) x : l ++ [x] <> [].
Proof. destruct l; discriminate. Qed.

Ltac cheap := try assumption; try reflexivity; try discriminate; try exact I; try (intros; discriminate); try (intros; assumption).

Lemma inv_step_p g s ex s' e : Inv g s -> step_p g s ex = Some (s', e) -> Inv g s'.
Proof.
  intros [Hpok Hcok Hmx Hnf Hne Hfifo Hpout Hcout Hhold Hbound Hpact Hcnot Hcact Hpnot Hunder Hpwt Hcwt Hpwait Hcwait] Hs.
  destruct s as [pp0 cp0 ps0 cs0 mx qq nfw new ch po co ap pd uf].
  unfold step_p, upd_p, set_mutex, p_finish, isfull in Hs. unfold p_ok, c_ok, mutex_ok, p_inflight, c_inflight in *. cbn in *.
  destruct ps0 as [|[x blk tmd| |] psr]; [discriminate| | |];
    destruct pp0; destruct ex; try discriminate Hs; break_match_hyp Hs; injection Hs as <- <-.
  all: try (destruct mx as [t|]); cbn in Hmx;
       match type of Hmx with
       | _ \/ _ => destruct Hmx as [(Ht & Hh1 & Hh2)|(Ht & Hh1 & Hh2)]
       | _ /\ _ => destruct Hmx as [Hh1 Hh2]
       end; try discriminate; try subst t.
  all: try match goal with Hq : true = is_pc ?c TWaiting |- _ => destruct c; try discriminate Hq end.
  all: try match goal with |- context [p_start ?r] => destruct r as [|[?x ?b ?t| |] ?r] end.
  all: cbn in *.
  all: constructor; unfold p_ok, c_ok, mutex_ok, p_inflight, c_inflight, p_start; cbn; cheap.
  all: try solve [left; repeat split; cheap].
  all: try solve [right; repeat split; cheap].
  all: try solve [split; cheap].
  all: try solve [rewrite app_assoc, Hfifo; reflexivity].
  all: try solve [rewrite Hpout, ?app_nil_r, ?oks_snoc_ok, ?oks_snoc_exc, ?oks_snoc_bool; reflexivity].
  all: try solve [intros; apply snoc_not_nil].
  all: try solve [intros; right; reflexivity].
  all: try solve [intros Hq; rewrite Hq in *; discriminate].
  all: try solve [clear Hpok Hcok Hnf Hne Hfifo Hpout Hcout Hhold Hcact Hpnot Hunder Hpwait Hcwait;
                  intros; rewrite ?app_length in *; cbn [length] in *; lia].
  all: try solve [intros Hq; destruct cp0; discriminate].
  all: try solve [intros _; left; apply Hpwt; reflexivity].
Qed.

Lemma inv_step_c g s ex s' e : Inv g s -> step_c g s ex = Some (s', e) -> Inv g s'.
Proof.
  intros [Hpok Hcok Hmx Hnf Hne Hfifo Hpout Hcout Hhold Hbound Hpact Hcnot Hcact Hpnot Hunder Hpwt Hcwt Hpwait Hcwait] Hs.
  destruct s as [pp0 cp0 ps0 cs0 mx qq nfw new ch po co ap pd uf].
  unfold step_c, upd_c, set_mutex, c_finish, isfull in Hs. unfold p_ok, c_ok, mutex_ok, p_inflight, c_inflight in *. cbn in *.
  destruct cs0 as [|[blk tmd| |] csr]; [discriminate| | |];
    destruct cp0; destruct ex; try discriminate Hs; break_match_hyp Hs; injection Hs as <- <-.
  all: try (destruct mx as [t|]); cbn in Hmx;
       match type of Hmx with
       | _ \/ _ => destruct Hmx as [(Ht & Hh1 & Hh2)|(Ht & Hh1 & Hh2)]
       | _ /\ _ => destruct Hmx as [Hh1 Hh2]
       end; try discriminate; try subst t.
  all: try match goal with Hq : true = is_pc ?c TWaiting |- _ => destruct c; try discriminate Hq end.
  all: try match goal with |- context [c_start ?r] => destruct r as [|[?b ?t| |] ?r] end.
  all: cbn in *.
  all: try solve [exfalso; apply Hcact; reflexivity].
  all: try solve [exfalso; destruct Hhold as [Hx _]; specialize (Hx eq_refl); discriminate Hx].
  all: try solve [exfalso; destruct Hhold as [_ Hx]; specialize (Hx eq_refl); discriminate Hx].
  all: try (assert (Hch : ch = None) by (apply Hhold; reflexivity); subst ch; cbn in *).
  all: constructor; unfold p_ok, c_ok, mutex_ok, p_inflight, c_inflight, c_start; cbn; cheap.
  all: try solve [left; repeat split; cheap].
  all: try solve [right; repeat split; cheap].
  all: try solve [split; cheap].
  all: try solve [split; intros; cheap].
  all: try solve [rewrite <- Hfifo, <- app_assoc; reflexivity].
  all: try solve [rewrite Hcout, ?app_nil_r, ?oks_snoc_ok, ?oks_snoc_exc, ?oks_snoc_bool; reflexivity].
  all: try solve [intros; right; reflexivity].
  all: try solve [intros Hq; rewrite Hq in *; discriminate].
  all: try solve [clear Hpok Hcok Hnf Hne Hfifo Hpout Hcout Hhold Hcact Hpnot Hunder Hpwait Hcwait;
                  intros; rewrite ?app_length in *; cbn [length] in *; lia].
  all: try solve [intros Hq; destruct pp0; discriminate].
  all: try solve [intros _; left; apply Hcwt; reflexivity].
Qed.

Lemma inv_run g sched : Inv g (run step g (init g) sched).
Proof.
  apply (inv_run step g (Inv g)); [|apply inv_init].
  intros s l s' e H Hs. destruct l as [ex|ex]; cbn in Hs; [eapply inv_step_p|eapply inv_step_c]; eauto.
Qed.

(* ---- what the invariant gives ---- *)

(* FIFO, exactly once: what get has returned so far, the value a get in progress holds, and the queue content are
   together exactly the items put has accepted so far (returned puts, then the one appended but not yet returned) *)
Theorem lane_fifo g sched :
  let s := run step g (init g) sched in
  oks (c_out s) ++ c_inflight s ++ q s = oks (p_out s) ++ p_inflight s.
Proof.
  intros s. destruct (inv_run g sched) as [_ _ _ _ _ Hf Hp Hc _ _ _ _ _ _ _ _ _ _ _]. fold s in Hf, Hp, Hc.
  rewrite <- Hp, <- Hf, Hc, app_assoc. reflexivity.
Qed.

Theorem lane_bound g sched : 0 < maxsize g -> length (q (run step g (init g) sched)) <= maxsize g.
Proof. intros H. apply (i_bound _ _ (inv_run g sched)); exact H. Qed.

Theorem lane_no_underflow g sched : underflow (run step g (init g) sched) = false.
Proof. apply (i_under _ _ (inv_run g sched)). Qed.

Theorem lane_mutual_exclusion g sched :
  let s := run step g (init g) sched in holds (pp s) && holds (cp s) = false.
Proof.
  intros s. pose proof (i_mutex _ _ (inv_run g sched)) as H. fold s in H. unfold mutex_ok in H.
  destruct (mutex s); [destruct H as [(_ & H1 & H2)|(_ & H1 & H2)]|destruct H as [H1 H2]]; rewrite H1, H2; reflexivity.
Qed.

(* no lost wake-up: a thread sits in wait() only while its condition is really unsatisfied, or while its peer is already
   on its way to notify it *)
Theorem lane_no_lost_wakeup g sched :
  let s := run step g (init g) sched in
  (pp s = TWaiting -> (0 < maxsize g /\ maxsize g <= length (q s)) \/ cp s = TNotify) /\
  (cp s = TWaiting -> q s = [] \/ pp s = TNotify).
Proof.
  intros s. pose proof (inv_run g sched) as H. fold s in H. split; intros Hw.
  - destruct (i_pwait _ _ H) as [Hx|Hx]; [rewrite Hw; reflexivity|left; exact Hx|right].
    destruct (cp s); try discriminate Hx; reflexivity.
  - destruct (i_cwait _ _ H) as [Hx|Hx]; [rewrite Hw; reflexivity|left; exact Hx|right].
    destruct (pp s); try discriminate Hx; reflexivity.
Qed.

Lemma p_stuck g s : Inv g s -> step_p g s false = None -> step_p g s true = None ->
  pp s = TDone \/ pp s = TWaiting \/ (holds (pp s) = false /\ mutex s <> None).
Proof.
  intros [Hpok _ Hmx _ _ _ _ _ _ _ _ _ _ _ _ _ _ _ _] H1 H2.
  destruct s as [pp0 cp0 ps0 cs0 mx qq nfw new ch po co ap pd uf].
  unfold step_p, isfull in *. unfold p_ok, mutex_ok in *. cbn in *.
  destruct ps0 as [|[x blk tmd| |] psr]; destruct pp0; try contradiction; auto; try discriminate H1;
    try (destruct mx; [right; right; split; [reflexivity|discriminate]|discriminate H1]).
  all: break_match_hyp H1; discriminate.
Qed.

Lemma c_stuck g s : Inv g s -> step_c g s false = None -> step_c g s true = None ->
  cp s = TDone \/ cp s = TWaiting \/ (holds (cp s) = false /\ mutex s <> None).
Proof.
  intros [_ Hcok Hmx _ _ _ _ _ _ _ _ _ _ _ _ _ _ _ _] H1 H2.
  destruct s as [pp0 cp0 ps0 cs0 mx qq nfw new ch po co ap pd uf].
  unfold step_c, isfull in *. unfold c_ok, mutex_ok in *. cbn in *.
  destruct cs0 as [|[blk tmd| |] csr]; destruct cp0; try contradiction; auto; try discriminate H1;
    try (destruct mx; [right; right; split; [reflexivity|discriminate]|discriminate H1]).
  all: break_match_hyp H1; discriminate.
Qed.

(* the lane never wedges its two users: if neither thread can move, one of them has finished its script *)
Theorem lane_not_wedged g sched : wedged g (run step g (init g) sched) = false.
Proof.
  pose proof (inv_run g sched) as H. remember (run step g (init g) sched) as s eqn:Es. clear Es.
  unfold wedged, can_move. cbn [step].
  destruct (step_p g s false) eqn:P1; [reflexivity|]. destruct (step_p g s true) eqn:P2; [reflexivity|].
  destruct (step_c g s false) eqn:C1; [reflexivity|]. destruct (step_c g s true) eqn:C2; [reflexivity|].
  cbn. destruct (p_stuck g s H P1 P2) as [Hp|[Hp|[Hp Hm]]]; [rewrite Hp; reflexivity| |];
    (destruct (c_stuck g s H C1 C2) as [Hc|[Hc|[Hc Hm']]]; [rewrite Hc; apply andb_false_r| |]); exfalso.
  - (* both in wait() *)
    pose proof (i_pwait _ _ H) as Hw. pose proof (i_cwait _ _ H) as Hv. rewrite Hp, Hc in *. cbn in *.
    destruct (Hw eq_refl) as [[Hx Hy]|Hx]; [|discriminate]. destruct (Hv eq_refl) as [Hz|Hz]; [|discriminate].
    rewrite Hz in Hy. cbn in Hy. lia.
  - pose proof (i_mutex _ _ H) as Hx. unfold mutex_ok in Hx. rewrite Hp in Hx. cbn in Hx.
    destruct (mutex s) eqn:Em; [|congruence].
    destruct Hx as [(_ & Hy & _)|(_ & _ & Hy)]; [discriminate Hy|rewrite Hc in Hy; discriminate Hy].
  - pose proof (i_mutex _ _ H) as Hx. unfold mutex_ok in Hx. rewrite Hc in Hx. cbn in Hx.
    destruct (mutex s) eqn:Em; [|congruence].
    destruct Hx as [(_ & Hy & _)|(_ & _ & Hy)]; [rewrite Hp in Hy; discriminate Hy|discriminate Hy].
  - pose proof (i_mutex _ _ H) as Hx. unfold mutex_ok in Hx.
    destruct (mutex s) eqn:Em; [|congruence].
    destruct Hx as [(_ & Hy & _)|(_ & _ & Hy)]; [rewrite Hp in Hy; discriminate Hy|rewrite Hc in Hy; discriminate Hy].
Qed.

(* Refinement of the atomic bounded FIFO the other models use: every step of a run either leaves the queue content alone,
   or is an atomic put of one item into a queue that is not full, or an atomic get of the oldest item. *)
Theorem lane_refines_atomic g sched l s' e :
  let s := run step g (init g) sched in
  step g s l = Some (s', e) ->
  q s' = q s
  \/ (exists x, q s' = q s ++ [x] /\ isfull g s = false /\ e_op e = OP_APPEND /\ e_val e = x)
  \/ (exists v, q s = v :: q s' /\ e_op e = OP_POPLEFT /\ e_val e = v).
Proof.
  intros s Hs. pose proof (inv_run g sched) as H. fold s in H.
  destruct H as [_ _ _ _ _ _ _ _ _ Hbound Hpact _ Hcact _ _ _ _ _ _].
  destruct s as [pp0 cp0 ps0 cs0 mx qq nfw new ch po co ap pd uf]. cbn in *.
  destruct l as [ex|ex]; cbn in Hs.
  - unfold step_p, upd_p, set_mutex, p_finish in Hs. cbn in Hs.
    destruct ps0 as [|[x blk tmd| |] psr]; [discriminate| | |];
      destruct pp0; destruct ex; try discriminate Hs; break_match_hyp Hs; injection Hs as <- <-; cbn; auto.
    right; left. exists x. repeat split. unfold isfull. cbn.
    destruct (0 <? maxsize g) eqn:E; [|reflexivity]. cbn. apply Nat.leb_gt. apply Hpact; [apply Nat.ltb_lt; exact E|reflexivity].
  - unfold step_c, upd_c, set_mutex, c_finish in Hs. cbn in Hs.
    destruct cs0 as [|[blk tmd| |] csr]; [discriminate| | |];
      destruct cp0; destruct ex; try discriminate Hs; break_match_hyp Hs; injection Hs as <- <-; cbn; auto.
    all: try solve [exfalso; apply Hcact; reflexivity].
    all: right; right; eexists; repeat split.
Qed.
