(* Every fork of a tee receives a prefix of what the source yielded, in source order (C10). *)
From MpV Require Import Lib.Tac Lib.Conc Model.Tee Proof.TeeProof.
Open Scope nat_scope.

Definition vals (s : state) : list Z := map bval (boxes s).
Definition L (s : state) : nat := length (boxes s).

Definition in_cs (p : fpc) : bool :=
  match p with PA3 | PA4 | PA5 _ | PA6 _ | PA7 | PA7e _ | PB3 | PB4 | PB5 _ | PB6 _ | PB7 => true | _ => false end.
Definition in_a (p : fpc) : bool :=
  match p with PA2 | PA3 | PA4 | PA5 _ | PA6 _ | PA7 | PA7e _ | PA8 | PA9 => true | _ => false end.

(* what is known about one fork, given the shared state *)
Record FK (s : state) (f : nat) (k : fork) : Prop := {
  k_cs : in_cs (pc k) = true -> ilock s = Some f;
  k_a : in_a (pc k) = true -> started k = false /\ nxt k = None;
  k_a4 : pc k = PA4 -> L s = 0;
  k_a5 : forall b, pc k = PA5 b \/ pc k = PA6 b -> b = 0 /\ 0 < L s;
  k_r0 : started k = false -> recv k = [];
  k_pr : forall v, pc k = PR v -> started k = true;
  k_started : started k = true -> head s <> None;
  k_nxt : forall b, nxt k = Some b -> head s <> None /\ b < L s;
  k_b4 : pc k = PB4 -> exists cur, nxt k = Some cur /\ S cur = L s;
  k_b5 : forall b, pc k = PB5 b -> exists cur, nxt k = Some cur /\ b = S cur /\ S b = L s;
  k_pos : match pc k with
          | PR v => nth_error (vals s) (length (recv k)) = Some v /\ (forall b, nxt k = Some b -> b = S (length (recv k)))
          | _ => forall b, nxt k = Some b -> b = length (recv k)
          end;
  k_prefix : recv k = firstn (length (recv k)) (vals s) /\ length (recv k) <= L s
}.

Definition pending_link (s : state) (i : nat) : Prop :=
  exists f k, nth_error (forks s) f = Some k /\ pc k = PB5 (S i) /\ nxt k = Some i.

Record Inv (s : state) : Prop := {
  i_fk : forall f k, nth_error (forks s) f = Some k -> FK s f k;
  i_h0 : forall h, head s = Some h -> h = 0 /\ 0 < L s;
  i_hn : head s = None -> L s = 0 \/ (L s = 1 /\ exists f k, nth_error (forks s) f = Some k /\ (pc k = PA5 0 \/ pc k = PA6 0));
  i_ch : forall i bx j, nth_error (boxes s) i = Some bx -> bnext bx = Some j -> j = S i /\ j < L s;
  i_tl : forall i bx, nth_error (boxes s) i = Some bx -> bnext bx = None -> S i = L s \/ pending_link s i
}.

Lemma inv_init g : Inv (init g).
Proof.
  constructor; unfold init, L, vals; cbn.
  - intros f k H. apply nth_error_In, repeat_spec in H. subst k. constructor; cbn; try discriminate; auto; try (intros; discriminate).
    + intros b [H|H]; discriminate.
  - intros h H. discriminate.
  - intros _. now left.
  - intros i bx j H. destruct i; discriminate.
  - intros i bx H. destruct i; discriminate.
Qed.

Lemma firstn_app_le {A} n (l ext : list A) : n <= length l -> firstn n (l ++ ext) = firstn n l.
Proof. intros H. rewrite firstn_app. replace (n - length l) with 0 by lia. cbn. now rewrite app_nil_r. Qed.

Lemma nth_error_app_lt {A} (l ext : list A) i : i < length l -> nth_error (l ++ ext) i = nth_error l i.
Proof. intros H. now apply nth_error_app1. Qed.

(* what a step of another fork may change without disturbing what is known about fork f *)
Lemma fk_frame s s' f k :
  FK s f k ->
  (in_cs (pc k) = true -> ilock s' = Some f) ->
  (L s' = L s \/ in_cs (pc k) = false) -> L s <= L s' ->
  (exists ext, vals s' = vals s ++ ext) ->
  (head s <> None -> head s' <> None) ->
  FK s' f k.
Proof.
  intros [F1 F2 F3 F4 F5 FP F6 F7 F8 F9 F10 F11] Hlk HL Hle [ext Hv] Hh.
  assert (Hlen : length (vals s) = L s) by (unfold vals, L; apply map_length).
  constructor; auto.
  - intros Hp. destruct HL as [->|Hn]; [auto|]. rewrite Hp in Hn. discriminate.
  - intros b Hb. destruct (F4 b Hb) as [-> Hl]. split; [reflexivity|lia].
  - intros b Hb. destruct (F7 b Hb). split; [auto|lia].
  - intros Hp. destruct HL as [->|Hn]; [auto|]. rewrite Hp in Hn. discriminate.
  - intros b Hp. destruct HL as [->|Hn]; [auto|]. rewrite Hp in Hn. discriminate.
  - destruct (pc k); auto. destruct F10 as [Fa Fb]. split; [|exact Fb].
    rewrite Hv, nth_error_app_lt; [exact Fa|]. apply nth_error_Some. congruence.
  - destruct F11 as [Fa Fb]. split; [|lia]. rewrite Hv, firstn_app_le by lia. exact Fa.
Qed.

Lemma not_cs_if_unlocked s f k : FK s f k -> ilock s = None -> in_cs (pc k) = false.
Proof. intros F H. destruct (in_cs (pc k)) eqn:E; [|reflexivity]. rewrite (k_cs _ _ _ F E) in H. discriminate. Qed.

Lemma not_cs_if_other s f k f0 : FK s f k -> ilock s = Some f0 -> f <> f0 -> in_cs (pc k) = false.
Proof. intros F H Hne. destruct (in_cs (pc k)) eqn:E; [|reflexivity]. rewrite (k_cs _ _ _ F E) in H. congruence. Qed.

Lemma vals_set_nth s i bx bx' :
  nth_error (boxes s) i = Some bx -> bval bx' = bval bx -> map bval (set_nth i bx' (boxes s)) = vals s.
Proof. intros H Hb. unfold vals. eapply map_bval_set_nth; eauto. Qed.

Lemma nth_error_set_nth_same {A} n (x : A) l y : nth_error l n = Some y -> nth_error (set_nth n x l) n = Some x.
Proof. revert n; induction l as [|h t IH]; intros [|n] H; cbn in *; try discriminate; auto. Qed.

Lemma nth_error_set_nth_other {A} n m (x : A) l : n <> m -> nth_error (set_nth n x l) m = nth_error l m.
Proof. revert n m; induction l as [|h t IH]; intros [|n] [|m] Hne; cbn; auto; congruence. Qed.

Lemma others_ok s s' f0 k0 k' :
  Inv s -> nth_error (forks s) f0 = Some k0 -> forks s' = set_nth f0 k' (forks s) ->
  (ilock s' = ilock s \/ ilock s = None \/ ilock s = Some f0) ->
  (L s' = L s \/ ilock s = Some f0) -> L s <= L s' ->
  (exists ext, vals s' = vals s ++ ext) -> (head s <> None -> head s' <> None) ->
  forall f k, f <> f0 -> nth_error (forks s') f = Some k -> FK s' f k.
Proof.
  intros HI Ek Hf Hlk HL Hle Hv Hh f k Hne Hk.
  rewrite Hf, nth_error_set_nth_other in Hk by congruence.
  pose proof (i_fk _ HI _ _ Hk) as F. apply (fk_frame s); auto.
  - intros Hc. destruct Hlk as [->|[Hn|Ho]].
    + apply (k_cs _ _ _ F Hc).
    + rewrite (not_cs_if_unlocked _ _ _ F Hn) in Hc. discriminate.
    + rewrite (not_cs_if_other _ _ _ _ F Ho Hne) in Hc. discriminate.
  - destruct HL as [->|Ho]; [now left|right]. eapply not_cs_if_other; eauto.
Qed.

Lemma inv_build s s' f0 k0 k' :
  Inv s -> nth_error (forks s) f0 = Some k0 -> forks s' = set_nth f0 k' (forks s) ->
  (ilock s' = ilock s \/ ilock s = None \/ ilock s = Some f0) ->
  (L s' = L s \/ ilock s = Some f0) -> L s <= L s' ->
  (exists ext, vals s' = vals s ++ ext) -> (head s <> None -> head s' <> None) ->
  FK s' f0 k' ->
  (forall h, head s' = Some h -> h = 0 /\ 0 < L s') ->
  (head s' = None -> L s' = 0 \/ (L s' = 1 /\ exists f k, nth_error (forks s') f = Some k /\ (pc k = PA5 0 \/ pc k = PA6 0))) ->
  (forall i bx j, nth_error (boxes s') i = Some bx -> bnext bx = Some j -> j = S i /\ j < L s') ->
  (forall i bx, nth_error (boxes s') i = Some bx -> bnext bx = None -> S i = L s' \/ pending_link s' i) ->
  Inv s'.
Proof.
  intros HI Ek Hf Hlk HL Hle Hv Hh F' G1 G2 G3 G4. constructor; auto.
  intros f k Hk. destruct (Nat.eq_dec f f0) as [->|Hne].
  - rewrite Hf, (nth_error_set_nth_same _ k' _ _ Ek) in Hk. inv Hk. exact F'.
  - eapply others_ok; eauto.
Qed.

(* a step that changes nothing but fork f0's own record, and neither starts nor ends a pending publication *)
Lemma inv_pc_only s f0 k0 k' :
  Inv s -> nth_error (forks s) f0 = Some k0 ->
  FK s f0 k' ->
  (forall b, pc k0 = PA5 b \/ pc k0 = PA6 b -> pc k' = PA5 b \/ pc k' = PA6 b) ->
  (forall b, pc k0 <> PB5 b) ->
  Inv (set_fork s f0 k').
Proof.
  intros HI Ek F' Hw5 Hnb.
  assert (FS : forall f k, FK s f k -> FK (set_fork s f0 k') f k).
  { intros f k [F1 F2 F3 F4 F5 FP F6 F7 F8 F9 F10 F11]. constructor; auto. }
  apply (inv_build s _ f0 k0 k'); auto; try reflexivity; unfold set_fork; cbn [forks boxes head buffer ilock rest pulled]; auto.
  - exists []. unfold vals. cbn. now rewrite app_nil_r.
  - apply (i_h0 _ HI).
  - intros Hn. destruct (i_hn _ HI Hn) as [H0|[H1 (f & k & Hk & Hp)]]; [now left|right]. split; [exact H1|].
    destruct (Nat.eq_dec f f0) as [->|Hne].
    + exists f0, k'. split; [eapply nth_error_set_nth_same; eauto|]. rewrite Ek in Hk. inv Hk. auto.
    + exists f, k. split; [rewrite nth_error_set_nth_other by congruence; exact Hk|exact Hp].
  - apply (i_ch _ HI).
  - intros i bx Hi Hb. destruct (i_tl _ HI i bx Hi Hb) as [H|(f & k & Hk & Hp & Hn)]; [now left|right].
    destruct (Nat.eq_dec f f0) as [->|Hne].
    + rewrite Ek in Hk. inv Hk. exfalso. eapply Hnb; eauto.
    + exists f, k. split; [cbn; rewrite nth_error_set_nth_other by congruence; exact Hk|auto].
Qed.

Lemma inv_buffer s v : Inv s -> Inv (set_buffer s v).
Proof.
  intros [H1 H2 H3 H4 H5]. constructor; auto.
  intros f k Hk. destruct (H1 f k Hk) as [F1 F2 F3 F4 F5 FP F6 F7 F8 F9 F10 F11]. constructor; auto.
Qed.

Ltac fk_from F0 :=
  let F1 := fresh in let F2 := fresh in let F3 := fresh in let F4 := fresh in let F5 := fresh in let F6 := fresh in
  let F7 := fresh in let F8 := fresh in let F9 := fresh in let F10 := fresh in let F11 := fresh in
  destruct F0 as [F1 F2 F3 F4 F5 FP F6 F7 F8 F9 F10 F11];
  constructor; cbn [pc nxt started recv in_cs in_a] in *; auto;
  try discriminate; try (intros; discriminate); try (intros ? [?|?]; discriminate).

Lemma inv_step_pconly g s f0 ex s' e k0 :
  Inv s -> nth_error (forks s) f0 = Some k0 ->
  (pc k0 = PEntry \/ pc k0 = PA3 \/ pc k0 = PB3 \/ (pc k0 = PB2 /\ ex = true)) ->
  step_f g s f0 ex = Some (s', e) -> Inv s'.
Proof.
  intros HI Ek Hp Hs. unfold step_f in Hs. rewrite Ek in Hs. pose proof (i_fk _ HI _ _ Ek) as F0.
  destruct k0 as [nx st p rc]. cbn [pc nxt started recv] in *.
  destruct Hp as [->|[->|[->|[-> Hex]]]]; destruct ex; try discriminate Hs; try discriminate; break_match_hyp Hs; inv Hs;
    (eapply inv_pc_only; [exact HI|exact Ek| |cbn; intros ? [?|?]; discriminate|cbn; intros; discriminate]);
    unfold with_pc; cbn [pc nxt started recv].
  all: try (fk_from F0; fail).
  - (* PEntry -> PA2: nobody has published a first element, so this fork has not started *)
    assert (Hst : st = false).
    { destruct st; [|reflexivity]. exfalso. apply (k_started _ _ _ F0); [reflexivity|assumption]. }
    subst st. fk_from F0.
  - (* PA3 -> PA4: the head is still empty and we hold the source lock: nothing has been pulled *)
    assert (HL0 : L s = 0).
    { match goal with H : head s = None |- _ => destruct (i_hn _ HI H) as [H0|[_ (f & k & Hk & Hp)]] end; [exact H0|].
      exfalso. pose proof (i_fk _ HI _ _ Hk) as Fk.
      assert (Hc : in_cs (pc k) = true) by (destruct Hp as [-> | ->]; reflexivity).
      pose proof (k_cs _ _ _ Fk Hc) as H1. pose proof (k_cs _ _ _ F0 eq_refl) as H2. cbn in H2.
      assert (f = f0) by congruence. subst f. rewrite Ek in Hk. inv Hk. cbn in Hp. destruct Hp; discriminate. }
    fk_from F0.
  - (* PB3 -> PB4: the box this fork stands on has no successor and we hold the source lock: it is the last one *)
    assert (HT : S n = L s).
    { match goal with H1 : nth_error (boxes s) n = Some ?bx, H2 : bnext ?bx = None |- _ =>
        destruct (i_tl _ HI _ _ H1 H2) as [H0|(f & k & Hk & Hp & Hn)] end; [exact H0|].
      exfalso. pose proof (i_fk _ HI _ _ Hk) as Fk.
      assert (Hc : in_cs (pc k) = true) by (rewrite Hp; reflexivity).
      pose proof (k_cs _ _ _ Fk Hc) as H1. pose proof (k_cs _ _ _ F0 eq_refl) as H2. cbn in H2.
      assert (f = f0) by congruence. subst f. rewrite Ek in Hk. inv Hk. cbn in Hp. discriminate. }
    fk_from F0. intros _. eauto.
Qed.

Lemma firstn_snoc_nth {A} (l : list A) n v : nth_error l n = Some v -> firstn (S n) l = firstn n l ++ [v].
Proof.
  revert n; induction l as [|h t IH]; intros [|n] H; try discriminate H.
  - cbn in *. now inv H.
  - cbn [nth_error] in H. rewrite !firstn_cons. cbn [app]. f_equal. apply IH, H.
Qed.

Lemma inv_step_fork g s f0 ex s' e k0 :
  Inv s -> nth_error (forks s) f0 = Some k0 ->
  (pc k0 = PA8 \/ pc k0 = PA9 \/ pc k0 = PC5 \/ exists v, pc k0 = PR v) ->
  step_f g s f0 ex = Some (s', e) -> Inv s'.
Proof.
  intros HI Ek Hp Hs. unfold step_f in Hs. rewrite Ek in Hs. pose proof (i_fk _ HI _ _ Ek) as F0.
  assert (Hlen : length (vals s) = L s) by (unfold vals, L; apply map_length).
  destruct k0 as [nx st p rc]. cbn [pc nxt started recv] in *.
  destruct Hp as [->|[->|[->|[v ->]]]]; destruct ex; try discriminate Hs; break_match_hyp Hs; inv Hs;
    (eapply inv_pc_only; [exact HI|exact Ek| |cbn; intros ? [?|?]; discriminate|cbn; intros; discriminate]);
    unfold with_nxt; cbn [pc nxt started recv].
  - (* PA8: self.next = self.head.value *)
    destruct F0 as [F1 F2 F3 F4 F5 FP F6 F7 F8 F9 F10 F11]. cbn [pc nxt started recv in_cs in_a] in *.
    destruct (F2 eq_refl) as [-> ->]. rewrite (F5 eq_refl) in *.
    constructor; cbn [pc nxt started recv in_cs in_a]; auto; try discriminate; try (intros; discriminate); try (intros ? [?|?]; discriminate).
    + intros b0 Hb. destruct (i_h0 _ HI _ Hb) as [-> Hl]. split; [congruence|exact Hl].
    + intros b0 Hb. destruct (i_h0 _ HI _ Hb) as [-> _]. reflexivity.
  - (* PA9 *)
    destruct F0 as [F1 F2 F3 F4 F5 FP F6 F7 F8 F9 F10 F11]. cbn [pc nxt started recv in_cs in_a] in *.
    destruct (F2 eq_refl) as [-> ->]. rewrite (F5 eq_refl) in *.
    constructor; cbn [pc nxt started recv in_cs in_a]; auto; try discriminate; try (intros; discriminate); try (intros ? [?|?]; discriminate).
    + intros b0 Hb. destruct (i_h0 _ HI _ Hb) as [-> Hl]. split; [congruence|exact Hl].
    + intros b0 Hb. destruct (i_h0 _ HI _ Hb) as [-> _]. reflexivity.
  - (* PC5: take the value of the box this fork stands on and move to its successor *)
    destruct F0 as [F1 F2 F3 F4 F5 FP F6 F7 F8 F9 F10 F11]. cbn [pc nxt started recv in_cs in_a] in *.
    destruct (F7 _ eq_refl) as [Hh Hn]. pose proof (F10 _ eq_refl) as Hpos. subst n.
    match goal with H : nth_error (boxes s) _ = Some ?bx |- _ => rename H into Hbx end.
    constructor; cbn [pc nxt started recv in_cs in_a]; auto; try discriminate; try (intros; discriminate); try (intros ? [?|?]; discriminate).
    + intros b0 Hb. split; [exact Hh|]. apply (i_ch _ HI _ _ _ Hbx Hb).
    + split.
      * unfold vals. rewrite nth_error_map, Hbx. reflexivity.
      * intros b0 Hb. apply (i_ch _ HI _ _ _ Hbx Hb).
  - (* PR: the value is handed to the consumer *)
    destruct F0 as [F1 F2 F3 F4 F5 FP F6 F7 F8 F9 F10 F11]. cbn [pc nxt started recv in_cs in_a] in *.
    destruct F10 as [Hv Hn]. destruct F11 as [Hpre Hle].
    assert (Hlt : length rc < L s) by (rewrite <- Hlen; apply nth_error_Some; congruence).
    constructor; cbn [pc nxt started recv in_cs in_a]; auto; try discriminate; try (intros; discriminate); try (intros ? [?|?]; discriminate).
    + intros Hst. rewrite (FP _ eq_refl) in Hst. discriminate.
    + intros b0 Hb. rewrite app_length. cbn. rewrite (Hn _ Hb). lia.
    + rewrite app_length. cbn [length]. rewrite Nat.add_1_r. split; [|lia].
      rewrite (firstn_snoc_nth _ _ _ Hv), <- Hpre. reflexivity.
Qed.

Lemma fk_same s s' f k :
  ilock s' = ilock s -> L s' = L s -> vals s' = vals s -> head s' = head s -> FK s f k -> FK s' f k.
Proof.
  intros H1 H2 H3 H4 F. apply (fk_frame s); auto.
  - intros Hc. rewrite H1. apply (k_cs _ _ _ F Hc).
  - lia.
  - exists []. rewrite H3. now rewrite app_nil_r.
  - now rewrite H4.
Qed.

(* a box's lock or counter changes: nothing the invariant looks at *)
Lemma inv_boxfield s b bx bx' :
  Inv s -> nth_error (boxes s) b = Some bx -> bval bx' = bval bx -> bnext bx' = bnext bx ->
  Inv (set_boxes s (set_nth b bx' (boxes s))).
Proof.
  intros HI Hb Hv Hn.
  assert (HL : L (set_boxes s (set_nth b bx' (boxes s))) = L s) by (unfold L; cbn; apply set_nth_length).
  assert (HV : vals (set_boxes s (set_nth b bx' (boxes s))) = vals s) by (unfold vals at 1; cbn; eapply vals_set_nth; eauto).
  constructor.
  - intros f k Hk. apply (fk_same s); auto. apply (i_fk _ HI _ _ Hk).
  - intros h Hh. rewrite HL. apply (i_h0 _ HI _ Hh).
  - intros Hh. rewrite HL. apply (i_hn _ HI Hh).
  - intros i bxi j Hi Hj. rewrite HL. cbn in Hi. destruct (Nat.eq_dec b i) as [->|Hne].
    + rewrite (nth_error_set_nth_same _ bx' _ _ Hb) in Hi. inv Hi. rewrite Hn in Hj. apply (i_ch _ HI _ _ _ Hb Hj).
    + rewrite nth_error_set_nth_other in Hi by assumption. apply (i_ch _ HI _ _ _ Hi Hj).
  - intros i bxi Hi Hj. rewrite HL. cbn in Hi.
    assert (Hold : exists bo, nth_error (boxes s) i = Some bo /\ bnext bo = None).
    { destruct (Nat.eq_dec b i) as [->|Hne].
      - rewrite (nth_error_set_nth_same _ bx' _ _ Hb) in Hi. inv Hi. exists bx. split; [exact Hb|congruence].
      - rewrite nth_error_set_nth_other in Hi by assumption. eauto. }
    destruct Hold as (bo & Ho & Hno). destruct (i_tl _ HI _ _ Ho Hno) as [H|H]; [now left|right]. exact H.
Qed.

Lemma inv_step_box g s f0 ex s' e k0 :
  Inv s -> nth_error (forks s) f0 = Some k0 ->
  (pc k0 = PC1 \/ pc k0 = PC2 \/ pc k0 = PC4 \/ pc k0 = PC3 \/ (exists b, pc k0 = PA5 b) \/ (exists b, pc k0 = PB6 b)) ->
  step_f g s f0 ex = Some (s', e) -> Inv s'.
Proof.
  intros HI Ek Hp Hs. unfold step_f in Hs. rewrite Ek in Hs. pose proof (i_fk _ HI _ _ Ek) as F0.
  destruct k0 as [nx st p rc]. cbn [pc nxt started recv] in *.
  destruct Hp as [->|[->|[->|[->|[[b ->]|[b ->]]]]]]; destruct ex; try discriminate Hs; break_match_hyp Hs; inv Hs; unfold with_pc.
  all: try (match goal with H : nth_error (boxes ?s0) ?n = Some ?bx |- Inv (set_fork (set_boxes ?s0 (set_nth ?n ?bx' (boxes ?s0))) _ _) =>
      eapply (inv_pc_only (set_boxes s0 (set_nth n bx' (boxes s0)))); [eapply (inv_boxfield s0 n bx); eauto|eassumption| | |];
        try (cbn; intros ? [?|?]; discriminate); try (cbn; intros; discriminate);
      eapply (fk_same s0); try reflexivity; [unfold L; cbn; apply set_nth_length|unfold vals at 1; cbn; eapply vals_set_nth; eauto|];
      match goal with F : FK s0 _ _ |- _ => fk_from F end end; fail).
  all: try (match goal with |- Inv (set_fork (set_buffer ?s0 _) _ _) =>
      eapply (inv_pc_only (set_buffer s0 _)); [apply inv_buffer; eassumption|eassumption| | |];
      try (cbn; intros ? [?|?]; discriminate); try (cbn; intros; discriminate);
      eapply (fk_same s0); try reflexivity; match goal with F : FK s0 _ _ |- _ => fk_from F end end; fail).
  (* PA5: the first box enters the window *)
  eapply (inv_pc_only (set_buffer s _)); [apply inv_buffer; exact HI|exact Ek| | |]; try (cbn; intros; discriminate).
  - eapply (fk_same s); try reflexivity. destruct F0 as [F1 F2 F3 F4 F5 FP F6 F7 F8 F9 F10 F11].
    constructor; cbn [pc nxt started recv in_cs in_a] in *; auto; try discriminate; try (intros; discriminate).
    intros b0 [H|H]; inv H. apply F4. now left.
  - cbn. intros b0 [H|H]; inv H. now right.
Qed.

(* fork f0 takes or gives back the source lock *)
Lemma inv_pc_lock s f0 k0 k' v :
  Inv s -> nth_error (forks s) f0 = Some k0 ->
  (ilock s = None \/ ilock s = Some f0) ->
  FK (set_ilock s v) f0 k' ->
  (forall b, pc k0 = PA5 b \/ pc k0 = PA6 b -> pc k' = PA5 b \/ pc k' = PA6 b) ->
  (forall b, pc k0 <> PB5 b) ->
  Inv (set_fork (set_ilock s v) f0 k').
Proof.
  intros HI Ek Hlk F' Hw5 Hnb.
  apply (inv_build s _ f0 k0 k'); auto; unfold set_fork, set_ilock; cbn [forks boxes head buffer ilock rest pulled]; auto.
  - exists []. unfold vals. cbn. now rewrite app_nil_r.
  - destruct F' as [F1 F2 F3 F4 F5 FP F6 F7 F8 F9 F10 F11]. constructor; auto.
  - apply (i_h0 _ HI).
  - intros Hn. destruct (i_hn _ HI Hn) as [H0|[H1 (f & k & Hk & Hp)]]; [now left|right]. split; [exact H1|].
    destruct (Nat.eq_dec f f0) as [->|Hne].
    + exists f0, k'. split; [eapply nth_error_set_nth_same; eauto|]. rewrite Ek in Hk. inv Hk. auto.
    + exists f, k. split; [rewrite nth_error_set_nth_other by congruence; exact Hk|exact Hp].
  - apply (i_ch _ HI).
  - intros i bx Hi Hb. destruct (i_tl _ HI i bx Hi Hb) as [H|(f & k & Hk & Hp & Hn)]; [now left|right].
    destruct (Nat.eq_dec f f0) as [->|Hne].
    + rewrite Ek in Hk. inv Hk. exfalso. eapply Hnb; eauto.
    + exists f, k. split; [cbn; rewrite nth_error_set_nth_other by congruence; exact Hk|auto].
Qed.

Lemma inv_step_lock g s f0 ex s' e k0 :
  Inv s -> nth_error (forks s) f0 = Some k0 ->
  (pc k0 = PA2 \/ (pc k0 = PB2 /\ ex = false) \/ pc k0 = PA7 \/ (exists o, pc k0 = PA7e o) \/ pc k0 = PB7) ->
  step_f g s f0 ex = Some (s', e) -> Inv s'.
Proof.
  intros HI Ek Hp Hs. unfold step_f in Hs. rewrite Ek in Hs. pose proof (i_fk _ HI _ _ Ek) as F0.
  destruct k0 as [nx st p rc]. cbn [pc nxt started recv] in *.
  destruct Hp as [-> | [[-> Hex] | [-> | [[o ->] | ->]]]]; destruct ex; try discriminate Hs; try discriminate; break_match_hyp Hs; inv Hs; unfold with_pc;
    (eapply inv_pc_lock; [exact HI|exact Ek| | |cbn; intros ? [?|?]; discriminate|cbn; intros; discriminate]);
    try (left; assumption); try (right; apply (k_cs _ _ _ F0 eq_refl)).
  all: destruct F0 as [F1 F2 F3 F4 F5 FP F6 F7 F8 F9 F10 F11];
       constructor; cbn [pc nxt started recv in_cs in_a ilock set_ilock] in *; auto; try discriminate; try (intros; discriminate);
       try (intros ? [?|?]; discriminate).
Qed.

Lemma inv_rest s r p : Inv s -> Inv (set_rest s r p).
Proof.
  intros [H1 H2 H3 H4 H5]. constructor; auto.
  intros f k Hk. destruct (H1 f k Hk) as [F1 F2 F3 F4 F5 FP F6 F7 F8 F9 F10 F11]. constructor; auto.
Qed.

Lemma nth_error_snoc_cases {A} (l : list A) x i y :
  nth_error (l ++ [x]) i = Some y -> (i < length l /\ nth_error l i = Some y) \/ (i = length l /\ y = x).
Proof.
  intros H. destruct (Nat.lt_ge_cases i (length l)) as [Hlt|Hge].
  - left. split; [exact Hlt|]. now rewrite nth_error_app1 in H.
  - right. rewrite nth_error_app2 in H by exact Hge. destruct (i - length l) as [|m] eqn:E.
    + cbn in H. inv H. split; [lia|reflexivity].
    + cbn in H. destruct m; discriminate.
Qed.

(* PA6: the first box is published *)
Lemma inv_step_pa6 g s f0 s' e k0 b :
  Inv s -> nth_error (forks s) f0 = Some k0 -> pc k0 = PA6 b ->
  step_f g s f0 false = Some (s', e) -> Inv s'.
Proof.
  intros HI Ek Hp Hs. unfold step_f in Hs. rewrite Ek, Hp in Hs. inv Hs. pose proof (i_fk _ HI _ _ Ek) as F0.
  destruct F0 as [F1 F2 F3 F4 F5 FP F6 F7 F8 F9 F10 F11]. rewrite Hp in *. cbn [in_cs in_a] in *.
  destruct (F4 b (or_intror eq_refl)) as [-> HL]. destruct (F2 eq_refl) as [Hst Hnx].
  apply (inv_build s _ f0 k0 (with_pc k0 PA7)); auto; unfold set_fork, set_head, with_pc; cbn [forks boxes head buffer ilock rest pulled]; auto.
  - exists []. unfold vals. cbn. now rewrite app_nil_r.
  - intros _. discriminate.
  - constructor; cbn [pc nxt started recv in_cs in_a ilock head]; auto; try discriminate; try (intros; discriminate); try (intros ? [?|?]; discriminate);
      try (rewrite Hnx; intros; discriminate).
  - intros h Hh. inv Hh. auto.
  - intros Hh. discriminate.
  - apply (i_ch _ HI).
  - intros i bx Hi Hb. destruct (i_tl _ HI i bx Hi Hb) as [H|(f & k & Hk & Hpk & Hn)]; [now left|right].
    destruct (Nat.eq_dec f f0) as [->|Hne].
    + rewrite Ek in Hk. inv Hk. congruence.
    + exists f, k. split; [cbn; rewrite nth_error_set_nth_other by congruence; exact Hk|auto].
Qed.

Lemma pull_cases s s1 got v exc :
  pull s = (s1, got, v, exc) ->
  (exists x r, rest s = SData x :: r /\ got = Some (x, L s) /\
     s1 = set_boxes (set_rest s r (S (pulled s))) (boxes s ++ [{| bval := x; bnext := None; bn := 0; block := None |}]))
  \/ (got = None /\ exists r p, s1 = set_rest s r p).
Proof.
  unfold pull. destruct (rest s) as [|[x|e0] r] eqn:Er; intros H; injection H as Hs1 Hg Hv He; subst s1 got.
  - right. split; [reflexivity|]. exists [], (pulled s). unfold set_rest. destruct s; cbn in *. now subst.
  - left. exists x, r. auto.
  - right. split; [reflexivity|]. eauto.
Qed.

(* the shared state after a pull that produced a box *)
Definition pulled_state (s : state) (x : Z) (r : list src_item) : state :=
  set_boxes (set_rest s r (S (pulled s))) (boxes s ++ [{| bval := x; bnext := None; bn := 0; block := None |}]).

Lemma pulled_L s x r : L (pulled_state s x r) = S (L s).
Proof. unfold L, pulled_state. cbn. rewrite app_length. cbn. lia. Qed.
Lemma pulled_vals s x r : vals (pulled_state s x r) = vals s ++ [x].
Proof. unfold vals, pulled_state. cbn. now rewrite map_app. Qed.

Lemma L_set_fork s f k : L (set_fork s f k) = L s.
Proof. reflexivity. Qed.
Lemma vals_set_fork s f k : vals (set_fork s f k) = vals s.
Proof. reflexivity. Qed.

(* PA4: the very first pull *)
Lemma inv_step_pa4 g s f0 s' e k0 :
  Inv s -> nth_error (forks s) f0 = Some k0 -> pc k0 = PA4 ->
  step_f g s f0 false = Some (s', e) -> Inv s'.
Proof.
  intros HI Ek Hp Hs. unfold step_f in Hs. rewrite Ek, Hp in Hs. pose proof (i_fk _ HI _ _ Ek) as F0.
  destruct (pull s) as [[[s1 got] v] exc] eqn:Epl.
  destruct (pull_cases _ _ _ _ _ Epl) as [(x & r & Hr & -> & ->)|(-> & r & p & ->)].
  - (* a data element: box 0 *)
    inv Hs. destruct F0 as [F1 F2 F3 F4 F5 FP F6 F7 F8 F9 F10 F11]. rewrite Hp in *. cbn [in_cs in_a] in *.
    pose proof (F3 eq_refl) as HL0. destruct (F2 eq_refl) as [Hst Hnx]. pose proof (F5 Hst) as Hrc.
    fold (pulled_state s x r).
    apply (inv_build s _ f0 k0 (with_pc k0 (PA5 (L s)))); auto; rewrite ?L_set_fork, ?vals_set_fork;
      try (match goal with |- _ = _ \/ _ => right; exact (F1 eq_refl) end);
      try (rewrite pulled_L; lia); try (rewrite pulled_vals; eauto; fail).
    + constructor; unfold with_pc; cbn [pc nxt started recv in_cs in_a]; rewrite ?L_set_fork, ?vals_set_fork, ?pulled_L, ?pulled_vals; auto;
        try discriminate; try (intros; discriminate); try (rewrite Hnx; intros; discriminate).
      * intros b [H|H]; inv H. rewrite HL0. split; [reflexivity|lia].
      * rewrite Hrc. cbn. split; [reflexivity|lia].
    + intros h Hh. destruct (i_h0 _ HI _ Hh) as [-> Hl]. split; [reflexivity|]. rewrite pulled_L. lia.
    + intros _. right. split; [rewrite pulled_L; lia|].
      exists f0, (with_pc k0 (PA5 (L s))). split; [cbn; eapply nth_error_set_nth_same; eauto|]. left. cbn. now rewrite HL0.
    + intros i bx j Hi Hj. cbn in Hi. apply nth_error_snoc_cases in Hi. destruct Hi as [[Hlt Hi]|[_ ->]]; [|discriminate].
      destruct (i_ch _ HI _ _ _ Hi Hj) as [-> Hl]. split; [reflexivity|]. rewrite pulled_L. lia.
    + intros i bx Hi Hb. cbn in Hi. apply nth_error_snoc_cases in Hi. destruct Hi as [[Hlt Hi]|[-> _]].
      * unfold L in HL0. lia.
      * left. rewrite pulled_L. unfold L. reflexivity.
  - (* the source is empty or raises: nothing is published *)
    assert (Hs' : exists o, s' = set_fork (set_rest s r p) f0 (with_pc k0 (PA7e o))) by (destruct exc; inv Hs; eauto).
    destruct Hs' as [o ->].
    eapply (inv_pc_only (set_rest s r p)); [apply inv_rest; exact HI|exact Ek| | |]; try (rewrite Hp; intros ? [?|?]; discriminate); try (rewrite Hp; intros; discriminate).
    eapply (fk_same s); try reflexivity. destruct F0 as [F1 F2 F3 F4 F5 FP F6 F7 F8 F9 F10 F11]. rewrite Hp in *.
    constructor; unfold with_pc; cbn [pc nxt started recv in_cs in_a] in *; auto; try discriminate; try (intros; discriminate); try (intros ? [?|?]; discriminate).
Qed.

(* PB4: a later pull; the new box is still private to this fork *)
Lemma inv_step_pb4 g s f0 s' e k0 :
  Inv s -> nth_error (forks s) f0 = Some k0 -> pc k0 = PB4 ->
  step_f g s f0 false = Some (s', e) -> Inv s'.
Proof.
  intros HI Ek Hp Hs. unfold step_f in Hs. rewrite Ek, Hp in Hs. pose proof (i_fk _ HI _ _ Ek) as F0.
  destruct (pull s) as [[[s1 got] v] exc] eqn:Epl.
  destruct (pull_cases _ _ _ _ _ Epl) as [(x & r & Hr & -> & ->)|(-> & r & p & ->)].
  - inv Hs. pose proof F0 as F0'. destruct F0 as [F1 F2 F3 F4 F5 FP F6 F7 F8 F9 F10 F11]. rewrite Hp in *. cbn [in_cs in_a] in *.
    destruct (F8 eq_refl) as (cur & Hnx & Hcur). destruct (F7 _ Hnx) as [Hh Hlt].
    fold (pulled_state s x r).
    apply (inv_build s _ f0 k0 (with_pc k0 (PB5 (L s)))); auto; rewrite ?L_set_fork, ?vals_set_fork;
      try (match goal with |- _ = _ \/ _ => right; exact (F1 eq_refl) end);
      try (rewrite pulled_L; lia); try (rewrite pulled_vals; eauto; fail).
    + constructor; unfold with_pc; cbn [pc nxt started recv in_cs in_a]; rewrite ?L_set_fork, ?vals_set_fork, ?pulled_L, ?pulled_vals; auto;
        try discriminate; try (intros; discriminate); try (intros ? [?|?]; discriminate).
      * intros b Hb. destruct (F7 _ Hb). split; [assumption|lia].
      * intros b Hb. inv Hb. exists cur. repeat split; auto; lia.
      * destruct F11 as [Fa Fb]. assert (Hlen : length (vals s) = L s) by (unfold vals, L; apply map_length).
        split; [|lia]. rewrite firstn_app_le by lia. exact Fa.
    + intros h Hh'. destruct (i_h0 _ HI _ Hh') as [-> Hl]. split; [reflexivity|]. rewrite pulled_L. lia.
    + intros Hh'. exfalso. apply Hh. exact Hh'.
    + intros i bx j Hi Hj. cbn in Hi. apply nth_error_snoc_cases in Hi. destruct Hi as [[Hlt' Hi]|[_ ->]]; [|discriminate].
      destruct (i_ch _ HI _ _ _ Hi Hj) as [-> Hl]. split; [reflexivity|]. rewrite pulled_L. lia.
    + intros i bx Hi Hb. cbn in Hi. apply nth_error_snoc_cases in Hi. destruct Hi as [[Hlt' Hi]|[-> _]].
      * (* an old box without successor is the old tail: its link is now pending, by this fork *)
        right. destruct (i_tl _ HI _ _ Hi Hb) as [Hs'|(f & k & Hk & Hpk & Hn)].
        -- assert (i = cur) by lia. subst i. exists f0, (with_pc k0 (PB5 (L s))). cbn.
           split; [eapply nth_error_set_nth_same; eauto|]. split; [f_equal; lia|exact Hnx].
        -- exfalso. pose proof (i_fk _ HI _ _ Hk) as Fk.
           assert (Hc : in_cs (pc k) = true) by (rewrite Hpk; reflexivity).
           pose proof (k_cs _ _ _ Fk Hc) as H1. pose proof (F1 eq_refl) as H2.
           assert (f = f0) by congruence. subst f. rewrite Ek in Hk. inv Hk. congruence.
      * left. rewrite pulled_L. unfold L. reflexivity.
  - (* the source is empty (the fork goes on to release the lock) or raises (the lock is NOT released) *)
    assert (Hs' : exists p', s' = set_fork (set_rest s r p) f0 (with_pc k0 p') /\ (p' = PB7 \/ exists o, p' = PDone o))
      by (destruct exc; inv Hs; eauto).
    destruct Hs' as (p' & -> & Hp').
    eapply (inv_pc_only (set_rest s r p)); [apply inv_rest; exact HI|exact Ek| | |]; try (rewrite Hp; intros ? [?|?]; discriminate); try (rewrite Hp; intros; discriminate).
    eapply (fk_same s); try reflexivity. destruct F0 as [F1 F2 F3 F4 F5 FP F6 F7 F8 F9 F10 F11]. rewrite Hp in *.
    destruct Hp' as [->|[o ->]];
      constructor; unfold with_pc; cbn [pc nxt started recv in_cs in_a] in *; auto; try discriminate; try (intros; discriminate); try (intros ? [?|?]; discriminate).
Qed.

(* PB5: the new box is linked behind the box this fork stands on *)
Lemma inv_step_pb5 g s f0 s' e k0 b :
  Inv s -> nth_error (forks s) f0 = Some k0 -> pc k0 = PB5 b ->
  step_f g s f0 false = Some (s', e) -> Inv s'.
Proof.
  intros HI Ek Hp Hs. unfold step_f in Hs. rewrite Ek, Hp in Hs. pose proof (i_fk _ HI _ _ Ek) as F0.
  destruct F0 as [F1 F2 F3 F4 F5 FP F6 F7 F8 F9 F10 F11]. rewrite Hp in *. cbn [in_cs in_a] in *.
  destruct (F9 _ eq_refl) as (cur & Hnx & -> & HSb). rewrite Hnx in Hs.
  destruct (nth_error (boxes s) cur) as [bx|] eqn:Ebx; [|discriminate]. inv Hs.
  set (bx' := {| bval := bval bx; bnext := Some (S cur); bn := bn bx; block := block bx |}).
  assert (HL : L (set_boxes s (set_nth cur bx' (boxes s))) = L s) by (unfold L; cbn; apply set_nth_length).
  assert (HV : vals (set_boxes s (set_nth cur bx' (boxes s))) = vals s) by (unfold vals at 1; cbn; eapply vals_set_nth; eauto).
  apply (inv_build s _ f0 k0 (with_pc k0 (PB6 (S cur)))); auto; rewrite ?L_set_fork, ?vals_set_fork, ?HL, ?HV; auto.
  - exists []. now rewrite app_nil_r.
  - constructor; unfold with_pc; cbn [pc nxt started recv in_cs in_a]; rewrite ?L_set_fork, ?vals_set_fork, ?HL, ?HV; auto;
      try discriminate; try (intros; discriminate); try (intros ? [?|?]; discriminate).
  - apply (i_h0 _ HI).
  - intros Hh. exfalso. destruct (F7 _ Hnx) as [Hh' _]. apply Hh'. exact Hh.
  - intros i bxi j Hi Hj. cbn in Hi. destruct (Nat.eq_dec cur i) as [<-|Hne].
    + rewrite (nth_error_set_nth_same _ bx' _ _ Ebx) in Hi. inv Hi. cbn in Hj. inv Hj. split; [reflexivity|lia].
    + rewrite nth_error_set_nth_other in Hi by assumption. apply (i_ch _ HI _ _ _ Hi Hj).
  - intros i bxi Hi Hb. cbn in Hi. destruct (Nat.eq_dec cur i) as [<-|Hne].
    + rewrite (nth_error_set_nth_same _ bx' _ _ Ebx) in Hi. inv Hi. discriminate.
    + rewrite nth_error_set_nth_other in Hi by assumption.
      destruct (i_tl _ HI _ _ Hi Hb) as [Hs'|(f & k & Hk & Hpk & Hn)]; [now left|right].
      destruct (Nat.eq_dec f f0) as [->|Hnf].
      * rewrite Ek in Hk. inv Hk. congruence.
      * exists f, k. split; [cbn; rewrite nth_error_set_nth_other by congruence; exact Hk|auto].
Qed.

Lemma inv_step g s l s' e : Inv s -> step g s l = Some (s', e) -> Inv s'.
Proof.
  intros HI Hs. destruct l as [f0 ex]. cbn in Hs.
  destruct (nth_error (forks s) f0) as [k0|] eqn:Ek; [|unfold step_f in Hs; rewrite Ek in Hs; discriminate].
  destruct (pc k0) eqn:Epc.
  - eapply inv_step_pconly; eauto.
  - eapply inv_step_lock; eauto.
  - eapply inv_step_pconly; eauto.
  - destruct ex; [unfold step_f in Hs; rewrite Ek, Epc in Hs; discriminate|]. eapply inv_step_pa4; eauto.
  - eapply inv_step_box; eauto 8.
  - destruct ex; [unfold step_f in Hs; rewrite Ek, Epc in Hs; discriminate|]. eapply inv_step_pa6; eauto.
  - eapply inv_step_lock; eauto.
  - eapply inv_step_lock; eauto 8.
  - eapply inv_step_fork; eauto.
  - eapply inv_step_fork; eauto.
  - unfold step_f in Hs; rewrite Ek, Epc in Hs. destruct ex; discriminate.
  - destruct ex.
    + eapply inv_step_pconly; eauto 8.
    + eapply inv_step_lock; eauto 8.
  - eapply inv_step_pconly; eauto.
  - destruct ex; [unfold step_f in Hs; rewrite Ek, Epc in Hs; discriminate|]. eapply inv_step_pb4; eauto.
  - destruct ex; [unfold step_f in Hs; rewrite Ek, Epc in Hs; discriminate|]. eapply inv_step_pb5; eauto.
  - eapply inv_step_box; eauto 10.
  - eapply inv_step_lock; eauto 8.
  - eapply inv_step_box; eauto.
  - eapply inv_step_box; eauto.
  - eapply inv_step_box; eauto 8.
  - eapply inv_step_box; eauto 8.
  - eapply inv_step_fork; eauto 8.
  - eapply inv_step_fork; eauto 8.
  - unfold step_f in Hs; rewrite Ek, Epc in Hs. destruct ex; discriminate.
Qed.

Lemma inv_run g sched : Inv (run step g (init g) sched).
Proof. apply (inv_run step g Inv); [intros; eapply inv_step; eauto | apply inv_init]. Qed.

(* every fork has received a prefix of the values pulled from the source, in the order they were pulled *)
Lemma fork_prefix g sched f k :
  let s := run step g (init g) sched in
  nth_error (forks s) f = Some k -> recv k = firstn (length (recv k)) (map bval (boxes s)).
Proof. intros s Hk. destruct (i_fk _ (inv_run g sched) _ _ Hk) as [_ _ _ _ _ _ _ _ _ _ _ [H _]]. exact H. Qed.

Lemma fork_prefix_of_source g sched f k :
  let s := run step g (init g) sched in
  nth_error (forks s) f = Some k ->
  exists consumed, src g = consumed ++ rest s /\ recv k = firstn (length (recv k)) (datas_all consumed).
Proof.
  intros s Hk. destruct (source_pulled_once g sched) as (_ & consumed & Hsrc & Hv).
  exists consumed. split; [exact Hsrc|]. fold s in Hv. rewrite <- Hv. exact (fork_prefix g sched f k Hk).
Qed.
