From MpV Require Import Lib.Tac Lib.Conc Model.BatchWorker.
From Coq Require Import ZifyBool.
Open Scope nat_scope.
Local Arguments good_uids : simpl never.
Local Arguments goods : simpl never.

(* ---------------------------------------------------------------------------------------------- *)
(* list facts                                                                                      *)
(* ---------------------------------------------------------------------------------------------- *)

Definition is_stop (m : msg) : bool := match m with Stop => true | _ => false end.
Definition has_stop (l : list msg) : bool := existsb is_stop l.
Definition all_stop (l : list msg) : bool := forallb is_stop l.

(* items first, stop markers last *)
Fixpoint its (l : list msg) : bool :=
  match l with
  | [] => true
  | Item _ _ :: r => its r
  | Stop :: r => all_stop r
  end.

Definition buf_good (m : msg) : bool := match m with Item _ KGood => true | Stop => true | _ => false end.

Lemma has_stop_app l x : has_stop (l ++ [x]) = has_stop l || is_stop x.
Proof. unfold has_stop. rewrite existsb_app. cbn. now rewrite orb_false_r. Qed.

Lemma all_stop_app l x : all_stop (l ++ [x]) = all_stop l && is_stop x.
Proof. unfold all_stop. rewrite forallb_app. cbn. now rewrite andb_true_r. Qed.

Lemma its_app_stop l : its l = true -> its (l ++ [Stop]) = true.
Proof.
  induction l as [|[u k|] r IH]; cbn; intros H; auto.
  rewrite all_stop_app, H. reflexivity.
Qed.

Lemma its_app_item l u k : its l = true -> has_stop l = false -> its (l ++ [Item u k]) = true.
Proof.
  induction l as [|[u' k'|] r IH]; cbn; intros H Hn; auto; discriminate.
Qed.

Lemma all_stop_goods l : all_stop l = true -> goods l = [].
Proof. induction l as [|[u k|] r IH]; cbn; intros H; auto; discriminate. Qed.

Lemma all_stop_its l : all_stop l = true -> its l = true.
Proof. destruct l as [|[u k|] r]; cbn; intros H; auto; discriminate. Qed.

Lemma goods_app a b : goods (a ++ b) = goods a ++ goods b.
Proof. unfold goods. apply flat_map_app. Qed.

Lemma goods_cons m r : goods (m :: r) = msg_good m ++ goods r.
Proof. reflexivity. Qed.
Lemma goods_nil : goods [] = [].
Proof. reflexivity. Qed.

Lemma good_from_app i a b : good_from i (a ++ b) = good_from i a ++ good_from (i + length a) b.
Proof.
  revert i; induction a as [|k a IH]; intros i; cbn.
  - now rewrite Nat.add_0_r.
  - destruct k; cbn [good_from length app]; rewrite IH, <- Nat.add_succ_comm; reflexivity.
Qed.

Lemma firstn_S_nth {A} n (l : list A) x : nth_error l n = Some x -> firstn (S n) l = firstn n l ++ [x].
Proof.
  revert n; induction l as [|h t IH]; intros [|n] H; try discriminate H.
  - cbn in *. now inv H.
  - cbn [nth_error] in H. rewrite !firstn_cons. cbn [app]. f_equal. apply IH, H.
Qed.

Lemma firstn_length_nth {A} n (l : list A) x : nth_error l n = Some x -> length (firstn n l) = n.
Proof.
  intros H. apply firstn_length_le. assert (n < length l) by (apply nth_error_Some; congruence). lia.
Qed.

Lemma good_uids_S g n k :
  nth_error (reqs g) n = Some k ->
  good_uids g (S n) = good_uids g n ++ msg_good (Item (S n) k).
Proof.
  intros H. unfold good_uids. rewrite (firstn_S_nth _ _ _ H), good_from_app.
  rewrite (firstn_length_nth _ _ _ H). destruct k; cbn; now rewrite ?app_nil_r.
Qed.

Lemma good_uids_past g n : length (reqs g) <= n -> good_uids g n = good_uids g (length (reqs g)).
Proof. intros H. unfold good_uids. now rewrite firstn_all2, firstn_all by lia. Qed.

Lemma good_from_In i ks u :
  In u (good_from i ks) -> exists j, u = S (i + j) /\ nth_error ks j = Some KGood.
Proof.
  revert i; induction ks as [|k ks IH]; intros i; cbn; [tauto|].
  destruct k; cbn; intros H.
  - destruct H as [<-|H].
    + exists 0. split; [lia|reflexivity].
    + destruct (IH _ H) as (j & -> & Hj). exists (S j). split; [lia|exact Hj].
  - destruct (IH _ H) as (j & -> & Hj). exists (S j). split; [lia|exact Hj].
  - destruct (IH _ H) as (j & -> & Hj). exists (S j). split; [lia|exact Hj].
Qed.

Lemma nth_error_firstn_some {A} n (l : list A) j x : nth_error (firstn n l) j = Some x -> nth_error l j = Some x.
Proof.
  revert n j; induction l as [|h t IH]; intros [|n] [|j]; cbn; intros H; try discriminate; auto.
  eauto.
Qed.

(* a uid that occurs among the accepted inputs names a request that is a genuine input *)
Lemma good_uids_genuine g n u : In u (good_uids g n) -> exists j, u = S j /\ nth_error (reqs g) j = Some KGood.
Proof.
  intros H. destruct (good_from_In _ _ _ H) as (j & -> & Hj). exists j. split; [reflexivity|].
  eapply nth_error_firstn_some; eauto.
Qed.

Lemma good_from_lt i ks u : In u (good_from i ks) -> i < u.
Proof. intros H. destruct (good_from_In _ _ _ H) as (j & -> & _). lia. Qed.

Lemma good_from_nodup i ks : NoDup (good_from i ks).
Proof.
  revert i; induction ks as [|k ks IH]; intros i; cbn; [constructor|].
  destruct k; auto. constructor; auto. intros H. apply good_from_lt in H. lia.
Qed.

(* ---------------------------------------------------------------------------------------------- *)
(* Invariant A: shape of the batches and conservation of the accepted inputs, in order             *)
(* ---------------------------------------------------------------------------------------------- *)

Definition cur_b (b : bpc) : list nat :=
  match b with BColl l | BPutBack l | BSet l | BCall l => l | _ => [] end.
Definition cur_c (c : cpc) : list nat := match c with CProc m => msg_good m | _ => [] end.

Definition batch_ok (g : cfg) (l : list nat) : Prop := 1 <= length l <= bsize g.

Definition shape_b (g : cfg) (b : bpc) : Prop :=
  match b with
  | BColl l => 1 <= length l < bsize g
  | BPutBack l | BSet l | BCall l => batch_ok g l
  | BOut _ l => l <> []
  | _ => True
  end.

Record InvA (g : cfg) (s : state) : Prop := {
  a_shape : shape_b g (bp s);
  a_calls : Forall (batch_ok g) (calls s);
  a_buf : forallb buf_good (buf s) = true;
  a_cons : concat (calls s) ++ cur_b (bp s) ++ goods (buf s) ++ cur_c (cp s) ++ goods (qin s) = good_uids g (env_next s)
}.

Lemma inva_init g : InvA g (init g).
Proof. constructor; cbn; auto. Qed.

Lemma concat_snoc {A} (ls : list (list A)) l : concat (ls ++ [l]) = concat ls ++ l.
Proof. rewrite concat_app. cbn. now rewrite app_nil_r. Qed.

Lemma forallb_snoc {A} f (l : list A) x : forallb f (l ++ [x]) = forallb f l && f x.
Proof. rewrite forallb_app. cbn. now rewrite andb_true_r. Qed.

Ltac list_norm :=
  repeat (rewrite ?goods_app, ?goods_cons, ?goods_nil, ?concat_snoc, ?forallb_snoc, ?app_length, <- ?app_assoc, ?app_nil_r in *; cbn [goods flat_map msg_good app length cur_b cur_c forallb buf_good andb] in * ).

Lemma inva_env g s s' e : InvA g s -> step_env g s = Some (s', e) -> InvA g s'.
Proof.
  intros [Hs Hc Hb Hk] H. unfold step_env in H.
  destruct (nth_error (reqs g) (env_next s)) as [k|] eqn:En.
  - inv H. constructor; cbn; auto.
    + rewrite (good_uids_S _ _ _ En), <- Hk. list_norm. destruct k; cbn; now rewrite ?app_nil_r.
  - destruct (Nat.eqb (env_next s) (length (reqs g))) eqn:E; [|discriminate]. bool_to_prop. inv H.
    constructor; cbn; auto.
    + rewrite good_uids_past by lia. rewrite <- E, <- Hk. list_norm. reflexivity.
Qed.

Lemma inva_c g s s' e : InvA g s -> step_c g s = Some (s', e) -> InvA g s'.
Proof.
  intros [Hs Hc Hb Hk] H. unfold step_c, with_cp in H.
  destruct s as [n qi bf qo c b fl wk cs]; cbn in *.
  destruct c as [| | | |m| | | | | | |]; break_match_hyp H; inv H; constructor; cbn in *; auto; list_norm; auto.
  all: try (now rewrite Hb).
Qed.

Lemma batch_ok_snoc_lt g l u : 1 <= length l < bsize g -> batch_ok g (l ++ [u]).
Proof. unfold batch_ok. rewrite app_length. cbn. lia. Qed.

Lemma inva_b g s ex s' e : 1 < bsize g -> InvA g s -> step_b g s ex = Some (s', e) -> InvA g s'.
Proof.
  intros Hb1 [Hs Hc Hb Hk] H. unfold step_b, with_bp in H.
  destruct s as [n qi bf qo c b fl wk cs]; cbn in *.
  destruct b as [|l|l|l|l|f l| | |]; destruct ex; try discriminate H; try (destruct l; discriminate H); cbn [shape_b cur_b] in Hs, Hk.
  - (* BIdle pops *)
    destruct bf as [|m r]; [discriminate|]. inv H. cbn in Hb. bool_to_prop.
    constructor; cbn; auto.
    + destruct m as [u k|]; cbn; auto; lia.
    + destruct m as [u [| |]|]; cbn in *; try discriminate; list_norm; auto.
  - (* BColl times out *)
    inv H. constructor; cbn; auto. unfold batch_ok. lia.
  - (* BColl pops *)
    destruct bf as [|m r]; [discriminate|]. inv H. cbn in Hb. bool_to_prop.
    constructor; cbn; auto.
    + destruct m as [u k|]; cbn.
      * destruct (S (length l) <? bsize g) eqn:E; bool_to_prop; cbn.
        -- rewrite app_length; cbn. lia.
        -- apply batch_ok_snoc_lt. exact Hs.
      * unfold batch_ok. lia.
    + destruct m as [u [| |]|]; cbn in *; try discriminate.
      * destruct (S (length l) <? bsize g); cbn; list_norm; auto.
      * list_norm; auto.
  - (* BPutBack *)
    break_match_hyp H. inv H. constructor; cbn; auto; list_norm; auto. now rewrite Hb.
  - (* BSet *)
    inv H. constructor; cbn; auto.
  - (* BCall *)
    inv H. constructor; cbn; auto.
    + unfold batch_ok in Hs. destruct l; cbn in *; [lia|discriminate].
    + apply Forall_app. split; auto.
    + list_norm. exact Hk.
  - (* BOut *)
    destruct l as [|u r]; [discriminate|]. inv H. constructor; cbn; auto.
    + destruct r; cbn; auto. discriminate.
    + destruct r; cbn; auto.
  - (* BStop1 *)
    inv H. constructor; cbn; auto. list_norm. auto.
  - (* BStop2 *)
    inv H. constructor; cbn; auto.
Qed.

Lemma inva_csilent g s s' e : InvA g s -> step_csilent g s = Some (s', e) -> InvA g s'.
Proof.
  intros [Hs Hc Hb Hk] H. unfold step_csilent, with_cp in H.
  destruct s as [n qi bf qo c b fl wk cs]; cbn in *.
  break_match_hyp H; inv H; constructor; cbn in *; auto.
Qed.

Lemma inva_step g s l s' e : 1 < bsize g -> InvA g s -> step g s l = Some (s', e) -> InvA g s'.
Proof.
  intros Hb HI H. destruct l; cbn in H.
  - eapply inva_env; eauto.
  - eapply inva_c; eauto.
  - eapply inva_csilent; eauto.
  - eapply inva_b; eauto.
Qed.

Lemma inva_run g sched : 1 < bsize g -> InvA g (run step g (init g) sched).
Proof.
  intros Hb. apply (inv_run step g (InvA g)); [intros; eapply inva_step; eauto | apply inva_init].
Qed.

(* every call receives a non-empty list of at most b uids, each of which names a genuine input *)
Lemma batches_wellformed g sched l :
  1 < bsize g -> In l (calls (run step g (init g) sched)) ->
  1 <= length l <= bsize g /\ forall u, In u l -> exists j, u = S j /\ nth_error (reqs g) j = Some KGood.
Proof.
  intros Hb Hin. destruct (inva_run g sched Hb) as [_ Hc _ Hk].
  split.
  - rewrite Forall_forall in Hc. apply (Hc _ Hin).
  - intros u Hu. apply (good_uids_genuine g (env_next (run step g (init g) sched))).
    rewrite <- Hk. apply in_or_app. left. apply in_concat. eauto.
Qed.

Lemma nodup_app_l {A} (a b : list A) : NoDup (a ++ b) -> NoDup a.
Proof.
  induction a as [|x a IH]; cbn; intros H; [constructor|].
  inversion H as [|? ? Hn Hd]; subst. constructor; auto. intros Hi. apply Hn. apply in_or_app. now left.
Qed.

(* no accepted input is ever in two batches, or twice in one *)
Lemma batches_disjoint g sched : 1 < bsize g -> NoDup (concat (calls (run step g (init g) sched))).
Proof.
  intros Hb. destruct (inva_run g sched Hb) as [_ _ _ Hk].
  assert (H : NoDup (good_uids g (env_next (run step g (init g) sched)))) by apply good_from_nodup.
  rewrite <- Hk in H. eapply nodup_app_l; eauto.
Qed.

(* ---------------------------------------------------------------------------------------------- *)
(* Invariant B: buffer capacity and the stop protocol (for the code as it is now: locked_check)    *)
(* ---------------------------------------------------------------------------------------------- *)

Definition c_room (c : cpc) : bool := match c with CGet | CProc _ => true | _ => false end.
Definition c_fullwait (c : cpc) : bool := match c with CFullWait => true | _ => false end.
Definition c_enter (c : cpc) : bool := match c with CEnterWait => true | _ => false end.
Definition c_stopping (c : cpc) : bool := match c with CStop1 | CDone => true | _ => false end.
Definition c_tookstop (c : cpc) : bool := match c with CProc Stop | CStop1 | CDone => true | _ => false end.
Definition b_putback (b : bpc) : bool := match b with BPutBack _ => true | _ => false end.
Definition b_stopped (b : bpc) : bool := match b with BStop1 | BStop2 | BDone => true | _ => false end.

Lemma its_snoc_stop l : its (l ++ [Stop]) = its l.
Proof.
  induction l as [|[u k|] r IH]; cbn; auto.
  rewrite all_stop_app. cbn. now rewrite andb_true_r.
Qed.

Lemma its_snoc_item l u k : its (l ++ [Item u k]) = its l && negb (has_stop l).
Proof.
  induction l as [|[u' k'|] r IH]; cbn; auto.
  rewrite all_stop_app. cbn. now rewrite !andb_false_r.
Qed.

Lemma its_cons m r : its (m :: r) = true -> its r = true.
Proof. destruct m; cbn; auto. apply all_stop_its. Qed.

Record InvB (g : cfg) (s : state) : Prop := {
  b_cap : length (buf s) <= bsize g + 10;
  b_room : c_room (cp s) = true -> length (buf s) < bsize g + 10;
  b_wait : c_fullwait (cp s) = true -> woken s = false -> bsize g + 10 <= length (buf s);
  b_noenter : c_enter (cp s) = false;
  b_stop_c : (b_putback (bp s) || b_stopped (bp s)) || has_stop (buf s) = true -> c_stopping (cp s) = true;
  b_stop_b : c_stopping (cp s) = true -> has_stop (buf s) || (b_putback (bp s) || b_stopped (bp s)) = true;
  b_envdone : length (reqs g) < env_next s -> has_stop (qin s) || c_tookstop (cp s) = true;
  b_pbroom : b_putback (bp s) = true -> length (buf s) < bsize g + 10;
  b_early : env_next s <= length (reqs g) -> has_stop (qin s) = false /\ c_tookstop (cp s) = false;
  b_its_q : its (qin s) = true;
  b_its_b : its (buf s) = true;
  b_qstops : c_tookstop (cp s) = true -> all_stop (qin s) = true;
  b_bstops : b_stopped (bp s) = true -> all_stop (buf s) = true;
  b_envle : env_next s <= S (length (reqs g));
  b_tookstop : c_stopping (cp s) = true -> c_tookstop (cp s) = true
}.

Lemma invb_init g : InvB g (init g).
Proof. constructor; cbn; auto; try discriminate; try lia. Qed.

(* the list facts as boolean equations, then linear arithmetic over opaque boolean atoms *)
Ltac bnorm :=
  cbn [env_next qin buf qout cp bp flag woken calls c_room c_fullwait c_enter c_stopping c_tookstop b_putback b_stopped
       is_stop has_stop all_stop existsb forallb its length] in *;
  rewrite ?has_stop_app, ?all_stop_app, ?its_snoc_stop, ?its_snoc_item, ?app_length in *;
  cbn [is_stop length] in *.

Ltac fold_lists :=
  repeat match goal with
         | H : context [existsb is_stop ?l] |- _ => change (existsb is_stop l) with (has_stop l) in H
         | |- context [existsb is_stop ?l] => change (existsb is_stop l) with (has_stop l)
         | H : context [forallb is_stop ?l] |- _ => change (forallb is_stop l) with (all_stop l) in H
         | |- context [forallb is_stop ?l] => change (forallb is_stop l) with (all_stop l)
         end.

Ltac fin := bnorm; fold_lists; bnorm; first [assumption | lia | (apply all_stop_its; first [assumption | lia])].
Ltac invb_close H1 H2 H3 H4 H5 H6 H7 H8 H9 H10 H11 H12 H13 H14 H15 :=
  constructor;
  [> clear H3 H4 H5 H6 H7 H9 H10 H11 H12 H13 H14 H15; fin
   | clear H3 H4 H6 H7 H8 H9 H10 H11 H12 H13 H14 H15; fin
   | clear H2 H4 H5 H6 H7 H8 H9 H10 H11 H12 H13 H14 H15; fin
   | clear H1 H2 H3 H5 H6 H7 H8 H9 H10 H11 H12 H13 H14 H15; fin
   | clear H1 H2 H3 H4 H7 H8 H9 H10 H11 H12 H13 H14; fin
   | clear H1 H2 H3 H4 H7 H8 H9 H10 H11 H12 H13 H14 H15; fin
   | clear H1 H2 H3 H4 H5 H6 H8 H10 H11 H12 H13 H15; fin
   | clear H3 H4 H6 H7 H9 H10 H11 H12 H13 H14 H15; fin
   | clear H1 H2 H3 H4 H6 H7 H8 H10 H11 H12 H13; fin
   | clear H1 H2 H3 H4 H5 H6 H7 H8 H11 H12 H13 H14 H15; fin
   | clear H1 H2 H3 H4 H6 H7 H8 H9 H10 H12 H13 H14 H15; fin
   | clear H1 H2 H3 H4 H5 H6 H7 H8 H11 H13 H14 H15; fin
   | clear H1 H2 H3 H4 H6 H7 H8 H9 H10 H12 H14 H15; fin
   | clear H1 H2 H3 H4 H5 H6 H7 H8 H9 H10 H11 H12 H13 H15; fin
   | clear H1 H2 H3 H4 H5 H6 H7 H8 H9 H10 H11 H12 H13 H14; fin ].

Lemma c_stopping_noroom c : c_stopping c = true -> c_room c = false.
Proof. destruct c; cbn; auto; discriminate. Qed.

Lemma invb_env g s s' e : InvB g s -> step_env g s = Some (s', e) -> InvB g s'.
Proof.
  intros [H1 H2 H3 H4 H5 H6 H7 H8 H9 H10 H11 H12 H13 H14 H15] H. unfold step_env in H.
  destruct (nth_error (reqs g) (env_next s)) as [k|] eqn:En.
  - assert (Hlt : env_next s < length (reqs g)) by (apply nth_error_Some; congruence).
    inv H. invb_close H1 H2 H3 H4 H5 H6 H7 H8 H9 H10 H11 H12 H13 H14 H15.
  - destruct (Nat.eqb (env_next s) (length (reqs g))) eqn:E; [|discriminate]. bool_to_prop. inv H.
    invb_close H1 H2 H3 H4 H5 H6 H7 H8 H9 H10 H11 H12 H13 H14 H15.
Qed.

Lemma invb_c g s s' e : locked_check g = true -> InvB g s -> step_c g s = Some (s', e) -> InvB g s'.
Proof.
  intros HL [H1 H2 H3 H4 H5 H6 H7 H8 H9 H10 H11 H12 H13 H14 H15] H. unfold step_c, with_cp, is_full, cap in H.
  destruct s as [n qi bf qo c b fl wk cs]; cbn [env_next qin buf qout cp bp flag woken calls] in *. rewrite HL in H.
  destruct c as [| | | |m| | | | | | |]; break_match_hyp H; inv H; bool_to_prop.
  all: try (match goal with m : msg |- _ => destruct m end).
  all: invb_close H1 H2 H3 H4 H5 H6 H7 H8 H9 H10 H11 H12 H13 H14 H15.
Qed.

Lemma invb_b g s ex s' e : InvB g s -> step_b g s ex = Some (s', e) -> InvB g s'.
Proof.
  intros [H1 H2 H3 H4 H5 H6 H7 H8 H9 H10 H11 H12 H13 H14 H15] H. unfold step_b, with_bp, is_full, cap, pop_notify in H.
  destruct s as [n qi bf qo c b fl wk cs]; cbn [env_next qin buf qout cp bp flag woken calls] in *.
  pose proof (c_stopping_noroom c) as Hsr.
  destruct b as [|l|l|l|l|f l| | |]; destruct ex; try discriminate H; try (destruct l; discriminate H);
    break_match_hyp H; inv H; bool_to_prop.
  all: try (match goal with m : msg |- _ => destruct m end).
  all: invb_close H1 H2 H3 H4 H5 H6 H7 H8 H9 H10 H11 H12 H13 H14 H15.
Qed.

Lemma invb_csilent g s s' e : locked_check g = true -> step_csilent g s = Some (s', e) -> InvB g s'.
Proof. intros HL H. unfold step_csilent in H. rewrite HL in H. discriminate. Qed.

Lemma invb_step g s l s' e : locked_check g = true -> InvB g s -> step g s l = Some (s', e) -> InvB g s'.
Proof.
  intros HL HI H. destruct l; cbn in H.
  - eapply invb_env; eauto.
  - eapply invb_c; eauto.
  - eapply invb_csilent; eauto.
  - eapply invb_b; eauto.
Qed.

Lemma invb_run g sched : locked_check g = true -> InvB g (run step g (init g) sched).
Proof.
  intros HL. apply (inv_run step g (InvB g)); [intros; eapply invb_step; eauto | apply invb_init].
Qed.

Definition c_blocked (g : cfg) (s : state) : Prop :=
  match cp s with
  | CFullWait => woken s = false
  | CEnterWait => True
  | CGet => qin s = []
  | CProc Stop | CProc (Item _ KGood) => is_full g s = true
  | CDone => True
  | _ => False
  end.

Lemma c_blocked_of g s : locked_check g = true -> step_c g s = None -> c_blocked g s.
Proof.
  intros HL H. unfold step_c, c_blocked in *. rewrite HL in H.
  destruct (cp s) as [| | | |[u [| |]|]| | | | | | |]; try discriminate H; auto.
  - destruct (is_full g s); discriminate.
  - destruct (woken s); [|reflexivity]. destruct (is_full g s); discriminate.
  - destruct (qin s); [reflexivity|discriminate].
  - destruct (is_full g s); [reflexivity|discriminate].
  - destruct (is_full g s); [reflexivity|discriminate].
  - destruct (qin s); discriminate.
Qed.

Definition b_blocked (g : cfg) (s : state) : Prop :=
  match bp s with
  | BIdle => buf s = []
  | BPutBack _ => is_full g s = true
  | BOut _ [] => True
  | BDone => True
  | _ => False
  end.

Lemma b_blocked_of g s : step_b g s false = None -> step_b g s true = None -> b_blocked g s.
Proof.
  intros H Ht. unfold step_b, b_blocked in *.
  destruct (bp s) as [|l|l|l|l|f [|u r]| | |]; try discriminate H; try discriminate Ht; auto.
  - destruct (buf s); [reflexivity|discriminate].
  - destruct (is_full g s); [reflexivity|discriminate].
Qed.

(* a state in which no thread can take a step is the final state: everything has been served and both
   threads of the worker have returned *)
Lemma stuck_is_done g s :
  locked_check g = true -> InvA g s -> InvB g s -> stuck g s = true -> all_done g s = true.
Proof.
  intros HL [As _ _ _] HB Hst.
  unfold stuck in Hst. cbn [step] in Hst.
  destruct (step_env g s) eqn:Ee; [destruct p; discriminate|].
  destruct (step_c g s) eqn:Ec; [destruct p; discriminate|].
  destruct (step_csilent g s) eqn:Es; [destruct p; discriminate|].
  destruct (step_b g s false) eqn:Eb; [destruct p; discriminate|].
  destruct (step_b g s true) eqn:Ebt; [destruct p; discriminate|]. clear Hst Es.
  assert (Hend : length (reqs g) < env_next s).
  { unfold step_env in Ee. destruct (nth_error (reqs g) (env_next s)) eqn:En; [discriminate|].
    destruct (Nat.eqb (env_next s) (length (reqs g))) eqn:E; [discriminate|]. bool_to_prop.
    apply nth_error_None in En. lia. }
  pose proof (c_blocked_of g s HL Ec) as Hc. pose proof (b_blocked_of g s Eb Ebt) as Hb.
  clear Ee Ec Eb Ebt.
  destruct HB as [H1 H2 H3 H4 H5 H6 H7 H8 H9 H10 H11 H12 H13 H14 H15].
  unfold all_done, c_blocked, b_blocked, is_full, cap in *.
  destruct s as [n qi bf qo c b fl wk cs]; cbn [env_next qin buf qout cp bp flag woken calls] in *.
  clear H9 H10 H11 H12 H13 H14.
  destruct b as [|l|l|l|l|f [|u r]| | |]; try contradiction; cbn [shape_b] in As; try congruence;
    destruct c as [| | | |[u' [| |]|]| | | | | | |]; try contradiction; subst; bnorm; bool_to_prop; try lia.
Qed.

(* ---------------------------------------------------------------------------------------------- *)
(* statements about every schedule                                                                 *)
(* ---------------------------------------------------------------------------------------------- *)

(* the only state in which nothing can move is the final one: no interleaving of the producer, the
   collector and the consumer wedges the worker (time-outs of the timed get are always allowed to fire) *)
Lemma no_wedge g sched :
  locked_check g = true -> 1 < bsize g ->
  stuck g (run step g (init g) sched) = true -> all_done g (run step g (init g) sched) = true.
Proof.
  intros HL Hb. apply stuck_is_done; auto using inva_run, invb_run.
Qed.

(* when the worker has shut down, the batches it was called with are exactly the genuine inputs, each once, in
   arrival order *)
Lemma accepted_exactly_once g sched :
  locked_check g = true -> 1 < bsize g ->
  all_done g (run step g (init g) sched) = true ->
  concat (calls (run step g (init g) sched)) = good_uids g (length (reqs g)).
Proof.
  intros HL Hb Hd.
  destruct (inva_run g sched Hb) as [_ _ _ Hk].
  destruct (invb_run g sched HL) as [_ _ _ _ _ _ _ _ _ _ _ Hq Hbs _ _].
  unfold all_done in Hd.
  destruct (cp (run step g (init g) sched)) eqn:Ec; try discriminate Hd.
  destruct (bp (run step g (init g) sched)) eqn:Eb; try discriminate Hd.
  apply Nat.ltb_lt in Hd.
  cbn in Hq, Hbs, Hk.
  rewrite (all_stop_goods _ (Hq eq_refl)), (all_stop_goods _ (Hbs eq_refl)) in Hk.
  cbn in Hk. rewrite !app_nil_r in Hk. rewrite Hk. apply good_uids_past. lia.
Qed.

(* the collector's buffer.put and the consumer's put-back of the end marker never find the buffer full *)
Lemma puts_never_block g sched :
  locked_check g = true ->
  let s := run step g (init g) sched in
  (c_room (cp s) = true \/ b_putback (bp s) = true) -> is_full g s = false.
Proof.
  intros HL s H. destruct (invb_run g sched HL) as [_ Hr _ _ _ _ _ Hp _ _ _ _ _ _ _].
  fold s in Hr, Hp. unfold is_full, cap. apply Nat.leb_gt. destruct H as [H|H]; auto.
Qed.

(* ---- the end marker is the last thing the worker puts into its output queue (repair N1) ---- *)
Definition is_ostop (m : omsg) : bool := match m with OStop => true | _ => false end.
Definition no_ostop (l : list omsg) : bool := forallb (fun m => negb (is_ostop m)) l.

Definition ML (s : state) : Prop :=
  no_ostop (qout s) = true \/ (exists a, qout s = a ++ [OStop] /\ no_ostop a = true /\ bp s = BDone).

Lemma no_ostop_snoc l m : no_ostop (l ++ [m]) = no_ostop l && negb (is_ostop m).
Proof. unfold no_ostop. rewrite forallb_app. cbn. now rewrite andb_true_r. Qed.

Lemma ml_keep s s' : ML s -> qout s' = qout s -> bp s' = bp s -> ML s'.
Proof. unfold ML. intros H -> ->. exact H. Qed.

Lemma ml_step g s l s' e : InvB g s -> ML s -> step g s l = Some (s', e) -> ML s'.
Proof.
  intros HB H Hs. destruct l as [| | |ex]; cbn in Hs.
  - unfold step_env in Hs. break_match_hyp Hs; inv Hs; eapply ml_keep; eauto.
  - (* collector *)
    unfold step_c, with_cp in Hs. break_match_hyp Hs; inv Hs; try (eapply ml_keep; eauto; reflexivity).
    (* the collector short-circuits an exception to q_out: the consumer has not finished *)
    all: destruct H as [H|(a & Hq & Ha & Hb)];
      [ left; cbn; rewrite no_ostop_snoc, H; reflexivity
      | exfalso; pose proof (b_stop_c _ _ HB) as Hc; rewrite Hb in Hc; cbn in Hc;
        match goal with E : cp _ = _ |- _ => rewrite E in Hc end; specialize (Hc eq_refl); discriminate ].
  - unfold step_csilent, with_cp in Hs. break_match_hyp Hs; inv Hs; eapply ml_keep; eauto.
  - (* consumer *)
    unfold step_b in Hs. break_match_hyp Hs; inv Hs.
    all: destruct H as [H|(a & Hq & Ha & Hb)]; [|match goal with E : bp _ = _ |- _ => rewrite E in Hb; discriminate Hb end].
    all: first [ solve [left; exact H]
               | solve [left; cbn [qout]; rewrite no_ostop_snoc, H; try match goal with |- context [if ?b then _ else _] => destruct b end; reflexivity]
               | solve [right; exists (qout s); cbn [qout bp]; repeat split; auto] ].
Qed.

Lemma ml_run g sched : locked_check g = true -> ML (run step g (init g) sched).
Proof.
  intros HL. assert (H : InvB g (run step g (init g) sched) /\ ML (run step g (init g) sched)).
  { apply (inv_run step g (fun s => InvB g s /\ ML s)).
    - intros s l s' e [H1 H2] Hs. split; [eapply invb_step; eauto|eapply ml_step; eauto].
    - split; [apply invb_init|left; reflexivity]. }
  exact (proj2 H).
Qed.

Lemma split_last_stop a b a' : a ++ OStop :: b = a' ++ [OStop] -> no_ostop a' = true -> b = [] /\ no_ostop a = true.
Proof.
  revert a'. induction a as [|h t IH]; intros a' Hq Ha.
  - destruct a' as [|h' t']; cbn in Hq.
    + injection Hq as Hb. subst b. auto.
    + injection Hq as Hh _. subst h'. cbn in Ha. discriminate.
  - destruct a' as [|h' t']; cbn in Hq.
    + injection Hq as _ Hq. destruct t; discriminate.
    + injection Hq as Hh0 Hq. subst h'. cbn in Ha. apply andb_true_iff in Ha as [Hh Ht]. destruct (IH _ Hq Ht) as [-> Hx].
      split; [reflexivity|]. change (no_ostop (h :: t)) with (negb (is_ostop h) && no_ostop t). rewrite Hh, Hx. reflexivity.
Qed.

(* nothing follows the end marker in the worker's output queue, and there is at most one *)
Lemma marker_is_last g sched a b :
  locked_check g = true -> qout (run step g (init g) sched) = a ++ OStop :: b -> b = [] /\ no_ostop a = true.
Proof.
  intros HL Hq. destruct (ml_run g sched HL) as [H|(a' & Hq' & Ha' & _)].
  - rewrite Hq in H. unfold no_ostop in H. rewrite forallb_app in H. cbn in H. rewrite andb_false_r in H. discriminate.
  - rewrite Hq in Hq'. eapply split_last_stop; eauto.
Qed.
