From MpV Require Import Lib.Tac Lib.Conc Model.BatchWorker.
Open Scope nat_scope.
Local Arguments good_uids : simpl never.
Local Arguments goods : simpl never.

(* ---------------------------------------------------------------------------------------------- *)
(* list facts                                                                                      *)
(* ---------------------------------------------------------------------------------------------- *)

Definition is_stop (m : msg) : bool := match m with Stop => true | _ => false end.
Definition has_stop (l : list msg) : bool := existsb is_stop l.
Definition all_stop (l : list msg) : bool := forallb is_stop l.

(* items first, stop markers last *)
Fixpoint its (l : list msg) : bool :=
  match l with
  | [] => true
  | Item _ _ :: r => its r
  | Stop :: r => all_stop r
  end.

Definition buf_good (m : msg) : bool := match m with Item _ KGood => true | Stop => true | _ => false end.

Lemma has_stop_app l x : has_stop (l ++ [x]) = has_stop l || is_stop x.
Proof. unfold has_stop. rewrite existsb_app. cbn. now rewrite orb_false_r. Qed.

Lemma all_stop_app l x : all_stop (l ++ [x]) = all_stop l && is_stop x.
Proof. unfold all_stop. rewrite forallb_app. cbn. now rewrite andb_true_r. Qed.

Lemma its_app_stop l : its l = true -> its (l ++ [Stop]) = true.
Proof.
  induction l as [|[u k|] r IH]; cbn; intros H; auto.
  rewrite all_stop_app, H. reflexivity.
Qed.

Lemma its_app_item l u k : its l = true -> has_stop l = false -> its (l ++ [Item u k]) = true.
Proof.
  induction l as [|[u' k'|] r IH]; cbn; intros H Hn; auto; discriminate.
Qed.

Lemma all_stop_goods l : all_stop l = true -> goods l = [].
Proof. induction l as [|[u k|] r IH]; cbn; intros H; auto; discriminate. Qed.

Lemma all_stop_its l : all_stop l = true -> its l = true.
Proof. destruct l as [|[u k|] r]; cbn; intros H; auto; discriminate. Qed.

Lemma goods_app a b : goods (a ++ b) = goods a ++ goods b.
Proof. unfold goods. apply flat_map_app. Qed.

Lemma goods_cons m r : goods (m :: r) = msg_good m ++ goods r.
Proof. reflexivity. Qed.
Lemma goods_nil : goods [] = [].
Proof. reflexivity. Qed.

Lemma good_from_app i a b : good_from i (a ++ b) = good_from i a ++ good_from (i + length a) b.
Proof.
  revert i; induction a as [|k a IH]; intros i; cbn.
  - now rewrite Nat.add_0_r.
  - destruct k; cbn [good_from length app]; rewrite IH, <- Nat.add_succ_comm; reflexivity.
Qed.

Lemma firstn_S_nth {A} n (l : list A) x : nth_error l n = Some x -> firstn (S n) l = firstn n l ++ [x].
Proof.
  revert n; induction l as [|h t IH]; intros [|n] H; try discriminate H.
  - cbn in *. now inv H.
  - cbn [nth_error] in H. rewrite !firstn_cons. cbn [app]. f_equal. apply IH, H.
Qed.

Lemma firstn_length_nth {A} n (l : list A) x : nth_error l n = Some x -> length (firstn n l) = n.
Proof.
  intros H. apply firstn_length_le. assert (n < length l) by (apply nth_error_Some; congruence). lia.
Qed.

Lemma good_uids_S g n k :
  nth_error (reqs g) n = Some k ->
  good_uids g (S n) = good_uids g n ++ msg_good (Item (S n) k).
Proof.
  intros H. unfold good_uids. rewrite (firstn_S_nth _ _ _ H), good_from_app.
  rewrite (firstn_length_nth _ _ _ H). destruct k; cbn; now rewrite ?app_nil_r.
Qed.

Lemma good_uids_past g n : length (reqs g) <= n -> good_uids g n = good_uids g (length (reqs g)).
Proof. intros H. unfold good_uids. now rewrite firstn_all2, firstn_all by lia. Qed.

Lemma good_from_In i ks u :
  In u (good_from i ks) -> exists j, u = S (i + j) /\ nth_error ks j = Some KGood.
Proof.
  revert i; induction ks as [|k ks IH]; intros i; cbn; [tauto|].
  destruct k; cbn; intros H.
  - destruct H as [<-|H].
    + exists 0. split; [lia|reflexivity].
    + destruct (IH _ H) as (j & -> & Hj). exists (S j). split; [lia|exact Hj].
  - destruct (IH _ H) as (j & -> & Hj). exists (S j). split; [lia|exact Hj].
  - destruct (IH _ H) as (j & -> & Hj). exists (S j). split; [lia|exact Hj].
Qed.

Lemma nth_error_firstn_some {A} n (l : list A) j x : nth_error (firstn n l) j = Some x -> nth_error l j = Some x.
Proof.
  revert n j; induction l as [|h t IH]; intros [|n] [|j]; cbn; intros H; try discriminate; auto.
  eauto.
Qed.

(* a uid that occurs among the accepted inputs names a request that is a genuine input *)
Lemma good_uids_genuine g n u : In u (good_uids g n) -> exists j, u = S j /\ nth_error (reqs g) j = Some KGood.
Proof.
  intros H. destruct (good_from_In _ _ _ H) as (j & -> & Hj). exists j. split; [reflexivity|].
  eapply nth_error_firstn_some; eauto.
Qed.

Lemma good_from_lt i ks u : In u (good_from i ks) -> i < u.
Proof. intros H. destruct (good_from_In _ _ _ H) as (j & -> & _). lia. Qed.

Lemma good_from_nodup i ks : NoDup (good_from i ks).
Proof.
  revert i; induction ks as [|k ks IH]; intros i; cbn; [constructor|].
  destruct k; auto. constructor; auto. intros H. apply good_from_lt in H. lia.
Qed.

(* ---------------------------------------------------------------------------------------------- *)
(* Invariant A: shape of the batches and conservation of the accepted inputs, in order             *)
(* ---------------------------------------------------------------------------------------------- *)

Definition cur_b (b : bpc) : list nat :=
  match b with BColl l | BPutBack l | BSet l | BCall l => l | _ => [] end.
Definition cur_c (c : cpc) : list nat := match c with CProc m => msg_good m | _ => [] end.

Definition batch_ok (g : cfg) (l : list nat) : Prop := 1 <= length l <= bsize g.

Definition shape_b (g : cfg) (b : bpc) : Prop :=
  match b with
  | BColl l => 1 <= length l < bsize g
  | BPutBack l | BSet l | BCall l => batch_ok g l
  | BOut _ l => l <> []
  | _ => True
  end.

Record InvA (g : cfg) (s : state) : Prop := {
  a_shape : shape_b g (bp s);
  a_calls : Forall (batch_ok g) (calls s);
  a_buf : forallb buf_good (buf s) = true;
  a_cons : concat (calls s) ++ cur_b (bp s) ++ goods (buf s) ++ cur_c (cp s) ++ goods (qin s) = good_uids g (env_next s)
}.

Lemma inva_init g : InvA g (init g).
Proof. constructor; cbn; auto. Qed.

Lemma concat_snoc {A} (ls : list (list A)) l : concat (ls ++ [l]) = concat ls ++ l.
Proof. rewrite concat_app. cbn. now rewrite app_nil_r. Qed.

Lemma forallb_snoc {A} f (l : list A) x : forallb f (l ++ [x]) = forallb f l && f x.
Proof. rewrite forallb_app. cbn. now rewrite andb_true_r. Qed.

Ltac list_norm :=
  repeat (rewrite ?goods_app, ?goods_cons, ?goods_nil, ?concat_snoc, ?forallb_snoc, ?app_length, <- ?app_assoc, ?app_nil_r in *; cbn [goods flat_map msg_good app length cur_b cur_c forallb buf_good andb] in * ).

Lemma inva_env g s s' e : InvA g s -> step_env g s = Some (s', e) -> InvA g s'.
Proof.
  intros [Hs Hc Hb Hk] H. unfold step_env in H.
  destruct (nth_error (reqs g) (env_next s)) as [k|] eqn:En.
  - inv H. constructor; cbn; auto.
    + rewrite (good_uids_S _ _ _ En), <- Hk. list_norm. destruct k; cbn; now rewrite ?app_nil_r.
  - destruct (Nat.eqb (env_next s) (length (reqs g))) eqn:E; [|discriminate]. bool_to_prop. inv H.
    constructor; cbn; auto.
    + rewrite good_uids_past by lia. rewrite <- E, <- Hk. list_norm. reflexivity.
Qed.

Lemma inva_c g s s' e : InvA g s -> step_c g s = Some (s', e) -> InvA g s'.
Proof.
  intros [Hs Hc Hb Hk] H. unfold step_c, with_cp in H.
  destruct s as [n qi bf qo c b fl wk cs]; cbn in *.
  destruct c as [| | | |m| | | | | | | |]; break_match_hyp H; inv H; constructor; cbn in *; auto; list_norm; auto.
  all: try (now rewrite Hb).
Qed.

Lemma batch_ok_snoc_lt g l u : 1 <= length l < bsize g -> batch_ok g (l ++ [u]).
Proof. unfold batch_ok. rewrite app_length. cbn. lia. Qed.

Lemma inva_b g s ex s' e : 1 < bsize g -> InvA g s -> step_b g s ex = Some (s', e) -> InvA g s'.
Proof.
  intros Hb1 [Hs Hc Hb Hk] H. unfold step_b, with_bp in H.
  destruct s as [n qi bf qo c b fl wk cs]; cbn in *.
  destruct b as [|l|l|l|l|f l| | |]; destruct ex; try discriminate H; try (destruct l; discriminate H); cbn [shape_b cur_b] in Hs, Hk.
  - (* BIdle pops *)
    destruct bf as [|m r]; [discriminate|]. inv H. cbn in Hb. bool_to_prop.
    constructor; cbn; auto.
    + destruct m as [u k|]; cbn; auto; lia.
    + destruct m as [u [| |]|]; cbn in *; try discriminate; list_norm; auto.
  - (* BColl times out *)
    inv H. constructor; cbn; auto. unfold batch_ok. lia.
  - (* BColl pops *)
    destruct bf as [|m r]; [discriminate|]. inv H. cbn in Hb. bool_to_prop.
    constructor; cbn; auto.
    + destruct m as [u k|]; cbn.
      * destruct (S (length l) <? bsize g) eqn:E; bool_to_prop; cbn.
        -- rewrite app_length; cbn. lia.
        -- apply batch_ok_snoc_lt. exact Hs.
      * unfold batch_ok. lia.
    + destruct m as [u [| |]|]; cbn in *; try discriminate.
      * destruct (S (length l) <? bsize g); cbn; list_norm; auto.
      * list_norm; auto.
  - (* BPutBack *)
    break_match_hyp H. inv H. constructor; cbn; auto; list_norm; auto. now rewrite Hb.
  - (* BSet *)
    inv H. constructor; cbn; auto.
  - (* BCall *)
    inv H. constructor; cbn; auto.
    + unfold batch_ok in Hs. destruct l; cbn in *; [lia|discriminate].
    + apply Forall_app. split; auto.
    + list_norm. exact Hk.
  - (* BOut *)
    destruct l as [|u r]; [discriminate|]. inv H. constructor; cbn; auto.
    + destruct r; cbn; auto. discriminate.
    + destruct r; cbn; auto.
  - (* BStop1 *)
    inv H. constructor; cbn; auto. list_norm. auto.
  - (* BStop2 *)
    inv H. constructor; cbn; auto.
Qed.

Lemma inva_csilent g s s' e : InvA g s -> step_csilent g s = Some (s', e) -> InvA g s'.
Proof.
  intros [Hs Hc Hb Hk] H. unfold step_csilent, with_cp in H.
  destruct s as [n qi bf qo c b fl wk cs]; cbn in *.
  break_match_hyp H; inv H; constructor; cbn in *; auto.
Qed.

Lemma inva_step g s l s' e : 1 < bsize g -> InvA g s -> step g s l = Some (s', e) -> InvA g s'.
Proof.
  intros Hb HI H. destruct l; cbn in H.
  - eapply inva_env; eauto.
  - eapply inva_c; eauto.
  - eapply inva_csilent; eauto.
  - eapply inva_b; eauto.
Qed.

Lemma inva_run g sched : 1 < bsize g -> InvA g (run step g (init g) sched).
Proof.
  intros Hb. apply (inv_run step g (InvA g)); [intros; eapply inva_step; eauto | apply inva_init].
Qed.

(* every call receives a non-empty list of at most b uids, each of which names a genuine input *)
Lemma batches_wellformed g sched l :
  1 < bsize g -> In l (calls (run step g (init g) sched)) ->
  1 <= length l <= bsize g /\ forall u, In u l -> exists j, u = S j /\ nth_error (reqs g) j = Some KGood.
Proof.
  intros Hb Hin. destruct (inva_run g sched Hb) as [_ Hc _ Hk].
  split.
  - rewrite Forall_forall in Hc. apply (Hc _ Hin).
  - intros u Hu. apply (good_uids_genuine g (env_next (run step g (init g) sched))).
    rewrite <- Hk. apply in_or_app. left. apply in_concat. eauto.
Qed.

Lemma nodup_app_l {A} (a b : list A) : NoDup (a ++ b) -> NoDup a.
Proof.
  induction a as [|x a IH]; cbn; intros H; [constructor|].
  inversion H as [|? ? Hn Hd]; subst. constructor; auto. intros Hi. apply Hn. apply in_or_app. now left.
Qed.

(* no accepted input is ever in two batches, or twice in one *)
Lemma batches_disjoint g sched : 1 < bsize g -> NoDup (concat (calls (run step g (init g) sched))).
Proof.
  intros Hb. destruct (inva_run g sched Hb) as [_ _ _ Hk].
  assert (H : NoDup (good_uids g (env_next (run step g (init g) sched)))) by apply good_from_nodup.
  rewrite <- Hk in H. eapply nodup_app_l; eauto.
Qed.
