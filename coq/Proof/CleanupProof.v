(* C05 safety half: when the iterator is closed every helper thread has finished. *)
From MpV Require Import Lib.Tac Lib.Conc.
From MpV Require Model.Buffer Model.FifoStream.

Module B.
  Import Model.Buffer.
  Definition InvC (s : state) : Prop :=
    match cp s with CDone _ => w_finished s = true | _ => True end.

  Lemma step_inv g s l s' e : InvC s -> step g s l = Some (s', e) -> InvC s'.
  Proof.
    destruct s as [w c qq st rs pu re dr]. unfold InvC, w_finished. cbn.
    intros H Hs. destruct l; cbn in Hs.
    - unfold step_w, w_put, full, upd_w in Hs; cbn in Hs.
      break_match_hyp Hs; inv Hs; destruct c; cbn in *; try exact I; try discriminate H; auto.
    - unfold step_c, c_pop, upd_c, after_recv in Hs; cbn in Hs.
      break_match_hyp Hs; inv Hs; cbn in *; try exact I; auto.
  Qed.

  Lemma closed_means_worker_gone g sched o :
    cp (run step g (init g) sched) = CDone o -> w_finished (run step g (init g) sched) = true.
  Proof.
    intros H. assert (HI : InvC (run step g (init g) sched)).
    { apply (inv_run step g InvC); [intros; eapply step_inv; eauto | exact I]. }
    unfold InvC in HI. rewrite H in HI. exact HI.
  Qed.
End B.

Module F.
  Import Model.FifoStream.
  Definition InvC (s : state) : Prop :=
    match cp s with CDone _ => f_finished s = true | _ => True end.

  Lemma step_inv g s l s' e : InvC s -> step g s l = Some (s', e) -> InvC s'.
  Proof.
    destruct s as [f c p qq wq fu ts rs pu re dr ca]. unfold InvC, f_finished. cbn.
    intros H Hs. destruct l as [| |j]; cbn in Hs.
    - unfold step_f, f_put, qfull, with_fp, with_q, with_pulled, with_rest, with_dropped, with_futs, with_workq in Hs;
        cbn in Hs.
      break_match_hyp Hs; inv Hs; destruct c; cbn in *; try exact I; try discriminate H; auto.
    - unfold step_c, after_recv, with_cp, with_fp, with_q, with_received, with_dropped, with_stop, with_futs in Hs;
        cbn in Hs.
      break_match_hyp Hs; inv Hs; cbn in *; try exact I; auto.
    - unfold step_p, with_pp, with_workq, with_futs, with_calls in Hs; cbn in Hs.
      break_match_hyp Hs; inv Hs; destruct c; cbn in *; try exact I; exact H.
  Qed.

  Lemma closed_means_feeder_gone g sched o :
    cp (run step g (init g) sched) = CDone o -> f_finished (run step g (init g) sched) = true.
  Proof.
    intros H. assert (HI : InvC (run step g (init g) sched)).
    { apply (inv_run step g InvC); [intros; eapply step_inv; eauto | exact I]. }
    unfold InvC in HI. rewrite H in HI. exact HI.
  Qed.
End F.
