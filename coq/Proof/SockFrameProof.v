From MpV Require Import Model.SockFrame.
From Coq Require Import Lia.

(* ---- decimal round trip ------------------------------------------------------------------ *)

Lemma bytes_uint_roundtrip u : bytes_uint (uint_bytes u) = Some u.
Proof. induction u; cbn; try rewrite IHu; reflexivity. Qed.

Lemma to_uint_nonnil n : Nat.to_uint n <> Nil.
Proof.
  destruct n as [|n]; [discriminate|]. intros H.
  pose proof (Unsigned.of_to (S n)) as Ho. rewrite H in Ho. discriminate Ho.
Qed.

Lemma uint_bytes_nonnil u : u <> Nil -> uint_bytes u <> [].
Proof. destruct u; cbn; congruence. Qed.

Lemma parse_render n : parse_nat (render_nat n) = Some n.
Proof.
  unfold parse_nat, render_nat.
  destruct (uint_bytes (Nat.to_uint n)) eqn:E.
  - exfalso. eapply uint_bytes_nonnil; [apply to_uint_nonnil|exact E].
  - rewrite <- E, bytes_uint_roundtrip. cbn. now rewrite Unsigned.of_to.
Qed.

Lemma digits_no_ws u : no_ws (uint_bytes u) = true.
Proof. induction u; cbn; auto. Qed.

(* ---- readuntil --------------------------------------------------------------------------- *)

Lemma no_ws_app a b : no_ws (a ++ b) = no_ws a && no_ws b.
Proof. unfold no_ws. apply forallb_app. Qed.

Lemma read_until_nl_app a r :
  forallb (fun b => negb (b =? NL)) a = true -> read_until_nl (a ++ NL :: r) = Some (a ++ [NL], r).
Proof.
  induction a as [|b a IH]; cbn; intros H; [reflexivity|].
  apply andb_true_iff in H. destruct H as [H1 H2]. apply negb_true_iff in H1. rewrite H1.
  now rewrite IH.
Qed.

Lemma no_ws_no_nl a : no_ws a = true -> forallb (fun b => negb (b =? NL)) a = true.
Proof.
  unfold no_ws. induction a as [|b a IH]; cbn; intros H; [reflexivity|].
  apply andb_true_iff in H. destruct H as [H1 H2]. rewrite IH by assumption.
  destruct (b =? NL) eqn:E; [|reflexivity].
  apply Nat.eqb_eq in E. subst. discriminate H1.
Qed.

Lemma line_no_nl id num enc :
  no_ws id = true -> no_ws num = true -> no_ws enc = true ->
  forallb (fun b => negb (b =? NL)) (id ++ [SP] ++ num ++ [SP] ++ enc) = true.
Proof.
  intros Hi Hn He.
  rewrite forallb_app. apply andb_true_intro. split; [now apply no_ws_no_nl|].
  rewrite forallb_app. apply andb_true_intro. split; [reflexivity|].
  rewrite forallb_app. apply andb_true_intro. split; [now apply no_ws_no_nl|].
  rewrite forallb_app. apply andb_true_intro. split; [reflexivity|now apply no_ws_no_nl].
Qed.

Lemma removelast_snoc {A} (l : list A) x : removelast (l ++ [x]) = l.
Proof. apply removelast_last. Qed.

(* ---- str.split() ------------------------------------------------------------------------- *)

Lemma split_token cur tok r :
  no_ws tok = true -> cur ++ tok <> [] ->
  split_ws_aux cur (tok ++ SP :: r) = (cur ++ tok) :: split_ws_aux [] r.
Proof.
  revert cur; induction tok as [|b tok IH]; intros cur Hn Hne; cbn.
  - rewrite app_nil_r in *. destruct cur; [congruence|reflexivity].
  - unfold no_ws in Hn. cbn in Hn. apply andb_true_iff in Hn. destruct Hn as [H1 H2].
    apply negb_true_iff in H1. rewrite H1.
    rewrite (IH (cur ++ [b])); [now rewrite <- app_assoc| exact H2 |].
    destruct cur; cbn; congruence.
Qed.

Lemma split_last_token cur tok :
  no_ws tok = true -> cur ++ tok <> [] -> split_ws_aux cur tok = [cur ++ tok].
Proof.
  revert cur; induction tok as [|b tok IH]; intros cur Hn Hne; cbn.
  - rewrite app_nil_r in *. destruct cur; [congruence|reflexivity].
  - unfold no_ws in Hn. cbn in Hn. apply andb_true_iff in Hn. destruct Hn as [H1 H2].
    apply negb_true_iff in H1. rewrite H1.
    rewrite (IH (cur ++ [b])); [now rewrite <- app_assoc| exact H2 |].
    destruct cur; cbn; congruence.
Qed.

Lemma split_header id num enc :
  wf_token id = true -> wf_token num = true -> wf_token enc = true ->
  split_ws (id ++ [SP] ++ num ++ [SP] ++ enc) = [id; num; enc].
Proof.
  unfold wf_token, split_ws. intros Hi Hn He.
  apply andb_true_iff in Hi, Hn, He. destruct Hi as [Hi1 Hi2], Hn as [Hn1 Hn2], He as [He1 He2].
  change (id ++ [SP] ++ num ++ [SP] ++ enc) with (id ++ SP :: (num ++ SP :: enc)).
  assert (Hid : [] ++ id <> []) by (destruct id; [discriminate|cbn; congruence]).
  assert (Hnum : [] ++ num <> []) by (destruct num; [discriminate|cbn; congruence]).
  assert (Henc : [] ++ enc <> []) by (destruct enc; [discriminate|cbn; congruence]).
  rewrite (split_token [] id _ Hi2 Hid), (split_token [] num _ Hn2 Hnum), (split_last_token [] enc He2 Henc).
  reflexivity.
Qed.

(* ---- readexactly ------------------------------------------------------------------------- *)

Lemma read_exactly_app p rest : read_exactly (length p) (p ++ rest) = Some (p, rest).
Proof.
  unfold read_exactly. rewrite app_length.
  assert (H : (length p <=? length p + length rest) = true) by (apply Nat.leb_le; lia).
  rewrite H, firstn_app, Nat.sub_diag, firstn_all, skipn_app, Nat.sub_diag, skipn_all. cbn.
  now rewrite app_nil_r.
Qed.

(* ---- the record round trip --------------------------------------------------------------- *)

Lemma render_wf n : wf_token (render_nat n) = true.
Proof.
  unfold wf_token, render_nat. rewrite digits_no_ws.
  destruct (uint_bytes (Nat.to_uint n)) eqn:E; [|reflexivity].
  exfalso. eapply uint_bytes_nonnil; [apply to_uint_nonnil|exact E].
Qed.

Lemma frame_roundtrip id enc payload rest :
  wf_token id = true -> wf_token enc = true ->
  read_record (encode_record id enc payload ++ rest) =
    Some ({| r_id := id; r_enc := enc; r_payload := payload |}, rest).
Proof.
  intros Hi He. unfold read_record, encode_record, header.
  pose proof (render_wf (length payload)) as Hn.
  assert (Hline : forallb (fun b => negb (b =? NL)) (id ++ [SP] ++ render_nat (length payload) ++ [SP] ++ enc) = true).
  { unfold wf_token in *. apply andb_true_iff in Hi, He, Hn.
    destruct Hi as [_ Hi], He as [_ He], Hn as [_ Hn].
    apply line_no_nl; assumption. }
  replace ((id ++ [SP] ++ render_nat (length payload) ++ [SP] ++ enc ++ [NL]) ++ payload ++ rest)
    with ((id ++ [SP] ++ render_nat (length payload) ++ [SP] ++ enc) ++ NL :: (payload ++ rest))
    by (rewrite <- !app_assoc; reflexivity).
  rewrite <- app_assoc.
  replace ((id ++ [SP] ++ render_nat (length payload) ++ [SP] ++ enc ++ [NL]) ++ payload ++ rest)
    with ((id ++ [SP] ++ render_nat (length payload) ++ [SP] ++ enc) ++ NL :: (payload ++ rest))
    by (rewrite <- !app_assoc; reflexivity).
  rewrite read_until_nl_app by exact Hline.
  rewrite removelast_snoc, split_header by assumption.
  rewrite parse_render, read_exactly_app. reflexivity.
Qed.

(* a stream of records decodes to the same list *)
Definition wf_record (r : record) : bool := wf_token (r_id r) && wf_token (r_enc r).

Definition encode_all (rs : list record) : bytes :=
  concat (map (fun r => encode_record (r_id r) (r_enc r) (r_payload r)) rs).

Lemma encode_record_nonnil id enc p : encode_record id enc p <> [].
Proof.
  unfold encode_record, header. destruct id; cbn; [discriminate|discriminate].
Qed.

Lemma read_all_step f s :
  s <> [] ->
  read_all (S f) s = match read_record s with
                     | Some (r, rest) => option_map (cons r) (read_all f rest)
                     | None => None
                     end.
Proof. destruct s; [congruence|reflexivity]. Qed.

Lemma frames_concat rs :
  forallb wf_record rs = true -> read_all (length rs) (encode_all rs) = Some rs.
Proof.
  induction rs as [|[id enc p] rs IH]; cbn [length]; intros H; [reflexivity|].
  cbn in H. apply andb_true_iff in H. destruct H as [Hr Hrs].
  unfold wf_record in Hr; cbn in Hr. apply andb_true_iff in Hr. destruct Hr as [Hi He].
  unfold encode_all in *. cbn [map concat r_id r_enc r_payload].
  rewrite read_all_step.
  - rewrite frame_roundtrip by assumption. now rewrite IH.
  - intros E. apply app_eq_nil in E. destruct E as [E _]. eapply encode_record_nonnil; exact E.
Qed.
