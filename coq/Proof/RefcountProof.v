From MpV Require Import Lib.Tac Model.Refcount.
From Coq Require Import Lia.
Open Scope nat_scope.

(* ---------------------------------------------------------------------------------------------- *)
(* list facts                                                                                      *)
(* ---------------------------------------------------------------------------------------------- *)
Definition hit (x : nat) (r : ref) : nat := if Nat.eqb (r_id r) x then 1 else 0.
Local Arguments nrefs : simpl never.

Lemma nrefs_nil x : nrefs x [] = 0.
Proof. reflexivity. Qed.
Lemma nrefs_cons x r l : nrefs x (r :: l) = hit x r + nrefs x l.
Proof. unfold nrefs, hit. cbn. destruct (Nat.eqb (r_id r) x); reflexivity. Qed.
Lemma nrefs_app x a b : nrefs x (a ++ b) = nrefs x a + nrefs x b.
Proof. unfold nrefs. now rewrite filter_app, app_length. Qed.
Lemma nrefs_snoc x a r : nrefs x (a ++ [r]) = nrefs x a + hit x r.
Proof. rewrite nrefs_app, nrefs_cons, nrefs_nil. lia. Qed.

Lemma nrefs_remove x t l r : find_ref t l = Some r -> nrefs x l = nrefs x (remove_ref t l) + hit x r.
Proof.
  induction l as [|a l IH]; cbn; [discriminate|].
  destruct (Nat.eqb (r_tag a) t); intros H.
  - inv H. rewrite nrefs_cons. lia.
  - rewrite !nrefs_cons, (IH H). lia.
Qed.

Lemma remove_ref_none t l : find_ref t l = None -> remove_ref t l = l.
Proof.
  induction l as [|a l IH]; cbn; [reflexivity|]. destruct (Nat.eqb (r_tag a) t); [discriminate|].
  intros H. now rewrite IH.
Qed.

Lemma nrefs_partition x f l : nrefs x l = nrefs x (filter f l) + nrefs x (filter (fun r => negb (f r)) l).
Proof.
  induction l as [|a l IH]; cbn; [reflexivity|].
  destruct (f a); cbn; rewrite !nrefs_cons, IH; lia.
Qed.

Lemma count_map_ids x l : count_occ Nat.eq_dec (map r_id l) x = nrefs x l.
Proof.
  induction l as [|a l IH]; cbn; [reflexivity|]. rewrite nrefs_cons, <- IH. unfold hit.
  destruct (Nat.eq_dec (r_id a) x) as [->|Hne].
  - now rewrite Nat.eqb_refl.
  - apply Nat.eqb_neq in Hne. now rewrite Hne.
Qed.

Lemma length_partition {A} (f : A -> bool) l : length l = length (filter f l) + length (filter (fun r => negb (f r)) l).
Proof. induction l as [|a l IH]; cbn; [reflexivity|]. destruct (f a); cbn; lia. Qed.

Lemma nth_set_same {A} x (v d : A) l : x < length l -> nth x (set_nth x v l) d = v.
Proof. revert x; induction l as [|a l IH]; intros [|x] H; cbn in *; try lia; auto. apply IH. lia. Qed.
Lemma nth_set_other {A} x y (v d : A) l : x <> y -> nth y (set_nth x v l) d = nth y l d.
Proof. revert x y; induction l as [|a l IH]; intros [|x] [|y] H; cbn; auto; try congruence. Qed.
Lemma nth_some_lt {A} x (l : list (option A)) v : nth x l None = Some v -> x < length l.
Proof. intros H. destruct (Nat.lt_ge_cases x (length l)); [assumption|]. rewrite nth_overflow in H by assumption. discriminate. Qed.

(* ---------------------------------------------------------------------------------------------- *)
(* the invariant: count = references + pending decrements + references that were forgotten        *)
(* ---------------------------------------------------------------------------------------------- *)
Definition cnt_ok (L : nat -> nat) (s : state) (work : list nat) : Prop :=
  forall x, match get_cnt s x with
            | Some n => n = nrefs x (refs s) + count_occ Nat.eq_dec work x + L x /\ 0 < n
            | None => nrefs x (refs s) = 0 /\ count_occ Nat.eq_dec work x = 0 /\ L x = 0
            end.

Lemma drain_ok L : forall fuel s work,
  cnt_ok L s work -> length work + length (refs s) < fuel ->
  cnt_ok L (drain fuel s work) [] /\ errors (drain fuel s work) = errors s.
Proof.
  induction fuel as [|f IH]; intros s work H Hf; [lia|].
  destruct work as [|x w]; cbn [drain]; [split; [exact H|reflexivity]|].
  pose proof (H x) as Hx. cbn [count_occ] in Hx. destruct (Nat.eq_dec x x) as [_|]; [|congruence].
  destruct (get_cnt s x) as [[|[|n]]|] eqn:Ec.
  - destruct Hx as [_ Hx]. lia.
  - (* the count reaches zero: the object is destroyed and the proxies it holds are finalized *)
    destruct Hx as [Hx _].
    assert (Hn : nrefs x (refs s) = 0) by lia.
    assert (Hw : count_occ Nat.eq_dec w x = 0) by lia.
    assert (HL : L x = 0) by lia.
    match goal with |- context [drain f ?s' ?w'] => destruct (IH s' w') as [I1 I2] end.
    + intros y. unfold get_cnt. cbn [cnt refs].
      destruct (Nat.eq_dec x y) as [<-|Hne].
      * rewrite nth_set_same by (eapply nth_some_lt; exact Ec).
        pose proof (nrefs_partition x (held_by x) (refs s)) as Hp.
        rewrite count_occ_app, count_map_ids. lia.
      * rewrite nth_set_other by assumption. fold (get_cnt s y).
        pose proof (H y) as Hy. cbn [count_occ] in Hy. destruct (Nat.eq_dec x y) as [|_]; [congruence|].
        pose proof (nrefs_partition y (held_by x) (refs s)) as Hp.
        rewrite count_occ_app, count_map_ids.
        destruct (get_cnt s y); [destruct Hy; split; lia | destruct Hy as (? & ? & ?); repeat split; lia].
    + cbn [refs]. rewrite app_length, map_length. pose proof (length_partition (held_by x) (refs s)). cbn [length] in Hf. lia.
    + split; [exact I1|]. rewrite I2. reflexivity.
  - (* an ordinary decrement *)
    destruct Hx as [Hx _].
    match goal with |- context [drain f ?s' ?w'] => destruct (IH s' w') as [I1 I2] end.
    + intros y. unfold get_cnt. cbn [cnt refs].
      destruct (Nat.eq_dec x y) as [<-|Hne].
      * rewrite nth_set_same by (eapply nth_some_lt; exact Ec). split; lia.
      * rewrite nth_set_other by assumption. fold (get_cnt s y).
        pose proof (H y) as Hy. cbn [count_occ] in Hy. destruct (Nat.eq_dec x y) as [|_]; [congruence|]. exact Hy.
    + cbn [refs length] in *. lia.
    + split; [exact I1|]. rewrite I2. reflexivity.
  - destruct Hx as (_ & Hx & _). lia.
Qed.

Lemma decr_ok L s x : cnt_ok L s [x] -> cnt_ok L (decr s x) [] /\ errors (decr s x) = errors s.
Proof. intros H. unfold decr. apply drain_ok; [exact H|]. cbn. lia. Qed.

Definition bump (L : nat -> nat) (x : nat) : nat -> nat := fun y => L y + (if Nat.eqb x y then 1 else 0).

Lemma acquire_ok L s t h x : cnt_ok L s [] -> cnt_ok L (acquire s t h x) [].
Proof.
  intros H. unfold acquire. destruct (get_cnt s x) as [n|] eqn:Ec; [|exact H].
  intros y. unfold get_cnt. cbn [cnt refs].
  destruct (Nat.eq_dec x y) as [<-|Hne].
  - rewrite nth_set_same by (eapply nth_some_lt; exact Ec). pose proof (H x) as Hx. rewrite Ec in Hx.
    rewrite nrefs_snoc. unfold hit. cbn [r_id]. rewrite Nat.eqb_refl. cbn [count_occ] in *. lia.
  - rewrite nth_set_other by assumption. fold (get_cnt s y). pose proof (H y) as Hy.
    rewrite nrefs_snoc. unfold hit. cbn [r_id]. apply Nat.eqb_neq in Hne. rewrite Hne. cbn [count_occ] in *.
    destruct (get_cnt s y); [destruct Hy; split; lia | destruct Hy as (? & ? & ?); repeat split; lia].
Qed.

Lemma release_ok L s t : cnt_ok L s [] -> cnt_ok L (release s t) [].
Proof.
  intros H. unfold release. destruct (find_ref t (refs s)) as [r|] eqn:Ef; [|exact H].
  apply decr_ok. intros y. unfold get_cnt. cbn [cnt refs count_occ].
  pose proof (H y) as Hy. unfold get_cnt in Hy. pose proof (nrefs_remove y _ _ _ Ef) as Hr. unfold hit in Hr.
  cbn [count_occ] in Hy.
  destruct (Nat.eq_dec (r_id r) y) as [He|Hne].
  - rewrite He, Nat.eqb_refl in Hr. destruct (nth y (cnt s) None); [destruct Hy; split; lia | destruct Hy as (? & ? & ?); lia].
  - pose proof Hne as Hne'. apply Nat.eqb_neq in Hne'. rewrite Hne' in Hr.
    destruct (nth y (cnt s) None); [destruct Hy; split; lia | destruct Hy as (? & ? & ?); repeat split; lia].
Qed.

Lemma move_ok L s t t' h : cnt_ok L s [] -> cnt_ok L (move s t t' h) [].
Proof.
  intros H. unfold move. destruct (find_ref t (refs s)) as [r|] eqn:Ef; [|exact H].
  intros y. unfold get_cnt. cbn [cnt refs]. pose proof (H y) as Hy. unfold get_cnt in Hy.
  rewrite nrefs_snoc. pose proof (nrefs_remove y _ _ _ Ef) as Hr. unfold hit in *. cbn [r_id].
  destruct (nth y (cnt s) None); [destruct Hy; split; lia | destruct Hy as (? & ? & ?); repeat split; lia].
Qed.

(* forgetting a reference leaves its increment behind for ever *)
Lemma forget_ok L s t : cnt_ok L s [] -> exists L', cnt_ok L' (forget s t) [].
Proof.
  intros H. unfold forget. destruct (find_ref t (refs s)) as [r|] eqn:Ef.
  - exists (bump L (r_id r)). intros y. unfold get_cnt, bump. cbn [cnt refs]. pose proof (H y) as Hy. unfold get_cnt in Hy.
    pose proof (nrefs_remove y _ _ _ Ef) as Hr. unfold hit in Hr.
    destruct (Nat.eqb (r_id r) y) eqn:E.
    + destruct (nth y (cnt s) None); [destruct Hy; split; lia | destruct Hy as (? & ? & ?); lia].
    + destruct (nth y (cnt s) None); [destruct Hy; split; lia | destruct Hy as (? & ? & ?); repeat split; lia].
  - exists L. rewrite (remove_ref_none _ _ Ef). destruct s; exact H.
Qed.

Lemma bad_ok L s : cnt_ok L s [] -> cnt_ok L (bad s) [].
Proof. intros H. exact H. Qed.

Lemma drop_ref_ok L s r : cnt_ok L s [] -> exists L', cnt_ok L' (drop_ref s r) [].
Proof.
  intros H. unfold drop_ref. destruct (r_h r) as [p [|]| | |]; try (apply (forget_ok L); exact H).
  exists L. apply release_ok. exact H.
Qed.

Lemma create_ok L s t p : cnt_ok L s [] ->
  cnt_ok L (move (release (acquire (release (acquire
     {| cnt := cnt s ++ [Some 1]; refs := refs s ++ [{| r_tag := TMP; r_h := HTemp; r_id := length (cnt s) |}]; errors := errors s |}
     t (HTransit false) (length (cnt s))) TMP) TMP (HProc p true) (length (cnt s))) t) TMP t (HProc p true)) [].
Proof.
  intros H. apply move_ok, release_ok, acquire_ok, release_ok, acquire_ok.
  intros y. unfold get_cnt. cbn [cnt refs]. pose proof (H y) as Hy. unfold get_cnt in Hy.
  rewrite nrefs_snoc. unfold hit. cbn [r_id count_occ] in *.
  destruct (Nat.lt_trichotomy y (length (cnt s))) as [Hlt|[->|Hgt]].
  - rewrite app_nth1 by assumption. assert (Hne : Nat.eqb (length (cnt s)) y = false) by (apply Nat.eqb_neq; lia).
    rewrite Hne. destruct (nth y (cnt s) None); [destruct Hy; split; lia | destruct Hy as (? & ? & ?); repeat split; lia].
  - rewrite app_nth2, Nat.sub_diag by lia. cbn [nth]. rewrite Nat.eqb_refl.
    rewrite nth_overflow in Hy by lia. destruct Hy as (? & ? & ?). split; lia.
  - rewrite nth_overflow by (rewrite app_length; cbn; lia). rewrite nth_overflow in Hy by lia.
    assert (Hne : Nat.eqb (length (cnt s)) y = false) by (apply Nat.eqb_neq; lia). rewrite Hne.
    destruct Hy as (? & ? & ?); repeat split; lia.
Qed.

Lemma fold_drop_ok g (l : list ref) : forall L s, cnt_ok L s [] ->
  exists L', cnt_ok L' (fold_left (fun s' r => if exitfin g then drop_ref s' r else forget s' (r_tag r)) l s) [].
Proof.
  induction l as [|r l IH]; intros L s H; cbn [fold_left]; [eauto|].
  destruct (exitfin g).
  - destruct (drop_ref_ok L s r H) as [L' H']. eapply IH; eauto.
  - destruct (forget_ok L s (r_tag r) H) as [L' H']. eapply IH; eauto.
Qed.

Lemma step_ok g L s o : cnt_ok L s [] -> exists L', cnt_ok L' (step g s o) [].
Proof.
  intros H. destruct o; cbn [step].
  - exists L. apply create_ok. exact H.
  - exists L. destruct (find_ref k (refs s)) as [r|]; [|exact H]. destruct (is_proc (r_h r)); [apply acquire_ok|]; exact H.
  - exists L. destruct (find_ref k (refs s)) as [[tg [| [|] | |] x]|]; try exact H.
    + apply move_ok. exact H.
    + apply release_ok, acquire_ok. exact H.
  - destruct (find_ref k (refs s)) as [r|]; [|exists L; exact H]. destruct (is_proc (r_h r)); [|exists L; exact H].
    apply (drop_ref_ok L). exact H.
  - exists L. destruct (find_ref k (refs s)) as [r|]; [|exact H]. destruct (get_cnt s c); [|exact H].
    destruct (is_proc (r_h r)); [|exact H]. apply release_ok, acquire_ok, acquire_ok. exact H.
  - exists L. destruct (find_ref k (refs s)) as [[tg [| | c|] x]|]; try exact H.
    destruct keep; [|apply release_ok]; apply release_ok, acquire_ok, release_ok, acquire_ok; exact H.
  - apply (fold_drop_ok g _ L). exact H.
  - exists L. destruct (find_ref k (refs s)) as [r|]; [|exact H]. destruct (is_proc (r_h r)); [|exact H].
    apply release_ok, acquire_ok. exact H.
Qed.

Lemma init_ok : cnt_ok (fun _ => 0) init [].
Proof. intros x. unfold get_cnt. cbn. destruct x; cbn; auto. Qed.

Lemma run_ok g ops : exists L, cnt_ok L (run g ops) [].
Proof.
  unfold run. assert (G : forall l s L, cnt_ok L s [] -> exists L', cnt_ok L' (fold_left (step g) l s) []).
  { induction l as [|o l IH]; intros s L H; cbn [fold_left]; [eauto|].
    destruct (step_ok g L s o H) as [L' H']. eapply IH; eauto. }
  eapply G. apply init_ok.
Qed.

(* no premature destruction, whatever the variant of the code: an object to which a reference exists - a live
   proxy in any process, a pickle in transit, a proxy stored in a hosted container - is alive *)
Lemma referenced_is_alive g ops x : 0 < nrefs x (refs (run g ops)) -> alive (run g ops) x = true.
Proof.
  intros Hn. destruct (run_ok g ops) as [L H]. specialize (H x). unfold alive.
  destruct (get_cnt (run g ops) x); [reflexivity|]. destruct H as (H & _). lia.
Qed.

(* ---------------------------------------------------------------------------------------------- *)
(* exactness for the code as it is now: nothing is ever forgotten                                  *)
(* ---------------------------------------------------------------------------------------------- *)
Definition owning (r : ref) : Prop := match r_h r with HProc _ false => False | _ => True end.

Lemma forall_remove t l : Forall owning l -> Forall owning (remove_ref t l).
Proof.
  induction l as [|a l IH]; cbn; intros H; [constructor|]. inversion H as [|? ? Ha Hl]; subst.
  destruct (Nat.eqb (r_tag a) t); [exact Hl|constructor; auto].
Qed.

Lemma forall_filter (f : ref -> bool) l : Forall owning l -> Forall owning (filter f l).
Proof. intros H. apply Forall_forall. intros r Hr. apply filter_In in Hr. rewrite Forall_forall in H. apply H, Hr. Qed.

Lemma drain_owning : forall fuel s work, Forall owning (refs s) -> Forall owning (refs (drain fuel s work)).
Proof.
  induction fuel as [|f IH]; intros s work H; [exact H|]. destruct work as [|x w]; cbn [drain]; [exact H|].
  destruct (get_cnt s x) as [[|[|n]]|]; apply IH; cbn [refs]; auto. apply forall_filter. exact H.
Qed.

Lemma acquire_owning s t h x : owning {| r_tag := t; r_h := h; r_id := x |} -> Forall owning (refs s) -> Forall owning (refs (acquire s t h x)).
Proof. intros Ho H. unfold acquire. destruct (get_cnt s x); [|exact H]. cbn [refs]. apply Forall_app. split; [exact H|]. constructor; [exact Ho|constructor]. Qed.

Lemma release_owning s t : Forall owning (refs s) -> Forall owning (refs (release s t)).
Proof. intros H. unfold release. destruct (find_ref t (refs s)); [|exact H]. unfold decr. apply drain_owning. cbn [refs]. apply forall_remove. exact H. Qed.

Lemma move_owning s t t' h : owning {| r_tag := t'; r_h := h; r_id := 0 |} -> Forall owning (refs s) -> Forall owning (refs (move s t t' h)).
Proof.
  intros Ho H. unfold move. destruct (find_ref t (refs s)); [|exact H]. cbn [refs]. apply Forall_app. split; [apply forall_remove; exact H|].
  constructor; [|constructor]. unfold owning in *. cbn [r_h] in *. exact Ho.
Qed.

Definition now := {| adopt := true; exitfin := true |}.

Lemma drop_ref_now s r : owning r -> cnt_ok (fun _ => 0) s [] -> Forall owning (refs s) ->
  (match r_h r with HProc _ _ => True | _ => False end) ->
  cnt_ok (fun _ => 0) (drop_ref s r) [] /\ Forall owning (refs (drop_ref s r)).
Proof.
  intros Ho H Hf Hp. unfold drop_ref, owning in *. destruct (r_h r) as [p [|]| | |]; try contradiction.
  split; [apply release_ok; exact H|apply release_owning; exact Hf].
Qed.

Lemma find_ref_in t l r : find_ref t l = Some r -> In r l.
Proof. induction l as [|a l IH]; cbn; [discriminate|]. destruct (Nat.eqb (r_tag a) t); intros H; [inv H; now left|right; auto]. Qed.

Lemma step_now s o :
  cnt_ok (fun _ => 0) s [] -> Forall owning (refs s) ->
  cnt_ok (fun _ => 0) (step now s o) [] /\ Forall owning (refs (step now s o)).
Proof.
  intros H Hf. destruct o; cbn [step].
  - split; [apply create_ok; exact H|].
    apply move_owning; [exact I|]. apply release_owning, acquire_owning; [exact I|]. apply release_owning, acquire_owning; [exact I|].
    cbn [refs]. apply Forall_app. split; [exact Hf|]. constructor; [exact I|constructor].
  - destruct (find_ref k (refs s)) as [r|]; [|split; assumption]. destruct (is_proc (r_h r)); [|split; assumption].
    split; [apply acquire_ok; exact H|apply acquire_owning; [exact I|exact Hf]].
  - destruct (find_ref k (refs s)) as [[tg [| [|] | |] x]|]; try (split; assumption).
    + split; [apply move_ok; exact H|apply move_owning; [exact I|exact Hf]].
    + split; [apply release_ok, acquire_ok; exact H|apply release_owning, acquire_owning; [exact I|exact Hf]].
  - destruct (find_ref k (refs s)) as [r|] eqn:Ef; [|split; assumption].
    destruct (is_proc (r_h r)) eqn:Ep; [|split; assumption].
    apply drop_ref_now; auto.
    + rewrite Forall_forall in Hf. apply Hf. eapply find_ref_in; eauto.
    + destruct (r_h r); try discriminate; exact I.
  - destruct (find_ref k (refs s)) as [r|]; [|split; assumption]. destruct (get_cnt s c); [|split; assumption].
    destruct (is_proc (r_h r)); [|split; assumption].
    split; [apply release_ok, acquire_ok, acquire_ok; exact H|].
    apply release_owning, acquire_owning; [exact I|]. apply acquire_owning; [exact I|exact Hf].
  - destruct (find_ref k (refs s)) as [[tg [| | c|] x]|]; try (split; assumption).
    destruct keep.
    + split; [apply release_ok, acquire_ok, release_ok, acquire_ok; exact H|].
      apply release_owning, acquire_owning; [exact I|]. apply release_owning, acquire_owning; [exact I|exact Hf].
    + split; [apply release_ok, release_ok, acquire_ok, release_ok, acquire_ok; exact H|].
      apply release_owning, release_owning, acquire_owning; [exact I|]. apply release_owning, acquire_owning; [exact I|exact Hf].
  - (* the exiting process's proxies all have finalizers, and they run *)
    cbn [exitfin now].
    assert (G : forall l s', Forall (fun r => owning r /\ match r_h r with HProc _ _ => True | _ => False end) l ->
                cnt_ok (fun _ => 0) s' [] -> Forall owning (refs s') ->
                cnt_ok (fun _ => 0) (fold_left (fun s'' r => drop_ref s'' r) l s') [] /\
                Forall owning (refs (fold_left (fun s'' r => drop_ref s'' r) l s'))).
    { induction l as [|r l IH]; intros s' Hl H' Hf'; cbn [fold_left]; [split; assumption|].
      inversion Hl as [|? ? [Ho Hp] Hl']; subst.
      destruct (drop_ref_now s' r Ho H' Hf' Hp) as [H1 H2]. apply IH; assumption. }
    apply G; auto. apply Forall_forall. intros r Hr. apply filter_In in Hr. destruct Hr as [Hin Hp].
    rewrite Forall_forall in Hf. split; [apply Hf, Hin|]. unfold proc_of in Hp. destruct (r_h r); try discriminate; exact I.
  - destruct (find_ref k (refs s)) as [r|]; [|split; assumption]. destruct (is_proc (r_h r)); [|split; assumption].
    split; [apply release_ok, acquire_ok; exact H|apply release_owning, acquire_owning; [exact I|exact Hf]].
Qed.

Lemma run_now ops : cnt_ok (fun _ => 0) (run now ops) [] /\ Forall owning (refs (run now ops)).
Proof.
  unfold run.
  assert (G : forall l s, cnt_ok (fun _ => 0) s [] -> Forall owning (refs s) ->
              cnt_ok (fun _ => 0) (fold_left (step now) l s) [] /\ Forall owning (refs (fold_left (step now) l s))).
  { induction l as [|o l IH]; intros s H Hf; cbn [fold_left]; [split; assumption|].
    destruct (step_now s o H Hf). apply IH; assumption. }
  apply G; [apply init_ok|constructor].
Qed.

(* the server's count of an object is, after every history, exactly the number of references to it *)
Lemma count_is_references ops x :
  match get_cnt (run now ops) x with
  | Some n => n = nrefs x (refs (run now ops)) /\ 0 < n
  | None => nrefs x (refs (run now ops)) = 0
  end.
Proof.
  destruct (run_now ops) as [H _]. specialize (H x). cbn [count_occ] in H.
  destruct (get_cnt (run now ops) x); [destruct H; split; lia|destruct H as (? & _); assumption].
Qed.

(* ... hence an object nobody refers to any more has been destroyed *)
Lemma destroyed_when_unreferenced ops x : nrefs x (refs (run now ops)) = 0 -> alive (run now ops) x = false.
Proof.
  intros Hn. pose proof (count_is_references ops x) as H. unfold alive.
  destruct (get_cnt (run now ops) x); [destruct H; lia|reflexivity].
Qed.
