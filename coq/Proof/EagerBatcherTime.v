(* C19, second part: the clock values of the yields.  Every batch is yielded no later than
   [wait] after its first item was obtained, the first item of a batch is obtained no earlier
   than the previous yield, and the yields are in clock order. *)
From MpV Require Import Model.EagerBatcher Proof.EagerBatcherProof.
From Coq Require Import Sorted.

(* the clock value from which the next batch's first item counts: the last yield when idle,
   the time the open batch got its first item when collecting *)
Definition clock (s : st) : Z :=
  match s with Idle n => n | Coll _ _ _ t0 => t0 | Ended => 0 end.

(* [chain g lo o]: starting from clock [lo], each batch of [o] got its first item at or after
   the previous yield (or [lo]), and is yielded within [wait] of that first item. *)
Fixpoint chain (g : cfg) (lo : Z) (o : list emitted) : Prop :=
  match o with
  | [] => True
  | b :: r => lo <= first_t b /\ first_t b <= etime b <= first_t b + wait g /\ chain g (etime b) r
  end.

Fixpoint endclk (lo : Z) (o : list emitted) : Z :=
  match o with [] => lo | b :: r => endclk (etime b) r end.

Lemma chain_weaken g o : forall lo lo', lo' <= lo -> chain g lo o -> chain g lo' o.
Proof. destruct o as [|b r]; cbn; intros lo lo' H Hc; [exact I|]. repeat split; try tauto; lia. Qed.

Lemma chain_app g o1 : forall lo o2,
  chain g lo o1 -> chain g (endclk lo o1) o2 -> chain g lo (o1 ++ o2).
Proof.
  induction o1 as [|b r IH]; cbn; intros lo o2 H1 H2; [exact H2|].
  destruct H1 as (Ha & Hb & Hc). repeat split; try tauto. now apply IH.
Qed.

Lemma endclk_app o1 : forall lo o2, endclk lo (o1 ++ o2) = endclk (endclk lo o1) o2.
Proof. induction o1 as [|b r IH]; cbn; intros; [reflexivity|apply IH]. Qed.

Lemma endclk_mono o lo lo' : lo <= lo' -> endclk lo o <= endclk lo' o.
Proof. destruct o; cbn; intros; lia. Qed.

Lemma chain_endclk g o : forall lo, chain g lo o -> lo <= endclk lo o.
Proof.
  induction o as [|b r IH]; cbn; intros lo H; [lia|].
  destruct H as (Ha & Hb & Hc). apply IH in Hc. lia.
Qed.

Lemma start_time g now z s o lo :
  lo <= now -> 0 <= wait g -> start g now z = (s, o) ->
  chain g lo o /\ endclk lo o <= clock s.
Proof.
  intros Hl Hw. unfold start. destruct (1 <? bsize g)%nat; intros H; inversion H; subst; cbn; repeat split; try lia.
Qed.

Lemma idle_time g now a s o lo :
  lo <= now -> 0 <= wait g -> idle_step g now a = (s, o) ->
  chain g lo o /\ (s <> Ended -> endclk lo o <= clock s).
Proof.
  intros Hl Hw. unfold idle_step. destruct (amsg a) as [z|]; intros H.
  - apply (start_time g _ z s o lo) in H; [tauto|lia|assumption].
  - inversion H; subst; cbn. split; [exact I|congruence].
Qed.

Lemma step_time g s a s' o :
  0 <= wait g -> wf g s -> s <> Ended -> step g s a = (s', o) ->
  chain g (clock s) o /\ (s' <> Ended -> endclk (clock s) o <= clock s').
Proof.
  intros Hw Hwf Hne. destruct s as [now|now batch deadline t0|]; [| |congruence]; cbn [step clock].
  - intros H. apply (idle_time g now a s' o now) in H; [assumption|lia|assumption].
  - cbn in Hwf. destruct Hwf as (_ & _ & Hdl & Ht0). subst deadline.
    destruct (atime a <=? now + Z.max 0 (t0 + wait g - now)) eqn:E.
    + apply Z.leb_le in E. destruct (amsg a) as [z|].
      * destruct (length (batch ++ [z]) <? bsize g)%nat; intros H; inversion H; subst; cbn; repeat split; intros; try lia.
      * intros H; inversion H; subst; cbn. repeat split; try lia; congruence.
    + apply Z.leb_gt in E.
      destruct (idle_step g (now + Z.max 0 (t0 + wait g - now)) a) as [s1 o1] eqn:Hi.
      intros H; inversion H; subst; clear H. cbn.
      apply (idle_time g _ a s' o1 (now + Z.max 0 (t0 + wait g - now))) in Hi; [|lia|assumption].
      destruct Hi as [Hc He]. repeat split; try lia; assumption.
Qed.

Lemma run_from_time g arr : forall s s' o,
  (1 <= bsize g)%nat -> 0 <= wait g -> wf g s -> s <> Ended ->
  run_from g s arr = (s', o) ->
  chain g (clock s) o /\ (s' <> Ended -> endclk (clock s) o <= clock s').
Proof.
  induction arr as [|a rest IH]; intros s s' o Hb Hw Hwf Hne; cbn [run_from].
  - intros H; inversion H; subst; cbn. split; [exact I|lia].
  - destruct (step g s a) as [s1 o1] eqn:Hs. destruct (run_from g s1 rest) as [s2 o2] eqn:Hr.
    intros H; inversion H; subst; clear H.
    pose proof (step_time g s a s1 o1 Hw Hwf Hne Hs) as [Hc1 He1].
    assert (Hwf1 : wf g s1) by (apply step_ok in Hs; tauto).
    destruct s1 as [n1|n1 b1 d1 t1|].
    + specialize (IH _ _ _ Hb Hw Hwf1 ltac:(congruence) Hr). destruct IH as [Hc2 He2].
      specialize (He1 ltac:(congruence)).
      split.
      * apply chain_app; [assumption|]. eapply chain_weaken; eassumption.
      * intros Hn. rewrite endclk_app. specialize (He2 Hn).
        pose proof (endclk_mono o2 _ _ He1). lia.
    + specialize (IH _ _ _ Hb Hw Hwf1 ltac:(congruence) Hr). destruct IH as [Hc2 He2].
      specialize (He1 ltac:(congruence)).
      split.
      * apply chain_app; [assumption|]. eapply chain_weaken; eassumption.
      * intros Hn. rewrite endclk_app. specialize (He2 Hn).
        pose proof (endclk_mono o2 _ _ He1). lia.
    + rewrite run_from_ended in Hr. inversion Hr; subst. rewrite app_nil_r.
      split; [assumption|congruence].
Qed.

Lemma flush_time g s : wf g s -> 0 <= wait g -> chain g (clock s) (flush s).
Proof.
  destruct s as [now|now batch deadline t0|]; cbn; try tauto.
  intros (_ & _ & Hdl & Ht0) Hw. lia.
Qed.

Lemma run_chain g arr : cfg_ok g -> chain g 0 (snd (run g arr)).
Proof.
  intros [Hb Hw]. unfold run. destruct (run_from g (Idle 0) arr) as [s o] eqn:Hr. cbn [snd].
  pose proof Hr as Hr'.
  apply run_from_time in Hr; try assumption; cbn; try exact I; try congruence.
  apply run_from_ok in Hr'; try assumption; cbn; try exact I; try congruence.
  destruct Hr as [Hc He]. destruct Hr' as (Hwf & _).
  apply chain_app; [exact Hc|].
  destruct s as [now|now batch deadline t0|]; try exact I.
  eapply chain_weaken; [|apply flush_time; assumption]. apply He. congruence.
Qed.

(* ---- consequences in standard vocabulary ------------------------------------------------ *)

Lemma chain_wait_bound g o : forall lo, chain g lo o ->
  Forall (fun b => first_t b <= etime b <= first_t b + wait g) o.
Proof.
  induction o as [|b r IH]; cbn; intros lo H; constructor; [tauto|]. eapply IH. apply H.
Qed.

Lemma chain_sorted g o : forall lo, chain g lo o ->
  Sorted Z.le (map etime o) /\ HdRel Z.le lo (map etime o).
Proof.
  induction o as [|b r IH]; cbn; intros lo H; [split; constructor|].
  destruct H as (Ha & Hb & Hc). destruct (IH _ Hc) as [Hs Hh].
  split; constructor; try assumption. lia.
Qed.

(* the first item of each batch is obtained at or after the previous yield *)
Fixpoint starts_after (lo : Z) (o : list emitted) : Prop :=
  match o with [] => True | b :: r => lo <= first_t b /\ starts_after (etime b) r end.

Lemma chain_starts_after g o : forall lo, chain g lo o -> starts_after lo o.
Proof. induction o as [|b r IH]; cbn; intros lo H; [exact I|]. split; [tauto|]. apply IH; tauto. Qed.

Lemma run_wait_bound g arr : cfg_ok g ->
  Forall (fun b => first_t b <= etime b <= first_t b + wait g) (snd (run g arr)).
Proof. intros H. eapply chain_wait_bound. apply run_chain, H. Qed.

Lemma run_yields_in_clock_order g arr : cfg_ok g ->
  Sorted Z.le (map etime (snd (run g arr))) /\ starts_after 0 (snd (run g arr)).
Proof.
  intros H. pose proof (run_chain g arr H) as Hc.
  split; [eapply chain_sorted; exact Hc | eapply chain_starts_after; exact Hc].
Qed.
