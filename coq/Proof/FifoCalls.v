(* The worker function is started at most once per element, and never for an element the preprocessor rejected (C01). *)
From MpV Require Import Lib.Tac Lib.Conc Model.FifoStream Proof.FifoProof.
Open Scope nat_scope.

Definition pre_ok (g : cfg) (i : nat) : Prop := forall e, pre_of g (val g i) <> PreErr e.

Definition in_pool (p : ppc) (i : nat) : Prop := match p with PTaken k | PRun k => k = i | PIdle => False end.

Definition IC (g : cfg) (s : state) : Prop :=
  NoDup (calls s)
  /\ (forall i, In i (calls s) -> exists st, nth_error (futs s) i = Some st /\ st <> FPending)
  /\ (forall i, In i (calls s) \/ In i (workq s) \/ (exists p, In p (pp s) /\ in_pool p i) -> pre_ok g i)
  /\ (forall i xx, fp s = FSubmit i xx -> pre_ok g i).

Lemma ic_init g : IC g (init g).
Proof.
  unfold IC, init; cbn. repeat split; try constructor; try contradiction; try discriminate.
  intros i [[]|[[]|[p [Hp Hi]]]]. apply repeat_spec in Hp. subst. contradiction.
Qed.

Lemma nth_error_snoc_some {A} (l : list A) x i y : nth_error l i = Some y -> nth_error (l ++ [x]) i = Some y.
Proof. intros H. rewrite nth_error_app1; [exact H|]. apply nth_error_Some. congruence. Qed.

Lemma in_set_nth {A} (l : list A) j v p : In p (set_nth j v l) -> p = v \/ In p l.
Proof.
  revert j; induction l as [|h t IH]; intros [|j]; cbn; intros H; auto.
  - destruct H as [<-|H]; auto.
  - destruct H as [<-|H]; auto. destruct (IH _ H); auto.
Qed.

Lemma NoDup_app_snoc_nat (l : list nat) x : NoDup l -> ~ In x l -> NoDup (l ++ [x]).
Proof.
  induction l as [|h t IH]; cbn; intros Hn Hi; [constructor; [intros []|constructor]|].
  inversion Hn as [|? ? Hh Ht]; subst. constructor.
  - intros Hin. apply in_app_or in Hin. destruct Hin as [Hin|[<-|[]]]; [contradiction|]. apply Hi. now left.
  - apply IH; [exact Ht|]. intros Hin. apply Hi. now right.
Qed.

Lemma nth_error_set_nth_same_fc {A} n (x : A) l y : nth_error l n = Some y -> nth_error (set_nth n x l) n = Some x.
Proof. revert n; induction l as [|h t IH]; intros [|n] H; cbn in *; try discriminate; auto. Qed.

Lemma ic_step_f g s s' e : IC g s -> step_f g s = Some (s', e) -> IC g s'.
Proof.
  destruct s as [f c p qq wq fu ts rs pu re dr ca]. unfold IC. cbn [calls futs workq pp fp].
  intros (H1 & H2 & H3 & H4) Hs.
  unfold step_f, f_put, with_fp, with_q, with_rest, with_pulled, with_dropped, with_futs, with_workq in Hs; cbn in Hs.
  destruct f; try discriminate Hs; break_match_hyp Hs; inv Hs; cbn [calls futs workq pp fp];
    (split; [exact H1|split; [|split]]);
    try exact H2; try exact H3;
    try (intros i0 xx0 Hf; discriminate Hf).
  all: try (intros i0 Hi0; destruct (H2 _ Hi0) as (st & Hst & Hne); exists st; split; [apply nth_error_snoc_some; exact Hst|exact Hne]).
  - (* FChk -> FSubmit with no preprocessor *)
    intros i0 xx0 Hf. inv Hf. intros e0 He0. unfold pre_of in He0. rewrite Heqo in He0. discriminate.
  - (* FPre -> FSubmit *)
    intros i0 xx0 Hf. inv Hf. intros e0 He0. congruence.
  - (* FSubmit: the element enters the pool's queue *)
    intros i0 [Hi0|[Hi0|Hi0]]; [apply H3; auto| |apply H3; auto].
    apply in_app_or in Hi0. destruct Hi0 as [Hi0|[<-|[]]]; [apply H3; auto|]. eapply H4; reflexivity.
Qed.

Lemma ic_step_c g s s' e : IC g s -> step_c g s = Some (s', e) -> IC g s'.
Proof.
  destruct s as [f c p qq wq fu ts rs pu re dr ca]. unfold IC. cbn [calls futs workq pp fp].
  intros (H1 & H2 & H3 & H4) Hs.
  unfold step_c, with_cp, with_fp, with_q, with_received, with_dropped, with_stop, with_futs in Hs; cbn in Hs.
  destruct c; try discriminate Hs; break_match_hyp Hs; inv Hs; cbn [calls futs workq pp fp];
    (split; [exact H1|split; [|split]]); try exact H2; try exact H3; try exact H4;
    try (intros i0 xx0 Hf; discriminate Hf).
  (* CCancel of a pending future: not one that was started *)
  intros i0 Hi0. destruct (H2 _ Hi0) as (st & Hst & Hne).
  destruct (Nat.eq_dec i i0) as [->|Hd].
  - match goal with E : nth_error fu i0 = Some FPending |- _ => rewrite E in Hst; inv Hst; congruence end.
  - exists st. split; [rewrite nth_error_set_nth_neq by assumption; exact Hst|exact Hne].
Qed.

Lemma ic_step_p g s j s' e : IC g s -> step_p g s j = Some (s', e) -> IC g s'.
Proof.
  destruct s as [f c p qq wq fu ts rs pu re dr ca]. unfold IC. cbn [calls futs workq pp fp].
  intros (H1 & H2 & H3 & H4) Hs.
  unfold step_p, with_pp, with_workq, with_futs, with_calls in Hs; cbn in Hs.
  destruct (nth_error p j) as [[|i|i]|] eqn:Ej; try discriminate Hs.
  - (* takes a work item *)
    destruct wq as [|i w]; [discriminate|]. inv Hs. cbn [calls futs workq pp fp].
    split; [exact H1|split; [exact H2|split; [|exact H4]]].
    intros i0 [Hi0|[Hi0|(p0 & Hp0 & Hi0)]].
    + apply H3; auto.
    + apply H3. right. left. now right.
    + apply in_set_nth in Hp0. destruct Hp0 as [->|Hp0].
      * cbn in Hi0. subst. apply H3. right. left. now left.
      * apply H3. right. right. eauto.
  - (* set_running_or_notify_cancel *)
    destruct (nth_error fu i) as [[| | |]|] eqn:Ei; try discriminate Hs; inv Hs; cbn [calls futs workq pp fp].
    + (* pending: the call starts *)
      assert (Hni : ~ In i ca).
      { intros Hin. destruct (H2 _ Hin) as (st & Hst & Hne). rewrite Ei in Hst. inv Hst. congruence. }
      split; [|split; [|split; [|exact H4]]].
      * apply NoDup_app_snoc_nat; assumption.
      * intros i0 Hi0. apply in_app_or in Hi0. destruct Hi0 as [Hi0|[<-|[]]].
        -- destruct (H2 _ Hi0) as (st & Hst & Hne). destruct (Nat.eq_dec i i0) as [->|Hd]; [contradiction|].
           exists st. split; [rewrite nth_error_set_nth_neq by assumption; exact Hst|exact Hne].
        -- exists FRunning. split; [eapply nth_error_set_nth_same_fc; eauto|discriminate].
      * assert (Hpi : pre_ok g i).
        { apply H3. right. right. exists (PTaken i). split; [eapply nth_error_In; eauto|reflexivity]. }
        intros i0 [Hi0|[Hi0|(p0 & Hp0 & Hi0)]].
        -- apply in_app_or in Hi0. destruct Hi0 as [Hi0|[<-|[]]]; [apply H3; auto|exact Hpi].
        -- apply H3; auto.
        -- apply in_set_nth in Hp0. destruct Hp0 as [->|Hp0]; [cbn in Hi0; subst; exact Hpi|apply H3; right; right; eauto].
    + (* cancelled before it started *)
      split; [exact H1|split; [exact H2|split; [|exact H4]]].
      intros i0 [Hi0|[Hi0|(p0 & Hp0 & Hi0)]]; [apply H3; auto|apply H3; auto|].
      apply in_set_nth in Hp0. destruct Hp0 as [->|Hp0]; [contradiction|apply H3; right; right; eauto].
  - (* the call returns *)
    inv Hs. cbn [calls futs workq pp fp].
    split; [exact H1|split; [|split; [|exact H4]]].
    + intros i0 Hi0. destruct (H2 _ Hi0) as (st & Hst & Hne). destruct (Nat.eq_dec i i0) as [->|Hd].
      * exists (FFin (outcome_of g i0)). split; [eapply nth_error_set_nth_same_fc; eauto|discriminate].
      * exists st. split; [rewrite nth_error_set_nth_neq by assumption; exact Hst|exact Hne].
    + intros i0 [Hi0|[Hi0|(p0 & Hp0 & Hi0)]]; [apply H3; auto|apply H3; auto|].
      apply in_set_nth in Hp0. destruct Hp0 as [->|Hp0]; [contradiction|apply H3; right; right; eauto].
Qed.

Lemma ic_step g s l s' e : IC g s -> step g s l = Some (s', e) -> IC g s'.
Proof.
  intros H Hs. destruct l as [| |j]; cbn in Hs.
  - eapply ic_step_f; eauto.
  - eapply ic_step_c; eauto.
  - eapply ic_step_p; eauto.
Qed.

(* for every configuration and every interleaving: the worker function is started at most once per element, and
   never for an element the preprocessor rejected *)
Lemma calls_once g sched :
  NoDup (calls (run step g (init g) sched)) /\
  forall i, In i (calls (run step g (init g) sched)) -> forall e, pre_of g (val g i) <> PreErr e.
Proof.
  assert (H : IC g (run step g (init g) sched))
    by (apply (inv_run step g (IC g)); [intros; eapply ic_step; eauto | apply ic_init]).
  destruct H as (H1 & _ & H3 & _). split; [exact H1|]. intros i Hi. apply H3. now left.
Qed.
