(* The sequential meaning of a parallel map over a source, and its link to the FifoStream model. *)
From MpV Require Import Lib.Tac Lib.Conc Model.FifoStream Proof.FifoProof Proof.FifoComplete.
Open Scope nat_scope.

Inductive seq_end := SCompleted | SBroke | SRaised (e : Z).

(* walk the source sequentially: element i yields outcome_of g i; without return_exceptions the
   first failing element ends the stream with its exception; a source failure ends it; the consumer
   may stop after k outputs *)
Definition stop_now (g : cfg) (acc : list (nat * res)) : bool :=
  match stop_after g with
  | Some k => (Nat.max 1 k <=? length acc)
  | None => false
  end.

Fixpoint seq_walk (g : cfg) (l : list src_item) (i : nat) (acc : list (nat * res)) : list (nat * res) * seq_end :=
  if stop_now g acc then (acc, SBroke) else
  match l with
  | [] => (acc, SCompleted)
  | SData _ :: r =>
      match outcome_of g i with
      | Err e => if return_exc g then seq_walk g r (S i) (acc ++ [(i, Err e)]) else (acc, SRaised e)
      | Ok v => seq_walk g r (S i) (acc ++ [(i, Ok v)])
      end
  | SRaise e :: _ | SRaiseBase e :: _ => (acc, SRaised e)
  end.

Definition seq_run (g : cfg) : list (nat * res) * seq_end := seq_walk g (src g) 0 [].

(* whatever the sequential walk delivers is a prefix of the in-order outcomes *)
Lemma seq_walk_prefix g l : forall i acc,
  acc = expected_prefix g i ->
  fst (seq_walk g l i acc) = expected_prefix g (length (fst (seq_walk g l i acc))).
Proof.
  assert (Hlen : forall n, length (expected_prefix g n) = n)
    by (intros n; unfold expected_prefix; now rewrite map_length, seq_length).
  assert (Hsnoc : forall i, expected_prefix g i ++ [(i, outcome_of g i)] = expected_prefix g (S i)).
  { intros i. unfold expected_prefix. rewrite seq_S, map_app. reflexivity. }
  induction l as [|a r IH]; intros i acc Hacc.
  - cbn. destruct (stop_now g acc); cbn; subst acc; now rewrite Hlen.
  - cbn [seq_walk]. destruct (stop_now g acc); [cbn; subst acc; now rewrite Hlen|].
    destruct a as [x|e|e]; try (cbn; subst acc; now rewrite Hlen).
    destruct (outcome_of g i) as [v|e0] eqn:Eo.
    + apply IH. subst acc. rewrite <- Hsnoc, Eo. reflexivity.
    + destruct (return_exc g).
      * apply IH. subst acc. rewrite <- Hsnoc, Eo. reflexivity.
      * cbn. subst acc. now rewrite Hlen.
Qed.

Lemma seq_run_prefix g :
  fst (seq_run g) = expected_prefix g (length (fst (seq_run g))).
Proof. unfold seq_run. apply seq_walk_prefix. reflexivity. Qed.

(* Any two executions of the model - e.g. one under a thread interleaving and one under a cooperative
   (asyncio) interleaving - deliver outputs that agree on their common length, and agree entirely when
   both complete. *)
Lemma runs_agree g sched1 sched2 :
  let s1 := run step g (init g) sched1 in
  let s2 := run step g (init g) sched2 in
  firstn (Nat.min (length (received s1)) (length (received s2))) (received s1) =
  firstn (Nat.min (length (received s1)) (length (received s2))) (received s2).
Proof.
  cbn. rewrite (fifo_prefix g sched1), (fifo_prefix g sched2).
  set (n1 := length (received (run step g (init g) sched1))).
  set (n2 := length (received (run step g (init g) sched2))).
  unfold expected_prefix. rewrite !map_length, !seq_length.
  rewrite !firstn_map. f_equal.
  assert (H : forall a b, a <= b -> firstn a (seq 0 b) = seq 0 a).
  { intros a b Hab. replace b with (a + (b - a)) by lia. rewrite seq_app, firstn_app, seq_length, Nat.sub_diag.
    cbn. rewrite app_nil_r. apply firstn_all2. rewrite seq_length. lia. }
  rewrite !H by lia. reflexivity.
Qed.

Lemma completed_runs_equal g sched1 sched2 :
  cp (run step g (init g) sched1) = CDone Completed ->
  cp (run step g (init g) sched2) = CDone Completed ->
  received (run step g (init g) sched1) = received (run step g (init g) sched2).
Proof.
  intros H1 H2. destruct (fifo_complete g sched1 H1) as [-> _]. destruct (fifo_complete g sched2 H2) as [-> _].
  reflexivity.
Qed.
