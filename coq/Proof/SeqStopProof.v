(* Stopping a two-stage sequence front to back never wedges (one worker per stage), although the pipe between the stages
   cannot hold a result; stopping it back to front does, and so does a first stage with two workers. *)
From MpV Require Import Lib.Tac Lib.Conc Model.SeqStop.
Import ListNotations.
Open Scope nat_scope.

Definition a0 (s : state) : wpc := nth 0 (ap s) WDone.
Definition a_past (p : wpc) : bool := match p with WRebroadcast | WFwd | WDone => true | _ => false end.
Definition b_stopping (p : bpc) : bool := match p with BRebroadcast | BFwd | BDone => true | _ => false end.
Definition m_late (p : mpc) : bool := match p with MJoinB | MDone => true | _ => false end.
Definition m_after_a (p : mpc) : bool := match p with MPutB | MJoinB | MDone => true | _ => false end.

Record J (g : cfg) (s : state) : Prop := {
  j_len : length (ap s) = 1;
  j_m : match mp s with MJoinA i => i = 0 | _ => True end;
  j_tok0 : mp s <> MPutA -> In Stop (q0 s) \/ a_past (a0 s) = true;
  j_order : In Stop (q1 s) \/ b_stopping (bp s) = true -> a0 s = WDone;
  j_tok1 : m_late (mp s) = true -> In Stop (q1 s) \/ b_stopping (bp s) = true;
  j_tok2 : bp s = BDone -> In Stop (q2 s) \/ op s = ODone;
  j_mdone : mp s = MDone -> bp s = BDone;
  j_after : m_after_a (mp s) = true -> a0 s = WDone
}.

Lemma j_init g : nw g = 1 -> reverse g = false -> J g (init g).
Proof.
  intros Hn Hr. unfold init, first_m. rewrite Hn, Hr. constructor; cbn; auto; try discriminate; try congruence.
  - intros [H|H]; [|discriminate]. contradiction.
Qed.

Lemma in_snoc {A} (x y : A) l : In x l -> In x (l ++ [y]).
Proof. intros H. apply in_or_app. left; exact H. Qed.
Lemma in_snoc_self {A} (x : A) l : In x (l ++ [x]).
Proof. apply in_or_app. right; left; reflexivity. Qed.

Ltac jclose :=
  cbn in *; intros;
  intuition (try discriminate; try congruence; eauto using in_snoc, in_snoc_self).

Lemma j_step g s l s' e : nw g = 1 -> reverse g = false -> J g s -> step g s l = Some (s', e) -> J g s'.
Proof.
  intros Hn Hr [Jl Jm J0 Jo J1 J2 Jd Ja] Hs.
  destruct s as [m a b o x0 x1 x2 dl]. unfold a0 in *. cbn [mp ap bp op q0 q1 q2 delivered] in *.
  destruct a as [|p [|p' a']]; try discriminate Jl. cbn [nth] in *.
  destruct l as [|i| |]; cbn in Hs.
  - (* M *)
    unfold step_m, after_a, after_b, upd_m, set_q0, set_q1 in Hs. rewrite Hn, Hr in Hs. cbn in Hs.
    destruct m; cbn in Hs; break_match_hyp Hs; inv Hs; constructor; unfold a0; cbn [mp ap bp op q0 q1 q2 delivered nth]; jclose.
  - (* A i *)
    unfold step_a, upd_a, set_q0, set_q1 in Hs. cbn in Hs.
    destruct i as [|i]; cbn in Hs; [|destruct i; discriminate Hs].
    destruct p; cbn in Hs; break_match_hyp Hs; inv Hs; constructor; unfold a0; cbn [mp ap bp op q0 q1 q2 delivered nth set_nth]; jclose.
  - (* B *)
    unfold step_b, upd_b, set_q1, set_q2 in Hs. cbn in Hs.
    destruct b; cbn in Hs; break_match_hyp Hs; inv Hs; constructor; unfold a0; cbn [mp ap bp op q0 q1 q2 delivered nth]; jclose.
  - (* O *)
    unfold step_o in Hs. cbn in Hs.
    destruct o; cbn in Hs; break_match_hyp Hs; inv Hs; constructor; unfold a0; cbn [mp ap bp op q0 q1 q2 delivered nth]; jclose.
Qed.

Lemma j_run g sched : nw g = 1 -> reverse g = false -> J g (run step g (init g) sched).
Proof.
  intros Hn Hr. apply (inv_run step g (J g)); [intros; eapply j_step; eauto|apply j_init; auto].
Qed.

(* a state in which nobody can move is the finished state *)
Lemma stuck_finished g s : nw g = 1 -> reverse g = false -> J g s -> stuck g s = true -> finished s = true.
Proof.
  intros Hn Hr [Jl Jm J0 Jo J1 J2 Jd Ja] Hst.
  destruct s as [m a b o x0 x1 x2 dl]. unfold a0 in *. cbn [mp ap bp op q0 q1 q2 delivered] in *.
  destruct a as [|p [|p' a']]; try discriminate Jl. cbn [nth] in *.
  unfold stuck in Hst. rewrite Hn in Hst. cbn [seq forallb] in Hst.
  destruct (step_m g _) eqn:Em; [discriminate|]. destruct (step_b g _) eqn:Eb; [discriminate|].
  destruct (step_o g _) eqn:Eo; [discriminate|]. destruct (step_a g _ 0) eqn:Ea; [discriminate|]. clear Hst.
  unfold step_m, after_a, after_b in Em. rewrite Hn, Hr in Em. cbn in Em.
  unfold step_b in Eb. cbn in Eb. unfold step_o in Eo. cbn in Eo. unfold step_a in Ea. cbn in Ea.
  unfold finished, all_a_done. cbn.
  (* what each blocked thread looks like *)
  assert (Hb : (b = BWaiting /\ x1 = []) \/ b = BDone).
  { destruct b; try discriminate Eb; auto. destruct x1 as [|[x|] r]; [auto|discriminate|discriminate]. }
  assert (Ha : p = WDone).
  { destruct p; try discriminate Ea; auto.
    - (* WGet on an empty input queue: impossible, the stop marker is there or has been taken *)
      destruct x0 as [|[x|] r]; try discriminate Ea.
      destruct m; try discriminate Em; (destruct (J0 ltac:(discriminate)) as [H|H]; [contradiction|discriminate]).
    - (* WHold: the put needs the reader; the reader is waiting on an empty pipe (then the put can go) or gone *)
      destruct Hb as [[Hb1 Hb2]|Hb1]; subst; [discriminate Ea|]. cbn in Jo. specialize (Jo (or_intror eq_refl)). discriminate. }
  subst p.
  destruct m; try discriminate Em; cbn in *.
  - (* MJoinA: the worker is done, so the join can return *) subst. discriminate Em.
  - (* MJoinB: B is not done but blocked: it waits on an empty pipe although its marker is on the way *)
    destruct b; try discriminate Em; destruct Hb as [[Hb1 Hb2]|Hb1]; try discriminate; subst;
      (destruct (J1 eq_refl) as [H|H]; [contradiction|discriminate]).
  - (* MDone *)
    rewrite (Jd eq_refl) in *. destruct (J2 eq_refl) as [H|H]; [|rewrite H; reflexivity].
    destruct o; [|reflexivity]. destruct x2 as [|[x|] r]; [contradiction|discriminate|discriminate].
Qed.

(* For every list of requests still in flight when stop() begins and every interleaving of the stopping thread, the two
   workers and the gather thread: stopping a two-stage sequence in the order of its members never wedges, although no
   result fits the pipe between the stages. *)
Theorem sequence_stop_completes g sched :
  nw g = 1 -> reverse g = false ->
  stuck g (run step g (init g) sched) = true -> finished (run step g (init g) sched) = true.
Proof. intros Hn Hr. apply stuck_finished; auto. apply j_run; auto. Qed.
