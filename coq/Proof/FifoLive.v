(* fifo_stream / Parmapper never wedge (C05): for sources that raise only ordinary exceptions, capacity >= 1 and a pool of at
   least one worker, a state in which neither the feeder, nor the consumer, nor any pool worker can move is a final state. *)
From MpV Require Import Lib.Tac Lib.Conc Model.FifoStream Proof.FifoProof.
Open Scope nat_scope.

Definition is_end (it : qitem) : bool := match it with Task _ => false | _ => true end.
Definition is_nil {A} (l : list A) : bool := match l with [] => true | _ => false end.
(* an end item, if any, is the last thing in the hand-off queue *)
Fixpoint eok (l : list qitem) : bool :=
  match l with [] => true | it :: r => if is_end it then is_nil r else eok r end.
Definition has_end (l : list qitem) : bool := existsb is_end l.

Definition is_base (x : src_item) : bool := match x with SRaiseBase _ => true | _ => false end.
Definition no_base (l : list src_item) : Prop := forallb (fun x => negb (is_base x)) l = true.

(* how many more items the feeder may still put once the stop flag is set *)
Definition rem (f : fpc) : nat :=
  match f with
  | FNext | FChk _ | FPutExc _ | FPutEnd => 1
  | FPre _ | FSubmit _ _ | FPut _ => 2
  | _ => 0
  end.

Definition drain_phase (c : cpc) : bool :=
  match c with CDrainChk _ | CDrainGet _ | CCancel _ _ | CJoin _ => true | _ => false end.

Definition cnt {A} (f : A -> bool) (l : list A) : nat := length (filter f l).
Definition is_taken (k : nat) (p : ppc) : bool := match p with PTaken i => Nat.eqb k i | _ => false end.
Definition is_run (k : nat) (p : ppc) : bool := match p with PRun i => Nat.eqb k i | _ => false end.

(* where the work item of future k is: in the pool's queue (W), taken by a worker (T), being run (R) *)
Definition W (s : state) (k : nat) : nat := cnt (Nat.eqb k) (workq s).
Definition T (s : state) (k : nat) : nat := cnt (is_taken k) (pp s).
Definition R (s : state) (k : nat) : nat := cnt (is_run k) (pp s).

Definition pool_ok (s : state) (k : nat) : Prop :=
  W s k + T s k + R s k <= 1 /\
  match nth_error (futs s) k with
  | Some FPending => W s k + T s k = 1
  | Some FRunning => R s k = 1
  | Some (FFin _) => W s k + T s k + R s k = 0
  | Some FCancelled => R s k = 0
  | None => W s k + T s k + R s k = 0
  end.

Record D (g : cfg) (s : state) : Prop := {
  d_idle : cp s <> CStart -> fp s <> FIdle;
  d_rest : no_base (rest s);
  d_dead : forall e, fp s <> FDead e;
  d_q_idx : forall i, In (Task i) (q s) -> i < length (futs s);
  d_c_idx : forall i, (cp s = CWait i \/ exists o, cp s = CCancel i o) -> i < length (futs s);
  d_pool : forall k, pool_ok s k;
  d_nocancel : phase1 (cp s) = true -> forall i, nth_error (futs s) i <> Some FCancelled;
  d_nostop : phase1 (cp s) = true -> to_stop s = false;
  d_done : fp s = FDone -> phase1 (cp s) = true -> has_end (q s) = true;
  d_drainget : forall o, cp s = CDrainGet o -> q s <> [];
  d_cdone : forall o, cp s = CDone o -> f_finished s = true;
  d_end_done : has_end (q s) = true -> fp s = FDone;
  d_eok : eok (q s) = true;
  d_stop : drain_phase (cp s) = true -> to_stop s = true \/ fp s = FDone;
  d_join : forall o, cp s = CJoin o -> length (q s) + rem (fp s) <= 2;
  d_pp : length (pp s) = conc g
}.

Lemma cnt_app {A} (f : A -> bool) a b : cnt f (a ++ b) = cnt f a + cnt f b.
Proof. unfold cnt. now rewrite filter_app, app_length. Qed.
Lemma cnt_cons {A} (f : A -> bool) x l : cnt f (x :: l) = (if f x then 1 else 0) + cnt f l.
Proof. unfold cnt. cbn. destruct (f x); reflexivity. Qed.
Lemma cnt_nil {A} (f : A -> bool) : cnt f [] = 0.
Proof. reflexivity. Qed.
Lemma cnt_set_nth {A} (f : A -> bool) j v l old :
  nth_error l j = Some old -> cnt f (set_nth j v l) + (if f old then 1 else 0) = cnt f l + (if f v then 1 else 0).
Proof.
  revert j; induction l as [|h t IH]; intros [|j] H; cbn in H; try discriminate.
  - inv H. cbn [set_nth]. rewrite !cnt_cons. lia.
  - cbn [set_nth]. rewrite !cnt_cons. specialize (IH j H). lia.
Qed.
Lemma cnt_repeat_false {A} (f : A -> bool) x n : f x = false -> cnt f (repeat x n) = 0.
Proof. intros H. induction n; cbn [repeat]; [reflexivity|]. rewrite cnt_cons, H, IHn. reflexivity. Qed.

Lemma d_init g : no_base (src g) -> D g (init g).
Proof.
  intros Hs. constructor; unfold init; cbn; auto; try congruence; try discriminate; try contradiction; try (intros; discriminate).
  - intros i [H|[o H]]; discriminate.
  - intros k. unfold pool_ok, W, T, R. cbn [workq pp futs]. rewrite cnt_nil, !cnt_repeat_false by reflexivity. destruct k; cbn; lia.
  - intros _ i H. destruct i; discriminate.
  - apply repeat_length.
Qed.

Lemma has_end_app l it : has_end (l ++ [it]) = has_end l || is_end it.
Proof. unfold has_end. rewrite existsb_app. cbn. now rewrite orb_false_r. Qed.

Lemma eok_app l it : eok l = true -> has_end l = false -> eok (l ++ [it]) = true.
Proof.
  induction l as [|h t IH]; cbn; intros He Hn.
  - destruct (is_end it); reflexivity.
  - destruct (is_end h) eqn:E; [cbn in Hn; discriminate|]. cbn in Hn. apply IH; assumption.
Qed.

Lemma nth_error_snoc_lt {A} (l : list A) x i : i < length l -> nth_error (l ++ [x]) i = nth_error l i.
Proof. intros H. now apply nth_error_app1. Qed.

Lemma nth_snoc_eq {A} (l : list A) x : nth_error (l ++ [x]) (length l) = Some x.
Proof. rewrite nth_error_app2 by lia. now rewrite Nat.sub_diag. Qed.

Ltac dsimp := cbn [fp cp pp q workq futs to_stop rest pulled received dropped calls] in *.

Lemma has_end_false_of g s : D g s -> fp s <> FDone -> has_end (q s) = false.
Proof. intros Dd Hn. destruct (has_end (q s)) eqn:E; [|reflexivity]. exfalso. apply Hn. apply (d_end_done _ _ Dd E). Qed.

Lemma nth_snoc_cases {A} (l : list A) x i y :
  nth_error (l ++ [x]) i = Some y -> (i < length l /\ nth_error l i = Some y) \/ (i = length l /\ y = x).
Proof.
  intros H. destruct (Nat.lt_ge_cases i (length l)) as [Hlt|Hge].
  - left. split; [exact Hlt|]. now rewrite nth_error_app1 in H.
  - right. rewrite nth_error_app2 in H by exact Hge. destruct (i - length l) as [|m] eqn:E.
    + cbn in H. inv H. split; [lia|reflexivity].
    + cbn in H. destruct m; discriminate.
Qed.

Ltac idx_app :=
  intros; rewrite app_length; cbn [length];
  match goal with |- ?i < _ + 1 => assert (i < _) by eauto; lia end.

Lemma d_step_f g s s' e : Inv2 g s -> D g s -> step_f g s = Some (s', e) -> D g s'.
Proof.
  intros I2 Dd Hs. pose proof Dd as [d1 d2 d3 d4 d5 d6 d7 d8 d9 d10 d11 d12 d13 d14 d15 d16].
  destruct I2 as (_ & _ & _ & _ & _ & Hfl & _). unfold flen_ok in Hfl.
  pose proof (has_end_false_of g s Dd) as Hne.
  destruct s as [f c p qq wq fu ts rs pu re dr ca]. dsimp.
  unfold step_f, f_put, qfull, with_fp, with_q, with_rest, with_pulled, with_dropped, with_futs, with_workq in Hs; dsimp.
  destruct f; try discriminate Hs; break_match_hyp Hs; inv Hs; constructor; dsimp; unfold f_finished in *; dsimp;
    try assumption; try (intros; discriminate); try (intros; congruence).
  all: try (intros He; specialize (d12 He); discriminate).
  all: try (intros i0 Hi0; rewrite app_length; cbn [length]; specialize (d4 _ Hi0); lia).
  all: try (intros i0 Hi0; rewrite app_length; cbn [length]; specialize (d5 _ Hi0); lia).
  all: try (intros o Ho; destruct qq; discriminate).
  all: try (intros o Ho; specialize (d15 _ Ho); rewrite ?app_length; cbn [length rem] in *; lia).
  all: try (intros _ _; rewrite has_end_app; cbn; apply orb_true_r).
  all: try (apply eok_app; [assumption|apply Hne; discriminate]).
  all: try (intros o Ho; exfalso; assert (Ht : false = true \/ FChk i = FDone) by (apply d14; rewrite Ho; reflexivity); destruct Ht; discriminate).
  all: try (intros He; rewrite has_end_app in He; cbn [is_end] in He; rewrite orb_false_r in He; specialize (d12 He); discriminate).
  all: try (intros i0 Hi0; apply in_app_or in Hi0; destruct Hi0 as [Hi0|[Hi0|[]]]; [apply d4; exact Hi0|first [discriminate Hi0 | (inv Hi0; lia)]]).
  all: try (intros Hp i0 Hi0; apply nth_snoc_cases in Hi0; destruct Hi0 as [[Hlt Hi0]|[-> Hx]]; [exact (d7 Hp _ Hi0)|discriminate Hx]).
  all: try (intros Hd; destruct (d14 Hd) as [Ht|Hf]; [left; exact Ht|discriminate Hf]).
  - (* the preprocessor rejected the element: a future that is already failed *)
    intros k. specialize (d6 k). unfold pool_ok, W, T, R in *. dsimp.
    destruct (Nat.lt_trichotomy k (length fu)) as [Hlt|[->|Hgt]].
    + rewrite nth_error_app1 by exact Hlt. exact d6.
    + rewrite nth_snoc_eq. rewrite (proj2 (nth_error_None fu (length fu))) in d6 by lia. lia.
    + rewrite (proj2 (nth_error_None (fu ++ [_]) k)) by (rewrite app_length; cbn; lia).
      rewrite (proj2 (nth_error_None fu k)) in d6 by lia. exact d6.
  - (* submission: a pending future, its work item at the back of the pool's queue *)
    destruct Hfl as [Hlen _]. intros k. specialize (d6 k). unfold pool_ok, W, T, R in *. dsimp.
    rewrite cnt_app, cnt_cons, cnt_nil.
    destruct (Nat.lt_trichotomy k (length fu)) as [Hlt|[->|Hgt]].
    + rewrite nth_error_app1 by exact Hlt. assert (E : Nat.eqb k i = false) by (apply Nat.eqb_neq; lia). rewrite E.
      destruct (nth_error fu k) as [[| | |]|]; lia.
    + rewrite nth_snoc_eq. rewrite (proj2 (nth_error_None fu (length fu))) in d6 by lia.
      rewrite Hlen in *. rewrite Nat.eqb_refl. lia.
    + rewrite (proj2 (nth_error_None (fu ++ [_]) k)) by (rewrite app_length; cbn; lia).
      rewrite (proj2 (nth_error_None fu k)) in d6 by lia. assert (E : Nat.eqb k i = false) by (apply Nat.eqb_neq; lia). rewrite E. lia.
Qed.

Lemma nth_error_set_nth_same_l {A} n (x : A) l y : nth_error l n = Some y -> nth_error (set_nth n x l) n = Some x.
Proof. revert n; induction l as [|h t IH]; intros [|n] H; cbn in *; try discriminate; auto. Qed.

Lemma set_nth_none {A} n (x : A) l : nth_error l n = None -> set_nth n x l = l.
Proof.
  revert n; induction l as [|h t IH]; intros [|n] H; cbn in *; try reflexivity; try discriminate.
  f_equal. apply IH. exact H.
Qed.

Lemma d_step_p g s j s' e : D g s -> step_p g s j = Some (s', e) -> D g s'.
Proof.
  intros Dd Hs. pose proof Dd as [d1 d2 d3 d4 d5 d6 d7 d8 d9 d10 d11 d12 d13 d14 d15 d16].
  destruct s as [f c p qq wq fu ts rs pu re dr ca]. dsimp.
  unfold step_p, with_pp, with_workq, with_futs, with_calls in Hs; dsimp.
  destruct (nth_error p j) as [[|i|i]|] eqn:Ej; try discriminate Hs; break_match_hyp Hs; inv Hs; constructor; dsimp; unfold f_finished in *; dsimp;
    rewrite ?set_nth_length; try assumption; try (intros; discriminate); try (intros; congruence).
  - (* an idle worker takes the head of the pool's queue *)
    intros k. specialize (d6 k). unfold pool_ok, W, T, R in *. dsimp. rewrite cnt_cons in d6.
    pose proof (cnt_set_nth (is_taken k) j (PTaken n) p PIdle Ej) as HT.
    pose proof (cnt_set_nth (is_run k) j (PTaken n) p PIdle Ej) as HR. cbn [is_taken is_run] in HT, HR.
    destruct (Nat.eqb k n); destruct (nth_error fu k) as [[| | |]|]; lia.
  - (* the taken item was still pending: it starts running *)
    intros k. pose proof (d6 k) as dk. pose proof (d6 i) as di. unfold pool_ok, W, T, R in *. dsimp.
    pose proof (cnt_set_nth (is_taken k) j (PRun i) p (PTaken i) Ej) as HT.
    pose proof (cnt_set_nth (is_run k) j (PRun i) p (PTaken i) Ej) as HR. cbn [is_taken is_run] in HT, HR.
    match goal with E : nth_error fu i = Some FPending |- _ => rename E into Ei end.
    destruct (Nat.eq_dec i k) as [->|Hne].
    + rewrite (nth_error_set_nth_same_l _ FRunning _ _ Ei). rewrite Ei in dk. rewrite Nat.eqb_refl in HT, HR. lia.
    + rewrite nth_error_set_nth_neq by assumption. assert (E : Nat.eqb k i = false) by (apply Nat.eqb_neq; congruence).
      rewrite E in HT, HR. destruct (nth_error fu k) as [[| | |]|]; lia.
  - intros Hp i0 Hi0. destruct (Nat.eq_dec i i0) as [->|Hne].
    + match goal with E : nth_error fu i0 = Some FPending |- _ => rewrite (nth_error_set_nth_same_l _ FRunning _ _ E) in Hi0 end. discriminate.
    + rewrite nth_error_set_nth_neq in Hi0 by assumption. exact (d7 Hp _ Hi0).
  - (* the taken item had been cancelled: back to idle *)
    intros k. pose proof (d6 k) as dk. unfold pool_ok, W, T, R in *. dsimp.
    pose proof (cnt_set_nth (is_taken k) j PIdle p (PTaken i) Ej) as HT.
    pose proof (cnt_set_nth (is_run k) j PIdle p (PTaken i) Ej) as HR. cbn [is_taken is_run] in HT, HR.
    match goal with E : nth_error fu i = Some FCancelled |- _ => rename E into Ei end.
    destruct (Nat.eq_dec i k) as [->|Hne].
    + rewrite Ei in *. rewrite Nat.eqb_refl in HT. lia.
    + assert (E : Nat.eqb k i = false) by (apply Nat.eqb_neq; congruence). rewrite E in HT.
      destruct (nth_error fu k) as [[| | |]|]; lia.
  - (* the call returns *)
    intros k. pose proof (d6 k) as dk. pose proof (d6 i) as di. unfold pool_ok, W, T, R in *. dsimp.
    pose proof (cnt_set_nth (is_taken k) j PIdle p (PRun i) Ej) as HT.
    pose proof (cnt_set_nth (is_run k) j PIdle p (PRun i) Ej) as HR. cbn [is_taken is_run] in HT, HR.
    destruct (Nat.eq_dec i k) as [->|Hne].
    + rewrite Nat.eqb_refl in HR.
      destruct (nth_error fu k) as [st|] eqn:Ek.
      * rewrite (nth_error_set_nth_same_l _ (FFin (outcome_of g k)) _ _ Ek). destruct st; lia.
      * (* the index is outside the futures: the table is unchanged *)
        rewrite (set_nth_none _ _ _ Ek), Ek. lia.
    + rewrite nth_error_set_nth_neq by assumption. assert (E : Nat.eqb k i = false) by (apply Nat.eqb_neq; congruence).
      rewrite E in HR. destruct (nth_error fu k) as [[| | |]|]; lia.
  - intros Hp i0 Hi0. destruct (Nat.eq_dec i i0) as [->|Hne].
    + destruct (nth_error fu i0) as [st|] eqn:Ek.
      * rewrite (nth_error_set_nth_same_l _ (FFin (outcome_of g i0)) _ _ Ek) in Hi0. discriminate.
      * rewrite (set_nth_none _ _ _ Ek) in Hi0. congruence.
    + rewrite nth_error_set_nth_neq in Hi0 by assumption. exact (d7 Hp _ Hi0).
Qed.

Lemma has_end_cons it l : has_end (it :: l) = is_end it || has_end l.
Proof. reflexivity. Qed.

Lemma d_step_c g s s' e : Inv2 g s -> D g s -> step_c g s = Some (s', e) -> D g s'.
Proof.
  intros I2 Dd Hs. destruct I2 as (_ & _ & _ & _ & _ & _ & Hst). pose proof Dd as [d1 d2 d3 d4 d5 d6 d7 d8 d9 d10 d11 d12 d13 d14 d15 d16].
  destruct s as [f c p qq wq fu ts rs pu re dr ca]. dsimp.
  unfold step_c, with_cp, with_fp, with_q, with_received, with_dropped, with_stop, with_futs, after_recv in Hs; dsimp.
  destruct c; try discriminate Hs; break_match_hyp Hs; inv Hs; constructor; dsimp; unfold f_finished in *; dsimp;
    rewrite ?set_nth_length; try assumption; try (intros; discriminate); try (intros; congruence).
  all: try (intros _; apply d1; discriminate).
  all: try (intros i0 [H|[o0 H]]; inv H; apply d4; now left).
  all: try (intros i0 Hi0; apply d4; now right).
  all: try (intros He; apply d12; rewrite has_end_cons, He; apply orb_true_r).
  all: try (cbn [eok is_end] in d13; exact d13).
  all: try (cbn [eok is_end] in d13; destruct l; [reflexivity|discriminate d13]).
  all: try (intros o0 _; destruct f; cbn; lia).
  all: try (intros o0 _; assert (Hf : f = FDone) by (apply d12; reflexivity); subst f; cbn [eok is_end] in d13; destruct l; [cbn; lia|discriminate d13]).
  all: try (intros _; left; reflexivity).
  all: try (intros _; right; apply d12; reflexivity).
  - (* the consumer starts the feeder: the queue is empty *)
    intros He. destruct (Hst eq_refl) as (_ & _ & _ & _ & Hq). subst qq. discriminate He.
  - (* cancelling a pending future: its work item stays where it is and will be skipped *)
    match goal with E : nth_error fu i = Some FPending |- _ => rename E into Ei end.
    intros k. pose proof (d6 k) as dk. unfold pool_ok, W, T, R in *. dsimp.
    destruct (Nat.eq_dec i k) as [->|Hne].
    + rewrite (nth_error_set_nth_same_l _ FCancelled _ _ Ei). rewrite Ei in dk. lia.
    + rewrite nth_error_set_nth_neq by assumption. exact dk.
Qed.

Lemma d_step g s l s' e : Inv2 g s -> D g s -> step g s l = Some (s', e) -> D g s'.
Proof.
  intros I2 Dd Hs. destruct l as [| |j]; cbn in Hs.
  - eapply d_step_f; eauto.
  - eapply d_step_c; eauto.
  - eapply d_step_p; eauto.
Qed.

Lemma d_run g sched : no_base (src g) -> D g (run step g (init g) sched).
Proof.
  intros Hb.
  assert (H : Inv2 g (run step g (init g) sched) /\ D g (run step g (init g) sched)).
  { apply (inv_run step g (fun s => Inv2 g s /\ D g s)).
    - intros s l s' e [H2 HD] Hs. split; [eapply inv2_step; eauto|eapply d_step; eauto].
    - split; [apply inv2_init|apply d_init; exact Hb]. }
  exact (proj2 H).
Qed.

Lemma cnt_pos_nth {A} (f : A -> bool) l : 0 < cnt f l -> exists j x, nth_error l j = Some x /\ f x = true.
Proof.
  induction l as [|h t IH]; [cbn; lia|]. rewrite cnt_cons. destruct (f h) eqn:E.
  - intros _. exists 0, h. auto.
  - intros H. destruct (IH H) as (j & x & Hj & Hx). exists (S j), x. auto.
Qed.

Definition f_blocked (g : cfg) (s : state) : Prop :=
  match fp s with
  | FIdle | FDone | FDead _ => True
  | FPut _ | FPutExc _ | FPutEnd => qfull g s = true
  | _ => False
  end.

Lemma f_blocked_of g s : step_f g s = None -> f_blocked g s.
Proof.
  unfold step_f, f_blocked, f_put. destruct (fp s); auto; intros H; break_match_hyp H; try discriminate; auto.
Qed.

Definition c_blocked (s : state) : Prop :=
  match cp s with
  | CGet => q s = []
  | CWait i => forall r, nth_error (futs s) i <> Some (FFin r)
  | CDrainGet _ => q s = []
  | CCancel i _ => nth_error (futs s) i = None
  | CJoin _ => f_finished s = false
  | CDone _ => True
  | _ => False
  end.

Lemma c_blocked_of g s : step_c g s = None -> c_blocked s.
Proof.
  unfold step_c, c_blocked, f_finished. destruct (cp s); intros H; try discriminate; auto.
  - destruct (q s) as [|[| |] r]; [reflexivity|discriminate..].
  - intros r Hr. rewrite Hr in H. destruct r; [discriminate|]. destruct (return_exc g); discriminate.
  - destruct (q s) as [|[| |] r]; discriminate.
  - destruct (q s) as [|[| |] r]; [reflexivity|discriminate..].
  - destruct (nth_error (futs s) i) as [[| | |]|]; try discriminate; reflexivity.
  - destruct (fp s); try discriminate; reflexivity.
Qed.

Definition p_blocked (s : state) (j : nat) : Prop :=
  match nth_error (pp s) j with
  | None => True
  | Some PIdle => workq s = []
  | Some (PTaken i) => nth_error (futs s) i <> Some FPending /\ nth_error (futs s) i <> Some FCancelled
  | Some (PRun _) => False
  end.

Lemma p_blocked_of g s j : step_p g s j = None -> p_blocked s j.
Proof.
  unfold step_p, p_blocked. destruct (nth_error (pp s) j) as [[|i|i]|]; intros H; auto; try discriminate.
  - destruct (workq s); [reflexivity|discriminate].
  - destruct (nth_error (futs s) i) as [[| | |]|]; try discriminate; split; discriminate.
Qed.

(* a worker that has taken an item can always go on with it *)
Lemma taken_not_blocked g s j i : D g s -> nth_error (pp s) j = Some (PTaken i) -> ~ p_blocked s j.
Proof.
  intros Dd Hj Hb. unfold p_blocked in Hb. rewrite Hj in Hb. destruct Hb as [H1 H2].
  pose proof (d_pool _ _ Dd i) as Hp. unfold pool_ok, T in Hp.
  assert (HT : 0 < cnt (is_taken i) (pp s)).
  { clear - Hj. revert j Hj. induction (pp s) as [|h t IH]; intros [|j] H; cbn in H; try discriminate.
    - inv H. rewrite cnt_cons. cbn. rewrite Nat.eqb_refl. lia.
    - rewrite cnt_cons. specialize (IH _ H). lia. }
  destruct Hp as [Hs Hm]. destruct (nth_error (futs s) i) as [[| | |]|]; try congruence; lia.
Qed.

(* for sources that raise only ordinary exceptions, capacity >= 1 and at least one pool worker: a state in which neither
   the feeder, nor the consumer, nor any pool worker can move is a final state *)
Lemma fifo_no_deadlock g sched :
  no_base (src g) -> 1 <= cap g -> 1 <= conc g -> deadlocked g (run step g (init g) sched) = false.
Proof.
  intros Hb Hcap Hconc. set (s := run step g (init g) sched). pose proof (d_run g sched Hb) as Dd. fold s in Dd.
  destruct (deadlocked g s) eqn:Ed; [exfalso|reflexivity]. unfold deadlocked in Ed.
  apply andb_true_iff in Ed. destruct Ed as [Hnf Hst]. apply negb_true_iff in Hnf.
  destruct (step_f g s) eqn:Ef; [discriminate|]. destruct (step_c g s) eqn:Ec; [discriminate|].
  assert (HP : forall j, j < conc g -> p_blocked s j).
  { intros j Hj. rewrite forallb_forall in Hst. specialize (Hst j). rewrite in_seq in Hst.
    destruct (step_p g s j) eqn:Ep; [specialize (Hst ltac:(lia)); discriminate|]. eapply p_blocked_of; eauto. }
  pose proof (f_blocked_of g s Ef) as HF. pose proof (c_blocked_of g s Ec) as HC. clear Ef Ec Hst.
  pose proof Dd as [d1 d2 d3 d4 d5 d6 d7 d8 d9 d10 d11 d12 d13 d14 d15 d16].
  unfold c_blocked in HC. destruct (cp s) eqn:Ecp; try contradiction.
  - (* the consumer waits for an item: the feeder can put or is still producing *)
    unfold f_blocked, qfull in HF. rewrite HC in *. cbn [length] in HF.
    destruct (fp s) eqn:Efp; try contradiction; try discriminate HF.
    + apply d1; [discriminate|reflexivity].
    + specialize (d9 eq_refl eq_refl). discriminate.
    + eapply d3; reflexivity.
  - (* the consumer waits for future i *)
    assert (Hi : i < length (futs s)) by (apply d5; left; reflexivity).
    destruct (nth_error (futs s) i) as [st|] eqn:Efu; [|apply nth_error_None in Efu; lia].
    pose proof (d6 i) as Hp. unfold pool_ok, W, T, R in Hp. rewrite Efu in Hp. destruct Hp as [Hsum Hm].
    destruct st.
    + (* pending: its work item is in the pool's queue or with a worker *)
      destruct (cnt (is_taken i) (pp s)) as [|nT] eqn:ET.
      * (* in the queue: some worker can take it or is busy *)
        assert (Hw : workq s <> []) by (intros Hn; rewrite Hn in Hm; cbn in Hm; lia).
        destruct (nth_error (pp s) 0) as [p0|] eqn:E0; [|apply nth_error_None in E0; lia].
        specialize (HP 0 ltac:(lia)). pose proof HP as HP0. unfold p_blocked in HP. rewrite E0 in HP.
        destruct p0; [contradiction|eapply taken_not_blocked; eauto|contradiction].
      * destruct (cnt_pos_nth (is_taken i) (pp s) ltac:(lia)) as (j & x & Hj & Hx).
        destruct x; cbn in Hx; try discriminate. apply Nat.eqb_eq in Hx. subst i0.
        assert (Hjl : j < conc g) by (rewrite <- d16; apply nth_error_Some; congruence).
        eapply taken_not_blocked; eauto.
    + (* running: its worker can finish *)
      destruct (cnt_pos_nth (is_run i) (pp s) ltac:(lia)) as (j & x & Hj & Hx).
      destruct x; cbn in Hx; try discriminate.
      assert (Hjl : j < conc g) by (rewrite <- d16; apply nth_error_Some; congruence).
      specialize (HP j Hjl). unfold p_blocked in HP. rewrite Hj in HP. exact HP.
    + exact (HC r eq_refl).
    + exact (d7 eq_refl i Efu).
  - exact (d10 _ eq_refl HC).
  - assert (Hi : i < length (futs s)) by (apply d5; right; eauto). apply nth_error_None in HC. lia.
  - (* the consumer waits for the feeder to finish: the feeder has room for what it still has to put *)
    specialize (d15 _ eq_refl). unfold f_blocked, qfull in HF. unfold f_finished in HC.
    destruct (fp s) eqn:Efp; try contradiction; try discriminate HC; cbn [rem] in d15.
    + apply d1; [discriminate|reflexivity].
    + apply Nat.leb_le in HF. lia.
    + apply Nat.leb_le in HF. lia.
    + apply Nat.leb_le in HF. lia.
  - (* the consumer is done: so is the feeder *)
    unfold final in Hnf. rewrite Ecp, (d11 _ eq_refl) in Hnf. discriminate.
Qed.
