(* C10, bounded window: the source is never pulled more than buffer_size + 2 elements beyond what any fork has received. *)
From MpV Require Import Lib.Tac Lib.Conc Model.Tee Proof.TeeProof Proof.TeePrefix.
Open Scope nat_scope.

Definition cnt {A} (f : A -> bool) (l : list A) : nat := length (filter f l).

Lemma cnt_app {A} (f : A -> bool) a b : cnt f (a ++ b) = cnt f a + cnt f b.
Proof. unfold cnt. now rewrite filter_app, app_length. Qed.
Lemma cnt_cons {A} (f : A -> bool) x l : cnt f (x :: l) = (if f x then 1 else 0) + cnt f l.
Proof. unfold cnt. cbn. destruct (f x); reflexivity. Qed.
Lemma cnt_nil {A} (f : A -> bool) : cnt f [] = 0.
Proof. reflexivity. Qed.
Lemma cnt_le_length {A} (f : A -> bool) l : cnt f l <= length l.
Proof. induction l as [|h t IH]; [cbn; lia|]. rewrite cnt_cons. cbn [length]. destruct (f h); lia. Qed.

Lemma cnt_set_nth {A} (f : A -> bool) j v l old :
  nth_error l j = Some old ->
  cnt f (set_nth j v l) + (if f old then 1 else 0) = cnt f l + (if f v then 1 else 0).
Proof.
  revert j; induction l as [|h t IH]; intros [|j] H; cbn in H; try discriminate.
  - inv H. cbn [set_nth]. rewrite !cnt_cons. lia.
  - cbn [set_nth]. rewrite !cnt_cons. specialize (IH j H). lia.
Qed.

Lemma cnt_ext {A} (f g : A -> bool) l : (forall x, In x l -> f x = g x) -> cnt f l = cnt g l.
Proof.
  induction l as [|h t IH]; intros H; [reflexivity|]. rewrite !cnt_cons, H by (left; reflexivity).
  rewrite IH; [reflexivity|]. intros x Hx. apply H. right; exact Hx.
Qed.

Lemma cnt_map {A B} (h : A -> B) (f : B -> bool) l : cnt f (map h l) = cnt (fun x => f (h x)) l.
Proof. induction l as [|x t IH]; [reflexivity|]. cbn [map]. rewrite !cnt_cons, IH. reflexivity. Qed.

Lemma cnt_repeat_false {A} (f : A -> bool) x n : f x = false -> cnt f (repeat x n) = 0.
Proof. intros H. induction n; cbn [repeat]; [reflexivity|]. rewrite cnt_cons, H, IHn. reflexivity. Qed.

(* if everything counted is true, every element satisfies the predicate *)
Lemma cnt_full {A} (f : A -> bool) l : cnt f l = length l -> forall x, In x l -> f x = true.
Proof.
  induction l as [|h t IH]; intros H x Hx; [contradiction|]. rewrite cnt_cons in H. cbn [length] in H.
  pose proof (cnt_le_length f t). destruct (f h) eqn:E; [|lia].
  destruct Hx as [->|Hx]; [exact E|]. apply IH; [lia|exact Hx].
Qed.

(* the satisfying elements all sit at indices below m: at most m of them *)
Lemma cnt_below {A} (f : A -> bool) l m :
  (forall i x, nth_error l i = Some x -> f x = true -> i < m) -> cnt f l <= m.
Proof.
  revert m; induction l as [|h t IH]; intros m H; [cbn; lia|]. rewrite cnt_cons.
  destruct (f h) eqn:E.
  - pose proof (H 0 h eq_refl E) as H0. destruct m as [|m]; [lia|].
    assert (cnt f t <= m); [|lia]. apply IH. intros i x Hi Hx. specialize (H (S i) x Hi Hx). lia.
  - destruct m as [|m].
    + assert (cnt f t <= 0); [|lia]. apply IH. intros i x Hi Hx. specialize (H (S i) x Hi Hx). lia.
    + assert (cnt f t <= m); [|lia]. apply IH. intros i x Hi Hx. specialize (H (S i) x Hi Hx). lia.
Qed.

(* at most one element satisfies the predicate *)
Lemma cnt_unique {A} (f : A -> bool) l :
  (forall i j x y, nth_error l i = Some x -> nth_error l j = Some y -> f x = true -> f y = true -> i = j) -> cnt f l <= 1.
Proof.
  induction l as [|h t IH]; intros H; [cbn; lia|]. rewrite cnt_cons. destruct (f h) eqn:E.
  - assert (cnt f t = 0); [|lia]. unfold cnt. destruct (filter f t) as [|y r] eqn:Ef; [reflexivity|exfalso].
    assert (Hy : In y (filter f t)) by (rewrite Ef; left; reflexivity). apply filter_In in Hy as [Hy Hfy].
    apply In_nth_error in Hy as [j Hj]. specialize (H 0 (S j) h y eq_refl Hj E Hfy). discriminate.
  - assert (cnt f t <= 1); [|lia]. apply IH. intros i j x y Hi Hj Hx Hy. specialize (H (S i) (S j) x y Hi Hj Hx Hy). lia.
Qed.

Definition after_inc (p : fpc) : bool := match p with PC3 | PC4 | PC5 | PR _ => true | _ => false end.
Definition passedb (i : nat) (k : fork) : bool :=
  (i <? length (recv k)) || ((i =? length (recv k)) && after_inc (pc k)).
Definition is_pend (k : fork) : bool := match pc k with PA5 _ | PB5 _ | PB6 _ => true | _ => false end.
Definition is_pc3 (k : fork) : bool := match pc k with PC3 => true | _ => false end.
Definition complete (g : cfg) (bx : box) : bool := bn bx =? nforks g.
Definition needs_nxt (p : fpc) : bool :=
  match p with PB2 | PB3 | PB4 | PB5 _ | PB6 _ | PB7 | PC1 | PC2 | PC3 | PC4 | PC5 => true | _ => false end.

Record W (g : cfg) (s : state) : Prop := {
  w_n : length (forks s) = nforks g;
  w_nxt : forall f k, nth_error (forks s) f = Some k -> needs_nxt (pc k) = true -> nxt k <> None;
  w_cnt : forall i bx, nth_error (boxes s) i = Some bx -> bn bx = cnt (passedb i) (forks s);
  w_bal : L s + cnt is_pc3 (forks s) = cnt (complete g) (boxes s) + length (buffer s) + cnt is_pend (forks s);
  w_buf : length (buffer s) <= bufsize g
}.

Global Arguments cnt : simpl never.

Lemma w_init g : W g (init g).
Proof.
  constructor; unfold init, L; cbn.
  - apply repeat_length.
  - intros f k H. apply nth_error_In, repeat_spec in H. subst k. cbn. discriminate.
  - intros i bx H. destruct i; discriminate.
  - rewrite !cnt_repeat_false by reflexivity. rewrite cnt_nil. reflexivity.
  - lia.
Qed.

(* a step that changes one fork without moving it across the "incremented n" boundary, leaves every box's n alone and
   does not touch the window queue *)
Lemma w_general g s s' f0 k0 k' :
  W g s -> nth_error (forks s) f0 = Some k0 -> forks s' = set_nth f0 k' (forks s) ->
  map bn (boxes s') = map bn (boxes s) -> buffer s' = buffer s ->
  (forall i, passedb i k' = passedb i k0) -> is_pc3 k' = is_pc3 k0 -> is_pend k' = is_pend k0 ->
  (needs_nxt (pc k') = true -> nxt k' <> None) ->
  W g s'.
Proof.
  intros [Wn Wx Wc Wb Wf] Ek Hf Hb Hq Hp H3 Hd Hx.
  assert (HL : L s' = L s) by (unfold L; rewrite <- (map_length bn (boxes s')), Hb, map_length; reflexivity).
  constructor.
  - rewrite Hf, set_nth_length. exact Wn.
  - intros f k Hk Hn. rewrite Hf in Hk. destruct (Nat.eq_dec f0 f) as [->|Hne].
    + rewrite (nth_error_set_nth_same _ k' _ _ Ek) in Hk. inv Hk. auto.
    + rewrite nth_error_set_nth_other in Hk by assumption. eapply Wx; eauto.
  - intros i bx' Hi.
    assert (Hm : nth_error (map bn (boxes s')) i = Some (bn bx')) by (rewrite nth_error_map, Hi; reflexivity).
    rewrite Hb, nth_error_map in Hm. destruct (nth_error (boxes s) i) as [bx|] eqn:E; [|discriminate]. cbn in Hm. injection Hm as Hm.
    rewrite <- Hm. rewrite (Wc _ _ E), Hf.
    pose proof (cnt_set_nth (passedb i) f0 k' (forks s) k0 Ek) as Hc. rewrite Hp in Hc. lia.
  - rewrite HL, Hq, Hf.
    pose proof (cnt_set_nth is_pc3 f0 k' (forks s) k0 Ek) as C3. pose proof (cnt_set_nth is_pend f0 k' (forks s) k0 Ek) as Cd.
    rewrite H3 in C3. rewrite Hd in Cd.
    assert (Hcm : cnt (complete g) (boxes s') = cnt (complete g) (boxes s)).
    { unfold complete. rewrite <- (cnt_map bn (fun n => n =? nforks g) (boxes s')), Hb, cnt_map. reflexivity. }
    rewrite Hcm. lia.
  - rewrite Hq. exact Wf.
Qed.

Lemma map_bn_set_nth i bx' l bx :
  nth_error l i = Some bx -> bn bx' = bn bx -> map bn (set_nth i bx' l) = map bn l.
Proof.
  revert i; induction l as [|h t IH]; intros [|i] H Hb; cbn in *; try discriminate.
  - inv H. now rewrite Hb.
  - now rewrite (IH i H Hb).
Qed.

Lemma passedb_recv_snoc i nx st v rc nx' st' :
  passedb i {| nxt := nx'; started := st'; pc := PEntry; recv := rc ++ [v] |} =
  passedb i {| nxt := nx; started := st; pc := PR v; recv := rc |}.
Proof.
  unfold passedb. cbn [recv pc after_inc]. rewrite app_length. cbn [length]. rewrite andb_true_r, andb_false_r, orb_false_r.
  destruct (i <? length rc) eqn:E1, (i =? length rc) eqn:E2, (i <? length rc + 1) eqn:E3; try reflexivity; exfalso;
    bool_to_prop; lia.
Qed.

Lemma not_passed_L g s f k : Inv s -> W g s -> nth_error (forks s) f = Some k -> passedb (L s) k = false.
Proof.
  intros HI HW Hk. pose proof (i_fk _ HI _ _ Hk) as F. destruct (k_prefix _ _ _ F) as [_ Hle].
  unfold passedb. destruct (L s <? length (recv k)) eqn:E1; [bool_to_prop; lia|]. cbn.
  destruct (L s =? length (recv k)) eqn:E2; [|reflexivity]. cbn. bool_to_prop.
  destruct (after_inc (pc k)) eqn:Ea; [|reflexivity]. exfalso.
  pose proof (k_pos _ _ _ F) as Hp. pose proof (w_nxt _ _ HW _ _ Hk) as Hx.
  assert (Hlen : length (vals s) = L s) by (unfold vals, L; apply map_length).
  destruct (pc k) eqn:Epc; try discriminate Ea.
  1-3: destruct (nxt k) as [b|] eqn:En; [|apply Hx; reflexivity];
       destruct (k_nxt _ _ _ F _ En) as [_ Hb]; specialize (Hp _ eq_refl); lia.
  destruct Hp as [Hv _]. assert (length (recv k) < length (vals s)) by (apply nth_error_Some; congruence). lia.
Qed.

(* a data element is pulled: a fresh box nobody has passed, and the puller now holds a box it has not queued yet *)
Lemma w_pull_data g s f0 k0 k' x r :
  Inv s -> W g s -> nth_error (forks s) f0 = Some k0 ->
  recv k' = recv k0 -> after_inc (pc k0) = false -> after_inc (pc k') = false ->
  is_pend k0 = false -> is_pend k' = true -> is_pc3 k' = false ->
  (needs_nxt (pc k') = true -> nxt k' <> None) ->
  W g (set_fork (pulled_state s x r) f0 k').
Proof.
  intros HI HW Ek Hr Ha0 Ha' Hd0 Hd' H3' Hx. pose proof HW as [Wn Wx Wc Wb Wf].
  assert (Hp : forall i, passedb i k' = passedb i k0) by (intros i; unfold passedb; rewrite Hr, Ha0, Ha'; reflexivity).
  assert (H30 : is_pc3 k0 = false) by (unfold is_pc3; destruct (pc k0); try reflexivity; discriminate Ha0).
  constructor; cbn [forks boxes buffer set_fork pulled_state set_boxes set_rest].
  - rewrite set_nth_length. exact Wn.
  - intros f k Hk Hn. destruct (Nat.eq_dec f0 f) as [->|Hne].
    + rewrite (nth_error_set_nth_same _ k' _ _ Ek) in Hk. inv Hk. auto.
    + rewrite nth_error_set_nth_other in Hk by assumption. eapply Wx; eauto.
  - intros i bx Hi.
    pose proof (cnt_set_nth (passedb i) f0 k' (forks s) k0 Ek) as Hc. rewrite Hp in Hc.
    destruct (nth_error_snoc_cases _ _ _ _ Hi) as [[_ Hold]|[Hi' Hbx]].
    + rewrite (Wc _ _ Hold). lia.
    + subst bx. cbn [bn]. assert (cnt (passedb i) (forks s) = 0); [|lia].
      fold (L s) in Hi'. subst i. unfold cnt. destruct (filter (passedb (L s)) (forks s)) as [|y t] eqn:Ef; [reflexivity|exfalso].
      assert (Hy : In y (filter (passedb (L s)) (forks s))) by (rewrite Ef; left; reflexivity).
      apply filter_In in Hy as [Hy Hpy]. apply In_nth_error in Hy as [j Hj].
      rewrite (not_passed_L g s j y HI HW Hj) in Hpy. discriminate.
  - unfold L in *. cbn. rewrite app_length, cnt_app, cnt_cons, cnt_nil. cbn [length].
    pose proof (cnt_set_nth is_pc3 f0 k' (forks s) k0 Ek) as C3. pose proof (cnt_set_nth is_pend f0 k' (forks s) k0 Ek) as Cd.
    rewrite H3', H30 in C3. rewrite Hd', Hd0 in Cd.
    assert (Hc0 : complete g {| bval := x; bnext := None; bn := 0; block := None |} = false \/ nforks g = 0).
    { unfold complete. cbn. destruct (0 =? nforks g) eqn:E; [right; bool_to_prop; lia|left; reflexivity]. }
    destruct Hc0 as [Hc0|Hc0]; [rewrite Hc0; lia|].
    exfalso. rewrite <- Wn in Hc0. assert (f0 < length (forks s)) by (apply nth_error_Some; congruence). lia.
  - exact Wf.
Qed.
(* the box just pulled is queued *)
Lemma w_put g s f0 k0 k' b :
  W g s -> nth_error (forks s) f0 = Some k0 -> buf_full g s = false ->
  recv k' = recv k0 -> after_inc (pc k0) = false -> after_inc (pc k') = false ->
  is_pend k0 = true -> is_pend k' = false -> is_pc3 k' = false ->
  (needs_nxt (pc k') = true -> nxt k' <> None) ->
  W g (set_fork (set_buffer s (buffer s ++ [b])) f0 k').
Proof.
  intros [Wn Wx Wc Wb Wf] Ek Hfull Hr Ha0 Ha' Hd0 Hd' H3' Hx.
  assert (Hp : forall i, passedb i k' = passedb i k0) by (intros i; unfold passedb; rewrite Hr, Ha0, Ha'; reflexivity).
  assert (H30 : is_pc3 k0 = false) by (unfold is_pc3; destruct (pc k0); try reflexivity; discriminate Ha0).
  unfold buf_full in Hfull. bool_to_prop.
  constructor; cbn [forks boxes buffer set_fork set_buffer].
  - rewrite set_nth_length. exact Wn.
  - intros f k Hk Hn. destruct (Nat.eq_dec f0 f) as [->|Hne].
    + rewrite (nth_error_set_nth_same _ k' _ _ Ek) in Hk. inv Hk. auto.
    + rewrite nth_error_set_nth_other in Hk by assumption. eapply Wx; eauto.
  - intros i bx Hi. pose proof (cnt_set_nth (passedb i) f0 k' (forks s) k0 Ek) as Hc. rewrite Hp in Hc.
    rewrite (Wc _ _ Hi). lia.
  - unfold L in *. cbn. rewrite app_length. cbn [length].
    pose proof (cnt_set_nth is_pc3 f0 k' (forks s) k0 Ek) as C3. pose proof (cnt_set_nth is_pend f0 k' (forks s) k0 Ek) as Cd.
    rewrite H3', H30 in C3. rewrite Hd', Hd0 in Cd. lia.
  - rewrite app_length. cbn [length]. lia.
Qed.

(* box.n += 1 *)
Lemma w_inc g s f0 nx st rc b bx :
  Inv s -> W g s -> nth_error (forks s) f0 = Some {| nxt := Some b; started := st; pc := PC2; recv := rc |} ->
  nx = Some b -> nth_error (boxes s) b = Some bx ->
  W g (set_fork (set_boxes s (set_nth b {| bval := bval bx; bnext := bnext bx; bn := S (bn bx); block := block bx |} (boxes s))) f0
         {| nxt := Some b; started := st; pc := (if S (bn bx) =? nforks g then PC3 else PC4); recv := rc |}).
Proof.
  intros HI HW Ek -> Hb. pose proof HW as [Wn Wx Wc Wb Wf].
  pose proof (i_fk _ HI _ _ Ek) as F. pose proof (k_pos _ _ _ F) as Hpos. cbn in Hpos. specialize (Hpos _ eq_refl). subst b.
  set (k0 := {| nxt := Some (length rc); started := st; pc := PC2; recv := rc |}) in *.
  set (k' := {| nxt := Some (length rc); started := st; pc := (if S (bn bx) =? nforks g then PC3 else PC4); recv := rc |}).
  assert (Hpi : forall i, passedb i k' = (if i =? length rc then true else passedb i k0) /\ (i = length rc -> passedb i k0 = false)).
  { intros i. unfold passedb, k', k0. cbn [recv pc]. 
    assert (Ha : after_inc (if S (bn bx) =? nforks g then PC3 else PC4) = true) by (destruct (S (bn bx) =? nforks g); reflexivity).
    rewrite Ha. cbn [after_inc]. rewrite andb_true_r, andb_false_r, orb_false_r.
    destruct (i =? length rc) eqn:E; bool_to_prop.
    - subst i. rewrite Nat.ltb_irrefl. split; [reflexivity|reflexivity].
    - rewrite orb_false_r. split; [reflexivity|intros; lia]. }
  assert (Hlt : bn bx < nforks g).
  { rewrite (Wc _ _ Hb). pose proof (cnt_set_nth (passedb (length rc)) f0 k' (forks s) k0 Ek) as Hc.
    destruct (Hpi (length rc)) as [H1 H2]. rewrite Nat.eqb_refl in H1. rewrite H1, (H2 eq_refl) in Hc.
    pose proof (cnt_le_length (passedb (length rc)) (set_nth f0 k' (forks s))) as Hle. rewrite set_nth_length, Wn in Hle. lia. }
  constructor; cbn [forks boxes buffer set_fork set_boxes].
  - rewrite set_nth_length. exact Wn.
  - intros f k Hk Hn. destruct (Nat.eq_dec f0 f) as [->|Hne].
    + rewrite (nth_error_set_nth_same _ k' _ _ Ek) in Hk. inv Hk. discriminate.
    + rewrite nth_error_set_nth_other in Hk by assumption. eapply Wx; eauto.
  - intros i bx' Hi. pose proof (cnt_set_nth (passedb i) f0 k' (forks s) k0 Ek) as Hc.
    destruct (Hpi i) as [H1 H2]. rewrite H1 in Hc.
    destruct (Nat.eq_dec i (length rc)) as [->|Hne].
    + rewrite (nth_error_set_nth_same _ _ _ _ Hb) in Hi. inv Hi. cbn [bn]. rewrite Nat.eqb_refl in Hc. rewrite (H2 eq_refl) in Hc.
      rewrite (Wc _ _ Hb). lia.
    + rewrite nth_error_set_nth_other in Hi by congruence. rewrite (Wc _ _ Hi).
      assert (E : (i =? length rc) = false) by (apply Nat.eqb_neq; exact Hne). rewrite E in Hc. lia.
  - unfold L in *. cbn. rewrite set_nth_length.
    pose proof (cnt_set_nth is_pc3 f0 k' (forks s) k0 Ek) as C3. pose proof (cnt_set_nth is_pend f0 k' (forks s) k0 Ek) as Cd.
    pose proof (cnt_set_nth (complete g) (length rc) {| bval := bval bx; bnext := bnext bx; bn := S (bn bx); block := block bx |} (boxes s) bx Hb) as Cc.
    change (complete g {| bval := bval bx; bnext := bnext bx; bn := S (bn bx); block := block bx |}) with (S (bn bx) =? nforks g) in Cc.
    change (complete g bx) with (bn bx =? nforks g) in Cc.
    assert (E0 : (bn bx =? nforks g) = false) by (apply Nat.eqb_neq; lia). rewrite E0 in Cc.
    subst k' k0. cbn [is_pc3 is_pend pc] in C3, Cd.
    destruct (S (bn bx) =? nforks g); cbn in C3, Cd; lia.
  - exact Wf.
Qed.

(* buffer.get() by the fork that completed the box *)
Lemma w_pop g s f0 k0 k' h l :
  W g s -> nth_error (forks s) f0 = Some k0 -> buffer s = h :: l ->
  recv k' = recv k0 -> after_inc (pc k0) = true -> after_inc (pc k') = true ->
  is_pend k0 = false -> is_pend k' = false -> is_pc3 k0 = true -> is_pc3 k' = false ->
  (needs_nxt (pc k') = true -> nxt k' <> None) ->
  W g (set_fork (set_buffer s l) f0 k').
Proof.
  intros [Wn Wx Wc Wb Wf] Ek Hbuf Hr Ha0 Ha' Hd0 Hd' H30 H3' Hx.
  assert (Hp : forall i, passedb i k' = passedb i k0) by (intros i; unfold passedb; rewrite Hr, Ha0, Ha'; reflexivity).
  constructor; cbn [forks boxes buffer set_fork set_buffer].
  - rewrite set_nth_length. exact Wn.
  - intros f k Hk Hn. destruct (Nat.eq_dec f0 f) as [->|Hne].
    + rewrite (nth_error_set_nth_same _ k' _ _ Ek) in Hk. inv Hk. auto.
    + rewrite nth_error_set_nth_other in Hk by assumption. eapply Wx; eauto.
  - intros i bx Hi. pose proof (cnt_set_nth (passedb i) f0 k' (forks s) k0 Ek) as Hc. rewrite Hp in Hc.
    rewrite (Wc _ _ Hi). lia.
  - unfold L in *. cbn. rewrite Hbuf in Wb. cbn [length] in Wb.
    pose proof (cnt_set_nth is_pc3 f0 k' (forks s) k0 Ek) as C3. pose proof (cnt_set_nth is_pend f0 k' (forks s) k0 Ek) as Cd.
    rewrite H3', H30 in C3. rewrite Hd', Hd0 in Cd. lia.
  - rewrite Hbuf in Wf. cbn [length] in Wf. lia.
Qed.

Lemma w_step g s l s' e : Inv s -> W g s -> step g s l = Some (s', e) -> W g s'.
Proof.
  intros HI HW Hs. destruct l as [f ex]. cbn in Hs. unfold step_f in Hs.
  destruct (nth_error (forks s) f) as [k0|] eqn:Ek; [|discriminate].
  pose proof (i_fk _ HI _ _ Ek) as F0. pose proof (w_nxt _ _ HW _ _ Ek) as Hnx.
  destruct k0 as [nx st p rc]. cbn [pc nxt started recv] in *.
  unfold with_pc, with_nxt in Hs.
  destruct p; destruct ex; try discriminate Hs; break_match_hyp Hs; inv Hs.
  all: try (eapply w_general;
            [exact HW|exact Ek|reflexivity
            |first [reflexivity | cbn; eapply map_bn_set_nth; eauto; reflexivity]
            |reflexivity|intros i; reflexivity|reflexivity|reflexivity
            |cbn; first [discriminate | intros _; discriminate | intros _; apply Hnx; reflexivity]]; fail).
  (* pulls *)
  all: try match goal with
       | Hp : pull ?s1 = (_, Some _, _, _) |- _ =>
           destruct (pull_cases _ _ _ _ _ Hp) as [(x & r & Hr & Hg & ->)|(Hg & _)]; [|discriminate Hg];
           fold (pulled_state s x r);
           (eapply w_pull_data; [exact HI|exact HW|exact Ek|reflexivity|reflexivity|reflexivity|reflexivity|reflexivity|reflexivity
                                |cbn; first [discriminate | intros _; discriminate | intros _; apply Hnx; reflexivity]])
       | Hp : pull ?s1 = (_, None, _, _) |- _ =>
           destruct (pull_cases _ _ _ _ _ Hp) as [(x & r & Hr & Hg & _)|(_ & r & p & ->)]; [discriminate Hg|];
           (eapply w_general;
            [exact HW|exact Ek|reflexivity|reflexivity|reflexivity|intros i; reflexivity|reflexivity|reflexivity
            |cbn; first [discriminate | intros _; discriminate | intros _; apply Hnx; reflexivity]])
       end.
  (* puts *)
  all: try (eapply w_put; [exact HW|exact Ek|assumption|reflexivity|reflexivity|reflexivity|reflexivity|reflexivity|reflexivity
                          |cbn; first [discriminate | intros _; discriminate | intros _; apply Hnx; reflexivity]]; fail).
  (* box.n += 1 *)
  all: try match goal with
       | Hb : nth_error (boxes ?s1) ?n = Some ?bx, Hq : (S (bn ?bx) =? nforks ?g1) = _ |- _ =>
           pose proof (w_inc g s f (Some n) st rc n bx HI HW Ek eq_refl Hb) as Hw; rewrite Hq in Hw; exact Hw
       end.
  (* buffer.get() *)
  all: try (eapply w_pop; [exact HW|exact Ek|eassumption|reflexivity|reflexivity|reflexivity|reflexivity|reflexivity|reflexivity|reflexivity
                          |cbn; intros _; apply Hnx; reflexivity]; fail).
  (* the value is handed over *)
  all: try (eapply w_general;
            [exact HW|exact Ek|reflexivity|reflexivity|reflexivity|intros i; apply passedb_recv_snoc|reflexivity|reflexivity
            |cbn; discriminate]; fail).
Qed.

Lemma w_run g sched : Inv (run step g (init g) sched) /\ W g (run step g (init g) sched).
Proof.
  apply (Conc.inv_run step g (fun s => Inv s /\ W g s)).
  - intros s l s' e [H1 H2] Hs. split; [eapply inv_step; eauto|eapply w_step; eauto].
  - split; [apply inv_init|apply w_init].
Qed.

(* at most one fork holds a box it has pulled and not yet queued: such a fork is inside the source lock *)
Lemma pend_le_1 s : Inv s -> cnt is_pend (forks s) <= 1.
Proof.
  intros HI. apply cnt_unique. intros i j x y Hi Hj Hx Hy.
  pose proof (i_fk _ HI _ _ Hi) as Fx. pose proof (i_fk _ HI _ _ Hj) as Fy.
  assert (Cx : in_cs (pc x) = true) by (unfold is_pend in Hx; destruct (pc x); try discriminate Hx; reflexivity).
  assert (Cy : in_cs (pc y) = true) by (unfold is_pend in Hy; destruct (pc y); try discriminate Hy; reflexivity).
  pose proof (k_cs _ _ _ Fx Cx) as H1. pose proof (k_cs _ _ _ Fy Cy) as H2. congruence.
Qed.

(* a complete box (n = number of forks) has been passed by every fork *)
Lemma complete_passed g s i bx f k :
  W g s -> nth_error (boxes s) i = Some bx -> complete g bx = true -> nth_error (forks s) f = Some k -> passedb i k = true.
Proof.
  intros [Wn _ Wc _ _] Hi Hc Hk. unfold complete in Hc. bool_to_prop.
  apply (cnt_full (passedb i) (forks s)); [rewrite <- (Wc _ _ Hi), Wn; exact Hc|]. eapply nth_error_In; eauto.
Qed.

(* The source is never more than buffer_size + 2 elements ahead of any fork: for every number of forks, window size, source
   and interleaving, and for every fork, pulled <= received by that fork + buffer_size + 2. *)
Theorem tee_window g sched f k :
  let s := run step g (init g) sched in
  nth_error (forks s) f = Some k -> pulled s <= length (recv k) + bufsize g + 2.
Proof.
  intros s Hk. destruct (w_run g sched) as [HI HW]. fold s in HI, HW.
  destruct (source_pulled_once g sched) as [HL _]. fold s in HL. rewrite <- HL. fold (L s).
  pose proof HW as [Wn _ Wc Wb Wf]. pose proof (pend_le_1 s HI) as Hp.
  assert (Hc : cnt (complete g) (boxes s) <= length (recv k) + 1).
  { apply cnt_below. intros i bx Hi Hbx. pose proof (complete_passed g s i bx f k HW Hi Hbx Hk) as Hps.
    unfold passedb in Hps. apply orb_true_iff in Hps as [Hps|Hps]; bool_to_prop; lia. }
  lia.
Qed.

