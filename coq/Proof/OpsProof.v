From MpV Require Import Lib.Tac Model.Ops.
From Coq Require Import Permutation.
Open Scope nat_scope.

(* ---- generic facts about [drive] --------------------------------------------------------- *)

(* an operator whose loop body, on these elements, always continues and keeps state [s] *)
Lemma drive_stateless o s xs up p (h : elem -> list elem) :
  (forall x, In x xs -> on_elem o s x = (s, h x, Continue)) ->
  fst (drive o s xs up p) =
    (flat_map h xs ++ match up with End => on_end o s | Raise _ => [] end, up).
Proof.
  revert p; induction xs as [|x xs IH]; intros p H; cbn.
  - destruct up; cbn; [reflexivity|]. reflexivity.
  - rewrite (H x (or_introl eq_refl)).
    specialize (IH (S p) (fun y Hy => H y (or_intror Hy))).
    destruct (drive o s xs up (S p)) as [[o2 e2] n2]. cbn in *. inv IH.
    now rewrite app_assoc.
Qed.

Lemma flat_map_single {A B} (g : A -> B) xs : flat_map (fun x => [g x]) xs = map g xs.
Proof. induction xs; cbn; congruence. Qed.

Lemma flat_map_filter (b : elem -> bool) xs :
  flat_map (fun x => if b x then [x] else []) xs = filter b xs.
Proof. induction xs as [|x xs IH]; cbn; [reflexivity|]. destruct (b x); cbn; congruence. Qed.

(* ---- map / filter / peek / buffer / parmap ----------------------------------------------- *)

Lemma map_spec f g xs up : total f g -> run_op (OMap f) (xs, up) = (map g xs, up).
Proof.
  intros Hf. unfold run_op; cbn [fst snd init_state].
  rewrite (drive_stateless _ _ _ _ _ (fun x => [g x])).
  - rewrite flat_map_single. destruct up; cbn; now rewrite app_nil_r.
  - intros x _. cbn. now rewrite Hf.
Qed.

Lemma filter_spec p b xs up :
  (forall x, p x = POk (b x)) -> run_op (OFilter p) (xs, up) = (filter b xs, up).
Proof.
  intros Hp. unfold run_op; cbn [fst snd init_state].
  rewrite (drive_stateless _ _ _ _ _ (fun x => if b x then [x] else [])).
  - rewrite flat_map_filter. destruct up; cbn; now rewrite app_nil_r.
  - intros x _. cbn. rewrite Hp. now destruct (b x).
Qed.

Lemma identity_spec o xs up : o = OPeek \/ (exists n, o = OBuffer n) -> run_op o (xs, up) = (xs, up).
Proof.
  intros Ho. unfold run_op; cbn [fst snd].
  assert (Hi : init_state o = SNone) by (destruct Ho as [->|[n ->]]; reflexivity). rewrite Hi.
  rewrite (drive_stateless _ _ _ _ _ (fun x => [x])).
  - rewrite flat_map_single, map_id.
    assert (on_end o SNone = []) by (destruct Ho as [->|[n ->]]; reflexivity).
    destruct up; cbn; rewrite ?H; now rewrite app_nil_r.
  - intros x _. destruct Ho as [->|[n ->]]; reflexivity.
Qed.

Definition parmap_out (g : elem -> elem) (rx : bool) (x : elem) : elem := if rx then P x (g x) else g x.

Lemma parmap_spec f g rx re xs up :
  total f g -> run_op (OParmap f rx re) (xs, up) = (map (parmap_out g rx) xs, up).
Proof.
  intros Hf. unfold run_op; cbn [fst snd init_state].
  rewrite (drive_stateless _ _ _ _ _ (fun x => [parmap_out g rx x])).
  - rewrite flat_map_single. destruct up; cbn; now rewrite app_nil_r.
  - intros x _. cbn. now rewrite Hf.
Qed.

(* with return_exceptions, a failing call becomes that element's own exception object *)
Definition parmap_exc_out (f : elem -> fres) (rx : bool) (x : elem) : elem :=
  let y := match f x with FOk y => y | FErr e => X e end in if rx then P x y else y.

Lemma parmap_return_exceptions_spec f rx xs up :
  run_op (OParmap f rx true) (xs, up) = (map (parmap_exc_out f rx) xs, up).
Proof.
  unfold run_op; cbn [fst snd init_state].
  rewrite (drive_stateless _ _ _ _ _ (fun x => [parmap_exc_out f rx x])).
  - rewrite flat_map_single. destruct up; cbn; now rewrite app_nil_r.
  - intros x _. cbn. unfold parmap_exc_out. destruct (f x); reflexivity.
Qed.

(* first failure of map: outputs are the images of the elements before it, then the error *)
Lemma map_first_failure f g pre x post e up :
  (forall y, In y pre -> f y = FOk (g y)) -> f x = FErr e ->
  run_op (OMap f) (pre ++ x :: post, up) = (map g pre, Raise e).
Proof.
  intros Hpre Hx. unfold run_op; cbn [fst snd init_state]. generalize 0 as p.
  induction pre as [|y pre IH]; intros p; cbn.
  - now rewrite Hx.
  - rewrite (Hpre y (or_introl eq_refl)).
    specialize (IH (fun z Hz => Hpre z (or_intror Hz)) (S p)).
    destruct (drive (OMap f) SNone (pre ++ x :: post) up (S p)) as [[o2 e2] n2]. cbn in *. now inv IH.
Qed.

(* ---- head -------------------------------------------------------------------------------- *)

Lemma head_drive n c xs p :
  c < n -> fst (drive (OHead n) (SCount c) xs End p) = (firstn (n - c) xs, End).
Proof.
  revert c p; induction xs as [|x xs IH]; intros c p Hc; cbn.
  - now rewrite firstn_nil.
  - destruct (n <=? S c) eqn:E; bool_to_prop; cbn.
    + assert (n - c = 1) as -> by lia. reflexivity.
    + specialize (IH (S c) (S p) ltac:(lia)).
      destruct (drive (OHead n) (SCount (S c)) xs End (S p)) as [[o2 e2] n2]. cbn in *. inv IH.
      replace (n - c) with (S (n - S c)) by lia. reflexivity.
Qed.

Lemma head_spec n xs : 1 <= n -> run_op (OHead n) (xs, End) = (firstn n xs, End).
Proof. intros Hn. unfold run_op; cbn [fst snd init_state]. rewrite head_drive by lia. now rewrite Nat.sub_0_r. Qed.

(* once the n-th element has been delivered, whatever follows it - more elements, the end, or a failure of the
   source - has no influence: it is never pulled *)
Lemma head_drive_enough n c xs up p :
  c < n -> n - c <= length xs -> fst (drive (OHead n) (SCount c) xs up p) = (firstn (n - c) xs, End).
Proof.
  revert c p; induction xs as [|x xs IH]; intros c p Hc Hl; cbn in Hl; [lia|]. cbn.
  destruct (n <=? S c) eqn:E; bool_to_prop; cbn.
  - assert (n - c = 1) as -> by lia. reflexivity.
  - specialize (IH (S c) (S p) ltac:(lia) ltac:(lia)).
    destruct (drive (OHead n) (SCount (S c)) xs up (S p)) as [[o2 e2] n2]. cbn in *. inv IH.
    replace (n - c) with (S (n - S c)) by lia. reflexivity.
Qed.

Lemma head_ignores_rest n xs rest up :
  1 <= n -> length xs = n -> run_op (OHead n) (xs ++ rest, up) = (xs, End).
Proof.
  intros Hn Hl. unfold run_op; cbn [fst snd init_state].
  rewrite head_drive_enough by (rewrite ?app_length; lia).
  rewrite Nat.sub_0_r, <- Hl, firstn_app, Nat.sub_diag, firstn_all. cbn. now rewrite app_nil_r.
Qed.

(* head pulls at most n elements whatever the length of the source *)
Lemma head_pulls_drive n c xs up p :
  c < n -> snd (drive (OHead n) (SCount c) xs up p) <= p + (n - c).
Proof.
  revert c p; induction xs as [|x xs IH]; intros c p Hc; cbn.
  - destruct up; cbn; lia.
  - destruct (n <=? S c) eqn:E; bool_to_prop; cbn; [lia|].
    specialize (IH (S c) (S p) ltac:(lia)).
    destruct (drive (OHead n) (SCount (S c)) xs up (S p)) as [[o2 e2] n2]. cbn in *. lia.
Qed.

Lemma head_pulls n st : 1 <= n -> pulls_of (OHead n) st <= n.
Proof. intros Hn. unfold pulls_of; cbn [init_state]. pose proof (head_pulls_drive n 0 (fst st) (snd st) 0). lia. Qed.

(* ---- tail -------------------------------------------------------------------------------- *)

Lemma push_window_spec n w x :
  1 <= n -> length w <= n -> push_window n w x = lastn n (w ++ [x]) /\ length (push_window n w x) <= n.
Proof.
  intros Hn Hw. unfold push_window, lastn. rewrite app_length; cbn.
  destruct (n <? length w + 1) eqn:E; bool_to_prop.
  - assert (length w = n) by lia. replace (length w + 1 - n) with 1 by lia.
    destruct w; cbn in *; [lia|]. split; [reflexivity|]. rewrite app_length; cbn. lia.
  - replace (length w + 1 - n) with 0 by lia. cbn. split; [reflexivity|]. rewrite app_length; cbn; lia.
Qed.

Lemma skipn_add {A} a b (l : list A) : skipn a (skipn b l) = skipn (a + b) l.
Proof.
  revert l; induction b as [|b IH]; intros l; cbn.
  - now rewrite Nat.add_0_r.
  - destruct l as [|x l]; cbn.
    + now rewrite !skipn_nil.
    + rewrite IH. replace (a + S b) with (S (a + b)) by lia. reflexivity.
Qed.

Lemma skipn_snoc_step {A} m (l : list A) x :
  m < length l -> skipn 1 (skipn m l ++ [x]) = skipn (S m) l ++ [x].
Proof.
  revert l; induction m as [|m IH]; intros [|y l] H; cbn in *; try lia; [reflexivity|].
  apply IH. lia.
Qed.

Lemma tail_drive n w xs p all_before :
  1 <= n -> w = lastn n all_before ->
  fst (drive (OTail n) (SList w) xs End p) = (lastn n (all_before ++ xs), End).
Proof.
  intros Hn. revert w p all_before; induction xs as [|x xs IH]; intros w p ab Hw; cbn.
  - now rewrite app_nil_r, Hw.
  - assert (Hlen : length w <= n).
    { subst w. unfold lastn. rewrite skipn_length. lia. }
    destruct (push_window_spec n w x Hn Hlen) as [Hpw _].
    specialize (IH (push_window n w x) (S p) (ab ++ [x])).
    destruct (drive (OTail n) (SList (push_window n w x)) xs End (S p)) as [[o2 e2] n2]. cbn in *.
    rewrite <- app_assoc in IH. cbn in IH. apply IH.
    rewrite Hpw, Hw. clear - Hn.
    (* lastn n (lastn n ab ++ [x]) = lastn n (ab ++ [x]) *)
    unfold lastn. rewrite !app_length, skipn_length. cbn.
    destruct (Nat.le_gt_cases (length ab) n) as [H|H].
    + replace (length ab - n) with 0 by lia. cbn. now rewrite Nat.sub_0_r.
    + replace (length ab - (length ab - n) + 1 - n) with 1 by lia.
      replace (length ab + 1 - n) with (S (length ab - n)) by lia.
      rewrite (skipn_app (S (length ab - n)) ab [x]).
      replace (S (length ab - n) - length ab) with 0 by lia.
      change (skipn 0 [x]) with [x].
      apply skipn_snoc_step. lia.
Qed.

Lemma tail_spec n xs : 1 <= n -> run_op (OTail n) (xs, End) = (lastn n xs, End).
Proof.
  intros Hn. unfold run_op; cbn [fst snd init_state].
  rewrite (tail_drive n [] xs 0 [] Hn); reflexivity.
Qed.

(* ---- batch / unbatch --------------------------------------------------------------------- *)

Lemma batch_drive n b xs p :
  fst (drive (OBatch n) (SList b) xs End p) = (chunks_aux n b xs, End).
Proof.
  revert b p; induction xs as [|x xs IH]; intros b p; cbn.
  - destruct b; reflexivity.
  - destruct (length (b ++ [x]) =? n) eqn:E.
    + specialize (IH [] (S p)). destruct (drive (OBatch n) (SList []) xs End (S p)) as [[o2 e2] n2].
      cbn in *. now inv IH.
    + specialize (IH (b ++ [x]) (S p)).
      destruct (drive (OBatch n) (SList (b ++ [x])) xs End (S p)) as [[o2 e2] n2]. cbn in *. now inv IH.
Qed.

Lemma batch_spec n xs : run_op (OBatch n) (xs, End) = (chunks n xs, End).
Proof. unfold run_op, chunks; cbn [fst snd init_state]. apply batch_drive. Qed.

Definition unL (e : elem) : list elem := match e with L l => l | _ => [] end.
Definition is_batch (n : nat) (e : elem) : Prop := exists l, e = L l /\ 1 <= length l <= n.

(* independent characterisation of the chunking: flattening gives back the input, every batch has
   1..n elements and every batch but the last has exactly n *)
Lemma chunks_aux_flat n b xs :
  1 <= n -> length b < n ->
  flat_map unL (chunks_aux n b xs) = b ++ xs /\ Forall (is_batch n) (chunks_aux n b xs).
Proof.
  intros Hn. revert b; induction xs as [|x xs IH]; intros b Hb; cbn.
  - destruct b as [|y b]; cbn; [split; [reflexivity|constructor]|].
    rewrite !app_nil_r. split; [reflexivity|]. constructor; [|constructor].
    exists (y :: b). split; [reflexivity|]. cbn in *. lia.
  - rewrite app_length; cbn. destruct (length b + 1 =? n) eqn:E; bool_to_prop.
    + destruct (IH [] ltac:(cbn; lia)) as [H1 H2]. cbn. rewrite H1. cbn. rewrite <- app_assoc. cbn.
      split; [reflexivity|]. constructor; [|assumption].
      exists (b ++ [x]). split; [reflexivity|]. rewrite app_length; cbn; lia.
    + destruct (IH (b ++ [x]) ltac:(rewrite app_length; cbn; lia)) as [H1 H2].
      rewrite H1, <- app_assoc. cbn. split; [reflexivity|assumption].
Qed.

Lemma batch_flatten n xs :
  1 <= n -> flat_map unL (chunks n xs) = xs /\ Forall (is_batch n) (chunks n xs).
Proof. intros Hn. unfold chunks. apply (chunks_aux_flat n [] xs Hn). cbn; lia. Qed.

Lemma unbatch_spec_lists ls :
  run_op OUnbatch (map L ls, End) = (concat ls, End).
Proof.
  unfold run_op; cbn [fst snd init_state].
  rewrite (drive_stateless _ _ _ _ _ unL).
  - cbn. rewrite app_nil_r. f_equal. induction ls; cbn; congruence.
  - intros x Hx. apply in_map_iff in Hx. destruct Hx as [l [<- _]]. reflexivity.
Qed.

Lemma unbatch_of_chunks n xs :
  1 <= n -> run_op OUnbatch (chunks n xs, End) = (xs, End).
Proof.
  intros Hn. destruct (batch_flatten n xs Hn) as [Hf Hb].
  unfold run_op; cbn [fst snd init_state].
  rewrite (drive_stateless _ _ _ _ _ unL).
  - cbn. now rewrite app_nil_r, Hf.
  - intros x Hx. rewrite Forall_forall in Hb. destruct (Hb x Hx) as [l [-> _]]. reflexivity.
Qed.

(* ---- accumulate -------------------------------------------------------------------------- *)

Lemma accum_drive f g a xs p i0 :
  (forall a b, f a b = FOk (g a b)) ->
  fst (drive (OAccum f i0) (SAcc (Some a)) xs End p) = (scan g a xs, End).
Proof.
  intros Hf. revert a p; induction xs as [|x xs IH]; intros a p; cbn; [reflexivity|].
  rewrite Hf. specialize (IH (g a x) (S p)).
  destruct (drive (OAccum f i0) (SAcc (Some (g a x))) xs End (S p)) as [[o2 e2] n2]. cbn in *. now inv IH.
Qed.

Lemma accumulate_meets_spec f g init xs :
  (forall a b, f a b = FOk (g a b)) ->
  run_op (OAccum f init) (xs, End) = (accumulate_spec g init xs, End).
Proof.
  intros Hf. unfold run_op, accumulate_spec; cbn [fst snd init_state].
  destruct init as [a|].
  - now apply accum_drive.
  - destruct xs as [|x xs]; cbn; [reflexivity|].
    pose proof (accum_drive f g x xs 1 None Hf) as H.
    destruct (drive (OAccum f None) (SAcc (Some x)) xs End 1) as [[o2 e2] n2]. cbn in *. now inv H.
Qed.

(* ---- groupby ----------------------------------------------------------------------------- *)

Lemma group_drive key k keq cur xs p :
  total key k ->
  fst (drive (OGroupby key keq) (SGroup (Some cur)) xs End p) = (group_aux k keq cur xs, End).
Proof.
  intros Hk. revert cur p; induction xs as [|x xs IH]; intros [k0 g] p; cbn; [reflexivity|].
  rewrite Hk. destruct (keq k0 (k x)) eqn:E.
  - specialize (IH (k0, g ++ [x]) (S p)).
    destruct (drive (OGroupby key keq) (SGroup (Some (k0, g ++ [x]))) xs End (S p)) as [[o2 e2] n2].
    cbn in *. now inv IH.
  - specialize (IH (k x, [x]) (S p)).
    destruct (drive (OGroupby key keq) (SGroup (Some (k x, [x]))) xs End (S p)) as [[o2 e2] n2].
    cbn in *. now inv IH.
Qed.

Lemma groupby_meets_spec key k keq xs :
  total key k -> run_op (OGroupby key keq) (xs, End) = (groupby_spec k keq xs, End).
Proof.
  intros Hk. unfold run_op, groupby_spec; cbn [fst snd init_state].
  destruct xs as [|x xs]; cbn; [reflexivity|]. rewrite Hk.
  pose proof (group_drive key k keq (k x, [x]) xs 1 Hk) as H.
  destruct (drive (OGroupby key keq) (SGroup (Some (k x, [x]))) xs End 1) as [[o2 e2] n2]. cbn in *. now inv H.
Qed.

(* concatenating the groups gives back the input: nothing lost, duplicated or reordered *)
Definition group_members (e : elem) : list elem := match e with P _ (L g) => g | _ => [] end.

Lemma group_aux_flat k keq cur xs :
  flat_map group_members (group_aux k keq cur xs) = snd cur ++ xs.
Proof.
  revert cur; induction xs as [|x xs IH]; intros [k0 g]; cbn.
  - now rewrite app_nil_r.
  - destruct (keq k0 (k x)); cbn; rewrite IH; cbn; now rewrite <- ?app_assoc.
Qed.

Lemma groupby_flatten k keq xs : flat_map group_members (groupby_spec k keq xs) = xs.
Proof. destruct xs as [|x xs]; cbn; [reflexivity|]. now rewrite group_aux_flat. Qed.

(* ---- shuffle ----------------------------------------------------------------------------- *)

Lemma set_nth_perm idx x buf :
  idx < length buf -> Permutation (nth idx buf N :: set_nth idx x buf) (x :: buf).
Proof.
  revert idx; induction buf as [|h t IH]; intros idx H; cbn in *; [lia|].
  destruct idx as [|idx]; cbn.
  - apply perm_swap.
  - specialize (IH idx ltac:(lia)).
    eapply perm_trans; [apply perm_swap|]. eapply perm_trans; [|apply perm_swap].
    now constructor.
Qed.

Lemma set_nth_len idx x buf : length (set_nth idx x buf) = length buf.
Proof. revert idx; induction buf as [|h t IH]; intros [|idx]; cbn; auto. Qed.

Lemma shuffle_drive n perm buf dr xs p d0 :
  1 <= n -> length buf <= n -> (forall l, Permutation (perm l) l) ->
  Permutation (fst (fst (drive (OShuffle n d0 perm) (SShuf buf dr) xs End p))) (buf ++ xs)
  /\ snd (fst (drive (OShuffle n d0 perm) (SShuf buf dr) xs End p)) = End.
Proof.
  intros Hn Hb Hp. revert buf dr p Hb; induction xs as [|x xs IH]; intros buf dr p Hb; cbn.
  - rewrite app_nil_r. destruct buf; cbn; [split; [constructor|reflexivity]|]. split; [apply Hp|reflexivity].
  - destruct (length buf <? n) eqn:E; bool_to_prop.
    + specialize (IH (buf ++ [x]) dr (S p) ltac:(rewrite app_length; cbn; lia)).
      destruct (drive (OShuffle n d0 perm) (SShuf (buf ++ [x]) dr) xs End (S p)) as [[o2 e2] n2]. cbn in *.
      rewrite <- app_assoc in IH. exact IH.
    + assert (Hlen : length buf = n) by lia.
      set (idx := (match dr with d :: _ => d | [] => 0 end) mod n).
      assert (Hidx : idx < length buf) by (subst idx; rewrite Hlen; apply Nat.mod_upper_bound; lia).
      specialize (IH (set_nth idx x buf) (tl dr) (S p) ltac:(rewrite set_nth_len; lia)).
      destruct (drive (OShuffle n d0 perm) (SShuf (set_nth idx x buf) (tl dr)) xs End (S p)) as [[o2 e2] n2].
      cbn in *. destruct IH as [IH1 IH2]. split; [|exact IH2].
      eapply perm_trans; [apply perm_skip; exact IH1|].
      change (nth idx buf N :: set_nth idx x buf ++ xs) with ((nth idx buf N :: set_nth idx x buf) ++ xs).
      eapply perm_trans; [apply Permutation_app_tail; apply set_nth_perm; exact Hidx|].
      cbn. apply Permutation_middle.
Qed.

Lemma shuffle_is_permutation n draws perm xs :
  1 <= n -> (forall l, Permutation (perm l) l) ->
  Permutation (fst (run_op (OShuffle n draws perm) (xs, End))) xs
  /\ snd (run_op (OShuffle n draws perm) (xs, End)) = End.
Proof.
  intros Hn Hp. unfold run_op; cbn [fst snd init_state].
  apply (shuffle_drive n perm [] draws xs 0 draws Hn); [cbn; lia | exact Hp].
Qed.

(* ---- composition and incremental consumption --------------------------------------------- *)

Lemma pipeline_app a b st : run_pipeline (a ++ b) st = run_pipeline b (run_pipeline a st).
Proof. unfold run_pipeline. apply fold_left_app. Qed.

(* operators that are one-to-one and inline (no look-ahead of their own) *)
Inductive inline_1to1 : op -> Prop :=
| I_map f g : total f g -> inline_1to1 (OMap f)
| I_peek : inline_1to1 OPeek
| I_acc f g i : (forall a b, f a b = FOk (g a b)) -> inline_1to1 (OAccum f i).

Lemma scan_firstn g a k xs : scan g a (firstn k xs) = firstn k (scan g a xs).
Proof. revert a k; induction xs as [|x xs IH]; intros a [|k]; cbn; try reflexivity. now rewrite IH. Qed.

(* the first k outputs of an inline one-to-one operator depend on the first k inputs only *)
Lemma inline_prefix o k xs :
  inline_1to1 o ->
  fst (run_op o (firstn k xs, End)) = firstn k (fst (run_op o (xs, End)))
  /\ snd (run_op o (firstn k xs, End)) = End /\ snd (run_op o (xs, End)) = End.
Proof.
  intros [f g Hf| |f g i Hf].
  - rewrite !(map_spec f g) by assumption. cbn. now rewrite firstn_map.
  - rewrite !identity_spec by (left; reflexivity). auto.
  - rewrite !(accumulate_meets_spec f g) by assumption. cbn. split; [|auto].
    unfold accumulate_spec. destruct i as [a|].
    + apply scan_firstn.
    + destruct xs as [|x xs]; destruct k as [|k]; cbn; try reflexivity. now rewrite scan_firstn.
Qed.

Lemma inline_chain_prefix ops k xs :
  Forall inline_1to1 ops ->
  fst (run_pipeline ops (firstn k xs, End)) = firstn k (fst (run_pipeline ops (xs, End)))
  /\ snd (run_pipeline ops (firstn k xs, End)) = End /\ snd (run_pipeline ops (xs, End)) = End.
Proof.
  intros H. revert xs. induction H as [|o ops Ho Hops IH]; intros xs; cbn.
  - auto.
  - destruct (inline_prefix o k xs Ho) as (H1 & H2 & H3).
    destruct (run_op o (firstn k xs, End)) as [a ea] eqn:Ea.
    destruct (run_op o (xs, End)) as [b eb] eqn:Eb. cbn in *. subst. apply IH.
Qed.
