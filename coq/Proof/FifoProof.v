From MpV Require Import Lib.Tac Lib.Conc Model.FifoStream.
Open Scope nat_scope.

(* ---------------------------------------------------------------------------------------- *)
(* helpers                                                                                  *)
(* ---------------------------------------------------------------------------------------- *)

Fixpoint tasks (l : list qitem) : list nat :=
  match l with
  | [] => []
  | Task i :: r => i :: tasks r
  | _ :: r => tasks r
  end.

Lemma tasks_app a b : tasks (a ++ b) = tasks a ++ tasks b.
Proof. induction a as [|[i| |e] a IH]; cbn; congruence. Qed.

Lemma tasks_le l : length (tasks l) <= length l.
Proof. induction l as [|[i| |e] l IH]; cbn; lia. Qed.

Lemma set_nth_length {A} n (x : A) l : length (set_nth n x l) = length l.
Proof. revert n; induction l as [|h t IH]; intros [|n]; cbn; auto. Qed.

Lemma nth_error_set_nth_eq {A} n (x : A) l y :
  nth_error (set_nth n x l) n = Some y -> y = x.
Proof.
  revert n; induction l as [|h t IH]; intros [|n]; cbn; intros H; try discriminate.
  - now inv H.
  - eauto.
Qed.

Lemma nth_error_set_nth_neq {A} n m (x : A) l :
  n <> m -> nth_error (set_nth n x l) m = nth_error l m.
Proof.
  revert n m; induction l as [|h t IH]; intros [|n] [|m] Hne; cbn; auto; try congruence.
Qed.

(* feeder / consumer hold an element? *)
Definition fidx (s : state) : list nat :=
  match fp s with FChk i | FPre i | FSubmit i _ | FPut i => [i] | _ => [] end.
Definition cidx (s : state) : list nat :=
  match cp s with CWait i | CYield i _ => [i] | _ => [] end.

(* ---------------------------------------------------------------------------------------- *)
(* Inv1: counting (C08)                                                                     *)
(* ---------------------------------------------------------------------------------------- *)

Definition Inv1 (g : cfg) (s : state) : Prop :=
  pulled s = length (tasks (q s)) + length (fidx s) + length (cidx s) + length (received s) + dropped s
  /\ length (q s) <= S (cap g)
  /\ (cp s = CStart -> fp s = FIdle)
  /\ length (pp s) = conc g.

Lemma inv1_init g : Inv1 g (init g).
Proof. unfold Inv1, init, fidx, cidx; cbn. rewrite repeat_length. repeat split; lia. Qed.

Ltac fin1 H3 :=
  split; [|split; [|split]];
  [ lia | lia
  | intros Hc; try discriminate Hc; try (specialize (H3 Hc); discriminate H3); auto
  | rewrite ?set_nth_length; assumption ].

Lemma inv1_step g s l s' e : Inv1 g s -> step g s l = Some (s', e) -> Inv1 g s'.
Proof.
  destruct s as [f c p qq wq fu ts rs pu re dr ca]. unfold Inv1, fidx, cidx. cbn.
  intros (H1 & H2 & H3 & H4) Hs. destruct l as [| |j]; cbn in Hs.
  - unfold step_f, f_put, qfull, with_fp, with_q, with_pulled, with_rest, with_dropped, with_futs, with_workq in Hs;
      cbn in Hs.
    break_match_hyp Hs; inv Hs; cbn in *; bool_to_prop;
      repeat (progress (rewrite ?tasks_app, ?app_length in *; cbn in *)); fin1 H3.
  - unfold step_c, after_recv, with_cp, with_fp, with_q, with_received, with_dropped, with_stop, with_futs in Hs;
      cbn in Hs.
    break_match_hyp Hs; inv Hs; cbn in *; bool_to_prop;
      repeat (progress (rewrite ?tasks_app, ?app_length in *; cbn in *));
      try (rewrite H3 in * by reflexivity; cbn in * ); fin1 H3.
  - unfold step_p, with_pp, with_workq, with_futs, with_calls in Hs; cbn in Hs.
    break_match_hyp Hs; inv Hs; cbn in *; fin1 H3.
Qed.

Lemma inv1_run g sched : Inv1 g (run step g (init g) sched).
Proof. apply (inv_run step g (Inv1 g)); [intros; eapply inv1_step; eauto | apply inv1_init]. Qed.

Lemma fifo_lookahead g sched : ahead (run step g (init g) sched) <= cap g + 3.
Proof.
  pose proof (inv1_run g sched) as (H1 & H2 & _). set (s := run step g (init g) sched) in *.
  unfold ahead. pose proof (tasks_le (q s)).
  assert (length (fidx s) <= 1) by (unfold fidx; destruct (fp s); cbn; lia).
  assert (length (cidx s) <= 1) by (unfold cidx; destruct (cp s); cbn; lia).
  lia.
Qed.

Lemma filter_len_le {A} (f : A -> bool) l : length (filter f l) <= length l.
Proof. induction l as [|a l IH]; cbn; [lia|]. destruct (f a); cbn; lia. Qed.

Lemma running_le_conc g sched : running (run step g (init g) sched) <= conc g.
Proof.
  pose proof (inv1_run g sched) as (_ & _ & _ & H4). unfold running.
  rewrite <- H4. apply filter_len_le.
Qed.

(* ---------------------------------------------------------------------------------------- *)
(* Inv2: order and content (C01)                                                            *)
(* ---------------------------------------------------------------------------------------- *)

Definition phase1 (c : cpc) : bool :=
  match c with CStart | CGet | CWait _ | CYield _ _ => true | _ => false end.

Definition futs_ok (g : cfg) (fu : list fstate) : Prop :=
  forall i r, nth_error fu i = Some (FFin r) -> r = outcome_of g i.

Definition recv_ok (g : cfg) (re : list (nat * res)) : Prop :=
  Forall (fun p => snd p = outcome_of g (fst p)) re.

Definition flen_ok (s : state) : Prop :=
  match fp s with
  | FChk i | FPre i | FSubmit i _ => length (futs s) = i /\ pulled s = S i
  | FPut i => length (futs s) = S i /\ pulled s = S i
  | FNext => length (futs s) = pulled s
  | _ => True
  end.

Definition Inv2 (g : cfg) (s : state) : Prop :=
  recv_ok g (received s)
  /\ futs_ok g (futs s)
  /\ map fst (received s) = seq 0 (length (received s))
  /\ (phase1 (cp s) = true ->
        to_stop s = false /\
        map fst (received s) ++ cidx s ++ tasks (q s) ++ fidx s = seq 0 (pulled s))
  /\ (forall i r, cp s = CYield i r -> r = outcome_of g i)
  /\ flen_ok s
  /\ (cp s = CStart -> fp s = FIdle /\ futs s = [] /\ pulled s = 0 /\ received s = [] /\ q s = []).

Lemma inv2_init g : Inv2 g (init g).
Proof.
  unfold Inv2, init, recv_ok, futs_ok, flen_ok, fidx, cidx; cbn.
  repeat split; try constructor; try discriminate.
  intros [|i] r H; discriminate.
Qed.


Lemma futs_ok_app g fu x :
  futs_ok g fu -> (forall r, x = FFin r -> r = outcome_of g (length fu)) -> futs_ok g (fu ++ [x]).
Proof.
  intros H Hx i r Hn. destruct (Nat.lt_ge_cases i (length fu)) as [Hlt|Hge].
  - rewrite nth_error_app1 in Hn by assumption. eauto.
  - rewrite nth_error_app2 in Hn by assumption.
    destruct (i - length fu) as [|k] eqn:E; cbn in Hn.
    + inv Hn. assert (i = length fu) by lia. subst. auto.
    + destruct k; discriminate.
Qed.

Lemma futs_ok_set g fu n x :
  futs_ok g fu -> (forall r, x = FFin r -> r = outcome_of g n) -> futs_ok g (set_nth n x fu).
Proof.
  intros H Hx i r Hn. destruct (Nat.eq_dec n i) as [->|Hne].
  - apply nth_error_set_nth_eq in Hn. symmetry in Hn. auto.
  - rewrite nth_error_set_nth_neq in Hn by assumption. eauto.
Qed.

Lemma seq_prefix_gen a : forall b st n, a ++ b = seq st n -> a = seq st (length a).
Proof.
  induction a as [|x a IH]; intros b st n H; cbn; [reflexivity|].
  destruct n as [|n]; cbn in H; [discriminate|]. inv H. f_equal. eapply IH; eauto.
Qed.

Lemma seq_prefix a b n : a ++ b = seq 0 n -> a = seq 0 (length a).
Proof. apply seq_prefix_gen. Qed.

Local Arguments seq : simpl never.

(* the feeder's steps *)
Lemma inv2_step_f g s s' e : Inv2 g s -> step_f g s = Some (s', e) -> Inv2 g s'.
Proof.
  destruct s as [f c p qq wq fu ts rs pu re dr ca]. unfold Inv2, flen_ok, fidx, cidx. cbn.
  intros (HA & HB & HC & HD & HE & HF & HG) Hs.
  unfold step_f, f_put, qfull, with_fp, with_q, with_pulled, with_rest, with_dropped, with_futs, with_workq in Hs;
    cbn in Hs.
  break_match_hyp Hs; inv Hs; cbn in *;
  (split; [exact HA|]); (split; [|split; [exact HC|split; [|split; [exact HE|split]]]]).
  all: try exact HB.
  all: try (intros Hc; specialize (HG Hc); destruct HG as (HG1 & _); discriminate HG1).
  all: try (intros Hp; specialize (HD Hp); destruct HD as (HD1 & HD2); split; [exact HD1|]).
  all: try exact I.
  all: try (destruct HF as [HF1 HF2]; subst).
  all: try (rewrite ?app_length; cbn; lia).
  all: try (rewrite ?tasks_app; cbn; rewrite ?app_nil_r in *; assumption).
  all: try congruence.
  (* pull: seq 0 (S pu) *)
  all: try (rewrite seq_S; cbn; rewrite app_nil_r in HD2; rewrite <- HD2;
            rewrite <- !app_assoc; reflexivity).
  (* FPut: the task joins the queue *)
  all: try (rewrite tasks_app; cbn; rewrite app_nil_r; rewrite <- HD2; rewrite <- !app_assoc; reflexivity).
  (* futures appended *)
  all: try (apply futs_ok_app; [exact HB|]; intros r Hr; try discriminate Hr; inv Hr;
            unfold outcome_of; match goal with H : pre_of _ _ = _ |- _ => rewrite H end; reflexivity).
Qed.

Ltac solve_futs HB :=
  first [ exact HB
        | apply futs_ok_set; [exact HB|]; intros r0 Hr0; try discriminate Hr0; inv Hr0; reflexivity ].

(* the pool workers' steps *)
Lemma inv2_step_p g s j s' e : Inv2 g s -> step_p g s j = Some (s', e) -> Inv2 g s'.
Proof.
  destruct s as [f c p qq wq fu ts rs pu re dr ca]. unfold Inv2, flen_ok, fidx, cidx. cbn.
  intros (HA & HB & HC & HD & HE & HF & HG) Hs.
  unfold step_p, with_pp, with_workq, with_futs, with_calls in Hs; cbn in Hs.
  break_match_hyp Hs; inv Hs; cbn in *;
  (split; [exact HA|]); (split; [solve_futs HB|split; [exact HC|split; [exact HD|split; [exact HE|split]]]]).
  all: try exact HF; try exact HG.
  all: try (destruct f; rewrite ?set_nth_length; exact HF).
  all: try (intros Hc; specialize (HG Hc); destruct HG as (-> & -> & -> & -> & ->); repeat split; destruct i; reflexivity).
Qed.

(* the consumer's steps *)
Lemma inv2_step_c g s s' e : Inv2 g s -> step_c g s = Some (s', e) -> Inv2 g s'.
Proof.
  destruct s as [f c p qq wq fu ts rs pu re dr ca]. unfold Inv2, flen_ok, fidx, cidx. cbn.
  intros (HA & HB & HC & HD & HE & HF & HG) Hs.
  unfold step_c, after_recv, with_cp, with_fp, with_q, with_received, with_dropped, with_stop, with_futs in Hs;
    cbn in Hs.
  break_match_hyp Hs; inv Hs; cbn in *; unfold recv_ok in *.
  all: split; [ first [ exact HA
                      | apply Forall_app; split; [exact HA|];
                        constructor; [cbn; eapply HE; reflexivity|constructor] ] |].
  all: split; [ solve_futs HB |].
  all: split; [ first [ exact HC
                      | specialize (HD eq_refl); destruct HD as (_ & HD2);
                        match type of HD2 with map fst ?r ++ ?i :: ?b = ?rhs =>
                          assert (HX : (map fst r ++ [i]) ++ b = rhs) by (rewrite <- app_assoc; exact HD2) end;
                        apply seq_prefix in HX;
                        rewrite map_app, !app_length, map_length in *; cbn in *; exact HX ] |].
  all: split; [ intros Hp; first [ discriminate Hp |
                specialize (HD eq_refl); destruct HD as (HD1 & HD2); split; [exact HD1|];
                try (specialize (HG eq_refl); destruct HG as (-> & -> & -> & -> & ->));
                rewrite ?map_app, <- ?app_assoc; cbn in *; try assumption ] |].
  all: split; [ intros i0 r0 Hy; first [ discriminate Hy | inv Hy;
                match goal with H : nth_error _ _ = Some (FFin _) |- _ => apply HB in H; congruence end ] |].
  all: split; [ | intros Hc; discriminate Hc ].
  all: try (specialize (HG eq_refl); destruct HG as (-> & -> & -> & -> & ->); reflexivity).
  all: try exact HF.
  all: try (destruct f; rewrite ?set_nth_length; exact HF).
Qed.

Lemma inv2_step g s l s' e : Inv2 g s -> step g s l = Some (s', e) -> Inv2 g s'.
Proof.
  destruct l as [| |j]; cbn; intros H Hs;
    [eapply inv2_step_f | eapply inv2_step_c | eapply inv2_step_p]; eauto.
Qed.

Lemma inv2_run g sched : Inv2 g (run step g (init g) sched).
Proof. apply (inv_run step g (Inv2 g)); [intros; eapply inv2_step; eauto | apply inv2_init]. Qed.

(* what the consumer has been handed is, in order, the outcome of element 0, 1, 2, ... *)
Definition expected_prefix (g : cfg) (n : nat) : list (nat * res) :=
  map (fun i => (i, outcome_of g i)) (seq 0 n).

Lemma recv_shape g (re : list (nat * res)) :
  recv_ok g re -> map fst re = seq 0 (length re) -> re = expected_prefix g (length re).
Proof.
  unfold expected_prefix. intros HA HC. rewrite <- HC. clear HC.
  induction re as [|[i r] re IH]; cbn; [reflexivity|].
  inv HA. cbn in *. subst. f_equal. apply IH. assumption.
Qed.

Lemma fifo_prefix g sched :
  let s := run step g (init g) sched in
  received s = expected_prefix g (length (received s)).
Proof.
  cbn. pose proof (inv2_run g sched) as (HA & _ & HC & _). apply recv_shape; assumption.
Qed.

(* with return_exceptions = false every delivered outcome is a success *)
Definition is_ok (r : res) : bool := match r with Ok _ => true | Err _ => false end.

Definition InvOk (g : cfg) (s : state) : Prop :=
  return_exc g = false ->
  Forall (fun p => is_ok (snd p) = true) (received s) /\
  (forall i r, cp s = CYield i r -> is_ok r = true).

Lemma invok_step g s l s' e : InvOk g s -> step g s l = Some (s', e) -> InvOk g s'.
Proof.
  destruct s as [f c p qq wq fu ts rs pu re dr ca]. unfold InvOk. cbn.
  intros H Hs Hre. specialize (H Hre). destruct H as [H1 H2].
  destruct l as [| |j]; cbn in Hs.
  - unfold step_f, f_put, qfull, with_fp, with_q, with_pulled, with_rest, with_dropped, with_futs, with_workq in Hs;
      cbn in Hs.
    break_match_hyp Hs; inv Hs; cbn in *; split; assumption.
  - unfold step_c, after_recv, with_cp, with_fp, with_q, with_received, with_dropped, with_stop, with_futs in Hs;
      cbn in Hs. rewrite Hre in Hs.
    break_match_hyp Hs; inv Hs; cbn in *;
      (split; [ first [ assumption | apply Forall_app; split; [assumption|]; constructor; [cbn; eapply H2; reflexivity|constructor] ]
              | intros i0 r0 Hy; first [discriminate Hy | inv Hy; reflexivity | eapply H2; eassumption] ]).
  - unfold step_p, with_pp, with_workq, with_futs, with_calls in Hs; cbn in Hs.
    break_match_hyp Hs; inv Hs; cbn in *; split; assumption.
Qed.

Lemma fifo_no_exc_delivered g sched :
  return_exc g = false ->
  Forall (fun p => is_ok (snd p) = true) (received (run step g (init g) sched)).
Proof.
  intros Hre.
  assert (H : InvOk g (run step g (init g) sched)).
  { apply (inv_run step g (InvOk g)); [intros; eapply invok_step; eauto|].
    unfold InvOk, init; cbn. intros _. split; [constructor|discriminate]. }
  apply H; assumption.
Qed.
