From MpV Require Import Lib.Tac Lib.Conc Model.FifoStream.
Open Scope nat_scope.

(* ---------------------------------------------------------------------------------------- *)
(* helpers                                                                                  *)
(* ---------------------------------------------------------------------------------------- *)

Fixpoint tasks (l : list qitem) : list nat :=
  match l with
  | [] => []
  | Task i :: r => i :: tasks r
  | _ :: r => tasks r
  end.

Lemma tasks_app a b : tasks (a ++ b) = tasks a ++ tasks b.
Proof. induction a as [|[i| |e] a IH]; cbn; congruence. Qed.

Lemma tasks_le l : length (tasks l) <= length l.
Proof. induction l as [|[i| |e] l IH]; cbn; lia. Qed.

Lemma set_nth_length {A} n (x : A) l : length (set_nth n x l) = length l.
Proof. revert n; induction l as [|h t IH]; intros [|n]; cbn; auto. Qed.

Lemma nth_error_set_nth_eq {A} n (x : A) l y :
  nth_error (set_nth n x l) n = Some y -> y = x.
Proof.
  revert n; induction l as [|h t IH]; intros [|n]; cbn; intros H; try discriminate.
  - now inv H.
  - eauto.
Qed.

Lemma nth_error_set_nth_neq {A} n m (x : A) l :
  n <> m -> nth_error (set_nth n x l) m = nth_error l m.
Proof.
  revert n m; induction l as [|h t IH]; intros [|n] [|m] Hne; cbn; auto; try congruence.
Qed.

(* feeder / consumer hold an element? *)
Definition fidx (s : state) : list nat :=
  match fp s with FChk i | FPre i | FSubmit i _ | FPut i => [i] | _ => [] end.
Definition cidx (s : state) : list nat :=
  match cp s with CWait i | CYield i _ => [i] | _ => [] end.

(* ---------------------------------------------------------------------------------------- *)
(* Inv1: counting (C08)                                                                     *)
(* ---------------------------------------------------------------------------------------- *)

Definition Inv1 (g : cfg) (s : state) : Prop :=
  pulled s = length (tasks (q s)) + length (fidx s) + length (cidx s) + length (received s) + dropped s
  /\ length (q s) <= S (cap g)
  /\ (cp s = CStart -> fp s = FIdle)
  /\ length (pp s) = conc g.

Lemma inv1_init g : Inv1 g (init g).
Proof. unfold Inv1, init, fidx, cidx; cbn. rewrite repeat_length. repeat split; lia. Qed.

Ltac fin1 H3 :=
  split; [|split; [|split]];
  [ lia | lia
  | intros Hc; try discriminate Hc; try (specialize (H3 Hc); discriminate H3); auto
  | rewrite ?set_nth_length; assumption ].

Lemma inv1_step g s l s' e : Inv1 g s -> step g s l = Some (s', e) -> Inv1 g s'.
Proof.
  destruct s as [f c p qq wq fu ts rs pu re dr ca]. unfold Inv1, fidx, cidx. cbn.
  intros (H1 & H2 & H3 & H4) Hs. destruct l as [| |j]; cbn in Hs.
  - unfold step_f, f_put, qfull, with_fp, with_q, with_pulled, with_rest, with_dropped, with_futs, with_workq in Hs;
      cbn in Hs.
    break_match_hyp Hs; inv Hs; cbn in *; bool_to_prop;
      repeat (progress (rewrite ?tasks_app, ?app_length in *; cbn in *)); fin1 H3.
  - unfold step_c, after_recv, with_cp, with_fp, with_q, with_received, with_dropped, with_stop, with_futs in Hs;
      cbn in Hs.
    break_match_hyp Hs; inv Hs; cbn in *; bool_to_prop;
      repeat (progress (rewrite ?tasks_app, ?app_length in *; cbn in *));
      try (rewrite H3 in * by reflexivity; cbn in * ); fin1 H3.
  - unfold step_p, with_pp, with_workq, with_futs, with_calls in Hs; cbn in Hs.
    break_match_hyp Hs; inv Hs; cbn in *; fin1 H3.
Qed.

Lemma inv1_run g sched : Inv1 g (run step g (init g) sched).
Proof. apply (inv_run step g (Inv1 g)); [intros; eapply inv1_step; eauto | apply inv1_init]. Qed.

Lemma fifo_lookahead g sched : ahead (run step g (init g) sched) <= cap g + 3.
Proof.
  pose proof (inv1_run g sched) as (H1 & H2 & _). set (s := run step g (init g) sched) in *.
  unfold ahead. pose proof (tasks_le (q s)).
  assert (length (fidx s) <= 1) by (unfold fidx; destruct (fp s); cbn; lia).
  assert (length (cidx s) <= 1) by (unfold cidx; destruct (cp s); cbn; lia).
  lia.
Qed.

Lemma filter_len_le {A} (f : A -> bool) l : length (filter f l) <= length l.
Proof. induction l as [|a l IH]; cbn; [lia|]. destruct (f a); cbn; lia. Qed.

Lemma running_le_conc g sched : running (run step g (init g) sched) <= conc g.
Proof.
  pose proof (inv1_run g sched) as (_ & _ & _ & H4). unfold running.
  rewrite <- H4. apply filter_len_le.
Qed.
