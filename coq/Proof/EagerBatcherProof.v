From MpV Require Import Model.EagerBatcher.
From Coq Require Export Lia.

(* State invariant. *)
Definition wf (g : cfg) (s : st) : Prop :=
  match s with
  | Coll now batch deadline t0 =>
      batch <> [] /\ (length batch < bsize g)%nat /\ deadline = t0 + wait g /\ t0 <= now <= deadline
  | _ => True
  end.

Definition pending (s : st) : list Z :=
  match s with Coll _ batch _ _ => batch | _ => [] end.

Definition all_items (o : list emitted) : list Z := concat (map items o).

Lemma all_items_app o1 o2 : all_items (o1 ++ o2) = all_items o1 ++ all_items o2.
Proof. unfold all_items. now rewrite map_app, concat_app. Qed.

(* per-batch facts *)
Definition good_batch (g : cfg) (b : emitted) : Prop :=
  (1 <= length (items b) <= bsize g)%nat
  /\ ((length (items b) < bsize g)%nat ->
        why b = GotEnd \/ (why b = TimedOut /\ forall t, nxt b = Some t -> first_t b + wait g < t))
  /\ (why b = Full -> length (items b) = bsize g /\ etime b = last_t b)
  /\ (why b = GotEnd -> etime b = last_t b)
  /\ (why b = TimedOut -> etime b = first_t b + wait g)
  /\ first_t b <= last_t b <= etime b.

Lemma start_ok g now z s o :
  (1 <= bsize g)%nat -> 0 <= wait g ->
  start g now z = (s, o) ->
  wf g s /\ Forall (good_batch g) o /\ all_items o ++ pending s = [z] /\ s <> Ended.
Proof.
  intros Hb Hw. unfold start. destruct (1 <? bsize g)%nat eqn:E; intros H; inversion H; subst; clear H.
  - apply Nat.ltb_lt in E. cbn. repeat split; try lia; try congruence; constructor.
  - apply Nat.ltb_ge in E. cbn. repeat split; try congruence.
    constructor; [|constructor]. unfold good_batch; cbn. repeat split; try lia; try congruence.
Qed.

Lemma idle_step_ok g now a s o :
  (1 <= bsize g)%nat -> 0 <= wait g ->
  idle_step g now a = (s, o) ->
  wf g s /\ Forall (good_batch g) o /\
  match amsg a with
  | None => s = Ended /\ o = []
  | Some z => all_items o ++ pending s = [z] /\ s <> Ended
  end.
Proof.
  intros Hb Hw. unfold idle_step. destruct (amsg a) as [z|].
  - intros H. apply start_ok in H; tauto.
  - intros H; inversion H; subst. cbn. repeat split; constructor.
Qed.

Lemma step_ok g s a s' o :
  (1 <= bsize g)%nat -> 0 <= wait g -> wf g s -> s <> Ended ->
  step g s a = (s', o) ->
  wf g s' /\ Forall (good_batch g) o /\
  match amsg a with
  | None => s' = Ended /\ all_items o = pending s
  | Some z => all_items o ++ pending s' = pending s ++ [z] /\ s' <> Ended
  end.
Proof.
  intros Hb Hw Hwf Hne. destruct s as [now|now batch deadline t0|]; [| |congruence]; cbn [step].
  - intros H. apply idle_step_ok in H; try assumption. destruct H as (H1 & H2 & H3).
    repeat split; try assumption. destruct (amsg a); cbn [pending]; [tauto|].
    destruct H3; subst; split; reflexivity.
  - cbn in Hwf. destruct Hwf as (Hnil & Hlen & Hdl & Ht0).
    assert (Htmo : Z.max 0 (deadline - now) = deadline - now) by lia. rewrite Htmo.
    destruct (atime a <=? now + (deadline - now)) eqn:E.
    + apply Z.leb_le in E.
      destruct (amsg a) as [z|].
      * destruct (length (batch ++ [z]) <? bsize g)%nat eqn:E2; intros H; inversion H; subst; clear H.
        -- apply Nat.ltb_lt in E2. cbn. repeat split; try lia; try congruence; try constructor.
           destruct batch; cbn; congruence.
        -- apply Nat.ltb_ge in E2. rewrite app_length in E2; cbn in E2.
           cbn. repeat split; try congruence.
           ++ constructor; [|constructor]. unfold good_batch; cbn. rewrite app_length; cbn.
              repeat split; try lia; try congruence.
           ++ unfold all_items; cbn. now rewrite !app_nil_r.
      * intros H; inversion H; subst; clear H. cbn. repeat split.
        -- constructor; [|constructor]. unfold good_batch; cbn.
           assert (length batch <> 0)%nat by (destruct batch; cbn; congruence).
           repeat split; try lia; try congruence. intros _. now left.
        -- unfold all_items; cbn. now rewrite app_nil_r.
    + apply Z.leb_gt in E.
      destruct (idle_step g (now + (deadline - now)) a) as [s1 o1] eqn:Hi.
      intros H; inversion H; subst; clear H.
      apply idle_step_ok in Hi; try assumption. destruct Hi as (H1 & H2 & H3).
      split; [assumption|]. split.
      * constructor; [|assumption]. unfold good_batch; cbn.
        assert (length batch <> 0)%nat by (destruct batch; cbn; congruence).
        repeat split; try lia; try congruence.
        intros _. right. split; [reflexivity|]. intros t Ht. inversion Ht; subst. lia.
      * destruct (amsg a) as [z|].
        -- destruct H3 as [H3 H4]. split; [|assumption].
           unfold all_items in *; cbn. rewrite <- app_assoc. now rewrite H3.
        -- destruct H3; subst. split; [reflexivity|]. unfold all_items; cbn. now rewrite app_nil_r.
Qed.

Lemma step_ended g a : step g Ended a = (Ended, []).
Proof. reflexivity. Qed.

Lemma run_from_ended g arr : run_from g Ended arr = (Ended, []).
Proof. induction arr as [|a rest IH]; cbn; [reflexivity|]. now rewrite IH. Qed.

Lemma flush_ok g s :
  (1 <= bsize g)%nat -> 0 <= wait g -> wf g s ->
  Forall (good_batch g) (flush s) /\ all_items (flush s) = pending s.
Proof.
  intros Hb Hw Hwf. destruct s as [now|now batch deadline t0|]; cbn; try (split; [constructor|reflexivity]).
  cbn in Hwf. destruct Hwf as (Hnil & Hlen & Hdl & Ht0).
  assert (length batch <> 0)%nat by (destruct batch; cbn; congruence).
  split.
  - constructor; [|constructor]. unfold good_batch; cbn.
    repeat split; try lia; try congruence.
    intros _. right. split; [reflexivity|]. intros t Ht; discriminate.
  - unfold all_items; cbn. now rewrite app_nil_r.
Qed.

Lemma run_from_ok g arr : forall s s' o,
  (1 <= bsize g)%nat -> 0 <= wait g -> wf g s -> s <> Ended ->
  run_from g s arr = (s', o) ->
  wf g s' /\ Forall (good_batch g) o /\
  all_items o ++ pending s' = pending s ++ before_end arr /\
  (s' = Ended <-> has_end arr = true).
Proof.
  induction arr as [|a rest IH]; intros s s' o Hb Hw Hwf Hne; cbn [run_from].
  - intros H; inversion H; subst. cbn. rewrite app_nil_r. repeat split; try assumption; try constructor.
    + intros ->. congruence.
    + discriminate.
  - destruct (step g s a) as [s1 o1] eqn:Hs. destruct (run_from g s1 rest) as [s2 o2] eqn:Hr.
    intros H; inversion H; subst; clear H.
    apply step_ok in Hs; try assumption. destruct Hs as (Hwf1 & Hg1 & Hm).
    cbn [before_end has_end existsb]. destruct (amsg a) as [z|] eqn:Ea.
    + destruct Hm as [Hm Hne1].
      specialize (IH s1 s' o2 Hb Hw Hwf1 Hne1 Hr). destruct IH as (Hwf2 & Hg2 & Hi & He).
      split; [assumption|]. split; [apply Forall_app; split; assumption|].
      split.
      * rewrite all_items_app, <- app_assoc, Hi.
        rewrite app_assoc, Hm. now rewrite <- app_assoc.
      * cbn. exact He.
    + destruct Hm as [-> Hm]. rewrite run_from_ended in Hr. inversion Hr; subst.
      repeat split; try assumption; cbn.
      * now rewrite app_nil_r.
      * rewrite !app_nil_r. assumption.
Qed.

(* ---- the run-level statements --------------------------------------------------------- *)

Definition cfg_ok (g : cfg) : Prop := (1 <= bsize g)%nat /\ 0 <= wait g.

Lemma run_partition g arr :
  cfg_ok g -> all_items (snd (run g arr)) = before_end arr.
Proof.
  intros [Hb Hw]. unfold run. destruct (run_from g (Idle 0) arr) as [s o] eqn:Hr. cbn [snd].
  apply run_from_ok in Hr; try assumption; cbn; try exact I; try congruence.
  destruct Hr as (Hwf & _ & Hi & _). cbn in Hi.
  rewrite all_items_app. destruct (flush_ok g s Hb Hw Hwf) as [_ ->]. exact Hi.
Qed.

Lemma run_batches_good g arr :
  cfg_ok g -> Forall (good_batch g) (snd (run g arr)).
Proof.
  intros [Hb Hw]. unfold run. destruct (run_from g (Idle 0) arr) as [s o] eqn:Hr. cbn [snd].
  apply run_from_ok in Hr; try assumption; cbn; try exact I; try congruence.
  destruct Hr as (Hwf & Hg & _ & _).
  apply Forall_app; split; [assumption|]. now apply flush_ok.
Qed.

Lemma run_status g arr :
  cfg_ok g -> (fst (run g arr) = Finished <-> has_end arr = true).
Proof.
  intros [Hb Hw]. unfold run. destruct (run_from g (Idle 0) arr) as [s o] eqn:Hr. cbn [fst].
  apply run_from_ok in Hr; try assumption; cbn; try exact I; try congruence.
  destruct Hr as (_ & _ & _ & He). rewrite <- He.
  destruct s; split; intros H; congruence.
Qed.
