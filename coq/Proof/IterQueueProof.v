From MpV Require Import Lib.Tac Lib.Conc Model.IterQueue.
From Coq Require Import Permutation.
Open Scope nat_scope.

Definition items_of (l : list (option Z)) : list Z :=
  flat_map (fun m => match m with Some x => [x] | None => [] end) l.

Lemma items_of_app a b : items_of (a ++ b) = items_of a ++ items_of b.
Proof. unfold items_of. apply flat_map_app. Qed.

(* every item put so far is, exactly once, either already received, still in the queue, or was
   swallowed by a failing renew() *)
Definition InvP (s : state) : Prop :=
  Permutation (recv_total s ++ items_of (q s) ++ renew_ate s) (put_all s).

Lemma invp_init g : InvP (init g).
Proof. unfold InvP, init; cbn. constructor. Qed.

Lemma perm_put (r qi a p : list Z) x :
  Permutation (r ++ qi ++ a) p -> Permutation (r ++ (qi ++ [x]) ++ a) (p ++ [x]).
Proof.
  intros H. rewrite <- app_assoc. 
  apply Permutation_trans with (x :: r ++ qi ++ a).
  - apply Permutation_sym. 
    rewrite app_assoc. rewrite (app_assoc r qi ([x] ++ a)).
    change ([x] ++ a) with (x :: a). apply Permutation_middle.
  - apply Permutation_trans with (x :: p); [now constructor|]. apply Permutation_cons_append.
Qed.

Lemma perm_get (r qi a p : list Z) x :
  Permutation (r ++ (x :: qi) ++ a) p -> Permutation ((r ++ [x]) ++ qi ++ a) p.
Proof. intros H. rewrite <- app_assoc. exact H. Qed.

Lemma perm_ate (r qi a p : list Z) x :
  Permutation (r ++ (x :: qi) ++ a) p -> Permutation (r ++ qi ++ a ++ [x]) p.
Proof.
  intros H. eapply Permutation_trans; [|exact H].
  apply Permutation_app_head. cbn.
  rewrite app_assoc. apply Permutation_sym. apply Permutation_cons_append.
Qed.

Lemma invp_step g s l s' e : InvP s -> step g s l = Some (s', e) -> InvP s'.
Proof.
  unfold InvP. intros H Hs. destruct l as [i ex|c|]; cbn in Hs.
  - unfold step_s in Hs. break_match_hyp Hs; inv Hs;
      unfold set_sp, set_q, add_put, set_spare, set_applied, upd; cbn;
      rewrite ?items_of_app; cbn; rewrite ?app_nil_r; try exact H.
    all: try (apply perm_put; exact H).
  - unfold step_c in Hs. break_match_hyp Hs; inv Hs;
      unfold set_cp, set_q, add_recv, set_applied, set_used, upd; cbn;
      rewrite ?items_of_app; cbn; rewrite ?app_nil_r; try exact H;
      try (match goal with Hq : q s = _ |- _ => rewrite Hq in H; cbn in H end); try exact H.
    all: try (apply perm_get; exact H).
    all: try (apply perm_put; exact H).
  - unfold step_r in Hs. break_match_hyp Hs; inv Hs;
      unfold set_rp, set_q, set_used, set_spare, add_ate, upd; cbn; try exact H;
      try (match goal with Hq : q s = _ |- _ => rewrite Hq in H; cbn in H end); try exact H.
    all: try (apply perm_ate; exact H).
Qed.

Lemma items_exactly_once g sched :
  let s := run step g (init g) sched in
  Permutation (recv_total s ++ items_of (q s) ++ renew_ate s) (put_all s).
Proof. apply (inv_run step g InvP); [intros; eapply invp_step; eauto | apply invp_init]. Qed.

(* nothing is received that was not put, and nothing is received twice: the received items form a
   sub-multiset of the items put *)
Lemma received_sub_put g sched :
  let s := run step g (init g) sched in
  exists others, Permutation (recv_total s ++ others) (put_all s).
Proof. cbn. eexists. apply items_exactly_once. Qed.
