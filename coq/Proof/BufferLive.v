(* C05 liveness half for Buffer: no reachable state is a deadlock when the source raises only ordinary exceptions - for every
   maxsize >= 1 with the finalizer that keeps draining while it waits for the worker (repair C), and for maxsize >= 3 with the
   finalizer before the repair. *)
From MpV Require Import Lib.Tac Lib.Conc Model.Buffer.
Import ListNotations.

Definition is_base (x : src_item) : bool := match x with SRaiseBase _ => true | _ => false end.
Definition no_base (l : list src_item) : Prop := forallb (fun x => negb (is_base x)) l = true.

Definition is_data (i : item) : bool := match i with Data _ => true | _ => false end.
Definition alldata (l : list item) : Prop := forallb is_data l = true.

(* how many more items the worker may still put once the stop flag is set *)
Definition rem (w : wpc) : nat :=
  match w with WPut _ => 3 | WNext | WStp _ => 2 | WChk _ | WFin | WExc _ => 1 | _ => 0 end.

Definition live (w : wpc) : Prop := match w with WIdle | WDead _ => False | _ => True end.

(* shape of the queue while the consumer has not met a marker *)
Definition shape (w : wpc) (q : list item) : Prop :=
  match w with
  | WIdle | WDead _ => False
  | WNext | WChk _ | WPut _ | WFin | WStp _ => alldata q
  | WExc e => exists d, alldata d /\ q = d ++ [Stp]
  | WDone => exists d, alldata d /\ (q = d ++ [Fin] \/ exists e, q = d ++ [Stp; Exc e])
  end.

Definition L (s : state) : Prop :=
  no_base (rest s) /\
  match cp s with
  | CStart => wp s = WIdle /\ q s = []
  | CGet | CYield _ => shape (wp s) (q s)
  | CGetExc => (exists e, wp s = WExc e /\ q s = []) \/ (wp s = WDone /\ exists e, q s = [Exc e])
  | CSet _ => live (wp s)
  | CDrainChk _ => live (wp s) /\ stopped s = true
  | CDrainGet _ => live (wp s) /\ stopped s = true /\ q s <> []
  | CJoin _ => live (wp s) /\ stopped s = true /\ (length (q s) + rem (wp s) <= 3)%nat
  | CDone _ => w_finished s = true
  end.

Lemma alldata_snoc d x : alldata d -> alldata (d ++ [Data x]).
Proof. unfold alldata. intros H. rewrite forallb_app, H. reflexivity. Qed.

Lemma alldata_cons_inv i d : alldata (i :: d) -> (exists x, i = Data x) /\ alldata d.
Proof. unfold alldata. cbn. intros H. apply andb_true_iff in H as [H1 H2]. destruct i; try discriminate. eauto. Qed.

Lemma shape_live w q : shape w q -> live w.
Proof. destruct w; cbn; auto. Qed.

Lemma snoc_eq_cons {A} (d : list A) a i l : d ++ [a] = i :: l -> (d = [] /\ i = a /\ l = []) \/ exists d', d = i :: d' /\ l = d' ++ [a].
Proof. destruct d as [|b d]; cbn; intros H; inv H; [left; auto|right; eauto]. Qed.

Lemma shape_pop_data w x l : shape w (Data x :: l) -> shape w l.
Proof.
  destruct w; cbn; auto; try (intros H; apply alldata_cons_inv in H as [_ H]; exact H).
  - intros (d & Hd & H). symmetry in H. apply snoc_eq_cons in H as [(_ & H & _)|(d' & -> & ->)]; [discriminate|].
    apply alldata_cons_inv in Hd as [_ Hd]. eauto.
  - intros (d & Hd & [H|[e0 H]]).
    + symmetry in H. apply snoc_eq_cons in H as [(_ & H & _)|(d' & -> & ->)]; [discriminate|].
      apply alldata_cons_inv in Hd as [_ Hd]. eauto.
    + destruct d as [|b d]; [discriminate|]. inv H. apply alldata_cons_inv in Hd as [_ Hd]. exists d. split; eauto.
Qed.

Lemma shape_pop_stp w l : shape w (Stp :: l) ->
  (exists e, w = WExc e /\ l = []) \/ (w = WDone /\ exists e, l = [Exc e]).
Proof.
  destruct w; cbn; try (intros H; contradiction); try (intros H; discriminate); try (intros H; apply alldata_cons_inv in H as [[x H] _]; discriminate).
  - intros (d & Hd & H). symmetry in H. apply snoc_eq_cons in H as [(_ & _ & ->)|(d' & -> & ->)]; [left; eauto|].
    apply alldata_cons_inv in Hd as [[x Hx] _]; discriminate.
  - intros (d & Hd & [H|[e0 H]]).
    + symmetry in H. apply snoc_eq_cons in H as [(_ & H & _)|(d' & -> & ->)]; [discriminate|].
      apply alldata_cons_inv in Hd as [[x Hx] _]; discriminate.
    + destruct d as [|b d]; [inv H; right; eauto|]. inv H. apply alldata_cons_inv in Hd as [[x Hx] _]; discriminate.
Qed.

Lemma L_init g : no_base (src g) -> L (init g).
Proof. intros H. split; [exact H|split; reflexivity]. Qed.

Lemma L_step_w g s s' e : L s -> step_w g s = Some (s', e) -> L s'.
Proof.
  destruct s as [w c qq st rs pu re dr]. unfold L. cbn. intros [Hb H] Hs.
  unfold step_w, w_put, full, upd_w in Hs; cbn in Hs.
  break_match_hyp Hs; inv Hs; cbn.
  all: split; [try exact Hb; try (cbn in Hb; apply andb_true_iff in Hb; destruct Hb as [_ Hb]; exact Hb)|].
  all: destruct c; cbn in *; try exact H; try exact I; try discriminate; try contradiction; try (destruct H; discriminate).
  all: try solve [destruct H as [[? [? ?]]|[? ?]]; discriminate].
  all: try solve [apply alldata_snoc; exact H].
  all: try solve [destruct H as (Hl & Hst & Hn); repeat split; auto; try congruence;
            try (intros Hq; apply app_eq_nil in Hq as [_ Hq]; discriminate);
            try (rewrite app_length; cbn [length]); try lia].
  all: try solve [exists qq; split; [exact H|auto]].
  all: try solve [destruct H as (Hl & Hst); repeat split; auto; try congruence;
            try (intros Hq; apply app_eq_nil in Hq as [_ Hq]; discriminate)].
  all: try solve [destruct H as (d & Hd & ->); exists d; split; [exact Hd|right; eexists; rewrite <- app_assoc; reflexivity]].
  all: try solve [destruct H as [(e1 & He1 & ->)|[? ?]]; [|discriminate]; right; split; [reflexivity|eexists; reflexivity]].
Qed.

Lemma L_step_c g s s' e : L s -> step_c g s = Some (s', e) -> L s'.
Proof.
  destruct s as [w c qq st rs pu re dr]. unfold L. cbn. intros [Hb H] Hs.
  unfold step_c, c_pop, upd_c, after_recv in Hs; cbn in Hs.
  break_match_hyp Hs; inv Hs; cbn.
  all: split; [exact Hb|].
  all: cbn in *; try exact H; try exact I; try discriminate; try contradiction; try reflexivity.
  all: try solve [destruct H as (Hl & Hst); repeat split; auto; try congruence; try discriminate; try (destruct w; cbn; lia)].
  all: try solve [apply shape_live in H; auto].
  all: try solve [destruct H as [-> ->]; reflexivity].
  all: try solve [eapply shape_pop_data; eauto].
  all: try solve [eapply shape_pop_stp; eauto].
  all: try solve [destruct H as [(e1 & -> & ?)|[-> ?]]; exact I].
  all: try solve [destruct H as (Hl & Hst & ?); auto].
  all: try solve [split; [exact H|reflexivity]].
Qed.

Lemma L_run g sched : no_base (src g) -> L (run step g (init g) sched).
Proof.
  intros Hs. apply (inv_run step g L); [|apply L_init; exact Hs].
  intros s l s' e HL Hst. destruct l; cbn in Hst; [eapply L_step_w|eapply L_step_c]; eauto.
Qed.

Definition is_put (w : wpc) : bool :=
  match w with WPut _ | WFin | WStp _ | WExc _ => true | _ => false end.

Lemma w_blocked_of g s : step_w g s = None ->
  w_finished s = true \/ wp s = WIdle \/ (is_put (wp s) = true /\ (maxsize g <= length (q s))%nat).
Proof.
  destruct s as [w c qq st rs pu re dr]. unfold step_w, w_put, full, upd_w, w_finished. cbn.
  destruct w; cbn; auto; intros H.
  - destruct rs as [|[x|x|x] rs]; discriminate H.
  - destruct st; discriminate H.
  - break_match_hyp H. bool_to_prop. auto.
  - break_match_hyp H. bool_to_prop. auto.
  - break_match_hyp H. bool_to_prop. auto.
  - break_match_hyp H. bool_to_prop. auto.
Qed.

Lemma c_blocked_of g s : step_c g s = None ->
  match cp s with
  | CGet => q s = [] \/ exists e l, q s = Exc e :: l
  | CGetExc => q s = [] \/ exists i l, q s = i :: l /\ forall e, i <> Exc e
  | CDrainGet _ => q s = []
  | CJoin _ => w_finished s = false /\ drain_join g = false
  | CDone _ => True
  | _ => False
  end.
Proof.
  destruct s as [w c qq st rs pu re dr]. unfold step_c, c_pop, upd_c, after_recv, w_finished. cbn.
  destruct c; cbn; intros H; break_match_hyp H; subst; auto; try discriminate H.
  all: try solve [right; eauto].
  all: try solve [right; eexists; eexists; (split; [reflexivity|intros; discriminate])].
Qed.

Lemma shape_head_exc w e l : shape w (Exc e :: l) -> False.
Proof.
  destruct w; cbn; auto; try discriminate.
  - intros (d & Hd & H). symmetry in H. apply snoc_eq_cons in H as [(_ & H & _)|(d' & -> & ->)]; [discriminate|].
    apply alldata_cons_inv in Hd as [[x Hx] _]; discriminate.
  - intros (d & Hd & [H|[e0 H]]).
    + symmetry in H. apply snoc_eq_cons in H as [(_ & H & _)|(d' & -> & ->)]; [discriminate|].
      apply alldata_cons_inv in Hd as [[x Hx] _]; discriminate.
    + destruct d as [|b d]; [discriminate|]. inv H. apply alldata_cons_inv in Hd as [[x Hx] _]; discriminate.
Qed.

Lemma shape_nil w : shape w [] -> w <> WDone /\ forall e, w <> WExc e.
Proof.
  destruct w; cbn; try contradiction; intros H; try (split; intros; discriminate).
  - destruct H as (d & _ & H). destruct d; discriminate.
  - destruct H as (d & _ & [H|[e H]]); destruct d; discriminate.
Qed.

(* a state in which neither thread can move is final *)
Lemma L_no_deadlock g s :
  (1 <= maxsize g)%nat -> (drain_join g = true \/ 3 <= maxsize g)%nat -> L s -> deadlocked g s = false.
Proof.
  intros Hm1 Hm [Hb H]. unfold deadlocked.
  destruct (step g s W) as [[sw ew]|] eqn:Ew; [apply andb_false_r|].
  destruct (step g s C) as [[sc ec]|] eqn:Ec; [apply andb_false_r|].
  rewrite andb_true_r. apply negb_false_iff.
  cbn in Ew, Ec. apply w_blocked_of in Ew. apply c_blocked_of in Ec.
  unfold final. destruct (cp s) eqn:Ecp; try contradiction; try exact H; exfalso.
  - (* CGet *)
    destruct Ec as [Eq|(e & l & Eq)]; rewrite Eq in H; [|eapply shape_head_exc; eauto].
    pose proof (shape_live _ _ H) as Hl. apply shape_nil in H as [Hd He].
    destruct Ew as [Hf|[Hi|[Hp Hlen]]].
    + unfold w_finished in Hf. destruct (wp s); try discriminate; try contradiction; congruence.
    + rewrite Hi in Hl; exact Hl.
    + rewrite Eq in Hlen. cbn in Hlen. lia.
  - (* CGetExc *)
    destruct H as [(e & Hw & Hq)|(Hw & e & Hq)]; rewrite Hq in Ec.
    + destruct Ew as [Hf|[Hi|[Hp Hlen]]].
      * unfold w_finished in Hf. rewrite Hw in Hf; discriminate.
      * congruence.
      * rewrite Hq in Hlen. cbn in Hlen. lia.
    + destruct Ec as [Ec|(i & l & Ec & Hne)]; [discriminate|]. inv Ec. eapply Hne; reflexivity.
  - (* CDrainGet *)
    destruct H as (_ & _ & H). contradiction.
  - (* CJoin *)
    destruct H as (Hl & Hst & Hn). destruct Ec as [Ec Edj].
    destruct Hm as [Hm|Hm]; [congruence|].
    destruct Ew as [Hf|[Hi|[Hp Hlen]]].
    + congruence.
    + rewrite Hi in Hl; exact Hl.
    + destruct (wp s); cbn in Hp, Hn; try discriminate; lia.
Qed.

Theorem buffer_no_deadlock g sched :
  no_base (src g) -> (1 <= maxsize g)%nat -> drain_join g = true -> deadlocked g (run step g (init g) sched) = false.
Proof. intros Hs Hm Hd. apply L_no_deadlock; [exact Hm|left; exact Hd|apply L_run; exact Hs]. Qed.

(* the finalizer before the repair needed three slots *)
Theorem buffer3_no_deadlock_before_repair g sched :
  no_base (src g) -> (3 <= maxsize g)%nat -> deadlocked g (run step g (init g) sched) = false.
Proof. intros Hs Hm. apply L_no_deadlock; [lia|right; exact Hm|apply L_run; exact Hs]. Qed.

(* the premises are satisfiable and the conclusion is not trivially about the initial state *)
Example buffer_no_deadlock_nonvacuous :
  let g := {| maxsize := 1%nat; src := [SData 0; SData 1; SRaise 7; SData 2]; stop_after := Some 1%nat; drain_join := true |} in
  no_base (src g) /\ (1 <= maxsize g)%nat /\
  cp (run step g (init g) [C; W; W; W; C; C; W; W; C; C; W; W; W; C; W; C]) <> CStart.
Proof. cbn. repeat split; try lia. vm_compute. discriminate. Qed.

(* Once the stop flag is set the worker has at most four steps left, and each of its steps uses one up: the finalizer's loop
   (drain, wait 10 ms for the worker, drain again) therefore ends as soon as the worker has been scheduled four more times -
   and the worker can always be scheduled when the queue has room, which the drain provides. *)
Definition steps_left (w : wpc) : nat :=
  match w with WPut _ => 4 | WNext => 3 | WChk _ | WStp _ => 2 | WFin | WExc _ => 1 | WIdle | WDone | WDead _ => 0 end.

Lemma worker_step_after_stop_uses_one_up g s s' e :
  stopped s = true -> step_w g s = Some (s', e) -> stopped s' = true /\ (steps_left (wp s') < steps_left (wp s))%nat.
Proof.
  destruct s as [w c qq st rs pu re dr]. cbn. intros -> Hs.
  unfold step_w, w_put, full, upd_w in Hs; cbn in Hs.
  break_match_hyp Hs; inv Hs; cbn; split; try reflexivity; lia.
Qed.

Lemma worker_can_move_when_room g s :
  (length (q s) < maxsize g)%nat -> w_finished s = false -> wp s <> WIdle -> step_w g s <> None.
Proof.
  destruct s as [w c qq st rs pu re dr]. unfold step_w, w_put, full, upd_w, w_finished. cbn. intros Hl Hf Hi.
  destruct w; try discriminate; try congruence.
  - destruct rs as [|[x|x|x] rs]; discriminate.
  - destruct st; discriminate.
  - destruct (Nat.leb_spec (maxsize g) (length qq)); [lia|discriminate].
  - destruct (Nat.leb_spec (maxsize g) (length qq)); [lia|discriminate].
  - destruct (Nat.leb_spec (maxsize g) (length qq)); [lia|discriminate].
  - destruct (Nat.leb_spec (maxsize g) (length qq)); [lia|discriminate].
Qed.
