(* Proof tactics shared by the step-invariant proofs (DESIGN.md section 2.4). *)
From Coq Require Export List ZArith Bool Lia.

(* destruct every match scrutinee appearing in hypothesis H (one level at a time) *)
Ltac break_match_hyp H :=
  repeat match type of H with
         | context [match ?x with _ => _ end] => destruct x eqn:?; try discriminate H
         | context [if ?x then _ else _] => destruct x eqn:?; try discriminate H
         end.

Ltac inv H := inversion H; subst; clear H.

Ltac bool_to_prop :=
  repeat match goal with
         | H : (_ <=? _)%nat = true |- _ => apply Nat.leb_le in H
         | H : (_ <=? _)%nat = false |- _ => apply Nat.leb_gt in H
         | H : (_ <? _)%nat = true |- _ => apply Nat.ltb_lt in H
         | H : (_ <? _)%nat = false |- _ => apply Nat.ltb_ge in H
         | H : (_ =? _)%nat = true |- _ => apply Nat.eqb_eq in H
         | H : (_ =? _)%nat = false |- _ => apply Nat.eqb_neq in H
         | H : (_ && _) = true |- _ => apply andb_true_iff in H; destruct H
         | H : negb _ = true |- _ => apply negb_true_iff in H
         end.

(* keep cbn/simpl from unfolding arithmetic on variables *)
Global Arguments Nat.leb : simpl never.
Global Arguments Nat.ltb : simpl never.
Global Arguments Nat.eqb : simpl never.
Global Arguments Z.add : simpl never.
Global Arguments Z.sub : simpl never.
Global Arguments Z.opp : simpl never.
Global Arguments Z.mul : simpl never.
Global Arguments Z.leb : simpl never.
Global Arguments Z.ltb : simpl never.
Global Arguments Z.eqb : simpl never.
Global Arguments Z.max : simpl never.
Global Arguments Z.min : simpl never.
