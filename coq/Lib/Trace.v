(* Event vocabulary shared by the concurrent models and the Python harness (harness/events.py
   holds the same table). An event is what the deterministic scheduler logs at the linearization
   point of a shared-object operation: (thread, operation, value). *)
From Coq Require Export List ZArith Bool.
Export ListNotations.

Record event := mkEv { e_tid : nat; e_op : nat; e_val : Z }.

Definition ev_eqb (a b : event) : bool :=
  Nat.eqb (e_tid a) (e_tid b) && Nat.eqb (e_op a) (e_op b) && Z.eqb (e_val a) (e_val b).

(* index of the first position where two event lists differ (None: equal) *)
Fixpoint first_diff (i : nat) (a b : list event) : option nat :=
  match a, b with
  | [], [] => None
  | x :: a', y :: b' => if ev_eqb x y then first_diff (S i) a' b' else Some i
  | _, _ => Some i
  end.

(* operation codes *)
Definition OP_START    := 0%nat.   (* thread start; val = 0 *)
Definition OP_SRC_NEXT := 1%nat.   (* source __next__ returned: val = element code / END / exception code *)
Definition OP_EVT_ISSET := 2%nat.  (* Event.is_set(): val = 0/1 *)
Definition OP_EVT_SET  := 3%nat.
Definition OP_APPEND   := 4%nat.   (* queue append/put at its linearization point: val = item code *)
Definition OP_POPLEFT  := 5%nat.   (* queue popleft/get: val = item code *)
Definition OP_Q_EMPTY  := 6%nat.   (* unsynchronised emptiness read: val = 0/1 *)
Definition OP_RECV     := 7%nat.   (* value handed to the consumer's loop body *)
Definition OP_JOIN     := 8%nat.   (* Thread.join returned *)
Definition OP_SUBMIT   := 9%nat.   (* func(x) called by the feeder: val = element *)
Definition OP_CALL_BEGIN := 10%nat. (* pool worker enters the user function: val = element *)
Definition OP_CALL_END := 11%nat.  (* pool worker leaves it *)
Definition OP_FUT_WAIT := 12%nat.  (* consumer obtained a future's outcome: val = element *)
Definition OP_FUT_CANCEL := 13%nat. (* val = element *)
Definition OP_PREPROC := 14%nat.   (* preprocessor applied: val = element *)
Definition OP_RAISE    := 15%nat.  (* the iteration raised to the consumer: val = exception code *)
Definition OP_CLOSE    := 16%nat.  (* consumer stops early (break / close) *)

Definition OP_POOL_TAKE := 17%nat.  (* pool worker took a work item: val = element *)
Definition OP_FUT_RUNNING := 18%nat. (* set_running_or_notify_cancel: val = element*2 + (1 if it runs, 0 if it was cancelled) *)
Definition OP_FUT_DONE := 19%nat.   (* future resolved by its worker: val = element *)

(* item codes (Z): data x >= 0 as itself; markers negative *)
Definition V_END : Z := (-1)%Z.      (* StopIteration / FINISHED / None marker *)
Definition V_STOPPED : Z := (-2)%Z.  (* Buffer's STOPPED marker *)
Definition v_exc (e : Z) : Z := (- 1000 - e)%Z.   (* exception with class/identity code e >= 0 *)
Global Arguments v_exc : simpl never.
