(* Generic small-step scheduler semantics shared by the concurrent models.

   A model gives  step : cfg -> state -> label -> option (state * event).
   [None] = the labelled thread is not enabled in that state (blocked, finished, or the label's
   environment choice is impossible).  A schedule is any list of labels; [run] skips labels that
   are not enabled, so  "forall sched, P (run g s0 sched)"  ranges over every reachable state and
   over every interleaving and every environment choice. *)
From Coq Require Import List Arith Lia.
Import ListNotations.

Section Conc.
  Context {cfg state label event : Type}.
  Variable step : cfg -> state -> label -> option (state * event).

  Fixpoint run (g : cfg) (s : state) (sched : list label) : state :=
    match sched with
    | [] => s
    | l :: rest => match step g s l with
                   | Some (s', _) => run g s' rest
                   | None => run g s rest
                   end
    end.

  (* events produced along a schedule (skipped labels produce none) *)
  Fixpoint trace (g : cfg) (s : state) (sched : list label) : list event :=
    match sched with
    | [] => []
    | l :: rest => match step g s l with
                   | Some (s', e) => e :: trace g s' rest
                   | None => trace g s rest
                   end
    end.

  (* strict replay used by the correspondence check: every label must be enabled;
     returns the events, the final state and the index of the first disabled label if any *)
  Fixpoint replay_from (i : nat) (g : cfg) (s : state) (sched : list label)
    : list event * state * option nat :=
    match sched with
    | [] => ([], s, None)
    | l :: rest => match step g s l with
                   | Some (s', e) => let '(es, sf, bad) := replay_from (S i) g s' rest in (e :: es, sf, bad)
                   | None => ([], s, Some i)
                   end
    end.
  Definition replay := replay_from 0.

  Lemma run_app g s a b : run g s (a ++ b) = run g (run g s a) b.
  Proof.
    revert s; induction a as [|l a IH]; intros s; cbn; [reflexivity|].
    destruct (step g s l) as [[s' e]|]; apply IH.
  Qed.

  (* an invariant preserved by every enabled step holds after every schedule *)
  Lemma inv_run (g : cfg) (Inv : state -> Prop) :
    (forall s l s' e, Inv s -> step g s l = Some (s', e) -> Inv s') ->
    forall sched s, Inv s -> Inv (run g s sched).
  Proof.
    intros Hstep sched; induction sched as [|l rest IH]; intros s Hs; cbn; [exact Hs|].
    destruct (step g s l) as [[s' e]|] eqn:E; [apply IH; eapply Hstep; eauto | apply IH; exact Hs].
  Qed.

  (* a measure that strictly decreases at every enabled step bounds the number of productive steps *)
  Lemma trace_length_le_measure (g : cfg) (Inv : state -> Prop) (mu : state -> nat) :
    (forall s l s' e, Inv s -> step g s l = Some (s', e) -> Inv s' /\ mu s' < mu s) ->
    forall sched s, Inv s -> length (trace g s sched) <= mu s.
  Proof.
    intros Hstep sched; induction sched as [|l rest IH]; intros s Hs; cbn; [lia|].
    destruct (step g s l) as [[s' e]|] eqn:E.
    - destruct (Hstep _ _ _ _ Hs E) as [Hs' Hlt]. specialize (IH s' Hs'). cbn.
      lia.
    - apply IH; exact Hs.
  Qed.

  Definition enabled (g : cfg) (s : state) (l : label) : Prop := step g s l <> None.
End Conc.
