"""Event vocabulary shared with coq/Lib/Trace.v."""
OPS = {
    'start': 0, 'src_next': 1, 'evt_isset': 2, 'evt_set': 3, 'dq_append': 4, 'dq_popleft': 5,
    'q_empty': 6, 'recv': 7, 'join': 8, 'submit': 9, 'call_begin': 10, 'call_end': 11,
    'fut_wait': 12, 'fut_cancel': 13, 'preproc': 14, 'raise': 15, 'close': 16,
    'pool_take': 17, 'fut_running': 18, 'fut_done': 19,
}
V_END = -1
V_STOPPED = -2


def v_exc(e: int) -> int:
    return -1000 - e
