"""ProcessServlet worker that logs records (C20 servlet variant)."""
import logging

from mpservice.mpserver import Worker


class LogWorker(Worker):
    def __init__(self, *, name, size, **kwargs):
        super().__init__(**kwargs)
        self._name, self._pad = name, 'x' * size

    def call(self, x):
        levels, off = x
        lg = logging.getLogger(self._name)
        for i, lv in enumerate(levels):
            lg.log(lv, '%d:%s', off + i, self._pad)
        return len(levels)
