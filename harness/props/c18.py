"""C18 — socket and pipe transports deliver intact and to the right request.
Framing: byte-exact differential correspondence of write_record / read_record with
coq/Model/SockFrame.v (random chunking through a real asyncio.StreamReader).
Multiplexing and pipe: sampled loopback runs with reordering handler latencies (oracle only)."""
from __future__ import annotations

import asyncio
import json
import os
import random
import sys
import tempfile
import threading
import time

PROP = 'C18'


def gen_case(rng):
    idlen = rng.choice([1, 2, 5, 12, 18])
    alphabet = 'abcXYZ0123456789-_.:/#'
    rid = ''.join(rng.choice(alphabet) for _ in range(idlen))
    kind = rng.choice(['rand', 'rand', 'newlines', 'headerlike', 'empty', 'text', 'big'])
    if kind == 'rand':
        payload = bytes(rng.randrange(256) for _ in range(rng.choice([1, 2, 7, 40, 200])))
    elif kind == 'newlines':
        payload = b'\n' * rng.choice([1, 3]) + bytes(rng.randrange(256) for _ in range(5)) + b'\n'
    elif kind == 'headerlike':
        payload = f'{rid} {rng.randrange(99)} none\nabc 3 pickle\nxyz'.encode()
    elif kind == 'empty':
        payload = b''
    elif kind == 'text':
        payload = 'héllo wörld ☃'.encode('utf8')
    else:
        payload = bytes(rng.randrange(256) for _ in range(rng.choice([1000, 3000])))
    rest = bytes(rng.randrange(256) for _ in range(rng.choice([0, 0, 3, 20])))
    return {'id': rid, 'payload': list(payload), 'rest': list(rest),
            'chunks': rng.choice([1, 2, 3, 7, 1000]), 'seed': rng.randrange(10 ** 6),
            'stall': len(payload) > 0 and rng.random() < 0.03}


class FakeWriter:
    def __init__(self):
        self.buf = bytearray()

    def write(self, b):
        self.buf += b

    async def drain(self):
        await asyncio.sleep(0)


async def run_frame_case(case):
    from mpservice import socket as msock
    w = FakeWriter()
    payload = bytes(case['payload'])
    await msock.write_record(w, case['id'], payload, encoder='none')
    wire = bytes(w.buf)
    stream = wire + bytes(case['rest'])
    reader = asyncio.StreamReader()
    rng = random.Random(case['seed'])

    hdr_end = wire.index(b'\n') + 1
    stall_at = hdr_end + (len(wire) - hdr_end) // 2 if case.get('stall') else None

    async def feed():
        pos = 0
        while pos < len(stream):
            n = rng.randrange(1, max(2, case['chunks'] + 1))
            if stall_at is not None and pos <= stall_at < pos + n:
                n = max(1, stall_at - pos)
                reader.feed_data(stream[pos:pos + n])
                pos += n
                await asyncio.sleep(0.25)      # the rest of the payload arrives late (slow peer / busy sender loop)
                continue
            reader.feed_data(stream[pos:pos + n])
            pos += n
            await asyncio.sleep(0)
        reader.feed_eof()

    ft = asyncio.ensure_future(feed())
    # read the way SocketServer / SocketClient do: poll with a short timeout and retry
    for _ in range(200):
        try:
            rid, data = await msock.read_record(reader, timeout=0.1)
            break
        except asyncio.TimeoutError:
            continue
    else:
        raise RuntimeError('record never arrived')
    await ft
    left = await reader.read()
    # the same record cut short: the first k bytes, then the peer closes. Nothing may be delivered.
    k = rng.choice([0, 1, max(0, hdr_end - 2), hdr_end - 1, hdr_end, min(len(wire) - 1, hdr_end + 1), len(wire) - 1,
                    rng.randrange(len(wire)), rng.randrange(len(wire))])
    k = max(0, min(k, len(wire) - 1))
    r2 = asyncio.StreamReader()
    cut = list(range(0, k, max(1, case['chunks']))) + [k]
    for a, b in zip(cut, cut[1:]):
        r2.feed_data(wire[a:b])
        await asyncio.sleep(0)
    r2.feed_eof()
    try:
        got = await msock.read_record(r2, timeout=1)
        cutres, cutwhat = 1, repr(got)[:100]
    except asyncio.IncompleteReadError:
        cutres, cutwhat = 0, 'IncompleteReadError'
    except BaseException as e:  # noqa
        cutres, cutwhat = 2, repr(e)[:100]
    return {'wire': list(wire), 'rid': rid, 'data': list(data), 'left': len(left), 'left_ok': left == bytes(case['rest']),
            'cut': k, 'cutres': cutres, 'cutwhat': cutwhat}


async def run_pickle_case(rng):
    """end-to-end through the encoders: arbitrary picklable objects and utf8 text"""
    from mpservice import socket as msock
    objs = [{'a': [1, 2, (3, None)], 'b': b'\n 3 pickle\n'}, 'text \n with newline', 12345678901234567890,
            [b'x' * rng.choice([0, 1, 70000])], ('tuple', 1.5, {'k': {1, 2}})]
    problems = []
    for o in objs:
        for enc in ('pickle',):
            w = FakeWriter()
            await msock.write_record(w, 'rid-1', o, encoder=enc)
            reader = asyncio.StreamReader()
            reader.feed_data(bytes(w.buf) + b'tail')
            rid, data = await msock.read_record(reader, timeout=5)
            if rid != 'rid-1' or data != o:
                problems.append(f'pickle round trip changed {o!r:.60}')
    w = FakeWriter()
    await msock.write_record(w, 'u', 'héllo\nwörld', encoder='utf8')
    reader = asyncio.StreamReader()
    reader.feed_data(bytes(w.buf))
    rid, data = await msock.read_record(reader, timeout=5)
    if data != 'héllo\nwörld':
        problems.append('utf8 round trip changed text')
    return problems


# ---- sampled loopback runs: multiplexing over connections with reordering latencies ---------

class FalsyValueError(ValueError):
    """a falsy exception object (container-like): still the handler's exception"""
    def __len__(self):
        return 0


class SlowPickle:
    """pickling this object takes 0.3 s: it keeps the client's event loop busy while another, partly written, large
    request is in flight on another connection"""

    def __init__(self, tag):
        self.tag = tag

    def __reduce__(self):
        time.sleep(0.3)
        return (SlowPickle, (self.tag,))


def run_mux_case(seed, n_requests=24, connections=3, problems=None):
    """real SocketServer (in a thread) + SocketClient over a unix socket; handler latency chosen per
    request so that responses are produced out of request order; every response must be the handler's
    function of the caller's own payload; stream must preserve input order."""
    import threading

    from mpservice.socket import SocketApplication, SocketClient, make_server
    rng = random.Random(seed)
    lat = {i: rng.choice([0.0, 0.0, 0.01, 0.03, 0.06]) for i in range(n_requests)}
    payloads = {i: (i, bytes(rng.randrange(256) for _ in range(rng.choice([0, 5, 300, 70000 if i % 11 == 0 else 9])))) for i in range(n_requests)}

    async def echo(data):
        if isinstance(data, SlowPickle):
            return ('slow', data.tag)
        i, blob = data
        await asyncio.sleep(lat[i])
        if i % 7 == 6:
            raise (FalsyValueError if i % 2 else ValueError)(i)
        return (i, len(blob), blob[:8], sum(blob) % 65521)

    app = SocketApplication()
    app.add_route('/echo', echo)
    path = os.path.join(tempfile.mkdtemp(prefix='c18'), 'sock')
    server = make_server(app, path=path)
    th = threading.Thread(target=lambda: asyncio.run(server.serve()), daemon=True)
    th.start()
    problems = problems if problems is not None else []
    # a second client of the same server, busy at the same time: each client must get the responses to its own requests
    other = {'out': None}

    def second_client():
        try:
            with SocketClient(path=path, num_connections=2, connection_timeout=20) as c2:
                xs = [payloads[i] for i in range(n_requests) if i % 7 != 6]
                got = list(c2.stream('/echo', xs, response_timeout=25))
                got += [c2.request('/echo', x, response_timeout=25) for x in xs[:5]]
                want = [(x[0], len(x[1]), x[1][:8], sum(x[1]) % 65521) for x in xs]
                other['out'] = 'ok' if got == want + want[:5] else f'second client: {len(got)} responses, not the results of its own requests'
        except Exception as e:  # noqa
            other['out'] = 'second client failed: ' + repr(e)[:160]
    th2 = threading.Thread(target=second_client, daemon=True)
    try:
        with SocketClient(path=path, num_connections=connections, connection_timeout=20) as client:
            th2.start()
            results = {}

            def one(i):
                try:
                    results[i] = client.request('/echo', payloads[i], response_timeout=30)
                except Exception as e:  # noqa
                    results[i] = e
            ths = [threading.Thread(target=one, args=(i,)) for i in range(n_requests)]
            for t in ths:
                t.start()
            for t in ths:
                t.join(60)
            for i in range(n_requests):
                blob = payloads[i][1]
                want = (i, len(blob), blob[:8], sum(blob) % 65521)
                r = results.get(i)
                if i % 7 == 6:
                    cls = FalsyValueError if i % 2 else ValueError
                    if not (type(r) is cls and r.args == (i,)):
                        problems.append(f'request {i}: expected its own {cls.__name__}({i}), got {r!r:.80}')
                elif r != want:
                    problems.append(f'request {i}: response {r!r:.80} is not the handler\'s result for its payload')
            # a large request in flight while the sender's loop is busy pickling another one
            big = (0, bytes(rng.randrange(256) for _ in range(1000)) * 6000)
            outs = list(client.stream('/echo', [big, SlowPickle(7), big], response_timeout=20))
            wantb = (0, len(big[1]), big[1][:8], sum(big[1]) % 65521)
            if outs != [wantb, ('slow', 7), wantb]:
                problems.append(f'large request + slow-pickling request: got {outs!r:.120}')
            # stream preserves order
            bad = [payloads[i] for i in range(n_requests) if i % 7 == 6][:4]
            yb = list(client.stream('/echo', bad, response_timeout=30, return_exceptions=True))
            if [(type(y), y.args) if isinstance(y, Exception) else y for y in yb] != \
                    [((FalsyValueError if x[0] % 2 else ValueError), (x[0],)) for x in bad]:
                problems.append(f'stream(return_exceptions=True) over failing requests {[x[0] for x in bad]} gave {yb!r:.120}')
            xs = [payloads[i] for i in range(n_requests) if i % 7 != 6]
            ys = list(client.stream('/echo', xs, response_timeout=30))
            wants = [(x[0], len(x[1]), x[1][:8], sum(x[1]) % 65521) for x in xs]
            if ys != wants:
                problems.append('stream() outputs are not the in-order results of its inputs')
            th2.join(60)
            if other['out'] != 'ok':
                problems.append(str(other['out'] or 'second client did not finish within 60 s'))
            # a request that arrives about 0.1 s after the last response on its connection (the responder's poll interval):
            # here the final '/shutdown', whose response must arrive like any other
            client.request('/echo', payloads[0], response_timeout=30)
            time.sleep(0.0995)
            try:
                client.request('/shutdown', response_timeout=3)
            except Exception as e:  # noqa
                problems.append(f'the response to the final /shutdown request never arrived ({e!r})')
    except Exception as e:  # noqa
        problems.append('loopback run failed: ' + repr(e)[:200])
    th.join(20)
    return problems


def run_pipe_case(seed):
    """named-pipe transport: objects intact and in order in both directions (two threads, one process each side
    is the documented use; here both ends live in one process on two threads)."""
    import threading

    from mpservice import pipe as mpipe
    rng = random.Random(seed)
    path = os.path.join(tempfile.mkdtemp(prefix='c18p'), 'p')
    msgs_a = [(i, bytes(rng.randrange(256) for _ in range(rng.choice([0, 3, 5000])))) for i in range(20)]
    msgs_b = [{'k': i, 'v': [None, 'x\n', i * 1.5]} for i in range(20)]
    got_a, got_b, problems = [], [], []

    def server_side():
        try:
            s = mpipe.Server(path)
            for m in msgs_b:
                s.send(m)
            for _ in msgs_a:
                got_a.append(s.recv())
        except Exception as e:  # noqa
            problems.append('pipe server: ' + repr(e)[:200])

    def client_side():
        try:
            c = mpipe.Client(path)
            for m in msgs_a:
                c.send(m)
            for _ in msgs_b:
                got_b.append(c.recv())
        except Exception as e:  # noqa
            problems.append('pipe client: ' + repr(e)[:200])

    ts = [threading.Thread(target=server_side, daemon=True), threading.Thread(target=client_side, daemon=True)]
    for t in ts:
        t.start()
    for t in ts:
        t.join(30)
    if any(t.is_alive() for t in ts):
        problems.append('pipe exchange did not finish within 30 s')
    elif not problems:
        if got_a != msgs_a:
            problems.append('client->server objects not intact / in order')
        if got_b != msgs_b:
            problems.append('server->client objects not intact / in order')
    return problems


def oracle(case, obs):
    if obs.get('crash'):
        return 'implementation crashed: ' + obs['crash']
    if case.get('kind') in ('mux', 'pipe', 'pickle'):
        return '; '.join(obs['problems']) if obs['problems'] else None
    if obs['rid'] != case['id']:
        return f"request id changed: {obs['rid']!r} != {case['id']!r}"
    if obs['data'] != case['payload']:
        return 'payload changed on the way'
    if not obs['left_ok']:
        return 'bytes following the record were consumed or altered'
    if obs.get('cutres', 0) != 0:
        return (f"a record cut after {obs['cut']} of {len(obs['wire'])} bytes (then end of stream) was not refused with "
                f"IncompleteReadError: {obs['cutwhat']}")
    return None


def impl_main(argv):
    what, seed, n, outp = argv[0], int(argv[1]), int(argv[2]), argv[3]
    rest = argv[4:]
    n_mux = int(rest.pop(0)) if rest and rest[0].isdigit() else 2
    corpus = json.load(open(rest[0])) if rest else []
    rng = random.Random(seed)
    cases = [c['cfg'] for c in corpus] + [gen_case(rng) for _ in range(n)]
    res = []
    loop = asyncio.new_event_loop()
    for c in cases:
        try:
            obs = loop.run_until_complete(run_frame_case(c))
        except BaseException as e:  # noqa
            obs = {'crash': repr(e)[:300]}
        res.append({'cfg': c, 'obs': obs, 'oracle': oracle(c, obs), 'strategy': 'frame', 'verdict': 'ok'})
    c = {'kind': 'pickle'}
    try:
        obs = {'problems': loop.run_until_complete(run_pickle_case(rng))}
    except BaseException as e:  # noqa
        obs = {'crash': repr(e)[:300], 'problems': []}
    res.append({'cfg': c, 'obs': obs, 'oracle': oracle(c, obs), 'strategy': 'pickle', 'verdict': 'ok'})
    for k in range(n_mux):
        c = {'kind': 'mux', 'seed': seed * 100 + k}
        try:
            probs = []
            done = threading.Event()

            def body(seed_=c['seed'], conn=1 + k % 3, probs=probs, done=done):
                try:
                    run_mux_case(seed_, connections=conn, problems=probs)
                except BaseException as e:  # noqa
                    probs.append('loopback run crashed: ' + repr(e)[:200])
                done.set()
            threading.Thread(target=body, daemon=True).start()
            if not done.wait(150):
                probs.append('the loopback run (leaving the client context included) had not ended after 150 s')
            obs = {'problems': list(probs)}
        except BaseException as e:  # noqa
            obs = {'crash': repr(e)[:300], 'problems': []}
        res.append({'cfg': c, 'obs': obs, 'oracle': oracle(c, obs), 'strategy': 'mux', 'verdict': 'ok'})
    c = {'kind': 'pipe', 'seed': seed}
    try:
        obs = {'problems': run_pipe_case(seed)}
    except BaseException as e:  # noqa
        obs = {'crash': repr(e)[:300], 'problems': []}
    res.append({'cfg': c, 'obs': obs, 'oracle': oracle(c, obs), 'strategy': 'pipe', 'verdict': 'ok'})
    json.dump(res, open(outp, 'w'))
    sys.stdout.flush()
    os._exit(0)


def coq_case(r):
    from harness.core import clist, cnat
    c, o = r['cfg'], r['obs']
    b = lambda l: clist(l, cnat)  # noqa
    rid = list(c['id'].encode())
    return (f"({b(rid)}, {b(list(b'none'))}, {b(c['payload'])}, {b(c['rest'])}, {b(o['wire'])}, "
            f"({b(list(o['rid'].encode()))}, {b(o['data'])}, {cnat(o['left'])}), ({cnat(o.get('cut', 0))}, {cnat(o.get('cutres', 0))}))")


TRUSTED = [
    'Coq 8.16.1 kernel + vm_compute; stdlib DecimalNat (Unsigned.of_to) for the decimal length field; no axioms',
    'hand-written model coq/Model/SockFrame.v; asyncio.StreamReader.readuntil/readexactly are chunking-independent (exercised with random chunkings)',
    'pickle / utf8 encoders and the asyncio transports are stdlib (trusted)',
]
ASSUME = [
    'request ids and encoder names are non-empty and free of whitespace (the client uses id(future), an int)',
    'multiplexing (responses matched to requests by id over 1-3 connections) and the named-pipe transport are covered by sampled loopback runs with reordering handler latencies, not by a theorem',
]


def check(tier, seed, replay=None):
    from harness import core
    part = core.Part('frames', 'harness.props.c18', 'gen', 300, 3000, None, None,
                     lambda r: (r['oracle'], None) if r['oracle'] else None,
                     lambda r: 'id' in r['cfg'] and (10 in r['cfg']['payload'] or len(r['cfg']['payload']) == 0 or len(r['cfg']['rest']) > 0),
                     key=lambda r: json.dumps(r['cfg'], sort_keys=True),
                     describe=lambda r: {'cfg': {k: (v if not isinstance(v, list) or len(v) < 40 else f'<{len(v)} bytes>') for k, v in r['cfg'].items()},
                                         'observed': {k: (v if not isinstance(v, list) or len(v) < 40 else f'<{len(v)} bytes>') for k, v in r['obs'].items()}},
                     extra_args=['2' if tier == 'quick' else '8'])

    def post(all_results, out, cov):
        rs = [r for r in all_results.get('frames', []) if 'id' in r['cfg'] and not r['obs'].get('crash') and len(r['cfg']['payload']) <= 400]
        bad, problem = core.tv_eval(PROP, 'DriverSock', [coq_case(r) for r in rs], shard=100)
        if problem:
            out.violation('correspondence could not be evaluated: ' + problem,
                          {'stage': 'correspondence', 'problem': problem}, found_input=False)
        for i, code in bad:
            r = rs[i]
            if r['oracle']:
                continue
            out.violation(f'model/implementation correspondence broken (DriverSock.check_case code {code}): wire bytes or decoded '
                          f'record differ from Model.SockFrame',
                          {'stage': 'correspondence', 'case': {'cfg': r['cfg']}, 'observed': r['obs'],
                           'theorem_or_correspondence': 'DriverSock.check_case'}, found_input=False)
        cov['traces_validated_against_impl'] = 0 if problem else len(rs) - len(bad)
        cov['correspondence_mismatches'] = len(bad)
        allr = all_results.get('frames', [])
        cov['loopback_mux_runs'] = sum(1 for r in allr if r['cfg'].get('kind') == 'mux')
        cov['pipe_runs'] = sum(1 for r in allr if r['cfg'].get('kind') == 'pipe')
        cov['payload_sizes'] = {'0': sum(1 for r in allr if 'payload' in r['cfg'] and len(r['cfg']['payload']) == 0),
                                '1-400': sum(1 for r in allr if 'payload' in r['cfg'] and 0 < len(r['cfg']['payload']) <= 400),
                                '>400': sum(1 for r in allr if 'payload' in r['cfg'] and len(r['cfg']['payload']) > 400)}

    return core.generic_check(
        PROP, tier, seed, [part], TRUSTED, ASSUME,
        rule='framing: random request ids, payloads (random bytes, newline-heavy, header-like text, empty, utf8, 1-3 kB) and '
             'following bytes; the real write_record output is compared byte for byte with the model, and the real read_record (through '
             'an asyncio.StreamReader fed in random chunks) with the model\'s decode, inside Coq for payloads <= 400 bytes; every record is also cut short at a random position (header boundaries favoured) and followed by end-of-stream: the real read_record must raise IncompleteReadError exactly where the model returns nothing; plus pickle/utf8 '
             'end-to-end, 2 (quick) / 8 (thorough) loopback client+server runs over a unix socket with 1-3 connections, 24 concurrent '
             'requests with reordering latencies, failing handlers, 70 kB payloads and stream(), and one named-pipe exchange. '
             'non-trivial = payload contains a newline or is empty, or bytes follow the record; distinct = distinct case',
        replay=replay, post=post)


if __name__ == '__main__':
    impl_main(sys.argv[1:])
