"""C12 — Process and Thread objects report how their target really ended: differential correspondence of
real mpservice Process / Thread runs (with kill signals at controlled phases) with coq/Model/ProcOutcome.v."""
from __future__ import annotations

import json
import os
import random
import signal
import sys
import time

PROP = 'C12'


class ChildErr(Exception):
    def __init__(self, code):
        super().__init__(code)
        self.code = code


class BlockingErr(Exception):
    """pickling this exception (second send of the child) signals the parent and blocks: 'between the two sends'"""

    def __init__(self, code, ready=None):
        super().__init__(code)
        self.code = code
        self.ready = ready

    def __reduce__(self):
        if self.ready is not None:
            self.ready.set()
            time.sleep(60)
        return (BlockingErr, (self.code,))


class TwoArgErr(Exception):
    """an exception class that cannot be built from a single argument"""
    def __init__(self, code, extra):
        super().__init__(code, extra)
        self.code = code


class ConvertErr(Exception):
    """an exception whose constructor converts its argument: ConvertErr('some text') raises ValueError"""
    def __init__(self, limit):
        super().__init__(limit)
        self.limit = int(limit)
        self.code = self.limit


class FalsyErr(Exception):
    """an exception whose truth value is false"""
    def __init__(self, code):
        super().__init__(code)
        self.code = code

    def __bool__(self):
        return False


def _boom(code):
    raise ChildErr(code)


class BadLoad:
    """a return value that can be pickled in the child but whose unpickling raises in the parent"""
    def __init__(self, code):
        self.code = code

    def __reduce__(self):
        return (_boom, (self.code,))


MID_MARK = b'KILLED-IN-THE-MIDDLE-OF-THIS-MESSAGE'


def _install_partial_send(ready):
    """child side, phase 'mid': the message carrying the marked result is cut after its length prefix - the child then
    signals the parent and waits to be killed, as if the kill had landed in the middle of a large write"""
    import multiprocessing.connection as mc
    import struct
    orig = mc.Connection._send_bytes

    def send_bytes(self, buf):
        if MID_MARK in bytes(buf[:4096]):
            self._send(struct.pack('!i', len(buf)))
            ready.set()
            time.sleep(60)
        return orig(self, buf)
    mc.Connection._send_bytes = send_bytes


def _hold(ready):
    ready.set()
    time.sleep(60)


def target(kind, arg, phase, ready):
    import multiprocessing.util
    if phase == 'during':
        ready.set()
        time.sleep(60)
    if phase == 'after':
        multiprocessing.util.Finalize(None, _hold, args=(ready,), exitpriority=100)
    if phase == 'mid':
        _install_partial_send(ready)
        return MID_MARK * 3
    if kind == 0:
        return arg
    if kind == 1:
        if phase == 'between':
            raise BlockingErr(arg, ready)
        raise ChildErr(arg)
    if kind == 2:
        sys.exit()
    if kind == 3:
        sys.exit(arg)
    if kind == 4:
        sys.exit('bye')
    if kind == 8:
        raise TwoArgErr(arg, 'x')
    if kind == 9:
        return BadLoad(arg)
    if kind == 10:
        raise FalsyErr(arg)
    # endings in which the child is gone without having delivered its outcome
    import threading
    if kind == 5:
        e = ChildErr(arg)
        e.lock = threading.Lock()        # cannot be pickled: the child's second send fails
        raise e
    if kind == 6:
        return threading.Lock()          # cannot be pickled: the first send fails
    os._exit(arg)


def thread_target(kind, arg):
    if kind == 0:
        return arg
    if kind == 1:
        raise ChildErr(arg)
    if kind == 8:
        raise TwoArgErr(arg, 'x')
    if kind == 10:
        raise FalsyErr(arg)
    if kind == 11:
        raise ConvertErr(arg)
    if kind == 2:
        sys.exit()
    if kind == 3:
        sys.exit(arg)
    sys.exit('bye')


def classify(outcome):
    """('ret', v) / ('exc', e) -> (future kind, payload kind, value)"""
    how, x = outcome
    if how == 'ret':
        return [1, 0, 0] if x is None else [1, 1, x]
    if isinstance(x, (ChildErr, BlockingErr, TwoArgErr, FalsyErr, ConvertErr)):
        return [2, 2, x.code]
    if isinstance(x, SystemExit):
        return [2, 3, x.code] if isinstance(x.code, int) else [2, 4, 0]
    if isinstance(x, OSError):
        return [2, 5, x.errno]
    return [2, 9, 0]


def call(fn, *a):
    try:
        return ['ret', fn(*a)]
    except BaseException as e:  # noqa
        return ['exc', e]


def call_wd(fn, *a, pre=None):
    """call under a watchdog: an accessor that does not return within 25 s is reported, not waited for"""
    import threading
    box = []
    def body():
        if pre is not None:
            pre()    # the kill, delivered by the thread that then calls the accessor at once
        box.append(call(fn, *a) + [fn.__self__.done()])
    t = threading.Thread(target=body, daemon=True)
    t.start()
    t.join(25)
    if not box:
        return ['exc', TimeoutError('WATCHDOG: accessor did not return within 25 s'), False]
    return box[0]


def run_process_case(c):
    from mpservice.multiprocessing import MP_SPAWN_CTX, Process, as_completed, wait
    ready = MP_SPAWN_CTX.Event()
    p = Process(target=target, args=(c['kind'], c['arg'], c['phase'], ready), name=f"c12-{c['kind']}-{c['phase']}")
    p.start()
    if c['phase'] == 'before':
        os.kill(p.pid, c['sig'])
    elif c['phase'] != 'none':
        if not ready.wait(30):
            return {'problem': 'child never reached the kill point'}
        time.sleep(c.get('gap', 0.05))
        if c.get('jt', 20) is not None or c['first'] not in ('join', 'result', 'exception'):
            os.kill(p.pid, c['sig'])
    obs = {}
    t0 = time.time()
    first = c['first']
    order = [first] + [a for a in ('join', 'result', 'exception', 'wait', 'as_completed') if a != first]
    res = {}
    # 'jt': the timeout given to join/result/exception; None = wait without limit (under a watchdog), which is how
    # terminate()/kill followed by join() is normally written
    jt = c.get('jt', 20)
    for a in order:
        pre = (lambda: os.kill(p.pid, c['sig'])) if (jt is None and a == first and c['phase'] == 'during') else None
        if a == 'join':
            res[a] = call_wd(p.join, jt, pre=pre)
        elif a == 'result':
            res[a] = call_wd(p.result, jt, pre=pre)
        elif a == 'exception':
            res[a] = call_wd(p.exception, jt, pre=pre)
        elif a == 'wait':
            d, nd = wait([p], timeout=20)
            res[a] = ['ret', len(d)]
        else:
            try:
                res[a] = ['ret', len(list(as_completed([p], timeout=20)))]
            except BaseException as e:  # noqa
                res[a] = ['exc', e]
        if a == first:
            # done() as seen by the calling thread at the moment the accessor came back
            obs['done_after_first'] = res[a][2] if len(res[a]) > 2 else p.done()
        res[a] = res[a][:2]
    obs['elapsed'] = time.time() - t0
    obs['done'] = p.done()
    obs['exitcode'] = p.exitcode
    obs['alive'] = p.is_alive()
    obs['acc'] = {k: [v[0], repr(v[1])[:80]] for k, v in res.items()}
    # the future as seen through result()
    obs['future'] = classify(res['result'])
    # agreement
    problems = []
    r, j, e = res['result'], res['join'], res['exception']
    if r[0] == 'ret' and c['phase'] == 'none' and obs['exitcode'] != 0:      # nobody killed it: a normal return means exit code 0
        problems.append(f'result() returned {r[1]!r:.40} although the process ended with exit code {obs["exitcode"]}')
    if r[0] == 'ret':
        if j[0] != 'ret':
            problems.append(f'result() returned but join() raised {j[1]!r}')
        if not (e[0] == 'ret' and e[1] is None):
            problems.append(f'result() returned but exception() gave {e[1]!r}')
    else:
        if isinstance(r[1], TimeoutError):
            problems.append('result() timed out')
        if not (j[0] == 'exc' and type(j[1]) is type(r[1])):
            problems.append(f'result() raised {r[1]!r} but join() gave {j!r:.80}')
        if not (e[0] == 'ret' and type(e[1]) is type(r[1])) and not (e[0] == 'exc' and type(e[1]) is type(r[1])):
            problems.append(f'result() raised {r[1]!r} but exception() gave {e!r:.80}')
    if jt is None and first in ('join', 'result', 'exception') and not obs['done_after_first']:
        problems.append(f'{first}() without a timeout came back ({res[first]!r:.60}) before the process was done')
    if res['wait'] != ['ret', 1]:
        problems.append(f'wait() did not report the process as done within 20 s: {res["wait"]!r:.80}')
    if res['as_completed'] != ['ret', 1]:
        problems.append(f'as_completed() did not yield the process within 20 s: {res["as_completed"]!r:.80}')
    if not obs['done'] or obs['alive']:
        problems.append('process not done after join')
    if r[0] == 'exc' and c['phase'] == 'none' and c['kind'] == 1:
        from mpservice.multiprocessing.remote_exception import get_remote_traceback, is_remote_exception
        if not is_remote_exception(r[1]) or 'target' not in get_remote_traceback(r[1]):
            problems.append('re-raised exception lost the child traceback text')
    obs['problems'] = problems
    return obs


def start_wait_race(trials=2500):
    """wait() / as_completed() called as soon as start() has returned (the new thread may not have begun to run)"""
    from mpservice.threading import Thread, as_completed, wait
    old = sys.getswitchinterval()
    sys.setswitchinterval(1e-6)
    bad = None
    try:
        for i in range(trials):
            t = Thread(target=lambda: None)
            t.start()
            try:
                if i % 2:
                    wait([t], timeout=10)
                else:
                    list(as_completed([t], timeout=10))
            except Exception as e:  # noqa
                bad = f'trial {i}: {"wait" if i % 2 else "as_completed"}([t]) right after t.start() raised {e!r}'
            t.join()
            if bad:
                break
    finally:
        sys.setswitchinterval(old)
    return bad


def run_thread_case(c):
    from mpservice.threading import Thread, as_completed, wait
    t = Thread(target=thread_target, args=(c['kind'], c['arg']))
    t.handle_exception = staticmethod(lambda exc: None)
    t.start()
    if c.get('race'):
        r = start_wait_race()
        if r:
            t.join()
            return {'future': classify(call_wd(t.result, 10)[:2]), 'done': True, 'problems': [r]}
    res = {'join': call_wd(t.join, 10)[:2], 'result': call_wd(t.result, 10)[:2], 'exception': call_wd(t.exception, 10)[:2]}
    d, nd = wait([t], timeout=10)
    obs = {'future': classify(res['result']), 'done': t.done(), 'problems': []}
    for a, v in res.items():
        if v[0] == 'exc' and 'WATCHDOG' in repr(v[1]):
            obs['problems'].append(f'{a}() of the finished thread did not return within 25 s')
    if len(d) != 1 or len(list(as_completed([t], timeout=10))) != 1:
        obs['problems'].append('wait/as_completed did not report the finished thread')
    r, j, e = res['result'], res['join'], res['exception']
    if r[0] == 'ret' and (j[0] != 'ret' or e != ['ret', None]):
        obs['problems'].append('thread accessors disagree on a normal ending')
    if r[0] == 'exc' and not (j[0] == 'exc' and type(j[1]) is type(r[1]) and e[0] == 'ret' and type(e[1]) is type(r[1])):
        obs['problems'].append('thread accessors disagree on a failing ending')
    return obs


def gen_cases(rng, n):
    endings = [(0, 7), (1, 3), (2, 0), (3, 0), (3, 4), (4, 0)]
    cases = []
    for k, a in endings:
        cases.append({'kind': k, 'arg': a, 'phase': 'none', 'sig': 15})
    for ph in ('before', 'during'):
        for sg in (15, 9, 10):
            for k, a in (endings if n >= 60 else [rng.choice(endings), rng.choice(endings)]):
                cases.append({'kind': k, 'arg': a, 'phase': ph, 'sig': sg})
    for k, a in ((5, 2), (6, 0), (7, 3), (7, 0), (7, 1), (8, 6), (9, 4), (10, 5)):
        cases.append({'kind': k, 'arg': a, 'phase': 'none', 'sig': 15})
    for sg in (15, 9):
        cases.append({'kind': 1, 'arg': 5, 'phase': 'between', 'sig': sg})
    for sg in (15, 9, 10):
        cases.append({'kind': 0, 'arg': 0, 'phase': 'mid', 'sig': sg})
    for (k, a) in ((0, 8), (1, 6)):
        for sg in (15, 9):
            cases.append({'kind': k, 'arg': a, 'phase': 'after', 'sig': sg})
    for c in cases:
        c['thread'] = False
        c['first'] = rng.choice(['join', 'result', 'exception', 'wait', 'as_completed'])
    # kill followed at once by an accessor without a timeout (terminate(); join()): the accessor must not return before
    # the process is done (defect X: the collector thread reaped the child under join()'s feet)
    for sg in (15, 9):
        for i in range(24 if n >= 60 else 10):
            k, a = rng.choice(endings)
            cases.append({'kind': k, 'arg': a, 'phase': 'during', 'sig': sg, 'thread': False, 'gap': 0, 'jt': None,
                          'first': ['join', 'result', 'exception', 'join'][i % 4]})
    for k, a in endings + [(8, 6), (10, 5), (11, 5)]:
        cases.append({'kind': k, 'arg': a, 'phase': 'none', 'sig': 15, 'thread': True, 'first': 'join'})
    cases.append({'kind': 0, 'arg': 9, 'phase': 'none', 'sig': 15, 'thread': True, 'first': 'join', 'race': True})
    # every ending without a kill and the kills at the discrete points of the protocol run in every tier; the rest is sampled
    base = [c for c in cases if c['phase'] in ('none', 'mid', 'between', 'after')]
    rest = [c for c in cases if c['phase'] not in ('none', 'mid', 'between', 'after')]
    rng.shuffle(rest)
    cases = base + rest
    return cases[:n] if n < len(cases) else cases


def oracle(c, obs):
    if obs.get('problem'):
        return obs['problem']
    if obs.get('crash'):
        return 'harness crashed: ' + obs['crash']
    if obs['problems']:
        return '; '.join(obs['problems'])
    return None


def impl_main(argv):
    what, seed, n, outp = argv[0], int(argv[1]), int(argv[2]), argv[3]
    corpus = json.load(open(argv[4])) if len(argv) > 4 else []
    rng = random.Random(seed)
    cases = [c['cfg'] for c in corpus] + gen_cases(rng, n)
    res = []
    import gc
    gc.disable()      # collections only at safe points (CPython 3.12.1 thread-start / finalizer deadlock; see harness/props/c14.py)
    # the no-timeout cases race the caller against mpservice's own helper threads; the window only opens when threads are
    # preempted, so they run last, under CPU load (2 busy processes per core, each ending by itself after 150 s)
    cases = [c for c in cases if c.get('jt', 20) is not None] + [c for c in cases if c.get('jt', 20) is None]
    burners = []
    for c in cases:
        gc.collect()
        if c.get('jt', 20) is None and not burners:
            import subprocess
            code = 'import time\nt = time.time()\nwhile time.time() - t < 150: pass'
            burners = [subprocess.Popen([sys.executable, '-S', '-c', code]) for _ in range(2 * (os.cpu_count() or 4))]
            time.sleep(0.5)
        try:
            obs = run_thread_case(c) if c.get('thread') else run_process_case(c)
        except BaseException as e:  # noqa
            obs = {'crash': repr(e)[:300], 'problems': [], 'future': [0, 0, 0]}
        res.append({'cfg': c, 'obs': obs, 'oracle': oracle(c, obs), 'strategy': 'thread' if c.get('thread') else c['phase'],
                    'verdict': 'ok'})
    for b in burners:
        b.kill()
    for b in burners:
        b.wait()
    json.dump(res, open(outp, 'w'), default=str)
    sys.stdout.flush()
    os._exit(0)


def coq_case(r):
    from harness.core import cbool, cnat, cz
    c, o = r['cfg'], r['obs']
    ph = {'none': 0, 'before': 1, 'during': 2, 'between': 3, 'after': 4, 'mid': 2}[c['phase']]    # 'mid' (killed while writing a message): nothing complete is delivered, as for 'during'
    f = o['future']
    return (f"({cnat(c['kind'])}, {cz(c['arg'])}, {cnat(ph)}, {cz(c['sig'])}, ({cnat(f[0])}, {cnat(f[1])}, {cz(f[2] if isinstance(f[2], int) else 0)}), "
            f"{cbool(c.get('thread', False))})")


TRUSTED = [
    'Coq 8.16.1 kernel + vm_compute; no native_compute; no axioms',
    'hand-written model coq/Model/ProcOutcome.v; the OS delivers EOF on the result pipe when the child is gone and reports exit code -signal',
    'kill phases are made discrete by the test targets (blocking target, a blocking __reduce__ for "between the sends", a multiprocessing.util.Finalize hook for "after both sends")',
]
ASSUME = ['real processes cannot be scheduled: each case is one real run with a watchdog; what is compared is the resolved future and the mutual agreement of join/result/exception/done/exitcode/wait/as_completed']


def check(tier, seed, replay=None):
    from harness import core
    part = core.Part('proc', 'harness.props.c12', 'gen', 60, 100, None, None,
                     lambda r: (r['oracle'], None) if r['oracle'] else None,
                     lambda r: r['cfg']['phase'] != 'none' or r['cfg']['kind'] != 0,
                     key=lambda r: json.dumps(r['cfg'], sort_keys=True),
                     describe=lambda r: {'cfg': r['cfg'], 'observed': r['obs']})

    def post(all_results, out, cov):
        rs = [r for r in all_results.get('proc', []) if not r['obs'].get('crash') and not r['obs'].get('problem')]
        bad, problem = core.tv_eval(PROP, 'DriverProc', [coq_case(r) for r in rs], shard=100)
        if problem:
            out.violation('correspondence could not be evaluated: ' + problem,
                          {'stage': 'correspondence', 'problem': problem}, found_input=False)
        for i, code in bad:
            r = rs[i]
            if r['oracle']:
                continue
            out.violation(f'model/implementation correspondence broken (DriverProc.check_case code {code}): the future the parent '
                          f'ends up with differs from Model.ProcOutcome for this ending/kill phase/signal',
                          {'stage': 'correspondence', 'case': {'cfg': r['cfg']}, 'observed': r['obs'],
                           'theorem_or_correspondence': 'DriverProc.check_case'}, found_input=False)
        cov['traces_validated_against_impl'] = 0 if problem else len(rs) - len(bad)
        cov['correspondence_mismatches'] = len(bad)
        cov['phases'] = {}
        for r in all_results.get('proc', []):
            k = 'thread' if r['cfg'].get('thread') else r['cfg']['phase']
            cov['phases'][k] = cov['phases'].get(k, 0) + 1
        cov['exhaustive_over'] = 'endings x (no kill); sampled endings x {before,during} x {SIGTERM,SIGKILL,SIGUSR1}; raise x between x {TERM,KILL}; {return,raise} x after x {TERM,KILL}; 6 thread endings'

    return core.generic_check(
        PROP, tier, seed, [part], TRUSTED, ASSUME,
        rule='enumeration of endings (return, raise, sys.exit(), sys.exit(0), sys.exit(4), sys.exit("bye")) x kill phase (none, before the '
             'target, during, between the two sends, after both sends) x signal (SIGTERM, SIGKILL, SIGUSR1; SIGINT is not a kill for a Python child: it raises KeyboardInterrupt in the target) x first accessor used, on real '
             'mpservice Process objects (30 real runs incl. 6 Thread endings); observed future compared with the model inside Coq; the oracle '
             'requires all accessors, wait and as_completed to return within 20 s and to agree. non-trivial = not a plain normal return; '
             'distinct = distinct case',
        replay=replay, post=post)


if __name__ == '__main__':
    impl_main(sys.argv[1:])
