"""C04 — a failing request fails alone, with its original error."""
import json

from harness import core
from harness import scen_ens as se
from harness import scen_server as sv
from harness import scen_stack as st
from harness.props import c02, c06

PROP = 'C04'

TRUSTED = c02.TRUSTED      # includes the real-process part's description
ASSUME = [
    'theorems: Server layer and Ensemble catalog (ids distinct); failure sites preprocess / call / ensemble member / stage index, batching on/off and concurrent callers are enumerated by the full-stack scheduled runs and judged by the oracle',
    'exceptions cross only thread boundaries in these runs; the process-boundary behaviour of RemoteException is C15',
]


def stack_oracle(r):
    v = c02.stack_oracle(r)
    if v:
        return v
    # every delivered exception is of the original class, carries the injected code and shows its failure site
    for cyc in r['cycles']:
        for x, d in (cyc.get('exc_details') or {}).items():
            got = cyc['results'].get(x)
            if not got or got[0] != 'err':
                continue
            if d['cls'] not in ('StageErr', 'PreErr', 'FalsyStageErr', 'FalsyPreErr'):
                return (f'request {x} failed with {d["cls"]}{d["args"]} instead of the worker\'s own exception type', None)
            if d['args'] != [got[1]]:
                return (f'request {x}: exception args {d["args"]} differ from the injected failure code {got[1]}', None)
            if not d['site']:
                return (f'request {x}: the delivered {d["cls"]} does not carry the traceback of its failure site', None)
    return None


def has_failures(t):
    if t['t'] == 'leaf':
        return bool(t['fail'] or t['pre_fail'])
    return any(has_failures(c) for c in t['c'])


def parts():
    return [
        core.Part('stack', 'harness.scen_stack', 'stack', 350, 6000, None, None, stack_oracle,
                  lambda r: has_failures(r['cfg']['tree']) and sum(len(c['xs']) for c in r['cfg']['callers']) >= 2,
                  key=lambda r: json.dumps(r['cfg'], sort_keys=True) + str(r['decisions'][:80]),
                  describe=lambda r: {k: r.get(k) for k in ('cfg', 'strategy', 'verdict', 'cycles', 'blocked')}),
        core.Part('ensemble', 'harness.scen_ens', 'ens', 200, 4000, 'DriverEns', se.coq_case, c02.ens_oracle,
                  lambda r: len(r['cfg']['reqs']) >= 2 and bool(r['cfg']['fail']), shard=150, extra_args=['unique'],
                  describe=lambda r: {k: r.get(k) for k in ('cfg', 'strategy', 'verdict', 'outs', 'blocked')}),
        core.Part('server', 'harness.scen_server', 'server', 150, 3000, 'DriverServer', sv.coq_server_case,
                  c02.server_oracle, lambda r: any(o and o[0] == 'answered-exc' for o in r['outcomes']) and
                  any(o and o[0] == 'answered' for o in r['outcomes']), shard=150,
                  describe=lambda r: {k: r.get(k) for k in ('cfg', 'strategy', 'verdict', 'outcome', 'outcomes')}),
        __import__('harness.scen_procstack', fromlist=['part']).part(8, 60, calls_only=True),
        # real Server / AsyncServer over thread and process servlets: a failing request (incl. falsy, StopIteration, builtin TimeoutError
        # and un-rebuildable exception objects) fails alone; the other callers get their own results
        __import__('harness.scen_backlog', fromlist=['part']).part(14, 150),
    ]


def check(tier, seed, replay=None):
    def post(all_results, out, cov):
        rs = all_results.get('stack', [])
        n_err = sum(1 for r in rs for c in r['cycles'] for v in c['results'].values() if v and v[0] == 'err')
        n_ens = sum(1 for r in rs for c in r['cycles'] for v in c['results'].values() if v and v[0] == 'ens')
        n_ok = sum(1 for r in rs for c in r['cycles'] for v in c['results'].values() if v and v[0] == 'ok')
        cov['stack_outcomes'] = {'ok': n_ok, 'own exception': n_err, 'EnsembleError': n_ens}
        cov['stack_batched_failures'] = sum(1 for r in rs if any(isinstance(b, list) and len(b) > 1 for _, b in r['calls']) and st.check_results(r) == [] and c02.has_ensemble(r['cfg']['tree']) is not None)
    return core.generic_check(
        PROP, tier, seed, parts(), TRUSTED, ASSUME,
        rule='(stack) random servlet trees with failing inputs at random sites (call, preprocess, which ensemble member / stage), '
             'batch sizes 0/1/3, 1-4 concurrent callers, under scheduled interleavings; each outcome must be the sequential meaning of the '
             'tree for that request alone (a failing batched call fails exactly its batch), delivered exceptions must have the original '
             'class, args and failure-site traceback; (ensemble, server) trace-validated model runs with failures. non-trivial = failures '
             'present and >= 2 requests; distinct = distinct (configuration, schedule prefix)',
        replay=replay, post=post)
