"""C10 — tee forks see identical streams and cannot wedge each other."""
from harness import core
from harness import scen_tee as st
from harness.events import OPS

PROP = 'C10'

TRUSTED = [
    'Coq 8.16.1 kernel + vm_compute (trace replay, refutation witnesses); no native_compute; no axioms',
    'hand-written model coq/Model/Tee.v (one step per access to head.value, the source lock, the source, the window queue, a box\'s next/n/lock)',
    'trace validation: the real tee()/Fork.__next__ run under harness/detsched.py with TeeX.next/n, head.value, the locks and the window queue instrumented through mpservice.streamer._tee\'s module globals; every logged run is replayed event by event in the model',
]
ASSUME = [
    'every fork is consumed by its own thread and keeps being consumed',
    'the window bound (C10_tee_window) and fork_prefix are theorems and also oracle checks on every explored run; liveness is only refuted, not proved',
]

I_KEY = 'C10-I-first-element-path-takes-lock-unconditionally'
JK_KEY = 'C10-JK-source-failure-handling'


def source_raised(r):
    return any(op == OPS['src_next'] and val <= -1000 for _, op, val, _ in r['events'])


def oracle(r):
    if r['verdict'] == 'replay-divergence':
        return None
    cfg = r['cfg']
    kinds = [k for k, _ in cfg['src']]
    xs = [v for k, v in cfg['src'][:kinds.index('e')]] if 'e' in kinds else [v for _, v in cfg['src']]
    fail = cfg['src'][kinds.index('e')][1] if 'e' in kinds else None
    key = JK_KEY if source_raised(r) else None
    if r['verdict'] in ('deadlock', 'step-bound') and key is None and \
            any(w.startswith('acquire(') for _, w in r['blocked']) and any('put(buffer)' in w for _, w in r['blocked']):
        key = I_KEY       # with 3 forks the third one polls the lock forever: the hang shows up as a livelock
    if r['verdict'] == 'deadlock':
        return (f'hang: no fork can move; blocked = {r["blocked"]}', key)
    if r['verdict'] != 'ok':
        return (f'forks never finish ({r["verdict"]}): ends = {r["ends"]}, blocked/waiting = {r["blocked"]}', key)
    for i in range(cfg['nforks']):
        want_end = ['raised', fail] if fail is not None else ['finished']
        if r['got'][i] != xs or r['ends'][i] != want_end:
            return (f'fork {i} received {r["got"][i]} and ended {r["ends"][i]}; the source yields {xs} and then '
                    f'{"raises " + str(fail) if fail is not None else "ends"}', key)
    n_data = sum(1 for k in kinds if k == 'd')
    if r['pulled'] > n_data:
        return (f'source pulled {r["pulled"]} times for {n_data} elements', key)
    if r['window_max'] > cfg['bufsize'] + 2:
        return (f'source ran {r["window_max"]} elements ahead of the slowest fork (buffer_size {cfg["bufsize"]} + 2 allowed)', key)
    return None


def nontrivial(r):
    # both forks made progress in an interleaved way: at least 3 switches between forks in the event trace
    sw = sum(1 for a, b in zip(r['events'], r['events'][1:]) if a[0] != b[0])
    return len(r['cfg']['src']) >= 2 and sw >= 3


def parts():
    return [core.Part('tee', 'harness.scen_tee', 'tee', 400, 8000, 'DriverTee', st.coq_case, oracle, nontrivial, shard=100,
                      describe=lambda r: {k: r.get(k) for k in ('cfg', 'strategy', 'verdict', 'ends', 'got', 'blocked', 'pulled', 'window_max')})]


def check(tier, seed, replay=None):
    def post(all_results, out, cov):
        rs = all_results.get('tee', [])
        cov['runs_with_source_failure'] = sum(1 for r in rs if source_raised(r))
        cov['max_window_minus_bufsize'] = max([r['window_max'] - r['cfg']['bufsize'] for r in rs] or [0])
        cov['verdicts'] = {v: sum(1 for r in rs if r['verdict'] == v) for v in ('ok', 'deadlock', 'step-bound')}
    return core.generic_check(
        PROP, tier, seed, parts(), TRUSTED, ASSUME,
        rule='random configurations (2-3 forks, buffer_size 2-3, source length 0,1,2,3, window+1, +2, +4, optional source failure at a '
             'random position) x schedule strategies (random, PCT, greedy fork orders, greedy+flips) with a yield point at every access '
             'to a shared attribute; each run is classified (ok / deadlock / never finishes) and replayed in the Coq model; the oracle '
             'compares each fork\'s list and ending with the source, the pull count and the look-ahead over the slowest fork. '
             'non-trivial = at least 2 elements and at least 3 switches between forks; distinct = distinct (configuration, trace)',
        replay=replay, post=post)
