"""C14 — proxy calls behave like direct calls on the hosted object.

impl side (python -m harness.props.c14 gen <seed> <n> <out.json> [corpus]): random sequences of list / dict / Value /
custom-class operations (including ones that raise) are issued through several proxies of the same hosted objects - the
original proxies, unpickled copies, a second thread, a second process - on a real ServerProcess, and simultaneously applied
directly to local objects of the same kinds."""
from __future__ import annotations

import json
import os
import pickle
import queue
import random
import sys
import threading
import time

PROP = 'C14'


def gen_ops(rng, n):
    """requests (object id, operation); ids 0 list, 1 dict, 2 Value, 3 custom class, 4 Namespace, >= 5 managed lists"""
    reqs = []
    nobj = 5
    small = lambda: rng.randrange(-3, 9)  # noqa
    for _ in range(n):
        kind = rng.choice(['list'] * 5 + ['dict'] * 4 + ['value', 'factory', 'factory', 'ns', 'ns'])
        if kind == 'list':
            oid = rng.choice([0] + list(range(5, nobj)))
            k = rng.choice(['append', 'append', 'extend', 'insert', 'pop', 'popat', 'remove', 'index', 'count', 'len', 'get', 'set',
                            'del', 'contains', 'reverse', 'sort', 'add', 'mul', 'imul', 'iadd', 'iter', 'extself', 'iaddself'])
            op = {'append': lambda: [k, small()], 'extend': lambda: [k, [small() for _ in range(rng.randrange(0, 4))]],
                  'insert': lambda: [k, rng.randrange(-8, 9), small()], 'pop': lambda: [k], 'popat': lambda: [k, rng.randrange(-7, 8)],
                  'remove': lambda: [k, small()], 'index': lambda: [k, small()], 'count': lambda: [k, small()], 'len': lambda: [k],
                  'get': lambda: [k, rng.randrange(-7, 8)], 'set': lambda: [k, rng.randrange(-7, 8), small()],
                  'del': lambda: [k, rng.randrange(-7, 8)], 'contains': lambda: [k, small()], 'reverse': lambda: [k], 'sort': lambda: [k],
                  'add': lambda: [k, [small() for _ in range(rng.randrange(0, 3))]], 'mul': lambda: [k, rng.randrange(-1, 4)],
                  'extself': lambda: [k], 'iaddself': lambda: [k],
                  'imul': lambda: [k, rng.choice([0, 1, 1, 2])], 'iadd': lambda: [k, [small() for _ in range(rng.randrange(0, 3))]],
                  'iter': lambda: [k]}[k]()
        elif kind == 'dict':
            oid = 1
            k = rng.choice(['dset', 'dset', 'dget', 'ddel', 'dpop', 'dpopd', 'dgetd', 'dgetn', 'dlen', 'dcontains', 'dclear', 'dsetdefault',
                            'dupdate', 'dpopitem', 'dcopy', 'diter', 'dkeys', 'dvalues', 'ditems'])
            key = lambda: rng.randrange(0, 6)  # noqa
            op = {'dset': lambda: [k, key(), small()], 'dget': lambda: [k, key()], 'ddel': lambda: [k, key()], 'dpop': lambda: [k, key()],
                  'dpopd': lambda: [k, key(), small()], 'dgetd': lambda: [k, key(), small()], 'dgetn': lambda: [k, key()], 'dlen': lambda: [k],
                  'dcontains': lambda: [k, key()], 'dclear': lambda: [k] if rng.random() < 0.3 else ['dlen'], 'dsetdefault': lambda: [k, key(), small()],
                  'dupdate': lambda: [k, [[key(), small()] for _ in range(rng.randrange(0, 4))]], 'dpopitem': lambda: [k], 'dcopy': lambda: [k],
                  'diter': lambda: [k], 'dkeys': lambda: [k], 'dvalues': lambda: [k], 'ditems': lambda: [k]}[k]()
        elif kind == 'value':
            oid = 2
            op = rng.choice([['vget'], ['vset', small()]])
        elif kind == 'ns':
            oid = 4
            op = rng.choice([['nset', rng.randrange(0, 4), small()], ['nset', rng.randrange(0, 4), small()], ['nget', rng.randrange(0, 4)],
                             ['nget', rng.randrange(0, 4)], ['ndel', rng.randrange(0, 4)]])
        else:
            oid = 3
            k = rng.choice(['fmake', 'fpeek', 'fnmade', 'ffail'])
            if k == 'fmake' and nobj >= 8:
                k = 'fnmade'
            op = {'fmake': lambda: [k, [small() for _ in range(rng.randrange(0, 4))]], 'fpeek': lambda: [k, rng.randrange(0, max(1, nobj - 5) + 1)],
                  'fnmade': lambda: [k], 'ffail': lambda: [k, small()]}[k]()
            if k == 'fmake':
                nobj += 1
        routes = ['main', 'main', 'copy', 'thread', 'helper'] + (['nested', 'nested'] if oid in (0, 1) else [])
        reqs.append([oid, op, rng.choice(routes)])
    return reqs


def gen_case(rng):
    return {'list0': [rng.randrange(-3, 9) for _ in range(rng.randrange(0, 5))],
            'dict0': [[k, rng.randrange(-3, 9)] for k in rng.sample(range(6), rng.randrange(0, 4))],
            'value0': rng.randrange(-3, 9), 'reqs': gen_ops(rng, rng.choice([5, 15, 30, 60])),
            'authkey': rng.random() < 0.4}


class Routes:
    def __init__(self, m, case):
        from harness import c14_procs
        from harness.c13_procs import Factory  # noqa (registered on import)
        from mpservice.multiprocessing import Process, Queue
        self.mod = c14_procs
        self.main = {0: m.list(list(case['list0'])), 1: m.dict(dict((k, v) for k, v in case['dict0'])),
                     2: m.Value('i', case['value0']), 3: m.Factory(), 4: m.Namespace()}
        self.copy = {}
        # with a manager key of its own, another process could only connect if it were given that key: the second-process
        # and the unpickled-copy routes are used with the default key only (standard multiprocessing behaviour, not the subject here)
        self.use_helper = not case.get('authkey')
        self.cq, self.aq = Queue(), Queue()
        self.proc = None
        if self.use_helper:
            self.proc = Process(target=c14_procs.helper_main, args=(self.cq, self.aq), name='c14-helper')
            self.proc.start()
            assert self.aq.get(timeout=30) == 'ready'
        for oid in list(self.main):
            self.share(oid)
        # the hosted custom object holds proxies to the hosted list and dict: calls made through them run inside the server
        self.main[3].adopt('0', self.main[0])
        self.main[3].adopt('1', self.main[1])
        self.tq, self.rq = queue.Queue(), queue.Queue()
        self.thread = threading.Thread(target=self._thread, daemon=True)
        self.thread.start()

    def _thread(self):
        while True:
            item = self.tq.get()
            if item is None:
                return
            oid, op = item
            self.rq.put(self.mod.do_op(self.main[oid], op))

    def share(self, oid):
        if not self.use_helper:
            self.copy[oid] = self.main[oid]     # a pickle made outside process start-up carries no key either
            return
        data = pickle.dumps(self.main[oid])
        self.copy[oid] = pickle.loads(data)
        if self.use_helper:
            self.cq.put(['adopt', oid, pickle.dumps(self.main[oid]).hex()])
            assert self.aq.get(timeout=30) == 'ok'

    def call(self, oid, op, route, new_id):
        if route == 'helper' and not self.use_helper:
            route = 'copy'
        if route == 'helper':
            self.cq.put(['call', oid, op, new_id])
            ans = self.aq.get(timeout=30)
            if ans == ['proxy']:
                self.cq.put(['give', new_id])
                self.main[new_id] = pickle.loads(bytes.fromhex(self.aq.get(timeout=30)))
                self.copy[new_id] = pickle.loads(pickle.dumps(self.main[new_id]))
            return ans
        if route == 'nested':
            return self.mod.do_op(self.main[3], ['via', str(oid), op])[0]
        if route == 'thread':
            self.tq.put((oid, op))
            ans, raw = self.rq.get(timeout=30)
        else:
            ans, raw = self.mod.do_op((self.main if route == 'main' else self.copy)[oid], op)
        if ans == ['proxy']:
            self.main[new_id] = raw
            self.share(new_id)
        return ans

    def close(self):
        self.tq.put(None)
        if self.proc is not None:
            self.cq.put(['exit'])
            try:
                self.aq.get(timeout=10)
            except Exception:  # noqa
                pass
            self.proc.join(10)


def run_case(case):
    from harness import c14_procs
    from harness.c13_procs import Factory
    from mpservice.multiprocessing.server_process import ServerProcess
    from multiprocessing.managers import Namespace
    local = {0: list(case['list0']), 1: dict((k, v) for k, v in case['dict0']), 2: c14_procs.LocalValue(case['value0']), 3: Factory(),
             4: Namespace()}
    local[3].adopt('0', local[0])
    local[3].adopt('1', local[1])
    obs, ref, extra = [], [], []
    with (ServerProcess(authkey=b'c14-custom-key') if case.get('authkey') else ServerProcess()) as m:
        routes = Routes(m, case)
        try:
            nxt = 5
            for oid, op, route in case['reqs']:
                a = routes.call(oid, op, route, nxt)
                if route == 'nested':
                    b, raw = c14_procs.do_op(local[3], ['via', str(oid), op])
                else:
                    b, raw = c14_procs.do_op(local[oid], op)
                if op[0] == 'fmake' and b[0] == 'list':
                    local[nxt] = raw             # outside a server managed() is the identity: the local value itself
                    b = ['proxy']
                if a == ['proxy']:
                    nxt += 1
                obs.append(a)
                ref.append(b)
            final = {}
            for oid in sorted(local):
                if oid in (2, 3, 4):
                    continue
                final[str(oid)] = [routes.call(oid, ['len'], 'main', None), c14_procs.do_op(local[oid], ['len'])[0]]
            # a proxy stored in a hosted container and read back is a live proxy to the same hosted object
            holder = m.list()
            holder.append(routes.main[1])
            back = holder[0]
            extra.append([['proxy read back from a hosted list', 'dlen'], c14_procs.do_op(back, ['dlen'])[0], c14_procs.do_op(local[1], ['dlen'])[0]])
            extra.append([['proxy read back from a hosted list', 'dcopy'], c14_procs.do_op(back, ['dcopy'])[0], c14_procs.do_op(local[1], ['dcopy'])[0]])
            del back, holder
            # a second manager class hosts another class under the same typeid, in the same client process
            from harness.c13_procs import Factory2, ServerProcess2
            with ServerProcess2() as m2:
                f2, l2 = m2.Factory(), Factory2()
                for op in (['call', 'bump', 3], ['call', 'only_here'], ['call', 'bump', 4]):
                    extra.append([['second manager'] + op, c14_procs.do_op(f2, op)[0], c14_procs.do_op(l2, op)[0]])
                extra.append([['first manager', 'fnmade'], routes.call(3, ['fnmade'], 'main', None), c14_procs.do_op(local[3], ['fnmade'])[0]])
        finally:
            routes.close()
    return {'observed': obs, 'direct': ref, 'final': final, 'extra': extra}


def oracle(case, res):
    if res.get('crash'):
        return 'harness/implementation crashed: ' + res['crash']
    for i, (a, b) in enumerate(zip(res['observed'], res['direct'])):
        oid, op, route = case['reqs'][i]
        if a[0] == 'exc' and b[0] == 'exc':
            if a[1:3] != b[1:3]:
                return f'request {i} {op} on object {oid} via {route}: raised {a[1]}{a[2]}, the direct call raises {b[1]}{b[2]}'
            if not a[3].get('remote') or not a[3].get('tb_has_raise_site'):
                return f'request {i} {op} via {route}: the exception does not carry the server-side traceback ({a[3]})'
        elif a != b:
            return f'request {i} {op} on object {oid} via {route}: answered {a}, the direct call gives {b}'
    for desc, a, b in res.get('extra', []):
        if a[:3] != b[:3]:
            return f'{desc}: answered {a}, the direct call gives {b}'
    for oid, (a, b) in res['final'].items():
        if a != b:
            return f'final length of object {oid}: {a} through the proxy, {b} directly'
    return None


def impl_main(argv):
    import logging
    logging.disable(logging.CRITICAL)
    what, seed, n, outp = argv[0], int(argv[1]), int(argv[2]), argv[3]
    rest = argv[4:]
    corpus = json.load(open(rest[0])) if rest else []
    rng = random.Random(seed)
    cases = [c['cfg'] for c in corpus] + [gen_case(rng) for _ in range(n)]
    out = []
    import faulthandler
    import signal

    class Hang(BaseException):
        pass

    def on_alarm(*a):
        faulthandler.dump_traceback(file=sys.stderr)
        raise Hang()
    signal.signal(signal.SIGALRM, on_alarm)
    import gc
    gc.disable()      # CPython 3.12.1: a collection triggered while a thread is being started can run a Process finalizer
                      # that joins a thread under threading._shutdown_locks_lock and deadlocks; collect at safe points only
    for c in cases:
        gc.collect()
        t0 = time.time()
        try:
            signal.alarm(90)
            res = run_case(c)
            signal.alarm(0)
        except BaseException as e:  # noqa
            signal.alarm(0)
            import traceback
            res = {'crash': repr(e)[:300] + ' | ' + traceback.format_exc()[-600:], 'observed': [], 'direct': [], 'final': {}, 'extra': []}
        res['elapsed'] = round(time.time() - t0, 2)
        out.append({'cfg': c, 'obs': res, 'oracle': oracle(c, res), 'strategy': f'n{len(c["reqs"])}', 'verdict': 'ok'})
    json.dump(out, open(outp, 'w'))
    sys.stdout.flush()
    os._exit(0)


def coq_case(r):
    from harness.core import clist, cnat, cz
    c, res = r['cfg'], r['obs']
    zl = lambda l: clist(l, cz)  # noqa
    pl = lambda l: clist(l, lambda p: f'({cz(p[0])}, {cz(p[1])})')  # noqa

    def cop(op):
        k, a = op[0], op[1:]
        m = {'append': lambda: f'LAppend {cz(a[0])}', 'extend': lambda: f'LExtend {zl(a[0])}', 'insert': lambda: f'LInsert {cz(a[0])} {cz(a[1])}',
             'pop': lambda: 'LPop', 'popat': lambda: f'LPopAt {cz(a[0])}', 'remove': lambda: f'LRemove {cz(a[0])}', 'index': lambda: f'LIndex {cz(a[0])}',
             'count': lambda: f'LCount {cz(a[0])}', 'len': lambda: 'LLen', 'get': lambda: f'LGet {cz(a[0])}', 'set': lambda: f'LSet {cz(a[0])} {cz(a[1])}',
             'del': lambda: f'LDel {cz(a[0])}', 'contains': lambda: f'LContains {cz(a[0])}', 'reverse': lambda: 'LReverse', 'sort': lambda: 'LSort',
             'add': lambda: f'LAdd {zl(a[0])}', 'mul': lambda: f'LMul {cz(a[0])}',
             'imul': lambda: f'LIMul {cz(a[0])}', 'iadd': lambda: f'LIAdd {zl(a[0])}', 'iter': lambda: 'LIter',
             'extself': lambda: 'LIMul 2%Z', 'iaddself': lambda: 'LIMul 2%Z',      # l.extend(l), l += l: the list doubles in place
             'diter': lambda: 'DIter', 'dkeys': lambda: 'DKeys', 'dvalues': lambda: 'DValues', 'ditems': lambda: 'DItems',
             'nset': lambda: f'NSet {cz(a[0])} {cz(a[1])}', 'nget': lambda: f'NGet {cz(a[0])}', 'ndel': lambda: f'NDel {cz(a[0])}',
             'dset': lambda: f'DSet {cz(a[0])} {cz(a[1])}', 'dget': lambda: f'DGet {cz(a[0])}', 'ddel': lambda: f'DDel {cz(a[0])}',
             'dpop': lambda: f'DPop {cz(a[0])}', 'dpopd': lambda: f'DPopD {cz(a[0])} {cz(a[1])}', 'dgetd': lambda: f'DGetD {cz(a[0])} {cz(a[1])}',
             'dgetn': lambda: f'DGetN {cz(a[0])}', 'dlen': lambda: 'DLen', 'dcontains': lambda: f'DContains {cz(a[0])}', 'dclear': lambda: 'DClear',
             'dsetdefault': lambda: f'DSetDefault {cz(a[0])} {cz(a[1])}', 'dupdate': lambda: f'DUpdate {pl(a[0])}', 'dpopitem': lambda: 'DPopItem',
             'dcopy': lambda: 'DCopy', 'vget': lambda: 'VGet', 'vset': lambda: f'VSet {cz(a[0])}',
             'fmake': lambda: f'FMakeList {zl(a[0])}', 'fpeek': lambda: f'FPeek {cnat(a[0])}', 'fnmade': lambda: 'FNMade', 'ffail': lambda: f'FFail {cz(a[0])}'}
        return m[k]()

    nxt = [5]

    def cresp(a):
        if a[0] == 'int':
            return f'ROk (VInt {cz(a[1])})'
        if a[0] == 'none':
            return 'ROk VNone'
        if a[0] == 'bool':
            return f'ROk (VBool {"true" if a[1] else "false"})'
        if a[0] == 'list':
            return f'ROk (VList {zl(a[1])})'
        if a[0] == 'pairs':
            return f'ROk (VPairs {pl(a[1])})'
        if a[0] == 'proxy':
            nxt[0] += 1
            return f'RProxy {cnat(nxt[0] - 1)}'
        if a[0] == 'exc':
            cls = {'IndexError': 1, 'ValueError': 2, 'KeyError': 3, 'AttributeError': 4}.get(a[1], 8)
            arg = f'(Some {cz(a[2][0])})' if (cls == 3 and a[2] and isinstance(a[2][0], int)) else 'None'
            return f'RErr {cnat(cls)} {arg}'
        return 'RErr 7%nat None'

    objs = f"[OList {zl(c['list0'])}; ODict {pl(c['dict0'])}; OValue {cz(c['value0'])}; OFactory []; ONs []]"
    reqs = clist(c['reqs'], lambda q: f'({cnat(q[0])}, {cop(q[1])})')
    return f"({objs}, {reqs}, {clist(res['observed'], cresp)})"


TRUSTED = [
    'Coq 8.16.1 kernel + vm_compute; no native_compute; no axioms',
    'hand-written model coq/Model/ProxyCall.v: Python list / dict / Value semantics over integers (index normalisation, insertion order, '
    'which operations raise which exception) and the dispatch by object id',
    'differential check on a real ServerProcess: answers through the original proxies, unpickled copies, a second thread and a second process '
    'against the model inside Coq, and against direct calls on local objects (oracle)',
    'pickling of arguments and results and the GIL-atomicity of container methods (stdlib)',
]
ASSUME = [
    'requests are issued one at a time (the order in which the server handles them is the order of issue); concurrent requests to one object '
    'are serialised by the GIL inside the container methods and are not explored',
    'elements, keys and values are integers in the model; dict views and iteration are modelled as the lists they produce',
]


def check(tier, seed, replay=None):
    from harness import core
    part = core.Part('calls', 'harness.props.c14', 'gen', 12, 200, 'DriverProxy', coq_case,
                     lambda r: (r['oracle'], None) if r['oracle'] else None,
                     lambda r: len(r['cfg']['reqs']) >= 15 and any(a[0] == 'exc' for a in r['obs']['observed']),
                     key=lambda r: json.dumps(r['cfg'], sort_keys=True),
                     describe=lambda r: {'cfg': r['cfg'], 'observed': r['obs'].get('observed'), 'direct': r['obs'].get('direct'),
                                         'crash': r['obs'].get('crash')},
                     shard=6)

    def post(all_results, out, cov):
        rs = all_results.get('calls', [])
        cov['requests'] = sum(len(r['cfg']['reqs']) for r in rs)
        cov['requests_that_raised'] = sum(1 for r in rs for a in r['obs']['observed'] if a[0] == 'exc')
        cov['managed_values_created'] = sum(1 for r in rs for a in r['obs']['observed'] if a == ['proxy'])
        routes = {}
        for r in rs:
            for q in r['cfg']['reqs']:
                routes[q[2]] = routes.get(q[2], 0) + 1
        cov['routes'] = routes

    return core.generic_check(
        PROP, tier, seed, [part], TRUSTED, ASSUME,
        rule='random cases: a hosted list, dict, Value and custom class (whose make_list returns managed() lists, up to 3 per case) with random '
             'initial contents; 5-60 requests drawn from 20 list (incl. in-place `*=`, `+=` and iteration), 18 dict (incl. iteration, keys, values, items), 2 Value, 3 Namespace and 4 custom-class operations with arguments chosen so that '
             'about a fifth raise (IndexError, ValueError, KeyError); every request goes through a randomly chosen route: original proxy, '
             'unpickled copy, second thread, second process, or (list and dict) a proxy held by another hosted object and used inside the server '
             'process; each case ends with calls on a second manager class that hosts a different class under the same typeid. non-trivial = at least 15 requests of which one raised; distinct = distinct case',
        replay=replay, post=post)


if __name__ == '__main__':
    impl_main(sys.argv[1:])
