"""C09 — workers see well-formed batches; no request waits for a full batch."""
from harness import core
from harness import scen_batch as sb
from harness.props import c19

PROP = 'C09'

TRUSTED = [
    'Coq 8.16.1 kernel + vm_compute (trace replay, the refutation witness of the pre-repair code); no native_compute; no axioms',
    'hand-written models coq/Model/BatchWorker.v (collector thread, SingleLane buffer, batch consumer, one worker, time abstracted) '
    'and coq/Model/EagerBatcher.v (timed policy of one consumer in virtual time)',
    'trace validation: the real Worker.run/_start_batch/_build_input_batches/_get_input_batch with the real SingleLane run under '
    'harness/detsched.py (virtual threading/queue/perf_counter injected into mpservice.mpserver._worker and mpservice._queues, logging '
    'deque, logged full()/qsize()/time-out); every logged single-worker run is replayed event by event in BatchWorker.v',
    'differential check: the real Worker._get_input_batch on a virtual-time buffer against EagerBatcher.v (batches and release times)',
]
ASSUME = [
    'the theorems of BatchWorker.v are for one worker; runs with 2-3 competing workers (shared input queue, read lock) are explored '
    'and judged by the runtime oracle only',
    'virtual time: computation takes no time, timers fire in deadline order and only when no thread can run',
    'process workers (_SimpleProcessQueue) are not scheduled; the in-worker thread pool (num_stream_threads) is not explored',
    'liveness is stated as absence of a wedged state (C09_no_wedge) and checked on every explored run (no deadlock, every request answered)',
]


def oracle(r):
    cfg = r['cfg']
    b, wait = cfg['b'], cfg['wait']
    if r['verdict'] == 'replay-divergence':
        return None
    if r['verdict'] != 'ok':
        return (f'batch worker run did not finish: {r["verdict"]}; blocked = {r["blocked"]} '
                f'({len(r["outs"])} of {len(cfg["arrivals"])} requests answered)', None)
    if r['outcome'] != ['finished']:
        return (f'batch worker run ended abnormally: {r["outcome"]}', None)
    kinds = {a[1]: a[2] for a in cfg['arrivals']}
    good = [a[1] for a in cfg['arrivals'] if a[2] == 'x']
    poison = set(cfg.get('poison', []))
    seen = []
    failed = set()
    for (w, tc, xs) in r['calls']:
        if b == 0:
            if isinstance(xs, list):
                return (f'call received the list {xs} with batch_size 0', None)
            items = [xs]
        else:
            if not isinstance(xs, list):
                return (f'call received the single element {xs} with batch_size {b}', None)
            if not (1 <= len(xs) <= max(b, 1)):
                return (f'call received a batch of {len(xs)} elements with batch_size {b}: {xs}', None)
            items = xs
        for x in items:
            if kinds.get(x) != 'x':
                return (f'call received {x!r}, which is not a genuine input (kind {kinds.get(x)})', None)
        if any(x in poison for x in items):
            failed.update(items)
        seen += items
    if sorted(seen) != sorted(good):
        missing = sorted(set(good) - set(seen))
        dup = sorted(x for x in set(seen) if seen.count(x) > 1)
        return (f'accepted inputs and call arguments differ: missing {missing}, duplicated {dup}', None)
    outs = {}
    for (u, t, y) in r['outs']:
        if u in outs:
            return (f'request {u} was answered twice', None)
        outs[u] = y
    for a in cfg['arrivals']:
        u, k = a[1], a[2]
        want = 'exc' if (k != 'x' or u in failed) else u * 10
        if outs.get(u) != want:
            return (f'request {u} ({k}) was answered {outs.get(u)!r}, expected {want!r}', None)
    # timing: a batch is released no later than batch_wait_time after its first element was taken, and a short
    # batch only at that deadline or because the end marker was next
    # (not measurable when the scenario deschedules the collector for 50 s while it holds the buffer's mutex)
    if b >= 2 and not cfg.get('stall_after_full'):
        for (w, tc, xs) in r['calls']:
            th = f'bw-{w}'
            tg = [g[1] for g in r['gets'] if g[0] == th and g[2] == xs[0]]
            if len(tg) != 1:
                return (f'first element {xs[0]} of batch {xs} was taken {len(tg)} times from the buffer by {th}', None)
            if tc - tg[0] > wait + 1e-9:
                return (f'batch {xs} was released {tc - tg[0]} s after its first element was taken (batch_wait_time {wait})', None)
            if len(xs) < b and tc - tg[0] < wait - 1e-9:
                end_seen = any(g[0] == th and g[2] is None and tg[0] <= g[1] <= tc for g in r['gets'])
                if not end_seen:
                    return (f'short batch {xs} released after {tc - tg[0]} s < batch_wait_time {wait} without the end marker', None)
    return None


def policy_oracle(r):
    return (r['oracle'], None) if r['oracle'] else None


def nontrivial(r):
    b = r['cfg']['b']
    return len(r['calls']) >= 2 and (b < 2 or any(len(c[2]) < b for c in r['calls']))


def describe(r):
    return {k: r.get(k) for k in ('cfg', 'strategy', 'verdict', 'outcome', 'blocked', 'calls', 'outs', 'events')}


def parts():
    return [
        core.Part('batch', 'harness.scen_batch', 'normal', 400, 8000, 'DriverBatch', sb.coq_case, oracle, nontrivial, shard=100,
                  describe=describe),
        core.Part('overload', 'harness.scen_batch', 'overload', 40, 600, 'DriverBatch', sb.coq_case, oracle, nontrivial, shard=10,
                  describe=lambda r: {k: r.get(k) for k in ('cfg', 'strategy', 'verdict', 'outcome', 'blocked', 'calls')}),
        core.Part('policy', 'harness.scen_batch', 'policy', 600, 6000, 'DriverBatchPolicy', c19.coq_case, policy_oracle, c19.nontrivial,
                  shard=400, key=lambda r: __import__('json').dumps(r['case']),
                  describe=lambda r: {'cfg': r['case'], 'observed': r['obs'], 'verdict': r['oracle']}),
    ]


def check(tier, seed, replay=None):
    def post(all_results, out, cov):
        rs = all_results.get('batch', []) + all_results.get('overload', [])
        cov['runs_replayed_in_model'] = sum(1 for r in rs if r.get('events') is not None)
        cov['runs_with_competing_workers'] = sum(1 for r in rs if r['cfg']['nworkers'] > 1)
        cov['runs_without_batching'] = sum(1 for r in rs if r['cfg']['b'] < 2)
        cov['calls_observed'] = sum(len(r['calls']) for r in rs)
        cov['short_batches'] = sum(1 for r in rs for c in r['calls'] if r['cfg']['b'] >= 2 and len(c[2]) < r['cfg']['b'])
        cov['buffer_full_seen'] = sum(1 for r in rs if r.get('events') and any(e[1] == sb.BOPS['buf_full'] and e[2] == 1 for e in r['events']))
    return core.generic_check(
        PROP, tier, seed, parts(), TRUSTED, ASSUME,
        rule='batch: random configurations (batch_size 0,1,2,3,5; batch_wait_time 0/0.5/5 virtual s; 1-12 requests arriving at random '
             'virtual times, ~8% exception values, ~8% rejected by preprocess, poisoned batches; 1-3 competing workers; call taking 0/0.2/3 s) '
             'x schedule strategies (random, PCT, greedy+flips); overload: 30-40 requests at once into one worker so that the buffer fills, '
             'in a third of the runs the collector is descheduled for 50 virtual s right after it tests buffer.full(); policy: '
             '_get_input_batch alone on a virtual-time buffer. Every call argument, buffer get, output and virtual timestamp is recorded. '
             'non-trivial = at least two calls and (a short batch or no batching); distinct = distinct (configuration, trace)',
        replay=replay, post=post)
