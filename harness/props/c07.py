"""C07 — an abandoned request (timeout, dropped stream) never harms the server."""
from harness import core
from harness import scen_server as sv
from harness.props import c06

PROP = 'C07'

TRUSTED = c06.TRUSTED
ASSUME = [
    'request ids are unique while in flight (never-reusing allocator)',
    'the early close of Server.stream cancels queued futures through fifo_stream\'s cleanup (C05 model); here abandonment is the caller\'s deadline expiring at an arbitrary step, followed by cancel()',
    'shutdown_completes is liveness: not proved, every explored run is required to leave the `with server` block',
]


def oracle(r):
    cfg = r['cfg']
    if r['verdict'] == 'replay-divergence':
        return None
    if r['verdict'] != 'ok':
        return (f'server run did not finish: {r["verdict"]}; blocked = {r["blocked"]}', None)
    if not r['outcome'] or r['outcome'][0] != 'exited':
        return (f'server did not shut down normally: {r["outcome"]} {r.get("exit_error")}', None)
    if r.get('gather_alive_after_calls') is False:
        return ('the gather thread was dead after the calls', None)
    lw = r.get('lost_wakeup')
    if lw:
        return (f'callers {lw["waiting"]} were left waiting for a slot although the backlog was {lw["backlog"]} < capacity '
                f'{cfg["capacity"]} and no notification was under way (a pending request was not served)', None)
    fail = {int(k): v for k, v in cfg['fail'].items()}
    for i, c in enumerate(cfg['callers']):
        o = r['outcomes'][i]
        if o is None or o[0] == 'error':
            return (f'caller {i} ended abnormally: {o}', None)
        if o[0] == 'answered' and (c['x'] in fail or o[1] != sv.serve_value(c['x'])):
            return (f'caller {i} (input {c["x"]}) was answered {o[1]}, its own result is {sv.serve_value(c["x"])}', None)
        if o[0] == 'answered-exc' and fail.get(c['x']) != o[1]:
            return (f'caller {i} (input {c["x"]}) received exception {o[1]}, expected {fail.get(c["x"])}', None)
        if o[0] == 'timeout' and r['waited'].get(str(i), 0) < c['timeout'] - 1e-6:
            return (f'caller {i} got TimeoutError after {r["waited"].get(str(i))} < its timeout {c["timeout"]}', None)
    return None


def nontrivial(r):
    outs = [o[0] for o in r['outcomes'] if o]
    return 'timeout' in outs and any(o.startswith('answered') for o in outs)


def parts():
    return [core.Part('server', 'harness.scen_server', 'server', 400, 8000, 'DriverServer', sv.coq_server_case,
                      oracle, nontrivial, shard=150,
                      describe=lambda r: {k: r.get(k) for k in ('cfg', 'strategy', 'verdict', 'outcome', 'outcomes', 'events')}),
            # AsyncServer / process servlets for real: abandoned requests (timeouts, cancelled callers, cancelled waiters) among
            # callers that must still be answered, then three plain calls and the exit
            __import__('harness.scen_backlog', fromlist=['part']).part(16, 200),
            # "... and the server still shuts down normally": stop() of a two-stage sequence with abandoned requests in flight
            # (scheduled, virtual pipe that cannot hold a result) and real-process pipelines left after a timed-out call / an
            # abandoned stream with payloads larger than an OS pipe buffer
            __import__('harness.scen_seqstop', fromlist=['part']).part(80, 1500),
            __import__('harness.scen_procstack', fromlist=['part']).part(5, 40)]


def check(tier, seed, replay=None):
    def post(all_results, out, cov):
        rs = all_results.get('server', [])
        cov['runs_with_cancel_between_check_and_set'] = sum(
            1 for r in rs if any(e[1] == sv.SOPS['fut_set'] and e[2] % 2 == 0 for e in r['events']))
        cov['runs_with_timeout'] = sum(1 for r in rs if any(o and o[0] == 'timeout' for o in r['outcomes']))
    return core.generic_check(
        PROP, tier, seed, parts(), TRUSTED, ASSUME,
        rule='as C06 (same scenario generator); timer-adversarial schedules let a caller\'s deadline expire at any yield point, so '
             'the cancel() lands before, between and after the gather thread\'s ledger pop / cancelled() test / set_result. '
             'non-trivial = at least one caller timed out and at least one other was answered; distinct = distinct (configuration, trace)',
        replay=replay, post=post)
