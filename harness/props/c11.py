"""C11 — server starts all-or-nothing and stops completely."""
import json

from harness import core
from harness import scen_life as sl
from harness import scen_stack as st

PROP = 'C11'

TRUSTED = [
    'Coq 8.16.1 kernel + vm_compute (trace replay); no native_compute; no axioms',
    'hand-written model coq/Model/Lifecycle.v (start handshake, stop sentinel re-broadcast, joins) of a simple servlet',
    'trace validation: the real ThreadServlet.start/stop with real Worker.run execute under harness/detsched.py and are replayed event by event; whole servlet trees under a real Server are explored with the full-stack scheduled scenario (oracle only)',
    __import__('harness.scen_procstack', fromlist=['PROC_TRUSTED']).PROC_TRUSTED,
    'hand-written model coq/Model/SeqStop.v (stopping a two-stage sequence with requests in flight and a pipe that cannot hold a result); trace validation: the real SequentialServlet / ThreadServlet.stop / Worker loop under the scheduler with the connecting queue replaced by a virtual pipe that hands a data item only to a reader already waiting in get()',
]
ASSUME = [
    'ProcessServlet: same start/stop code over pipe-backed queues and real processes; not scheduled (the bounded-pipe hang with abandoned inputs - DESIGN.md section 7-M - is therefore outside this check)',
    'exit_completes / reenter_ok are liveness: not proved, every explored run must finish, leave no live thread and support a second enter/exit cycle',
]


def life_oracle(r):
    if r['verdict'] == 'replay-divergence':
        return None
    c = r['cfg']
    if r['verdict'] != 'ok':
        return (f'start/stop did not finish: {r["verdict"]}; blocked = {r["blocked"]}', None)
    if c['init_fails'] is not None:
        if r['outcome'] != ['start-raised'] or r['start_error'] != 'InitErr':
            return (f'worker {c["init_fails"]} fails to initialise but start() ended with {r["outcome"]} {r["start_error"]}', None)
        if r['live_after_failed_start']:
            return (f'start() raised but these worker threads are still running: {r["live_after_failed_start"]}', None)
    else:
        if r['outcome'] != ['stopped']:
            return (f'start/stop ended with {r["outcome"]} {r["start_error"]}', None)
        if r['live_after_stop']:
            return (f'stop() returned but these worker threads are still running: {r["live_after_stop"]}', None)
    return None


def stack_oracle(r):
    if r['verdict'] == 'replay-divergence':
        return None
    if r['verdict'] != 'ok':
        return (f'enter/serve/exit did not finish: {r["verdict"]}; blocked = {r["blocked"]}', None)
    fails = init_fail_positions(r['cfg']['tree'])
    cycles = r['cycles']
    if len(cycles) != r['cfg'].get('cycles', 1):
        return (f'only {len(cycles)} of {r["cfg"].get("cycles", 1)} enter/exit cycles ran', None)
    for k, cyc in enumerate(cycles):
        expect_fail = bool(fails) and k == 0
        if expect_fail:
            if not cyc['enter_error'] or cyc['enter_error'][0] != 'InitErr':
                return (f'a worker fails to initialise but __enter__ ended with {cyc["enter_error"]}', None)
            if cyc['live_after_enter_fail']:
                return (f'__enter__ raised but threads are still running: {cyc["live_after_enter_fail"]}', None)
        else:
            if cyc['enter_error'] or cyc['exit_error']:
                return (f'cycle {k}: enter/exit failed: {cyc["enter_error"]} {cyc["exit_error"]}', None)
            if cyc.get('live_after_exit'):
                return (f'cycle {k}: __exit__ returned but threads are still running: {cyc["live_after_exit"]}', None)
    bad = st.check_results(r)
    if bad:
        return (f'after the lifecycle events request {bad[0][0]} received {bad[0][1]} instead of {bad[0][2]}', None)
    return None


def init_fail_positions(t):
    if t['t'] == 'leaf':
        return [t['k']] if t['init_fail'] is not None else []
    return [k for c in t['c'] for k in init_fail_positions(c)]


def parts():
    return [
        core.Part('servlet', 'harness.scen_life', 'life', 300, 5000, 'DriverLife', sl.coq_case, life_oracle,
                  lambda r: r['cfg']['nworkers'] >= 2 and (r['cfg']['init_fails'] not in (None, 0) or r['cfg']['residual'] > 0),
                  shard=150, describe=lambda r: {k: r.get(k) for k in ('cfg', 'strategy', 'verdict', 'outcome', 'start_error', 'live_after_failed_start', 'live_after_stop', 'events')}),
        core.Part('tree', 'harness.scen_stack', 'lifecycle', 200, 4000, None, None, stack_oracle,
                  lambda r: r['cfg']['tree']['t'] != 'leaf' or len(r['cycles']) > 1,
                  key=lambda r: json.dumps(r['cfg'], sort_keys=True) + str(r['decisions'][:80]),
                  describe=lambda r: {k: r.get(k) for k in ('cfg', 'strategy', 'verdict', 'cycles', 'blocked')}),
        __import__('harness.scen_seqstop', fromlist=['part']).part(200, 4000),
        __import__('harness.scen_procstack', fromlist=['part']).part(7, 60),
        # AsyncServer / Server for real: the same server object entered again (AsyncServer: under a new event loop each time),
        # with abandoned requests and callers that had to wait for room in both sessions
        __import__('harness.scen_backlog', fromlist=['part']).part(10, 120),
    ]


def check(tier, seed, replay=None):
    def post(all_results, out, cov):
        rs = all_results.get('tree', [])
        cov['tree_failed_enters'] = sum(1 for r in rs for c in r['cycles'] if c['enter_error'])
        cov['tree_two_cycle_runs'] = sum(1 for r in rs if len(r['cycles']) > 1)
        cov['servlet_failed_starts'] = sum(1 for r in all_results.get('servlet', []) if r['outcome'] == ['start-raised'])
    return core.generic_check(
        PROP, tier, seed, parts(), TRUSTED, ASSUME,
        rule='(servlet) ThreadServlet with 1-4 real Workers, the failing worker at every index or none, 0-6 residual requests left in '
             'the input queue at stop(), under random/PCT/greedy schedules, replayed in the Coq model; (tree) random servlet trees under a '
             'real Server where a worker of some leaf fails to initialise in the first enter, then a second enter/serve/exit cycle; every run '
             'must finish, raise the initialisation error, leave no live worker or helper thread, and answer correctly afterwards. '
             'non-trivial = a failing worker that is not the first / residual requests (servlet); a compound tree or two cycles (tree); '
             'distinct = distinct (configuration, trace or schedule prefix)',
        replay=replay, post=post)
