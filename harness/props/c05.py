"""C05 — streams end cleanly on early stop or failure (no hang, no leak, first failure once)."""
from harness import core
from harness import scen_stream as ss
from harness.events import OPS, v_exc

PROP = 'C05'

TRUSTED = [
    'Coq 8.16.1 kernel + vm_compute (trace replay, refutation witnesses); no native_compute; no axioms',
    'hand-written models coq/Model/Buffer.v, coq/Model/FifoStream.v; trace validation under harness/detsched.py as for C01/C08',
    'hang = the deterministic scheduler finds no enabled thread and no pending timer (real code, virtual primitives)',
    __import__('harness.scen_lane', fromlist=['LANE_TRUSTED']).LANE_TRUSTED,
    __import__('harness.scen_parreal', fromlist=['ORDER_TRUSTED']).ORDER_TRUSTED,
    __import__('harness.scen_adapters', fromlist=['ADAPTERS_TRUSTED']).ADAPTERS_TRUSTED,
]
ASSUME = [
    'a source next() call returns (one step)',
    'deadlock-freedom is a theorem for fifo_stream / Parmapper with sources raising ordinary exceptions (C05_fifo_no_deadlock); and for buffer(n >= 1) (C05_buffer_no_deadlock, finalizer as repaired); refuted for BaseException sources and for the finalizer before repair C; see Props/C05.v',
    'ParmapperAsync, process executors, AsyncStream.parmap, AsyncBuffer, SyncIter and AsyncIter are not scheduled: they run for real (real-run parts, watchdog); their interleavings are what the OS / event loop produce',
]


def stream_plan(cfg, kind):
    """outputs the stream must deliver, in order, and how it ends: ('end',) or ('raise', code)."""
    outs = []
    if kind == 'buffer':
        for k, v in cfg['src']:
            if k == 'd':
                outs.append(v)
            else:
                return outs, ('raise', v)
        return outs, ('end',)
    pf = {int(k): e for k, e in cfg['pre_fail'].items()}
    cf = {int(k): e for k, e in cfg['call_fail'].items()}
    for k, v in cfg['src']:
        if k != 'd':
            return outs, ('raise', v)
        if v in pf or v in cf:
            e = pf.get(v, cf.get(v))
            if not cfg['return_exc']:
                return outs, ('raise', e)
            code = v_exc(e)
        else:
            code = ss.call_value(v + ss.PRE_OFFSET if cfg['has_pre'] else v)
        outs.append(v * 1000000 + code + 500000 if cfg['return_x'] else code)
    return outs, ('end',)


def base_pulled(r):
    codes = {v_exc(v) for k, v in r['cfg']['src'] if k == 'b'}
    return any(op == OPS['src_next'] and val in codes for _, op, val in r['events'])


def make_oracle(kind):
    def oracle(r):
        cfg = r['cfg']
        if r['verdict'] == 'replay-divergence':
            return None
        key = None
        if base_pulled(r):
            key = 'C05-D-baseexception-from-source'
        if r['verdict'] == 'deadlock':
            blocked = dict((n, w) for n, w in r['blocked'])
            if key is None and kind == 'buffer' and cfg['maxsize'] <= 2 and \
                    blocked.get('main', '').startswith('join(') and any('wait(' in w or 'put' in w for n, w in r['blocked'] if n != 'main'):
                key = 'C05-C-buffer-finalize-drains-then-joins'
            return (f'hang: no thread can move; blocked = {r["blocked"]}', key)
        if r['verdict'] != 'ok':
            return (f'run did not finish: {r["verdict"]} {r.get("error")}', key)
        if r['leaked']:
            return (f'helper threads still alive after the iterator was closed: {r["leaked"]}', key)
        outs, end = stream_plan(cfg, kind)
        k = cfg['stop_after']
        got = r['received']
        o = r['outcome'] or ['none']
        if k is not None and len(outs) >= max(1, k):
            want_recv, want = outs[:max(1, k)], ['broke']
        else:
            want_recv, want = outs, (['completed'] if end == ('end',) else ['raised', end[1]])
        if got != want_recv or o[:len(want)] != want:
            return (f'stream delivered {got} then {o}; it must deliver {want_recv} then {want}', key)
        return None
    return oracle


def nontrivial(r):
    # the consumer stopped early or a failure occurred, and at least one preemption happened inside the shutdown window
    c = r['cfg']
    interesting = c['stop_after'] is not None or any(k != 'd' for k, _ in c['src']) or c.get('call_fail') or c.get('pre_fail')
    ev = r['events']
    try:
        i = next(j for j, e in enumerate(ev) if e[0] == 0 and e[1] in (OPS['evt_set'], OPS['q_empty']))
    except StopIteration:
        return False
    return bool(interesting) and any(e[0] != 0 for e in ev[i:])


def parts():
    return [
        core.Part('buffer', 'harness.scen_stream', 'buffer', 300, 6000, 'DriverBuffer', ss.coq_buffer_case,
                  make_oracle('buffer'), nontrivial),
        core.Part('fifo', 'harness.scen_stream', 'fifo', 350, 6000, 'DriverFifo', ss.coq_fifo_case,
                  make_oracle('fifo'), nontrivial),
        __import__('harness.scen_lane', fromlist=['part']).part(120, 2000),
        __import__('harness.scen_parreal', fromlist=['order_part']).order_part(31, 300),
        __import__('harness.scen_adapters', fromlist=['part']).part(24, 300),
    ]


def check(tier, seed, replay=None):
    return core.generic_check(
        PROP, tier, seed, parts(), TRUSTED, ASSUME,
        rule='random configurations (buffer sizes 1-4; fifo capacity 1-4 / Parmapper, pool 1-3; sources with an Exception or a '
             'StopRequested at a random position; worker/preprocessor failures; consumer stop after 1-5 outputs or never) x '
             'schedule strategies (random, PCT, greedy, greedy+flips), corpus of minimised hanging schedules first; the real code runs '
             'under the deterministic scheduler, which classifies each run (ok / deadlock with the blocked set / step bound / leaked '
             'threads); the oracle compares the delivered outputs and the final outcome with the stream\'s sequential plan; each run is '
             'also replayed in the Coq model. non-trivial = early stop or failure present and another thread ran after shutdown began; '
             'distinct = distinct (configuration, trace). Real-run part: Stream.parmap with executor=thread/process or an async worker '
             'function under a 60 s watchdog (early stop, failing source / preprocessor / worker): the iteration and the closing of the '
             'iterator must end, with the outputs and outcome of the model under a fair schedule; the same for AsyncStream.parmap in an '
             'async environment with completing, breaking, cancelled and garbage-collected consumers (leftover tasks / pool threads are '
             'counted), and for the adapters SyncIter / AsyncIter / AsyncBuffer against the identity-stage model',
        replay=replay)
