"""C15 — exceptions keep type, args and traceback text across processes: differential
correspondence of RemoteException + pickle with coq/Model/RemoteExc.v, plus a direct oracle."""
from __future__ import annotations

import json
import pickle
import random
import sys

PROP = 'C15'


class Plain(Exception):
    pass


class WithInit(Exception):
    def __init__(self, a, b=2):
        super().__init__(a, b)
        self.a, self.b = a, b


class WithReduce(Exception):
    def __init__(self, a):
        super().__init__('custom', a)
        self.a = a

    def __reduce__(self):
        return (WithReduce, (self.a,))


class Base2(BaseException):
    pass


def _rebuild_keepcause(a, cause):
    e = KeepCause(a)
    e.__cause__ = cause
    return e


class KeepCause(Exception):
    """a class whose own pickling carries an explicit cause along (what tblib's pickling support does for every class)"""
    def __init__(self, a):
        super().__init__('keep', a)
        self.a = a

    def __reduce__(self):
        return (_rebuild_keepcause, (self.a, self.__cause__ if isinstance(self.__cause__, (KeyError, ValueError)) else None))


CLASSES = {'ValueError': ValueError, 'KeyError': KeyError, 'Plain': Plain, 'WithInit': WithInit,
           'WithReduce': WithReduce, 'Base2': Base2, 'OSError': OSError, 'KeepCause': KeepCause}


def make_exc(cname, seed):
    c = CLASSES[cname]
    if cname == 'WithInit':
        return c(seed, 'b%d' % seed)
    if cname in ('WithReduce', 'KeepCause'):
        return c(seed)
    if cname == 'OSError':
        return c(seed, 'os-msg')
    return c('msg-%d' % seed, seed)


def raise_at(exc, depth, hop, cause=None):
    """raise exc through `depth` nested frames whose function name identifies the hop"""
    ns = {}
    code = f"def site_h{hop}(exc, d, cause):\n    if d <= 1:\n        if cause is not None:\n            raise exc from cause\n        raise exc\n    return site_h{hop}(exc, d - 1, cause)\n"
    exec(code, ns)
    ns[f'site_h{hop}'](exc, max(1, depth), cause)


def gen_case(rng):
    cname = rng.choice(list(CLASSES))
    origin = rng.choice([1, 1, 2, 3, 5, None]) if rng.random() < 0.93 else None
    nh = rng.choice([0, 0, 1, 1, 2, 3, 4, 5])
    acts = [rng.choice([None, None, 1, 2, 4]) for _ in range(nh)]
    return {'cls': cname, 'seed': rng.randrange(100), 'origin': origin, 'acts': acts,
            'chained': rng.random() < (0.7 if cname == 'KeepCause' else 0.2), 'ensemble': rng.random() < 0.12}


def transport(re_obj):
    return pickle.loads(pickle.dumps(re_obj))


def run_impl_case(case):
    from mpservice.multiprocessing.remote_exception import (RemoteException, get_remote_traceback,
                                                             is_remote_exception)
    e0 = make_exc(case['cls'], case['seed'])
    obs = {'ok': True, 'is_remote': False, 'contains': False, 'equal': False, 'notes': []}
    try:
        if case['origin'] is None:
            w = RemoteException(e0)           # a bare exception object: must be refused
        else:
            try:
                cause = KeyError('root-cause') if case['chained'] else None
                raise_at(e0, case['origin'], 0, cause)
            except BaseException as e:  # noqa
                w = RemoteException(e)
        e = transport(w)
    except ValueError as err:
        obs['ok'] = False
        obs['notes'].append('wrap refused: ' + str(err)[:80])
        return obs
    text1 = get_remote_traceback(e) if is_remote_exception(e) else None
    obs['first_is_remote'] = is_remote_exception(e)
    texts = [text1]
    h = 1
    for a in case['acts']:
        try:
            if a is None:
                w = RemoteException(e)
            else:
                try:
                    raise_at(e, a, h)
                except BaseException as e2:  # noqa
                    w = RemoteException(e2)
            e = transport(w)
        except ValueError as err:
            obs['ok'] = False
            obs['notes'].append('wrap refused at hop %d: %s' % (h, str(err)[:80]))
            return obs
        texts.append(get_remote_traceback(e) if is_remote_exception(e) else None)
        h += 1
    obs['is_remote'] = is_remote_exception(e)
    tk = texts[-1]
    obs['contains'] = bool(text1 is not None and tk is not None and text1 in tk)
    obs['equal'] = bool(text1 is not None and tk == text1)
    # direct oracle data
    obs['same_class'] = type(e) is type(e0)
    obs['same_args'] = e.args == e0.args and getattr(e, 'a', None) == getattr(e0, 'a', None)
    obs['origin_marker'] = bool(tk and 'site_h0' in tk) if case['origin'] is not None else True
    obs['exc_line'] = bool(tk and type(e0).__name__ in tk)
    obs['chain_marker'] = bool(tk and 'root-cause' in tk) if case['chained'] and case['origin'] is not None else True
    obs['all_sites'] = all((f'site_h{i + 1}' in tk) for i, a in enumerate(case['acts']) if a is not None) if tk else False
    obs['monotone'] = all(texts[i] in texts[i + 1] for i in range(len(texts) - 1) if texts[i] and texts[i + 1])
    return obs


def run_ensemble_case(case):
    """EnsembleError nesting: members survive wrap/pickle hops with class, args and their own text."""
    from mpservice.multiprocessing.remote_exception import (EnsembleError, RemoteException, get_remote_traceback,
                                                             is_remote_exception)
    members = []
    for k in range(2):
        e0 = make_exc(case['cls'], case['seed'] + k)
        try:
            raise_at(e0, 2, 10 + k)
        except BaseException as e:  # noqa
            members.append(RemoteException(e))
    results = {'y': [members[0], 123, members[1]], 'n': 3}
    try:
        raise EnsembleError(results)
    except EnsembleError as ee:
        w = RemoteException(ee)
    e = transport(w)
    for a in case['acts']:
        if a is None:
            w = RemoteException(e)
        else:
            try:
                raise_at(e, a, 20)
            except BaseException as e2:  # noqa
                w = RemoteException(e2)
        e = transport(w)
    ys = e.args[1]['y']
    problems = []
    if type(e) is not EnsembleError:
        problems.append('outer class changed')
    if ys[1] != 123:
        problems.append('plain member changed')
    for k, idx in enumerate((0, 2)):
        m = ys[idx]
        if isinstance(m, RemoteException):
            m = transport(m)
        exp = make_exc(case['cls'], case['seed'] + k)
        if type(m) is not type(exp) or m.args != exp.args:
            problems.append(f'member {idx}: class/args changed: {m!r} vs {exp!r}')
        elif not is_remote_exception(m) or f'site_h{10 + k}' not in get_remote_traceback(m):
            problems.append(f'member {idx}: traceback text lost')
    return problems


def oracle(case, obs):
    if obs.get('crash'):
        return 'implementation crashed: ' + obs['crash']
    if case.get('ensemble'):
        return ('EnsembleError members not preserved: ' + '; '.join(obs['ens'])) if obs.get('ens') else None
    if case['origin'] is None:
        return None if not obs['ok'] else 'an exception without any traceback information was wrapped'
    if not obs['ok']:
        return 'wrapping failed although the exception carries a traceback: ' + '; '.join(obs['notes'])
    for k, msg in (('same_class', 'exception class changed'), ('same_args', 'exception args changed'),
                   ('is_remote', 'is_remote_exception is false after the hops'),
                   ('contains', 'final remote traceback does not contain the originally formatted traceback'),
                   ('origin_marker', 'origin frames missing from the text'), ('exc_line', 'exception line missing'),
                   ('chain_marker', 'chained cause missing from the text'), ('all_sites', 're-raise frames missing'),
                   ('monotone', 'a hop lost text carried by the previous hop')):
        if not obs.get(k):
            return msg
    if all(a is None for a in case['acts']) and not obs['equal']:
        return 'forward-only hops changed the traceback text'
    return None


def impl_main(argv):
    what, seed, n, outp = argv[0], int(argv[1]), int(argv[2]), argv[3]
    corpus = json.load(open(argv[4])) if len(argv) > 4 else []
    rng = random.Random(seed)
    cases = [c['cfg'] for c in corpus] + [gen_case(rng) for _ in range(n)]
    res = []
    for c in cases:
        try:
            if c.get('ensemble'):
                obs = {'ens': run_ensemble_case(c), 'ok': True}
            else:
                obs = run_impl_case(c)
        except BaseException as e:  # noqa
            obs = {'crash': repr(e)[:300], 'ok': False}
        res.append({'cfg': c, 'obs': obs, 'oracle': oracle(c, obs), 'strategy': 'ensemble' if c.get('ensemble') else 'journey',
                    'verdict': 'ok'})
    json.dump(res, open(outp, 'w'), default=str)


def coq_case(r):
    from harness.core import cbool, clist, cnat, copt
    c, o = r['cfg'], r['obs']
    return (f"({copt(c['origin'], cnat)}, {clist(c['acts'], lambda a: copt(a, cnat))}, "
            f"({cbool(o['ok'])}, {cbool(o.get('is_remote', False) and o['ok'])}, "
            f"{cbool(o.get('contains', False) and o['ok'])}, {cbool(o.get('equal', False) and o['ok'])}))")


TRUSTED = [
    'Coq 8.16.1 kernel + vm_compute; no native_compute; no axioms',
    'hand-written model coq/Model/RemoteExc.v; assumption: traceback.format_exception prints str(__cause__) of an explicit cause before the exception\'s own traceback',
    'pickle round trip of the exception class itself (class + args) is the stdlib\'s; a process hop is modelled by pickle.dumps/loads',
]
ASSUME = [
    'exception classes are picklable (custom __init__ consistent with args, or custom __reduce__)',
    'EnsembleError nesting is checked by the correspondence runs and the oracle only (theorem _todo)',
]


def check(tier, seed, replay=None):
    from harness import core
    part = core.Part('journey', 'harness.props.c15', 'gen', 600, 10000, None, None,
                     lambda r: (r['oracle'], None) if r['oracle'] else None,
                     lambda r: len(r['cfg']['acts']) >= 2 and any(a is not None for a in r['cfg']['acts']),
                     key=lambda r: json.dumps(r['cfg'], sort_keys=True),
                     describe=lambda r: {'cfg': r['cfg'], 'observed': r['obs']})

    def post(all_results, out, cov):
        rs = [r for r in all_results.get('journey', []) if not r['cfg'].get('ensemble') and not r['obs'].get('crash')]
        bad, problem = core.tv_eval(PROP, 'DriverRemoteExc', [coq_case(r) for r in rs], shard=500)
        if problem:
            out.violation('correspondence could not be evaluated: ' + problem,
                          {'stage': 'correspondence', 'problem': problem}, found_input=False)
        for i, code in bad:
            r = rs[i]
            if r['oracle']:
                continue
            out.violation('model/implementation correspondence broken (DriverRemoteExc.check_case): the observed '
                          '(wrapped?, is_remote, contains, equal) differs from Model.RemoteExc on this journey',
                          {'stage': 'correspondence', 'case': {'cfg': r['cfg']}, 'observed': r['obs'],
                           'theorem_or_correspondence': 'DriverRemoteExc.check_case'}, found_input=False)
        cov['traces_validated_against_impl'] = 0 if problem else len(rs) - len(bad)
        cov['correspondence_mismatches'] = len(bad)
        allr = all_results.get('journey', [])
        cov['classes'] = {k: sum(1 for r in allr if r['cfg']['cls'] == k) for k in CLASSES}
        cov['hops'] = {str(k): sum(1 for r in allr if len(r['cfg']['acts']) == k) for k in range(6)}
        cov['ensemble_cases'] = sum(1 for r in allr if r['cfg'].get('ensemble'))
        cov['refused_bare_objects'] = sum(1 for r in allr if r['cfg']['origin'] is None and not r['cfg'].get('ensemble'))

    return core.generic_check(
        PROP, tier, seed, [part], TRUSTED, ASSUME,
        rule='random journeys: exception class (builtin, custom, custom __init__, custom __reduce__, BaseException subclass, OSError), '
             'optional chained cause, origin traceback depth 1-5 (or a bare object: must be refused), 0-5 further hops each forwarding or '
             're-raising (depth 1-4); ~12% EnsembleError nesting cases. Real RemoteException + pickle round trips vs the Coq model on '
             '(wrapped?, is_remote, text_1 in text_k, text_1 == text_k), plus a direct oracle on class, args, site markers and '
             'hop-to-hop containment. non-trivial = >= 2 hops with a re-raise; distinct = distinct case',
        replay=replay, post=post)


if __name__ == '__main__':
    impl_main(sys.argv[1:])
