"""C02 — Server answers every request with its own result (no cross-talk)."""
import json

from harness import core
from harness import scen_ens as se
from harness import scen_server as sv
from harness import scen_stack as st
from harness.props import c06

PROP = 'C02'

TRUSTED = c06.TRUSTED + [
    'hand-written model coq/Model/Ensemble.v (enqueue/dequeue threads, catalog keyed by request id, member stand-ins); the real EnsembleServlet runs under the scheduler over member stand-ins with a logging catalog dict and is replayed event by event, also with ids reused after their request was answered (model validation only)',
    'full-stack runs: the real Server over real ThreadServlet/SequentialServlet/EnsembleServlet/SwitchServlet trees with real Workers (batch sizes 0, 1, 3) execute under the deterministic scheduler with an id() allocator oracle that reuses the id of a dead future at once; outcomes are compared with the sequential meaning of the tree (oracle; these runs are not replayed in a Coq model)',
    __import__('harness.scen_procstack', fromlist=['PROC_TRUSTED']).PROC_TRUSTED,
]
ASSUME = [
    'the theorem covers the Server layer (callers, ledger, gather) over an abstract servlet with ids unique while in flight; the servlet compositions themselves are covered by scheduled exploration + oracle only',
    'process servlets are not scheduled',
]

A_KEY = 'C02-A-request-id-reused-while-member-still-working'


def stack_oracle(r):
    if r['verdict'] == 'replay-divergence':
        return None
    if r['verdict'] != 'ok':
        return (f'run did not finish: {r["verdict"]}; blocked = {r["blocked"]}', None)
    for cyc in r['cycles']:
        if cyc['enter_error'] or cyc['exit_error']:
            return (f'server enter/exit failed: {cyc["enter_error"]} {cyc["exit_error"]}', None)
    bad = st.check_results(r)
    if bad:
        x, got, want = bad[0]
        key = A_KEY if r['cfg'].get('id_reuse') and has_ensemble(r['cfg']['tree']) else None
        return (f'request {x} received {got}; the servlet composition applied to its own input gives {want} '
                f'({len(bad)} wrong answers in this run)', key)
    w = st.batches_wellformed(r)
    if w:
        return (w, None)
    n_req = sum(len(c['xs']) for c in r['cfg']['callers'])
    n_ans = sum(len(c['results']) for c in r['cycles'])
    if n_ans != n_req * len(r['cycles']):
        return (f'{n_ans} outcomes for {n_req} requests', None)
    return None


def has_ensemble(t):
    return t['t'] == 'ens' or any(has_ensemble(c) for c in t.get('c', []))


def server_oracle(r):
    from harness.props import c07
    return c07.oracle(r)


def ens_spec(c, x):
    rs = [c['fail'].get(f'{j},{x}') for j in range(c['nmem'])]
    if c['fail_fast']:
        return 'E' if any(v is not None for v in rs) else [x * 10 + j for j in range(c['nmem'])]
    if all(v is not None for v in rs):
        return 'E'
    return [(v if v is not None else x * 10 + j) for j, v in enumerate(rs)]


def ens_oracle(r):
    if r['verdict'] == 'replay-divergence':
        return None
    c = r['cfg']
    if r['verdict'] != 'ok':
        return (f'ensemble run did not finish: {r["verdict"]}; blocked = {r["blocked"]}', None)
    xs = {u: x for u, x in c['reqs']}
    if len(r['outs']) != len(c['reqs']) or sorted(o[0] for o in r['outs']) != sorted(xs):
        return (f'{len(r["outs"])} outputs {[o[0] for o in r["outs"]]} for requests {sorted(xs)}', None)
    for o in r['outs']:
        want = ens_spec(c, xs[o[0]])
        if o[1] != want:
            return (f'request {o[0]} (input {xs[o[0]]}) was answered {o[1]}; the ensemble of its own input is {want}', None)
    return None


def parts():
    return [
        core.Part('ensemble', 'harness.scen_ens', 'ens', 250, 5000, 'DriverEns', se.coq_case, ens_oracle,
                  lambda r: len(r['cfg']['reqs']) >= 2 and bool(r['cfg']['fail']), shard=150, extra_args=['unique'],
                  describe=lambda r: {k: r.get(k) for k in ('cfg', 'strategy', 'verdict', 'outs', 'blocked')}),
        core.Part('ensemble_reused_ids', 'harness.scen_ens', 'ens', 80, 1000, 'DriverEns', se.coq_case, lambda r: None,
                  lambda r: len(r['cfg']['reqs']) >= 2, shard=150, extra_args=['reuse'],
                  describe=lambda r: {k: r.get(k) for k in ('cfg', 'strategy', 'verdict', 'outs')}),
        core.Part('server', 'harness.scen_server', 'server', 250, 5000, 'DriverServer', sv.coq_server_case,
                  server_oracle, lambda r: sum(1 for o in r['outcomes'] if o and o[0].startswith('answered')) >= 2, shard=150,
                  describe=lambda r: {k: r.get(k) for k in ('cfg', 'strategy', 'verdict', 'outcome', 'outcomes')}),
        core.Part('stack', 'harness.scen_stack', 'stack', 250, 5000, None, None, stack_oracle,
                  lambda r: r['cfg']['tree']['t'] != 'leaf' and sum(len(c['xs']) for c in r['cfg']['callers']) >= 2,
                  key=lambda r: json.dumps(r['cfg'], sort_keys=True) + str(r['decisions'][:80]),
                  describe=lambda r: {k: r.get(k) for k in ('cfg', 'strategy', 'verdict', 'cycles', 'blocked')}),
        __import__('harness.scen_procstack', fromlist=['part']).part(5, 40, calls_only=True),
        # real AsyncServer / Server over thread and process servlets, incl. non-batching workers that run call() in their own
        # thread pool (num_stream_threads): every caller gets the result of its own input
        __import__('harness.scen_backlog', fromlist=['part']).part(14, 150),
    ]


def check(tier, seed, replay=None):
    def post(all_results, out, cov):
        rs = all_results.get('stack', [])
        kinds = {}
        for r in rs:
            k = r['cfg']['tree']['t'] + ('+reuse' if r['cfg'].get('id_reuse') else '')
            kinds[k] = kinds.get(k, 0) + 1
        cov['stack_tree_kinds'] = kinds
        cov['stack_requests_answered'] = sum(len(c['results']) for r in rs for c in r['cycles'])
    return core.generic_check(
        PROP, tier, seed, parts(), TRUSTED, ASSUME,
        rule='(server) as C06/C07: the Server layer over an abstract servlet, trace-validated against the Coq model; (stack) random '
             'servlet trees (leaf / sequential / ensemble +- fail_fast / switch, one level of nesting, 1-3 worker threads per leaf, batch '
             'sizes 0/1/3, failing and preprocess-rejected inputs) with 1-4 caller threads issuing 1-3 requests each, capacity 1-8, under '
             'random/PCT/greedy schedules and an id allocator that reuses ids of dead futures in 60% of the runs; each answer is compared '
             'with the sequential meaning of the tree for that request\'s own input. non-trivial = >= 2 answered requests (server) / a '
             'compound tree with >= 2 requests (stack); distinct = distinct (configuration, schedule prefix)',
        replay=replay, post=post)
