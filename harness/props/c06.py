"""C06 — backlog never exceeds capacity; slots are always returned."""
from harness import core
from harness import scen_server as sv

PROP = 'C06'

TRUSTED = [
    'Coq 8.16.1 kernel + vm_compute (trace replay); no native_compute; no axioms',
    'hand-written model coq/Model/Server.v (callers, ledger, condition with FIFO waiters, gather, notifier, abstract servlet)',
    'trace validation: the real Server.call/_enqueue/_wait_for_result/_gather_output run under harness/detsched.py with virtual Condition/SimpleQueue/Future, a logging ledger dict and a virtual clock injected into mpservice.mpserver._server; every logged run is replayed event by event in the model',
    'servlet stand-in (harness.scen_server.FakeServlet): n worker threads answering requests in any order',
    __import__('harness.scen_backlog', fromlist=['BACKLOG_TRUSTED']).BACKLOG_TRUSTED,
    'hand-written specification coq/Model/BacklogSpec.v (counter of requests in flight; refuses the operation that breaks the bound or disagrees with the log)',
]
ASSUME = [
    'request ids are unique while in flight (the run uses a never-reusing id allocator; id reuse is C02\'s subject)',
    'AsyncServer (same logic on an asyncio.Condition) and process servlets are not scheduled: they run for real in the real-run part (interleavings are what the OS / event loop produce)',
    'reject-leaves-no-trace and the bound on the waiting time are checked by the oracle on every explored run (theorem _todo)',
]


def oracle(r):
    cfg = r['cfg']
    if r['verdict'] == 'replay-divergence':
        return None
    if r['verdict'] != 'ok':
        return (f'server run did not finish: {r["verdict"]}; blocked = {r["blocked"]}', None)
    if r['backlog_max'] > cfg['capacity']:
        return (f'backlog reached {r["backlog_max"]} with capacity {cfg["capacity"]}', None)
    if not r['outcome'] or r['outcome'][0] != 'exited':
        return (f'leaving the server context failed: {r["outcome"]} {r.get("exit_error")}', None)
    for i, c in enumerate(cfg['callers']):
        o = r['outcomes'][i]
        t = 100 + i
        waited_on_cond = any(e[0] == t and e[1] == sv.SOPS['cond_wait'] for e in r['events'])
        left_trace = any(e[0] == t and e[1] in (sv.SOPS['qin_put'], sv.SOPS['ledger_set']) for e in r['events'])
        if o is None or o[0] == 'error':
            return (f'caller {i} ended abnormally: {o}', None)
        if c['backpressure']:
            if waited_on_cond:
                return (f'caller {i} (backpressure=True) waited on the not-full condition instead of being rejected at once', None)
            if o[0] == 'rejected' and o[1] != 0:
                return (f'caller {i} (backpressure=True) got the rejected-after-waiting flavour of ServerBacklogFull', None)
        if o[0] == 'rejected' and left_trace:
            return (f'caller {i} was rejected but had already put its input / ledger entry', None)
        w = r['waited'].get(str(i), 0)
        # (measurable only when timers fire in deadline order: adversarial expiry makes the virtual clock jump)
        if not cfg.get('timers_adversarial') and w > c['timeout'] + 1e-6:
            return (f'caller {i} spent {w} (virtual) seconds in call() with timeout {c["timeout"]}', None)
    if r['final_backlog']:
        return (f'idle server has backlog {r["final_backlog"]} (slots not returned)', None)
    return None


def nontrivial(r):
    ev = r['events']
    return len(r['cfg']['callers']) >= 2 and (any(e[1] == sv.SOPS['cond_wait'] for e in ev) or
                                              any(o and o[0] == 'rejected' for o in r['outcomes']))


def parts():
    return [core.Part('server', 'harness.scen_server', 'server', 400, 8000, 'DriverServer', sv.coq_server_case,
                      oracle, nontrivial, shard=150,
                      describe=lambda r: {k: r.get(k) for k in ('cfg', 'strategy', 'verdict', 'outcome', 'outcomes', 'backlog_max', 'final_backlog', 'events')}),
            __import__('harness.scen_backlog', fromlist=['part']).part(24, 300, report_slot_leak=True)]


def check(tier, seed, replay=None):
    def post(all_results, out, cov):
        rs = all_results.get('server', [])
        cov['max_backlog_minus_capacity'] = max([r['backlog_max'] - r['cfg']['capacity'] for r in rs] or [0])
        cov['runs_reaching_capacity'] = sum(1 for r in rs if r['backlog_max'] == r['cfg']['capacity'])
        cov['caller_outcomes'] = {}
        for r in rs:
            for o in r['outcomes']:
                k = str(o[0] if o else None)
                cov['caller_outcomes'][k] = cov['caller_outcomes'].get(k, 0) + 1
    return core.generic_check(
        PROP, tier, seed, parts(), TRUSTED, ASSUME,
        rule='random configurations (capacity 1-3, 1-5 caller threads with/without backpressure, timeouts 5 or 1000 virtual seconds, '
             '1-3 servlet workers, failing inputs) x schedule strategies (random, PCT, greedy orders, greedy+flips; in ~45% of the runs '
             'any pending timed wait may expire at any yield point); the real Server runs under the deterministic scheduler, the '
             'backlog is sampled at every yield point, and each run is replayed in the Coq model. non-trivial = >= 2 callers and some '
             'caller waited on the condition or was rejected; distinct = distinct (configuration, trace). Real-run part: AsyncServer over '
             'thread / process servlets and Server over process / thread servlets, capacity 1-3, 2-9 concurrent callers (start offsets, '
             'request durations 5-40 ms, timeouts 20 ms - 5 s, backpressure on/off, cancellations, failing requests), then idle wait, '
             'three plain calls and the exit; the exact ledger history is replayed in BacklogSpec; non-trivial = the backlog reached the '
             'capacity and somebody was rejected',
        replay=replay, post=post)
