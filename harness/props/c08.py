"""C08 — bounded look-ahead and bounded concurrency."""
from harness import core
from harness import scen_stream as ss

PROP = 'C08'

TRUSTED = [
    'Coq 8.16.1 kernel + vm_compute (trace replay); no native_compute; no axioms (Print Assumptions: closed)',
    'hand-written models coq/Model/Buffer.v, coq/Model/FifoStream.v (SingleLane as an atomic bounded FIFO; thread pool = FIFO work queue + conc workers)',
    'trace validation: the real Buffer / fifo_stream / Parmapper run under harness/detsched.py (real threads, one at a time) with virtual Lock/Condition/Event/Future injected into mpservice module globals; each logged run is replayed in the model',
    'virtual primitives follow CPython semantics (harness/vprims.py; Future = stdlib source re-executed over them)',
    __import__('harness.scen_lane', fromlist=['LANE_TRUSTED']).LANE_TRUSTED,
    __import__('harness.scen_parreal', fromlist=['PAR_TRUSTED']).PAR_TRUSTED,
    'hand-written specification coq/Model/ParSpec.v (counters of pulled / handed-over / running; refuses the event that breaks a bound)',
]
ASSUME = [
    'code between two logged shared-object operations touches only thread-local state',
    'the stdlib ThreadPoolExecutor starts at most max_workers threads (the managed pool stands in for it)',
    'process executors and async worker functions are not scheduled: their interleavings are whatever the OS / event loop produces in the real-run part',
]


from harness.events import OPS


def ahead_max_from_events(r, failing=()):
    """max over the run of (#source elements pulled - #elements handed to the consumer), sampled
    while the consumer is still iterating: up to the point where it stops (to_stop/stopped set, queue
    drain, or the wait on a failing element that ends the iteration)."""
    pulled = recv = best = 0
    for t, op, val in r['events']:
        if t == 0 and op in (OPS['evt_set'], OPS['q_empty']):
            break
        if t == 0 and op == OPS['fut_wait'] and val in failing:
            break
        if op == OPS['src_next'] and val >= 0:
            pulled += 1
        elif op == OPS['recv']:
            recv += 1
        best = max(best, pulled - recv)
    return best


def bound_oracle_buffer(r):
    b = r['cfg']['maxsize'] + 2
    r['ahead_max'] = ahead_max_from_events(r)
    if r['ahead_max'] > b:
        return (f"buffer({r['cfg']['maxsize']}): {r['ahead_max']} elements pulled but not handed over (> n+2 = {b})", None)
    return None


def bound_oracle_fifo(r):
    c = r['cfg']
    b = c['cap'] + 3
    failing = set() if c['return_exc'] else {int(k) for k in list(c['pre_fail']) + list(c['call_fail'])}
    r['ahead_max'] = ahead_max_from_events(r, failing)
    if r['ahead_max'] > b:
        return (f"{c['mode']} capacity {c['cap']}: {r['ahead_max']} elements pulled but not handed over (> capacity+3 = {b})", None)
    if r['running_max'] > c['conc']:
        return (f"{r['running_max']} concurrent invocations of the worker function with concurrency {c['conc']}", None)
    return None


def parts():
    return [
        core.Part('buffer', 'harness.scen_stream', 'buffer', 250, 4000, 'DriverBuffer', ss.coq_buffer_case,
                  bound_oracle_buffer, lambda r: r['ahead_max'] >= r['cfg']['maxsize'] + 1,
                  extra_args=['greedy']),
        core.Part('fifo', 'harness.scen_stream', 'fifo', 300, 5000, 'DriverFifo', ss.coq_fifo_case,
                  bound_oracle_fifo, lambda r: r['ahead_max'] >= r['cfg']['cap'] + 2 or r['running_max'] >= 2,
                  extra_args=['greedy']),
        __import__('harness.scen_lane', fromlist=['part']).part(120, 2000),
        __import__('harness.scen_parreal', fromlist=['part']).part(24, 400),
    ]


def check(tier, seed, replay=None):
    def post(all_results, out, cov):
        cov['max_lookahead_reached'] = {
            'buffer(n): max over runs of (ahead - n)': max([r['ahead_max'] - r['cfg']['maxsize'] for r in all_results.get('buffer', [])] or [0]),
            'fifo(cap): max over runs of (ahead - cap)': max([r['ahead_max'] - r['cfg']['cap'] for r in all_results.get('fifo', [])] or [0]),
            'max running/conc': max([r['running_max'] - r['cfg']['conc'] for r in all_results.get('fifo', [])] or [0]),
        }
    return core.generic_check(
        PROP, tier, seed, parts(), TRUSTED, ASSUME,
        rule='random configurations (sizes 1-4, concurrency 1-3, sources of 0-12 elements with failures, stop positions) x '
             'schedule strategies (uniform random, PCT, greedy producer-first / consumer-first, greedy with random flips; half of '
             'the runs use producer-first greedy to drive queues to their bounds) from one PRNG seeded by VERIF_SEED; each run '
             'executes the real code under the deterministic scheduler and is replayed event by event in the Coq model; '
             'non-trivial = the run came within one of the proved bound (buffer: ahead >= n+1; fifo: ahead >= cap+2 or two '
             'workers running at once); distinct = distinct (configuration, event trace). Real-run part: Stream.parmap with '
             'executor=thread/process or an async worker, concurrency 1-4, finite and endless sources, early stop, slow / bursty '
             'consumers, worker durations 2-20 ms; non-trivial = `concurrency` (>= 2) invocations seen running at once or look-ahead '
             'within one of capacity+3',
        replay=replay, post=post)
