"""C17 — IterableQueue delivers every item once and every consumer finishes."""
from collections import Counter

from harness import core
from harness import scen_iterq as si

PROP = 'C17'

TRUSTED = [
    'Coq 8.16.1 kernel + vm_compute (trace replay, refutation witness); no native_compute; no axioms',
    'hand-written model coq/Model/IterQueue.v (main queue + three token counters, suppliers, consumers, renew)',
    'trace validation: the real IterableQueue (thread flavour) runs under harness/detsched.py over virtual queue.Queue objects injected through mpservice.queue\'s `queue` global; every logged run is replayed event by event in the model',
]
ASSUME = [
    'process flavour (multiprocessing queues) is the same code over stdlib queues; not scheduled',
    'consumers_finish / round completeness / stop_unblocks have no theorem: they rest on the explored runs (each classified, outputs compared with the multiset of inputs); stop requests are checked by a separate oracle-only scenario',
]

Q_KEY = 'C17-Q-two-consumers-add-extra-marker'


def extra_marker_puts(r):
    """per round: how many consumers executed the 'first to see the bottom' branch (used.put, full()==True, put(None))"""
    rounds, cur, last = [], 0, {}
    for t, op, val, ex in r['events']:
        if t == 0 and op == si.IOPS['used_full']:
            rounds.append(cur)
            cur, last = 0, {}
            continue
        if 50 <= t < 100:
            if op == si.IOPS['used_full'] and val == 1 and last.get(t) == si.IOPS['used_put']:
                cur += 1
            last[t] = op
    rounds.append(cur)
    return rounds


def oracle(r):
    if r['verdict'] == 'replay-divergence':
        return None
    cfg = r['cfg']
    q_triggered = any(k >= 2 for k in extra_marker_puts(r))
    key = Q_KEY if q_triggered else None
    if r['verdict'] != 'ok':
        return (f'run did not finish: {r["verdict"]}; blocked = {r["blocked"]}', key)
    for k, rd in enumerate(r['rounds']):
        want = Counter(x for row in cfg['items'][k] for x in row)
        got = Counter(x for g in rd['got'] for x in g)
        if rd['errors']:
            return (f'round {k}: {rd["errors"]}', key)
        if got != want:
            return (f'round {k}: consumers received {sorted(got.elements())}, suppliers put {sorted(want.elements())}', key)
        if rd['items_left']:
            return (f'round {k}: items left in the queue after all consumers finished: {rd["items_left"]}', key)
        if rd['markers_left'] != 1:
            return (f'round {k}: {rd["markers_left"]} end markers left in the queue after all consumers finished (must be exactly 1)', key)
        if rd.get('renew_error'):
            return (f'round {k}: renew failed: {rd["renew_error"]}', key)
    if len(r['rounds']) != cfg['rounds']:
        return (f'only {len(r["rounds"])} of {cfg["rounds"]} rounds ran', key)
    return None


def stop_oracle(r):
    if r['verdict'] == 'replay-divergence':
        return None
    if r['verdict'] != 'ok':
        return (f'after the stop request the run did not finish: {r["verdict"]}; blocked = {r["blocked"]}', None)
    stop_at = r['stop_at']
    for who, (how, when) in r['ends'].items():
        if how == 'error':
            return (f'{who} ended with {when}', None)
        if how == 'stop' and when - stop_at > 1.0 + 1e-6:
            return (f'{who} raised StopRequested {when - stop_at} s after the stop request (wait interval 1 s)', None)
    n_threads = r['cfg']['nsup'] + r['cfg']['ncons']
    if len(r['ends']) != n_threads:
        return (f'only {len(r["ends"])} of {n_threads} parties ended', None)
    return None


E_KEY = 'C17-E-next-round-put-before-round-consumed'


def early_oracle(r):
    v = _early_oracle(r)
    if v is None:
        return None
    # the next round's suppliers started before this round's consumer had finished: known finding E
    eb = r['cfg'].get('early_before') or []
    return (v[0], E_KEY if any(eb[:-1]) else None)


def _early_oracle(r):
    if r['verdict'] == 'replay-divergence':
        return None
    cfg = r['cfg']
    if r['verdict'] != 'ok':
        return (f'run did not finish: {r["verdict"]}; blocked = {r["blocked"]}', None)
    for k, rd in enumerate(r['rounds']):
        want = Counter(x for row in cfg['items'][k] for x in row)
        got = Counter(x for g in rd['got'] for x in g)
        if rd['errors'] or rd.get('next_errors'):
            return (f'round {k}: {rd["errors"]} {rd.get("next_errors")}', None)
        if got != want:
            return (f'round {k}: the consumer received {sorted(got.elements())}, the suppliers put {sorted(want.elements())}', None)
        if rd.get('late') not in (None, []):
            return (f'round {k}: iterating once more over the finished round yielded {rd["late"]}', None)
        if rd.get('renew_error'):
            return (f'round {k}: renew failed: {rd["renew_error"]} (suppliers of the next round had started putting: '
                    f'{cfg["early_put"][k]}; somebody iterated over the finished round again: {cfg["late_iter"][k]})', None)
    if len(r['rounds']) != cfg['rounds']:
        return (f'only {len(r["rounds"])} of {cfg["rounds"]} rounds ran', None)
    return None


def parts():
    return [
        core.Part('rounds', 'harness.scen_iterq', 'iterq', 450, 8000, 'DriverIterQ', si.coq_case, oracle,
                  lambda r: r['cfg']['ncons'] >= 2 and sum(len(x) for row in r['cfg']['items'] for x in row) >= 2,
                  shard=200,
                  describe=lambda r: {k: r.get(k) for k in ('cfg', 'strategy', 'verdict', 'rounds', 'blocked', 'events')}),
        core.Part('early', 'harness.scen_iterq', 'early', 150, 2500, None, None, early_oracle,
                  lambda r: any(r['cfg']['early_put'][:-1]) and any(r['cfg']['late_iter'][:-1]),
                  key=lambda r: str(r['cfg']) + str(r['decisions'][:60]),
                  describe=lambda r: {k: r.get(k) for k in ('cfg', 'strategy', 'verdict', 'rounds', 'blocked')}),
        core.Part('stop', 'harness.scen_iterq', 'stop', 120, 2000, None, None, stop_oracle,
                  lambda r: any(v[0] == 'stop' for v in r['ends'].values()),
                  key=lambda r: str(r['cfg']) + str(r['decisions'][:50]),
                  describe=lambda r: {k: r.get(k) for k in ('cfg', 'strategy', 'verdict', 'ends', 'stop_at', 'blocked')}),
    ]


def check(tier, seed, replay=None):
    def post(all_results, out, cov):
        rs = all_results.get('rounds', [])
        cov['runs_with_two_extra_markers'] = sum(1 for r in rs if any(k >= 2 for k in extra_marker_puts(r)))
        cov['multi_round_runs'] = sum(1 for r in rs if r['cfg']['rounds'] > 1)
        cov['stop_runs_with_StopRequested'] = sum(1 for r in all_results.get('stop', []) if any(v[0] == 'stop' for v in r['ends'].values()))
    return core.generic_check(
        PROP, tier, seed, parts(), TRUSTED, ASSUME,
        rule='random configurations (1-3 suppliers with 0-5 items each, 1-3 consumers, queue bound 0/1/2/3, 1-3 rounds separated by '
             'renew) x schedule strategies (random, PCT, greedy orders, greedy+flips); the real IterableQueue runs under the deterministic '
             'scheduler and each run is replayed in the Coq model; the oracle compares per round the multiset received with the multiset '
             'put, the markers and items left, and renew. Second scenario (oracle only, one consumer): the suppliers of the next round may start putting before renew (put_end(wait_for_renew=True)) and somebody iterates once more over the finished round. Third scenario (oracle only): a stop event is set at a virtual time while '
             'parties are blocked; all must end, StopRequested within the 1 s wait interval. non-trivial = >= 2 consumers and >= 2 items '
             '(rounds) / some party raised StopRequested (stop); distinct = distinct (configuration, trace)',
        replay=replay, post=post)
