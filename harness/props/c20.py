"""C20 — child-process log records all reach the parent, once and in order.

impl side (python -m harness.props.c20 gen <seed> <n> <out.json> [corpus]): real child processes started through
mpservice's Process (directly, as workers of a process pool, as ProcessServlet workers) log records of random number,
size and level and end in every way; the parent's logger thread is observed through a tap around its queue (what it read,
in order, including anything that arrives behind the end marker) and through a handler on the parent's loggers."""
from __future__ import annotations

import json
import logging
import os
import queue as _q
import random
import sys
import threading
import time

PROP = 'C20'
JOIN_LIMIT = 40.0

READS = {}          # id(queue) -> list of codes read by the parent's logger thread
HANDLED = {}        # logger name -> list of record indices handed to the parent's handlers


class Collect(logging.Handler):
    def __init__(self, delay_names):
        super().__init__()
        self.delay_names = delay_names

    def emit(self, record):
        try:
            i = int(record.getMessage().split(':', 1)[0])
        except Exception:  # noqa
            i = -999
        HANDLED.setdefault(record.name, []).append(i)
        d = self.delay_names.get(record.name)
        if d:
            time.sleep(d)


def code(m):
    if m is None:
        return -1
    try:
        return int(m.getMessage().split(':', 1)[0])
    except Exception:  # noqa
        return -999


def install_tap():
    from mpservice.multiprocessing import context
    orig = context.SpawnProcess.__dict__['_run_logger'].__func__

    def tapped(q):
        reads = READS.setdefault(id(q), [])

        class Tap:
            def get(self, *a, **k):
                m = q.get(*a, **k)
                reads.append(code(m))
                return m

        orig(Tap())
        # the logger thread has returned; whatever still arrives was written behind the end marker
        while True:
            try:
                m = q.get(timeout=0.4)
            except _q.Empty:
                break
            except Exception:  # noqa (queue closed)
                break
            reads.append(code(m))

    context.SpawnProcess._run_logger = staticmethod(tapped)


def gen_case(rng, idx):
    if idx in (2, 3):
        # the parent program ends right after join(): non-daemon child (idx 2) and daemon child (idx 3; known finding DX)
        return {'name': f'c20.case{idx}', 'levels': [30] * 300, 'size': 10, 'threshold': 10, 'end': 'return', 'handler_delay': 0,
                'pause_every': 0, 'variant': 'app', 'daemon': idx == 3}
    if idx == 0 or rng.random() < 0.04:
        # a flood: far more records outstanding than any bound on the number of queued messages one might think of
        n = rng.choice([25000, 40000])
        return {'name': f'c20.case{idx}', 'levels': [20] * n, 'size': 10, 'threshold': 10,
                'end': rng.choice(['return', 'raise', 'exit3']), 'handler_delay': 0.0001, 'pause_every': 0, 'variant': 'direct'}
    if idx == 1 or rng.random() < 0.05:
        # the parent has logging.disable(level) in force: run alone, after the concurrent cases (the switch is process-wide)
        n = rng.choice([4, 30, 100])
        return {'name': f'c20.case{idx}', 'levels': [rng.choice([5, 10, 20, 30, 40]) for _ in range(n)], 'size': 10,
                'threshold': rng.choice([1, 10, 20]), 'end': rng.choice(['return', 'raise']), 'handler_delay': 0, 'pause_every': 0,
                'variant': 'direct', 'disable': rng.choice([10, 20, 30])}
    n = rng.choice([0, 1, 2, 4, 8, 30, 100, 300, 1000, 3000])
    size = rng.choice([10, 100, 2000])
    if n * size > 1_500_000:
        size = 100
    levels = [rng.choice([5, 10, 20, 20, 30]) for _ in range(n)]
    variant = rng.choice(['direct'] * 8 + ['pool', 'servlet'])
    if variant != 'direct' and n > 300:
        n = 300
        levels = levels[:300]
    return {'name': f'c20.case{idx}', 'levels': levels, 'size': size, 'threshold': rng.choice([1, 10, 10, 20, 30]),
            'end': rng.choice(['return', 'return', 'raise', 'exit0', 'exit3', 'exitstr']),
            'handler_delay': rng.choice([0, 0, 0.0005]) if n <= 300 else 0,
            'pause_every': rng.choice([0, 0, 7]), 'variant': variant}


def eff_threshold(c):
    # logging.disable(d) in the parent silences every record of level <= d, whatever the logger's own level
    return max(c['threshold'], c.get('disable', 0) + 1)


DX_KEY = 'C20-DX-daemon-process-log-tail-lost-at-exit'


def run_app(c):
    """the application of harness/c20_app.py in its own interpreter: a child logs n records, the parent joins and exits at once"""
    import subprocess
    import tempfile
    d = tempfile.mkdtemp(prefix='c20app')
    outp = os.path.join(d, 'handled.txt')
    t0 = time.time()
    try:
        p = subprocess.run([sys.executable, os.path.join(os.path.dirname(__file__), '..', 'c20_app.py'), outp,
                            '1' if c['daemon'] else '0', str(len(c['levels']))], capture_output=True, text=True, timeout=120)
        rc, err = p.returncode, p.stderr[-300:]
    except subprocess.TimeoutExpired:
        rc, err = 'timeout', ''
    lines = open(outp).read().split('\n')[:-1] if os.path.exists(outp) else []
    handled = [int(x.split()[1]) for x in lines if x.startswith('rec ')]
    return {'join': ['returned'] if rc == 0 else ['app-failed', rc, err], 'exitcode': 0 if rc == 0 else None, 'reads': None,
            'handled': handled, 'elapsed': round(time.time() - t0, 2), 'app': True}


def expected(c):
    return [i for i, lv in enumerate(c['levels']) if lv >= eff_threshold(c)]


def run_direct(c):
    from harness import c20_child
    from mpservice.multiprocessing import Process
    p = Process(target=c20_child.target, args=(c['name'], c['levels'], c['size'], c['end'], c['pause_every']))
    p.handle_exception = _quiet
    p.start()
    qid = id(p._logger_queue_)
    out = {}

    def j():
        try:
            p.join()
            out['join'] = ['returned']
        except BaseException as e:  # noqa
            out['join'] = ['raised', type(e).__name__]

    t0 = time.time()
    th = threading.Thread(target=j, daemon=True)
    th.start()
    limit = JOIN_LIMIT + 0.005 * len(c['levels'])       # floods need time in proportion, more so on a loaded machine
    th.join(limit)
    if th.is_alive():
        out['join'] = ['timeout']
    out['elapsed'] = round(time.time() - t0, 2)
    out['exitcode'] = p.exitcode
    lt = p._logger_thread_
    lt.join(10)
    out['logger_thread_alive'] = lt.is_alive()
    if p.exitcode is None:
        try:
            p.kill()
        except Exception:  # noqa
            pass
    out['reads'] = list(READS.get(qid, []))
    out['handled'] = list(HANDLED.get(c['name'], []))
    return out


def _quiet(exc):
    pass


def run_pool(c):
    """records logged by tasks of a one-worker process pool; everything must have been handled once the pool has shut down"""
    from harness import c20_child
    from mpservice.concurrent.futures import ProcessPoolExecutor
    out = {}
    t0 = time.time()
    lv = c['levels']
    k = max(1, len(lv) // 3)
    chunks = [lv[i:i + k] for i in range(0, len(lv), k)] or [[]]
    with ProcessPoolExecutor(1) as pool:
        off = 0
        futs = []
        for ch in chunks:
            futs.append(pool.submit(c20_child.pool_task, c['name'], ch, c['size'], off))
            off += len(ch)
        for f in futs:
            f.result(timeout=JOIN_LIMIT)
    time.sleep(0.3)
    out['join'] = ['returned']
    out['elapsed'] = round(time.time() - t0, 2)
    out['exitcode'] = 0
    out['reads'] = None
    out['handled'] = list(HANDLED.get(c['name'], []))
    return out


def run_servlet(c):
    """records logged by a ProcessServlet worker; everything must have been handled once the server has exited"""
    from mpservice.mpserver import ProcessServlet, Server
    from harness.c20_worker import LogWorker
    out = {}
    t0 = time.time()
    lv = c['levels']
    k = max(1, len(lv) // 3)
    chunks = [lv[i:i + k] for i in range(0, len(lv), k)] or [[]]
    with Server(ProcessServlet(LogWorker, name=c['name'], size=c['size'])) as server:
        off = 0
        for ch in chunks:
            server.call((ch, off), timeout=JOIN_LIMIT)
            off += len(ch)
    time.sleep(0.3)
    out['join'] = ['returned']
    out['elapsed'] = round(time.time() - t0, 2)
    out['exitcode'] = 0
    out['reads'] = None
    out['handled'] = list(HANDLED.get(c['name'], []))
    return out


def oracle(c, o):
    if o.get('crash'):
        return 'harness/implementation crashed: ' + o['crash']
    exp = expected(c)
    n = len(c['levels'])
    if o['join'] == ['timeout']:
        return (f'join() did not return within {JOIN_LIMIT + 0.005 * n:.0f} s (child exitcode {o["exitcode"]}); {len(o["handled"])} of {len(exp)} '
                f'expected records were handled')
    if c['variant'] == 'app' and o['join'] != ['returned']:
        return f'the application (child joined, result checked, immediate exit) failed: {o["join"]}'
    if o['handled'] != exp:
        missing = [i for i in exp if i not in o['handled']]
        return (('the parent program ended right after join(): ' if c['variant'] == 'app' else '') +f'the parent handled {len(o["handled"])} records, expected {len(exp)} of the {n} emitted (threshold {c["threshold"]}, logging.disable {c.get("disable", 0)}); '
                f'first missing: {missing[:5]}; in order: {o["handled"] == sorted(o["handled"])}; '
                f'duplicates: {len(o["handled"]) != len(set(o["handled"]))}')
    if c['variant'] == 'direct':
        want_join = {'return': ['returned'], 'exit0': ['returned'], 'raise': ['raised', 'Boom'], 'exit3': ['raised', 'SystemExit'],
                     'exitstr': ['raised', 'SystemExit']}[c['end']]
        want_code = {'return': 0, 'exit0': 0, 'raise': 1, 'exit3': 3, 'exitstr': 1}[c['end']]
        if o['join'] != want_join or o['exitcode'] != want_code:
            return f'target ended by {c["end"]}: join {o["join"]} exitcode {o["exitcode"]}, expected {want_join} / {want_code}'
        if o['reads'] != list(range(n)) + [-1]:
            k = o['reads'].index(-1) if -1 in o['reads'] else None
            return (f'the logger thread read {len(o["reads"])} messages; the end marker was at position {k} of {n} records '
                    f'({len(o["reads"]) - 1 - (k or 0)} messages behind it)')
        if o.get('logger_thread_alive'):
            return 'the logger thread was still alive 10 s after join returned'
    return None


def impl_main(argv):
    logging.disable(logging.NOTSET)
    what, seed, n, outp = argv[0], int(argv[1]), int(argv[2]), argv[3]
    rest = argv[4:]
    corpus = json.load(open(rest[0])) if rest else []
    rng = random.Random(seed)
    cases = [c['cfg'] for c in corpus] + [gen_case(rng, i) for i in range(n)]
    cases.sort(key=lambda c: -len(c['levels']))       # long cases first: they overlap with the short ones
    for i, c in enumerate(cases):
        c['name'] = f'c20.case{i}'
    delays = {c['name']: c['handler_delay'] for c in cases if c.get('handler_delay')}
    root = logging.getLogger()
    root.addHandler(Collect(delays))
    root.setLevel(logging.WARNING)
    for c in cases:
        logging.getLogger(c['name']).setLevel(c['threshold'])
    install_tap()
    import gc
    gc.disable()      # see harness/props/c14.py (CPython 3.12.1 thread-start / finalizer deadlock); the run is short
    results = [None] * len(cases)
    lock = threading.Lock()
    nxt = [0]

    def worker():
        while True:
            with lock:
                i = nxt[0]
                nxt[0] += 1
            if i >= len(cases):
                return
            c = cases[i]
            if c.get('disable') or c['variant'] == 'app':
                continue
            try:
                o = {'direct': run_direct, 'pool': run_pool, 'servlet': run_servlet}[c['variant']](c)
            except BaseException as e:  # noqa
                o = {'crash': repr(e)[:300], 'join': ['crash'], 'exitcode': None, 'reads': None,
                     'handled': list(HANDLED.get(c['name'], [])), 'elapsed': 0}
            results[i] = {'cfg': c, 'obs': o, 'oracle': oracle(c, o), 'strategy': c['variant'], 'verdict': 'ok'}

    ths = [threading.Thread(target=worker, daemon=True) for _ in range(6)]
    for t in ths:
        t.start()
    for t in ths:
        t.join()
    for i, c in enumerate(cases):
        if c['variant'] == 'app':
            try:
                o = run_app(c)
            except BaseException as e:  # noqa
                o = {'crash': repr(e)[:300], 'join': ['crash'], 'exitcode': None, 'reads': None, 'handled': [], 'elapsed': 0}
            results[i] = {'cfg': c, 'obs': o, 'oracle': oracle(c, o), 'strategy': 'app-daemon' if c['daemon'] else 'app', 'verdict': 'ok'}
            continue
        if c.get('disable'):
            logging.disable(c['disable'])
            try:
                o = run_direct(c)
            except BaseException as e:  # noqa
                o = {'crash': repr(e)[:300], 'join': ['crash'], 'exitcode': None, 'reads': None,
                     'handled': list(HANDLED.get(c['name'], [])), 'elapsed': 0}
            finally:
                logging.disable(logging.NOTSET)
            results[i] = {'cfg': c, 'obs': o, 'oracle': oracle(c, o), 'strategy': 'direct+disable', 'verdict': 'ok'}
    json.dump(results, open(outp, 'w'))
    sys.stdout.flush()
    os._exit(0)


def coq_case(r):
    from harness.core import clist, cnat, cz
    c, o = r['cfg'], r['obs']
    if len(c['levels']) > 3000:
        return '([], 0, [(-1)%Z], [], 1)'        # flood cases are judged by the oracle only (unary numerals in the model)
    fin = 1 if (o['join'] != ['timeout'] and o['exitcode'] is not None and not o.get('crash')) else 0
    reads = o['reads'] if o['reads'] is not None else list(range(len(c['levels']))) + [-1]     # pool / servlet: reads not attributed
    return f"({clist(c['levels'], cnat)}, {cnat(eff_threshold(c))}, {clist(reads, cz)}, {clist(o['handled'], cnat)}, {cnat(fin)})"


TRUSTED = [
    'Coq 8.16.1 kernel + vm_compute; no native_compute; no axioms',
    'hand-written model coq/Model/LogChan.v: one bounded pipe (capacity in messages), child buffer + feeder, parent collector + feeder, '
    'logger thread; the OS pipe, multiprocessing.Queue (buffer + feeder thread + join at exit) and logging.handlers.QueueHandler are '
    'modelled, not verified',
    'differential check on real processes: what the parent\'s logger thread read (in order, including anything behind the end marker), '
    'what the parent\'s handlers received, child exit and join() outcome, against the model run under a fair schedule',
]
ASSUME = [
    'interleavings of the real processes are whatever the OS produces (plus slow parent handlers and pauses in the child), not enumerated; '
    'the theorems quantify over all interleavings of the model',
    'records logged by other threads of the child after the target has ended are outside the model',
    'a child killed by a signal (C12) loses what it had not written; not part of this property',
]


def check(tier, seed, replay=None):
    from harness import core
    part = core.Part('procs', 'harness.props.c20', 'gen', 36, 400, 'DriverLog', coq_case,
                     lambda r: (r['oracle'], DX_KEY if (r['cfg'].get('variant') == 'app' and r['cfg'].get('daemon')) else None) if r['oracle'] else None,
                     lambda r: len(r['cfg']['levels']) >= 30,
                     key=lambda r: json.dumps({k: v for k, v in r['cfg'].items() if k != 'name'}, sort_keys=True),
                     describe=lambda r: {'cfg': {k: (v if k != 'levels' else f'{len(v)} levels') for k, v in r['cfg'].items()},
                                         'observed': {k: (v if k not in ('reads', 'handled') else (len(v) if v is not None else None))
                                                      for k, v in r['obs'].items()}},
                     shard=12)

    def post(all_results, out, cov):
        rs = all_results.get('procs', [])
        cov['records_emitted'] = sum(len(r['cfg']['levels']) for r in rs)
        cov['bytes_logged_max_case'] = max([len(r['cfg']['levels']) * r['cfg']['size'] for r in rs] or [0])
        cov['variants'] = {}
        cov['ends'] = {}
        for r in rs:
            cov['variants'][r['cfg']['variant']] = cov['variants'].get(r['cfg']['variant'], 0) + 1
            cov['ends'][r['cfg']['end']] = cov['ends'].get(r['cfg']['end'], 0) + 1
        cov['flood_cases_oracle_only'] = sum(1 for r in rs if len(r['cfg']['levels']) > 3000)
        cov['cases_beyond_pipe_buffer'] = sum(1 for r in rs if len(r['cfg']['levels']) * r['cfg']['size'] > 65536)

    return core.generic_check(
        PROP, tier, seed, [part], TRUSTED, ASSUME,
        rule='one flood case per run (25000-40000 short records against a slow parent handler) and random cases: 0-3000 records of 10/100/2000 bytes (up to 1.5 MB, far beyond the 64 kB pipe buffer) with random levels (a custom level 5 below DEBUG included), parent '
             'threshold 1/DEBUG/INFO/WARNING, a few cases run alone with logging.disable(level) in force in the parent, target ending by return / raise / sys.exit(0) / sys.exit(3) / sys.exit(str), the last record '
             'emitted immediately before the end, optional slow parent handler (pipe backs up) and pauses in the child; mostly a direct '
             'Process, some through a one-worker ProcessPoolExecutor and some through a ProcessServlet worker under a Server; 6 cases run '
             'concurrently. non-trivial = at least 30 records; distinct = distinct case',
        replay=replay, post=post)


if __name__ == '__main__':
    impl_main(sys.argv[1:])
