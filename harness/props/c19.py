"""C19 — EagerBatcher: differential correspondence with coq/Model/EagerBatcher.v + runtime oracle.

impl side (python -m harness.props.c19 gen <seed> <n> <out.json>): runs the real
mpservice.streamer._streamer.EagerBatcher on a virtual-time queue with a virtual perf_counter.
"""
from __future__ import annotations

import json
import random
import sys
import time

PROP = 'C19'

# ------------------------------------------------------------------------------------------------
# impl side
# ------------------------------------------------------------------------------------------------

NONE_ITEM = -7   # model code of a `None` *item* (possible only with a custom end marker)


class _Blocked(BaseException):
    pass


class _EqMarker:
    """custom end marker compared with == (the code uses `z == end`)."""

    def __eq__(self, other):
        return isinstance(other, _EqMarker)

    def __hash__(self):
        return 1


def gen_case(rng: random.Random):
    bs = rng.choice([1, 1, 2, 2, 3, 3, 4, 5, 8])
    w = rng.choice([0, 0, 1, 2, 3, 5, 10])
    n = rng.choice([0, 1, 2, 3, 4, 5, 6, 8, 10, 14, 20])
    style = rng.choice(['none', 'none', 'str', 'int', 'obj', 'tuple'])
    gaps = [0, 0, 0, 1, 1, 2, max(0, w - 1), w, w + 1, w + 2, 3 * w + 7]
    t = rng.choice([0, 0, 1, 5])
    arr = []
    for i in range(n):
        t += rng.choice(gaps)
        if style != 'none' and rng.random() < 0.08:
            item = None
        else:
            item = rng.randrange(0, 50)
        arr.append([t, item])
    endpos = None
    r = rng.random()
    if r < 0.75:
        endpos = len(arr)
    elif r < 0.9 and arr:
        endpos = rng.randrange(0, len(arr) + 1)
    if endpos is not None:
        tt = (arr[endpos - 1][0] if endpos > 0 else t if not arr else arr[0][0]) if arr else t
        if endpos > 0:
            tt = arr[endpos - 1][0] + rng.choice(gaps)
            # keep times non-decreasing for what follows
            for j in range(endpos, len(arr)):
                arr[j][0] = max(arr[j][0], tt)
        else:
            tt = 0 if not arr else min(arr[0][0], rng.choice([0, 1]))
        arr.insert(endpos, [tt, 'END'])
    return {'bs': bs, 'w': w, 'style': style, 'arr': arr}


def run_impl_case(case):
    import queue as _q
    from types import SimpleNamespace

    from mpservice.streamer import _streamer

    clock = {'now': 0}
    style = case['style']
    def mk():
        # a fresh object per use: the marker coming out of a queue is in general equal to, but not
        # identical with, the configured one (pickling round trip, producer-built values)
        return {'none': lambda: None, 'str': lambda: ''.join(['END', '-MARK']),
                'int': lambda: int('-100000000000000000001'), 'obj': _EqMarker,
                'tuple': lambda: tuple(['END', 0])}[style]()
    end = mk()
    msgs = [(t, mk() if m == 'END' else m) for t, m in case['arr']]

    class VQueue:
        def __init__(self):
            self.arr = list(msgs)
            self.got = []          # clock value at which each message was handed out

        def get(self, block=True, timeout=None):
            if not self.arr:
                if timeout is None:
                    raise _Blocked()
                clock['now'] += timeout
                raise _q.Empty
            t, m = self.arr[0]
            if timeout is None or t <= clock['now'] + timeout:
                clock['now'] = max(clock['now'], t)
                self.arr.pop(0)
                self.got.append(clock['now'])
                return m
            clock['now'] += timeout
            raise _q.Empty

    saved = getattr(_streamer, 'time', None)        # (the module may not import `time` at all)
    _streamer.time = SimpleNamespace(perf_counter=lambda: clock['now'])
    out = []
    finished = False
    try:
        vq = VQueue()
        eb = _streamer.EagerBatcher(vq, batch_size=case['bs'], batch_wait_time=case['w'],
                                    endmarker=end)
        try:
            taken = 0
            for b in eb:
                # third component: the clock when the batch's first item left the queue (the model's
                # history field first_t, which C19_eb_waits_no_longer_than_told is stated with)
                first_t = vq.got[taken] if taken < len(vq.got) else -1
                taken += len(b)
                out.append([[NONE_ITEM if x is None else (x if isinstance(x, int) and abs(x) < 10**6 else -888) for x in b], clock['now'], first_t])
            finished = True
        except _Blocked:
            finished = False
    finally:
        if saved is None:
            del _streamer.time
        else:
            _streamer.time = saved
    return {'finished': finished, 'batches': out}


def oracle(case, obs):
    """The property, checked directly on the observed run (independent of the Coq model).
    Returns None or a description of what is wrong."""
    bs, w = case['bs'], case['w']
    arr = case['arr']
    items = []
    endidx = None
    for i, (t, m) in enumerate(arr):
        if m == 'END':
            endidx = i
            break
        items.append(NONE_ITEM if m is None else m)
    got = [x for b, *_ in obs['batches'] for x in b]
    if got != items:
        return f'batches do not partition the input: got {got}, input before end {items}'
    if obs['finished'] != (endidx is not None):
        return f'finished={obs["finished"]} but end marker present={endidx is not None}'
    p = 0
    prev_emit = 0
    for b, et, *_ in obs['batches']:
        if not (1 <= len(b) <= bs):
            return f'batch of size {len(b)} with batch_size {bs}'
        t0 = max(prev_emit, arr[p][0])
        tlast = t0
        for k in range(len(b)):
            ta = arr[p + k][0]
            if ta > t0 + w and ta > tlast:
                return f'item arriving at {ta} joined a batch whose deadline was {t0 + w}'
            tlast = max(tlast, ta)
        nxt = arr[p + len(b)] if p + len(b) < len(arr) else None
        if len(b) == bs:
            want = tlast
        elif nxt is not None and nxt[1] == 'END' and nxt[0] <= max(tlast, t0 + w):
            want = max(tlast, nxt[0])
        elif nxt is None or nxt[0] > t0 + w:
            want = t0 + w
        else:
            return (f'short batch {b} emitted although the next item arrived at {nxt[0]} '
                    f'<= deadline {t0 + w}')
        if et != want:
            return f'batch {b} emitted at {et}, justified emission time is {want}'
        prev_emit = et
        p += len(b)
    return None


def impl_main(argv):
    seed, n, outp = int(argv[0]), int(argv[1]), argv[2]
    rng = random.Random(seed)
    cases = []
    corpus = json.loads(open(argv[3]).read()) if len(argv) > 3 else []
    for c in corpus:
        cases.append(c)
    while len(cases) < n + len(corpus):
        cases.append(gen_case(rng))
    res = []
    for c in cases:
        try:
            obs = run_impl_case(c)
            err = None
        except Exception as e:  # the implementation itself blew up
            obs = {'finished': False, 'batches': []}
            err = f'{type(e).__name__}: {e}'
        res.append({'case': c, 'obs': obs, 'crash': err, 'oracle': err or oracle(c, obs)})
    json.dump(res, open(outp, 'w'))


# ------------------------------------------------------------------------------------------------
# orchestrator side
# ------------------------------------------------------------------------------------------------

def coq_case(r) -> str:
    from harness.core import cbool, clist, cnat, copt, cz
    c, o = r['case'], r['obs']
    arr = clist(c['arr'], lambda a: f"({cz(a[0])}, {copt(None if a[1] == 'END' else (NONE_ITEM if a[1] is None else a[1]), cz)})")
    obs = clist(o['batches'], lambda b: f'({clist(b[0], cz)}, {cz(b[1])}, {cz(b[2] if len(b) > 2 else -1)})')
    return f"({cnat(c['bs'])}, {cz(c['w'])}, {arr}, ({cbool(o['finished'])}, {obs}))"


def nontrivial(r) -> bool:
    """a case is non-trivial when it produced at least one short (timed-out or end-flushed) batch
    and at least two batches."""
    bs = r['case']['bs']
    b = r['obs']['batches']
    return len(b) >= 2 and any(len(x[0]) < bs for x in b)


def check(tier: str, seed: int, replay: str | None = None) -> int:
    from harness import core
    t0 = time.time()
    out = core.Outcome(PROP)
    aud = core.audit(PROP)
    ncases = 600 if tier == 'quick' else 6000
    work = core.VERIF / 'work'
    work.mkdir(exist_ok=True)
    resf = work / f'c19_{seed}.json'
    corpus = core.VERIF / 'corpus' / 'C19.json'
    args = ['gen', str(seed), str(ncases), str(resf)]
    if replay:
        rp = json.loads(open(replay).read())
        tmpc = work / 'c19_replay_corpus.json'
        tmpc.write_text(json.dumps([rp['case']]))
        args = ['gen', str(seed), '0', str(resf), str(tmpc)]
    elif corpus.exists():
        args.append(str(corpus))
    rc, so, se = core.run_impl('harness.props.c19', args)
    results = json.loads(resf.read_text()) if rc == 0 and resf.exists() else []
    if rc != 0:
        out.violation(f'implementation harness failed rc={rc}: {se[-800:]}',
                      {'stage': 'impl-harness', 'stderr': se[-3000:]}, found_input=False)
    # oracle verdicts
    for r in results:
        if r['oracle']:
            out.violation(f"oracle: {r['oracle']}", {'case': r['case'], 'observed': r['obs'],
                                                       'verdict': r['oracle'], 'how': './check C19 --replay <this file>'})
    # correspondence in Coq
    mism = []
    coq_problem = None
    if results and not aud['problems']:
        ok, log, _ = core.coq_make(['Driver/DriverC19.vo'])
        if not ok:
            coq_problem = 'driver build failed: ' + log[-1500:]
        else:
            shards = [results[i:i + 400] for i in range(0, len(results), 400)]
            texts = []
            for sh in shards:
                texts.append('From MpV Require Import Driver.DriverC19.\nDefinition cases : list case :=\n' +
                             core.clist(sh, coq_case).replace('; (', ';\n (') +
                             '.\nEval vm_compute in bad_indices cases.\n')
            for k, (rc2, so2, se2) in enumerate(core.coq_eval_cases(PROP, texts)):
                bad = core.parse_nat_list(so2) if rc2 == 0 else None
                if bad is None:
                    coq_problem = f'cases shard {k} did not evaluate: {(so2 + se2)[-800:]}'
                    continue
                for i in bad:
                    mism.append(shards[k][i])
    for p in aud['problems']:
        out.violation('proof obligation not discharged: ' + p,
                      {'stage': 'proof', 'theorems': aud['theorems'], 'problem': p}, found_input=False)
    if coq_problem:
        out.violation('correspondence could not be evaluated: ' + coq_problem,
                      {'stage': 'correspondence', 'problem': coq_problem}, found_input=False)
    for r in mism:
        if r['oracle']:
            continue   # already reported with its concrete input
        out.violation('model/implementation correspondence broken (Driver.DriverC19.check_case): the '
                      'implementation\'s batches/emit times differ from Model.EagerBatcher.run on this input; '
                      'the property oracle accepts the run',
                      {'stage': 'correspondence', 'case': r['case'], 'observed': r['obs'],
                       'theorem_or_correspondence': 'DriverC19.check_case'}, found_input=False)
    distinct = {json.dumps(r['case'], sort_keys=True) for r in results if nontrivial(r)}
    dist = {}
    for r in results:
        k = f"bs={r['case']['bs']}"
        dist[k] = dist.get(k, 0) + 1
    reasons = {'finished': sum(1 for r in results if r['obs']['finished']),
               'blocked_without_end': sum(1 for r in results if not r['obs']['finished']),
               'with_short_batch': sum(1 for r in results if any(len(b[0]) < r['case']['bs'] for b in r['obs']['batches'])),
               'custom_endmarker': sum(1 for r in results if r['case']['style'] != 'none')}
    cov = {
        'obligations': aud['obligations'], 'discharged': aud['discharged'],
        'checker_cmd': aud['checker_cmd'],
        'trusted_base': TRUSTED,
        'theorems': aud['theorems'], 'print_assumptions': aud['assumptions'],
        'evaluations': len(results), 'distinct_nontrivial': len(distinct),
        'traces_validated_against_impl': len(results) - len(mism) if not coq_problem else 0,
        'correspondence_mismatches': len(mism),
        'rule': 'random (batch_size, wait, arrival-time gaps around the wait, end-marker style/position) cases from one '
                'PRNG seeded by VERIF_SEED, corpus first; each is run on the real EagerBatcher over a virtual-time queue and '
                'on the Coq model (vm_compute), outputs (batches, emit times, clock at which the first item of each batch left the queue, finished?) compared; non-trivial = at least two '
                'batches and at least one short batch; distinct = distinct input',
        'input_distribution': {'batch_size': dist, **reasons},
        'samples': [{'case': r['case'], 'observed': r['obs']} for r in results[:3]],
    }
    rcx = out.emit()
    core.write_evidence(PROP, tier, seed, cov, ASSUME, time.time() - t0, len(out.violations))
    return rcx


TRUSTED = [
    'Coq 8.16.1 kernel + vm_compute (correspondence evaluation); no native_compute',
    'axioms: none (Print Assumptions: Closed under the global context for every theorem)',
    'hand-written model coq/Model/EagerBatcher.v, tied to the code by differential execution only',
    'queue semantics assumed: get() returns the head when it arrives; get(timeout=t) returns it iff it arrives by now+t else Empty at now+t; zero-cost computation between queue operations',
    'harness/props/c19.py virtual queue and clock; injection of mpservice.streamer._streamer.time',
]
ASSUME = [
    'time is integer ticks; float rounding of perf_counter differences is not modelled',
    'the input queue is only read by the EagerBatcher',
]

if __name__ == '__main__':
    if sys.argv[1] == 'gen':
        impl_main(sys.argv[2:])
