"""C01 — parallel map is order-preserving and exactly-once."""
from harness import core
from harness import scen_stream as ss
from harness.events import v_exc

PROP = 'C01'

TRUSTED = [
    'Coq 8.16.1 kernel + vm_compute (trace replay); no native_compute; no axioms (Print Assumptions: closed)',
    'hand-written model coq/Model/FifoStream.v (SingleLane(capacity+1) as an atomic bounded FIFO; thread pool = FIFO work queue + conc workers; futures Pending/Running/Done/Cancelled)',
    'trace validation: the real fifo_stream / Parmapper run under harness/detsched.py with virtual primitives injected into mpservice module globals; every logged run is replayed event by event in the model',
    'virtual primitives follow CPython semantics (harness/vprims.py; Future = stdlib source re-executed over them)',
    __import__('harness.scen_lane', fromlist=['LANE_TRUSTED']).LANE_TRUSTED,
    __import__('harness.scen_parreal', fromlist=['ORDER_TRUSTED']).ORDER_TRUSTED,
]
ASSUME = [
    'code between two logged shared-object operations touches only thread-local state',
    'executor="process" and async worker functions are not scheduled: their interleavings are whatever the OS / event loop produces in the real-run part',
    'completeness and call-once are theorems (C01_fifo_complete, C01_calls_once) and are also checked by the oracle on every explored run',
]


def expected(cfg):
    """(list of expected output codes in order, final outcome) for a consumer that takes everything"""
    outs = []
    for kind, v in cfg['src']:
        if kind != 'd':
            return outs, (['raised', v] if kind == 'e' else ['base', v])
        x = v
        pf = {int(k): e for k, e in cfg['pre_fail'].items()}
        cf = {int(k): e for k, e in cfg['call_fail'].items()}
        if x in pf:
            code, failed = v_exc(pf[x]), pf[x]
        elif x in cf:
            code, failed = v_exc(cf[x]), cf[x]
        else:
            code, failed = ss.call_value(x + ss.PRE_OFFSET if cfg['has_pre'] else x), None
        if failed is not None and not cfg['return_exc']:
            return outs, ['raised', failed]
        outs.append(x * 1000000 + code + 500000 if cfg['return_x'] else code)
    return outs, ['completed']


def oracle(r):
    cfg = r['cfg']
    exp, fin = expected(cfg)
    got = r['received']
    if got != exp[:len(got)]:
        return (f'outputs are not the in-order results of the inputs: received {got}, expected prefix of {exp}', None)
    calls = r['calls']
    if len(set(calls)) != len(calls):
        return (f'worker function called more than once for an element: calls {calls}', None)
    pf = {int(k) for k in cfg['pre_fail']}
    if pf & set(calls):
        return (f'worker function called for an element rejected by the preprocessor: {sorted(pf & set(calls))}', None)
    has_base = any(k == 'b' for k, _ in cfg['src'])   # StopRequested from the source: C05's subject
    if r['verdict'] == 'ok' and r['outcome'] and not has_base:
        o = r['outcome']
        if o[0] == 'completed' and (got != exp or fin != ['completed']):
            return (f'iteration completed with outputs {got} but the expected result is {exp} then {fin}', None)
        if o[0] == 'raised' and fin[0] == 'raised' and cfg['stop_after'] is None and (o[1] != fin[1] or got != exp):
            return (f'iteration raised {o[1]} after {got}; expected {exp} then exception {fin[1]}', None)
        if o[0] == 'raised' and fin[0] == 'completed':
            return (f'iteration raised {o[1:]} although no input fails', None)
        if o[0] == 'broke' and len(got) != cfg['stop_after']:
            return (f'consumer stopped after {cfg["stop_after"]} outputs but received {len(got)}', None)
    return None


def nontrivial(r):
    # at least two elements completed out of submission order, or a failure/exception output was delivered
    done = [e[2] for e in r['events'] if e[1] == 19]
    return len(r['received']) >= 2 and (done != sorted(done) or any(c < -1000 or (c % 1000000) < 499000 for c in r['received'] if c < 0 or r['cfg']['return_x']))


def parts():
    from harness import scen_lane
    return [core.Part('fifo', 'harness.scen_stream', 'fifo', 450, 8000, 'DriverFifo', ss.coq_fifo_case,
                      oracle, nontrivial),
            scen_lane.part(250, 5000),
            __import__('harness.scen_parreal', fromlist=['order_part']).order_part(40, 500)]


def check(tier, seed, replay=None):
    return core.generic_check(
        PROP, tier, seed, parts(), TRUSTED, ASSUME,
        rule='random configurations (fifo_stream with capacity 1-4 or Parmapper, pool size 1-3, 0-12 inputs, source/preprocessor/'
             'worker failures, return_x, return_exceptions, stop positions) x schedule strategies (uniform random, PCT, greedy, '
             'greedy with random flips) from one PRNG seeded by VERIF_SEED; each run executes the real code on real threads under '
             'the deterministic scheduler and is replayed event by event in the Coq model; the oracle recomputes the expected '
             'outputs from the inputs; non-trivial = at least two outputs and (calls completed out of submission order or an '
             'exception output was delivered); distinct = distinct (configuration, event trace). Real-run part: Stream.parmap with '
             'executor=thread/process or an async worker function, concurrency 1-4, 0-30 inputs, per-element durations that scramble '
             'the completion order, the same failure / flag / stop options; result compared with the model under a fair schedule',
        replay=replay)
