"""C16 — async variants give the same answers as their sync counterparts: the real fifo_stream,
async_fifo_stream, Parmapper, ParmapperAsync, AsyncParmapper, AsyncParmapperAsync (and Server /
AsyncServer stream) are run on identical tables with per-call durations that force many completion
orders; all outputs must equal the sequential reference evaluated in Coq (Proof/SeqRun.v)."""
from __future__ import annotations

import asyncio
import json
import os
import random
import sys
import time

PROP = 'C16'
SCALE = 0.002
PRE_OFFSET = 100


class CallErr(Exception):
    def __init__(self, code):
        super().__init__(code)
        self.code = code


class PreErr(Exception):
    def __init__(self, code):
        super().__init__(code)
        self.code = code


class PreFalsy(PreErr):
    """a rejection whose truth value is False (a container-like exception): it is an exception all the same"""
    def __len__(self):
        return 0


class PreStop(StopIteration):
    """a preprocessor that lets a StopIteration escape (a bare next() on an exhausted helper): this element is rejected, the
    stream goes on. An asyncio future cannot carry StopIteration and a generator cannot raise it, so it may arrive chained to
    a RuntimeError: `exc_code` reads through that."""
    def __init__(self, code):
        super().__init__(code)
        self.code = code


def exc_code(e):
    if isinstance(e, RuntimeError) and isinstance(e.__cause__, PreStop):
        return e.__cause__.code
    return getattr(e, 'code', 999)


class SubmitErr(Exception):
    def __init__(self, code):
        super().__init__(code)
        self.code = code


class SrcErr(Exception):
    def __init__(self, code):
        super().__init__(code)
        self.code = code


def v_exc(e):
    return -1000 - e


def gen_case(rng):
    conc = rng.choice([1, 2, 3])
    n = rng.choice([0, 1, 2, 3, 5, 8, 12])
    src = [['d', i] for i in range(n)]
    if rng.random() < 0.2:
        src.insert(rng.randrange(0, n + 1), ['e', rng.randrange(1, 4)])
    has_pre = rng.random() < 0.5
    pre_fail, call_fail = {}, {}
    for i in range(n):
        if has_pre and rng.random() < 0.2:
            pre_fail[i] = rng.randrange(10, 14)
        elif rng.random() < 0.15:
            call_fail[i] = rng.randrange(20, 24)
    submit_fail = {}
    if n and rng.random() < 0.25:
        # the submitting function itself raises for one element (e.g. executor shut down, ServerBacklogFull)
        cand = [i for i in range(n) if i not in pre_fail]
        if cand:
            submit_fail[rng.choice(cand)] = rng.randrange(30, 34)
    dur = {i: rng.choice([0, 0, 1, 2, 5]) for i in range(n)}
    return_exc = rng.random() < 0.5
    stop_after = rng.choice([None, None, None, 1, 2, 4])
    if n >= 2 and rng.random() < 0.3:
        # clustered failures: element i fails while a later element j, inside the look-ahead window and already rejected
        # by the preprocessor, is still queued behind it (the clean-up path then meets an already-failed entry);
        # the elements up to i are slow, so that the feeder has run ahead when i's failure is met
        has_pre = True
        i = rng.randrange(0, n - 1)
        j = rng.randrange(i + 1, min(n, i + 2 * conc + 1))
        pre_fail, call_fail, submit_fail = {j: rng.randrange(10, 14)}, {}, {}
        if rng.random() < 0.5:
            pre_fail[i] = rng.randrange(10, 14)
        else:
            call_fail[i] = rng.randrange(20, 24)
        for k in range(i + 1):
            dur[k] = 5
        return_exc = rng.random() < 0.3
        stop_after = rng.choice([None, None, i + 1]) if i > 0 else None
    return {'conc': conc, 'src': src, 'has_pre': has_pre, 'pre_fail': pre_fail, 'call_fail': call_fail, 'submit_fail': submit_fail,
            'return_x': rng.random() < 0.4, 'return_exc': return_exc,
            'stop_after': stop_after,
            'dur': dur}


def core_cases():
    """whatever the seed: a submitting function that raises for one element, with and without a preprocessor, returned or raised"""
    out = []
    for has_pre, rex, k in ((True, True, 2), (True, False, 2), (False, True, 1), (False, False, 3)):
        n = 5
        out.append({'conc': 2, 'src': [['d', i] for i in range(n)], 'has_pre': has_pre, 'pre_fail': {}, 'call_fail': {},
                    'submit_fail': {k: 31}, 'return_x': False, 'return_exc': rex, 'stop_after': None, 'dur': {i: 1 for i in range(n)}})
    return out


def code1(y):
    if isinstance(y, BaseException):
        return v_exc(exc_code(y))
    return y if isinstance(y, int) else -999999


def out_code(z, c):
    if c['return_x']:
        if not (isinstance(z, tuple) and len(z) == 2):
            return -999998
        return z[0] * 1000000 + code1(z[1]) + 500000
    return code1(z)


def mk_funcs(c):
    pre_fail = {int(k): v for k, v in c['pre_fail'].items()}
    call_fail = {int(k): v for k, v in c['call_fail'].items()}
    dur = {int(k): v for k, v in c['dur'].items()}
    has_pre = c['has_pre']

    def base(xx):
        x = xx - PRE_OFFSET if has_pre else xx
        if x in call_fail:
            raise CallErr(call_fail[x])
        return 3 * xx + 1

    def sync_fn(xx):
        x = xx - PRE_OFFSET if has_pre else xx
        time.sleep(dur.get(x, 0) * SCALE)
        return base(xx)

    async def async_fn(xx):
        x = xx - PRE_OFFSET if has_pre else xx
        await asyncio.sleep(dur.get(x, 0) * SCALE)
        return base(xx)

    def pre(x):
        if x in pre_fail:
            # codes 12 and 13: a falsy exception object and an escaping StopIteration - rejections like any other
            raise {12: PreFalsy, 13: PreStop}.get(pre_fail[x], PreErr)(pre_fail[x])
        return x + PRE_OFFSET

    def source():
        for k, v in c['src']:
            if k == 'd':
                yield v
            else:
                raise SrcErr(v)

    async def asource():
        for k, v in c['src']:
            if k == 'd':
                yield v
            else:
                raise SrcErr(v)

    return sync_fn, async_fn, (pre if has_pre else None), source, asource


def consume_sync(it, c):
    out = []
    try:
        for z in it:
            out.append(out_code(z, c))
            if c['stop_after'] is not None and len(out) >= max(1, c['stop_after']):
                it.close() if hasattr(it, 'close') else None
                return out, 1
        return out, 0
    except Exception as e:  # noqa
        return out, 2 + exc_code(e)


async def consume_async(ait, c):
    out = []
    try:
        async for z in ait:
            out.append(out_code(z, c))
            if c['stop_after'] is not None and len(out) >= max(1, c['stop_after']):
                if hasattr(ait, 'aclose'):
                    await ait.aclose()
                return out, 1
        return out, 0
    except Exception as e:  # noqa
        return out, 2 + exc_code(e)


def run_variants(c):
    from concurrent.futures import ThreadPoolExecutor

    from mpservice.streamer import _streamer
    sync_fn, async_fn, pre, source, asource = mk_funcs(c)
    kw = dict(return_x=c['return_x'], return_exceptions=c['return_exc'])
    pkw = dict(kw, preprocessor=pre) if pre else kw
    res = {}
    submit_fail = {int(k): v for k, v in c.get('submit_fail', {}).items()}

    def check_submit(xx):
        x = xx - PRE_OFFSET if c['has_pre'] else xx
        if x in submit_fail:
            raise SubmitErr(submit_fail[x])

    # V1: sync fifo_stream over a real thread pool
    with ThreadPoolExecutor(c['conc']) as pool:
        def submit(xx):
            check_submit(xx)
            return pool.submit(sync_fn, xx)
        it = _streamer.fifo_stream(source(), submit, capacity=2 * c['conc'], **pkw)
        res['fifo_stream'] = consume_sync(it, c)
    if submit_fail:
        # only the two variants that take a submitting function can fail at submission
        async def amain1():
            loop = asyncio.get_running_loop()

            async def func(xx):
                check_submit(xx)
                return loop.create_task(async_fn(xx))
            ait = _streamer.async_fifo_stream(asource(), func, capacity=2 * c['conc'], **pkw)
            return await consume_async(ait, c)
        res['async_fifo_stream'] = asyncio.run(amain1())
        return {k: [v[0], v[1]] for k, v in res.items()}
    # V2: Parmapper (threads)
    it = iter(_streamer.Parmapper(source(), sync_fn, executor='thread', concurrency=c['conc'], **pkw))
    res['Parmapper'] = consume_sync(it, c)
    # V3: ParmapperAsync (sync environment, async worker)
    it = iter(_streamer.ParmapperAsync(source(), async_fn, concurrency=c['conc'], **pkw))
    res['ParmapperAsync'] = consume_sync(it, c)

    async def amain():
        r = {}
        loop = asyncio.get_running_loop()

        async def func(xx):
            return loop.create_task(async_fn(xx))
        ait = _streamer.async_fifo_stream(asource(), func, capacity=2 * c['conc'], **pkw)
        r['async_fifo_stream'] = await consume_async(ait, c)
        from mpservice.streamer._streamer_async import AsyncParmapper, AsyncParmapperAsync
        ait = AsyncParmapperAsync(asource(), async_fn, concurrency=c['conc'], **pkw).__aiter__()
        r['AsyncParmapperAsync'] = await consume_async(ait, c)
        ait = AsyncParmapper(asource(), sync_fn, executor='thread', concurrency=c['conc'], **pkw).__aiter__()
        r['AsyncParmapper'] = await consume_async(ait, c)
        return r

    res.update(asyncio.run(amain()))
    return {k: [v[0], v[1]] for k, v in res.items()}


def run_server_variants(c):
    """Server.stream vs AsyncServer.stream over a ThreadServlet on the same inputs (no preprocessor failures here)"""
    from mpservice.mpserver import AsyncServer, Server, ThreadServlet, Worker
    call_fail = {int(k): v for k, v in c['call_fail'].items()}
    dur = {int(k): v for k, v in c['dur'].items()}

    class W(Worker):
        def call(self, x):
            time.sleep(dur.get(x, 0) * SCALE)
            if x in call_fail:
                raise CallErr(call_fail[x])
            return 3 * x + 1

    xs = [v for k, v in c['src'] if k == 'd']
    kw = dict(return_x=c['return_x'], return_exceptions=c['return_exc'])
    res = {}
    with Server(ThreadServlet(W, num_threads=c['conc']), capacity=8) as server:
        res['Server.stream'] = consume_sync(server.stream(iter(xs), **kw), c)
        calls = []
        for x in xs[:4]:
            try:
                calls.append(server.call(x))
            except Exception as e:  # noqa
                calls.append(v_exc(getattr(e, 'code', 999)))
        res['Server.call'] = [calls, 0]

    async def amain():
        r = {}
        async with AsyncServer(ThreadServlet(W, num_threads=c['conc']), capacity=8) as server:
            async def agen():
                for x in xs:
                    yield x
            r['AsyncServer.stream'] = await consume_async(server.stream(agen(), **kw), c)
            calls = []
            for x in xs[:4]:
                try:
                    calls.append(await server.call(x))
                except Exception as e:  # noqa
                    calls.append(v_exc(getattr(e, 'code', 999)))
            r['AsyncServer.call'] = [calls, 0]
        return r
    res.update(asyncio.run(amain()))
    return {k: [v[0], v[1]] for k, v in res.items()}


def oracle(c, obs):
    if obs.get('crash'):
        return 'implementation crashed: ' + obs['crash']
    vs = obs['variants']
    ref_name = 'fifo_stream' if 'fifo_stream' in vs else 'Server.stream'
    ref = vs[ref_name]
    for k, v in vs.items():
        if k.endswith('.call'):
            continue
        if v != ref:
            return f'{k} produced {v} but {ref_name} produced {ref} on the same inputs'
    if 'Server.call' in vs and vs['Server.call'] != vs['AsyncServer.call']:
        return f"AsyncServer.call answers {vs['AsyncServer.call']} differ from Server.call answers {vs['Server.call']}"
    return None


def impl_main(argv):
    import logging
    logging.disable(logging.CRITICAL)
    what, seed, n, outp = argv[0], int(argv[1]), int(argv[2]), argv[3]
    rest = argv[4:]
    n_server = int(rest.pop(0)) if rest and rest[0].isdigit() else 6
    corpus = json.load(open(rest[0])) if rest else []
    rng = random.Random(seed)
    cases = [c['cfg'] for c in corpus] + (core_cases() if n else []) + [gen_case(rng) for _ in range(n)]
    res = []
    import signal

    class Hang(BaseException):
        pass

    def on_alarm(*a):
        raise Hang()
    signal.signal(signal.SIGALRM, on_alarm)
    for idx, c in enumerate(cases):
        try:
            signal.alarm(60)
            if c.get('server'):
                obs = {'variants': run_server_variants(c)}
            else:
                obs = {'variants': run_variants(c)}
            signal.alarm(0)
        except Hang:
            obs = {'crash': 'no result within 60 s (hang)', 'variants': {}}
        except BaseException as e:  # noqa
            signal.alarm(0)
            obs = {'crash': repr(e)[:300], 'variants': {}}
        res.append({'cfg': c, 'obs': obs, 'oracle': oracle(c, obs), 'strategy': 'server' if c.get('server') else 'stream', 'verdict': 'ok'})
    for k in range(n_server):
        c = gen_case(rng)
        c.update({'server': True, 'has_pre': False, 'pre_fail': {}, 'submit_fail': {}, 'src': [s for s in c['src'] if s[0] == 'd'], 'stop_after': None})
        try:
            signal.alarm(90)
            obs = {'variants': run_server_variants(c)}
            signal.alarm(0)
        except Hang:
            obs = {'crash': 'no result within 90 s (hang)', 'variants': {}}
        except BaseException as e:  # noqa
            signal.alarm(0)
            obs = {'crash': repr(e)[:300], 'variants': {}}
        res.append({'cfg': c, 'obs': obs, 'oracle': oracle(c, obs), 'strategy': 'server', 'verdict': 'ok'})
    json.dump(res, open(outp, 'w'))
    sys.stdout.flush()
    os._exit(0)


def coq_case(r):
    from harness.core import cbool, clist, cnat, copt, cz
    from harness.scen_stream import coq_src
    c = r['cfg']
    pf = clist(sorted((int(k), v) for k, v in c['pre_fail'].items()), lambda kv: f'({cz(kv[0])}, {cz(kv[1])})')
    cf = clist(sorted((int(k), v) for k, v in c['call_fail'].items()), lambda kv: f'({cz(kv[0])}, {cz(kv[1])})')
    if c.get('submit_fail'):
        # for the consumer a failing submission of element i is a source that raises at position i
        sf = {int(k): v for k, v in c['submit_fail'].items()}
        c = dict(c, src=[['e', sf[v]] if k == 'd' and v in sf else [k, v] for k, v in c['src']])
    vs = [v for k, v in sorted(r['obs']['variants'].items()) if not k.endswith('.call')]
    obs = clist(vs, lambda v: f'({clist(v[0], cz)}, {cz(v[1])})')
    return (f"({cnat(c['conc'])}, {coq_src(c['src'])}, {cbool(c['has_pre'])}, {pf}, {cf}, "
            f"({cbool(c['return_x'])}, {cbool(c['return_exc'])}), {copt(c['stop_after'], cnat)}, {obs})")


TRUSTED = [
    'Coq 8.16.1 kernel + vm_compute; no native_compute; no axioms',
    'the FifoStream model and its theorems (C01); the async code is tied to it by differential outputs against Proof/SeqRun.seq_run only (its event loop is not scheduled)',
    'asyncio event loop, ThreadPoolExecutor (stdlib)',
]
ASSUME = [
    'completion orders are forced by per-call sleeps of 0-10 ms on the real event loop / thread pool, not enumerated',
    'AsyncServer vs Server: a few sampled runs over a ThreadServlet per check',
]


def check(tier, seed, replay=None):
    from harness import core
    part = core.Part('variants', 'harness.props.c16', 'gen', 70, 1200, None, None,
                     lambda r: (r['oracle'], None) if r['oracle'] else None,
                     lambda r: len(r['cfg']['src']) >= 3 and (r['cfg']['pre_fail'] or r['cfg']['call_fail'] or len(set(r['cfg']['dur'].values())) > 1),
                     key=lambda r: json.dumps(r['cfg'], sort_keys=True),
                     describe=lambda r: {'cfg': r['cfg'], 'observed': r['obs']},
                     extra_args=['4' if tier == 'quick' else '25'])

    def post(all_results, out, cov):
        rs = [r for r in all_results.get('variants', []) if not r['obs'].get('crash')]
        bad, problem = core.tv_eval(PROP, 'DriverAsync', [coq_case(r) for r in rs], shard=200)
        if problem:
            out.violation('correspondence could not be evaluated: ' + problem,
                          {'stage': 'correspondence', 'problem': problem}, found_input=False)
        for i, code in bad:
            r = rs[i]
            if r['oracle']:
                continue
            out.violation('model/implementation correspondence broken (DriverAsync.check_case): every variant agrees with the others '
                          'but not with the sequential reference Proof.SeqRun.seq_run',
                          {'stage': 'correspondence', 'case': {'cfg': r['cfg']}, 'observed': r['obs'],
                           'theorem_or_correspondence': 'DriverAsync.check_case'}, found_input=False)
        cov['traces_validated_against_impl'] = 0 if problem else len(rs) - len(bad)
        cov['correspondence_mismatches'] = len(bad)
        cov['variants_per_case'] = sorted({k for r in rs for k in r['obs']['variants']})
        cov['cases_with_preprocessor_rejection'] = sum(1 for r in rs if r['cfg']['pre_fail'])
        cov['cases_with_failing_submission'] = sum(1 for r in rs if r['cfg'].get('submit_fail'))
        cov['server_cases'] = sum(1 for r in rs if r['cfg'].get('server'))

    return core.generic_check(
        PROP, tier, seed, [part, __import__('harness.scen_adapters', fromlist=['part']).part(16, 150)],
        TRUSTED + [__import__('harness.scen_adapters', fromlist=['ADAPTERS_TRUSTED']).ADAPTERS_TRUSTED], ASSUME,
        rule='random tables (0-12 inputs, source failure, preprocessor rejections, worker failures, a submitting function that raises for one element (fifo_stream / async_fifo_stream only), return_x, return_exceptions, stop '
             'position, concurrency 1-3, per-call durations 0-10 ms) run through fifo_stream, Parmapper, ParmapperAsync, async_fifo_stream, '
             'AsyncParmapperAsync and AsyncParmapper, plus sampled Server.stream/call vs AsyncServer.stream/call over a ThreadServlet; all '
             'variants must agree with each other (oracle) and with the sequential reference evaluated in Coq. non-trivial = >= 3 inputs and '
             '(a failure or at least two different durations); distinct = distinct case. The async stages outside the statement\'s list '
             '(AsyncBuffer, SyncIter, AsyncIter) are compared with the model of their sync counterpart Buffer (adapters part)',
        replay=replay, post=post)


if __name__ == '__main__':
    impl_main(sys.argv[1:])
